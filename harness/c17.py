"""C17 — Hyper-V VMCX/VMRS: the decoded tree equals the stored key/value tree.

Independent writer (gen_hyperv: abstract tree + layout -> file bytes, truth by construction), the real
`HyperVFile` (as_dict() and a typed walk over .root / .children / .type / .value), and the Lean model
(Hv/HyperV.lean: asDict / typedTree), compared entry by entry on a canonical form:

    answers = ["A<n>"] + sorted as_dict items + ["T<n>"] + sorted typed items          ("E" instead of a block that raised)
    item    = <hex(key) joined by "/">:<value>
    value   = N (node) | I<int> U<int> (typed walk) / i<int> (as_dict: a Python int has no type) | F<16 hex: the double's bits>
              | S<code units>.<utf-16-le bytes>.<crc32>.<first 16 bytes hex> | Y<len>.<crc32>.<first 16 bytes hex> | B0 / B1

Children are compared as a mapping (sorted by key): `as_dict()` returns dicts, whose equality does not depend on order.
"""
from __future__ import annotations

import copy
import random
import struct
import zlib

import core
import gen_hyperv
from core import Built

PROPERTY = "C17"
RULE = ("seeded file generator (independent writer gen_hyperv): trees of depth <= 7 and fan-out <= 12 (up to 400 entries in the thorough tier), "
        "UTF-8 keys (ASCII, 2/3/4-byte sequences, 254-byte keys), all seven value types (Int/UInt incl. the 2^63 boundary and 2^64-1, doubles "
        "as bit patterns incl. NaN payloads, empty / NUL-containing / surrogate-pair strings, arrays), strings and arrays >= 0x800 bytes and "
        "forced small ones stored as file objects (exact and alignment-padded object sizes), 1..6 key tables with arbitrary indices and "
        "sequence numbers, entries distributed over tables in chunks / at random / reversed / by type, shuffled within a table, free entries "
        "of 21..200000 bytes in between, slack bytes behind values, unknown flag bits, table end = free tail / exact / zero terminator, "
        "0..3 competing tables per file sharing an index (mutated copy of the real table at the same offsets, junk, empty; lower sequence "
        "number or unallocated; listed before or after the real table), 1..3 object tables incl. self and back links, unallocated / unknown "
        "/ dead object entries, both header orders with equal / lower / garbage / zero inactive header, far (> 4 GiB, sparse) placements. "
        "as_dict() and a typed walk of the real code are compared with the construction truth and with the Lean model; a second group "
        "(hostile edits of valid files: sizes, data offsets, types, flags, parents, lengths, UTF-8 / UTF-16 damage, truncations, header "
        "fields) is compared model vs implementation only. Non-trivial = >= 3 entries, a Node below a Node, and >= 2 value types.")
ASSUMPTIONS = ["cstruct parsing, struct.unpack, list.sort stability, strict utf-8 / utf-16-le decoding and dict semantics are transcribed in "
               "Hv/HyperV.lean: modelled, not verified (tied by correspondence incl. the hostile group)",
               "leaf values directly under the root make as_dict() raise (TypeError) although the typed walk decodes them: such files are "
               "generated, compared model-vs-implementation, and not counted against the property (Hyper-V files keep values below nodes)",
               "Python's recursion limit (trees deeper than ~900) is outside the model"]
TIMEOUT_CASE = 60.0


# --------------------------------------------------------------------------- canonical form

def _blob(tag: str, b: bytes) -> str:
    return f"{tag}{len(b)}.{zlib.crc32(b) & 0xFFFFFFFF}.{b[:16].hex()}"


def _path(pfx: str, k: str) -> str:
    return pfx + "/" + k.encode("utf-8", "surrogatepass").hex()


def _val_canon(tname: str, c) -> str:
    """c = gen_hyperv.canon(value)"""
    kind, v = c
    if kind == "bool":
        return "B1" if v else "B0"
    if kind == "int":
        return ("I" if tname == "Int" else "U" if tname == "UInt" else "i") + str(v)
    if kind == "f64":
        return "F" + v
    if kind == "str":
        b = v.encode("utf-16-le", "surrogatepass")
        return f"S{len(b) // 2}." + _blob("", b)
    if kind == "bytes":
        return _blob("Y", bytes.fromhex(v))
    return "?" + repr(c)


def typed_items(typed: dict, pfx: str = "") -> list[str]:
    out = []
    for k, (tname, v) in typed.items():
        p = _path(pfx, k)
        if tname == "Node":
            out.append(p + ":N")
            out += typed_items(v, p)
        else:
            out.append(p + ":" + _val_canon(tname, v))
    return out


def dict_items(d: dict, pfx: str = "") -> list[str]:
    """d = gen_hyperv.canon(as_dict())"""
    out = []
    for k, v in d.items():
        p = _path(pfx, k)
        if isinstance(v, dict):
            out.append(p + ":N")
            out += dict_items(v, p)
        else:
            out.append(p + ":" + _val_canon("", v))
    return out


def block(tag: str, items) -> list[str]:
    return ["E"] if items is None else [f"{tag}{len(items)}"] + sorted(items)


def untype(item: str) -> str:
    p, v = item.rsplit(":", 1)
    return p + ":" + ("i" + v[1:] if v[:1] in "IU" else v)


# --------------------------------------------------------------------------- hostile edits (model vs implementation only)

def _scan(data: bytes):
    """minimal reader of the object tables: allocated key tables [(offset, size)], object entries [(pos, type, off, size, alloc)]"""
    objs, seen, todo = [], set(), [0x2000]
    while todo and len(seen) < 8:
        base = todo.pop(0)
        if base in seen or base + 8 > len(data):
            continue
        seen.add(base)
        sig, n = struct.unpack_from("<II", data, base)
        if sig != gen_hyperv.SIG_OT or n > 4000 or base + 8 + 18 * n > len(data):
            continue
        for i in range(n):
            pos = base + 8 + 18 * i
            ty, _, off, size, alloc = struct.unpack_from("<BIQIB", data, pos)
            objs.append((pos, ty, off, size, alloc))
            if ty == 1 and alloc:
                todo.append(off)
    return [(o[2], o[3]) for o in objs if o[1] == 2 and o[4] and o[2] + 10 <= len(data)], objs


def _entries(data: bytes, toff: int, tsize: int):
    out, off = [], 10
    while off + 21 <= min(tsize, len(data) - toff):
        ty, size, pt, po, _, _, do = struct.unpack_from("<HIHIIIB", data, toff + off)
        if size == 0:
            break
        out.append({"pos": toff + off, "off": off, "type": ty, "size": size, "pt": pt, "po": po, "do": do})
        off += size
    return out


HOSTILE = ["size_small", "size_big", "size_zero", "do_zero", "do_big", "do_shift", "type_unknown", "type_free", "type_node", "type_swap", "flag_fo",
           "flag_off", "parent_idx", "parent_off", "parent_self", "parent_leaf", "key_utf8", "key_trunc", "len_odd", "len_big", "len_zero", "surrogate",
           "ptr_off", "ptr_size", "obj_unalloc", "obj_type", "obj_size", "obj_dup", "ot_count", "ot_sig", "kt_sig", "kt_seq", "kt_idx", "hdr_version",
           "hdr_sig", "hdr_seq_eq", "hdr_swap", "log_sig", "log_count", "truncate"]


def hostile_patches(data: bytes, rng: random.Random, kind: str):
    """-> (patches [[off, hex]], truncate | None) for one edit of a valid file; may return ([], None) when not applicable"""
    kts, objs = _scan(data)
    if not kts:
        return [], None
    toff, tsize = rng.choice(kts)
    ents = _entries(data, toff, tsize)
    live = [e for e in ents if e["type"] & 0xFF != 1] or ents
    if not live:
        return [], None
    e = rng.choice(live)
    P = lambda off, b: [[off, bytes(b).hex()]]          # noqa: E731
    u16, u32, u64 = (lambda v: struct.pack("<H", v & 0xFFFF)), (lambda v: struct.pack("<I", v & 0xFFFFFFFF)), (lambda v: struct.pack("<Q", v))
    vpos = e["pos"] + 21 + e["do"]
    strs = [x for x in live if x["type"] & 0xFF in (6, 7) and not x["type"] & 0x100]
    fos = [x for x in live if x["type"] & 0x100]
    if kind == "size_small":
        return P(e["pos"] + 2, u32(rng.choice([1, 5, 20, 21, 22, e["size"] - 1, e["size"] + 1]))), None
    if kind == "size_big":
        return P(e["pos"] + 2, u32(rng.choice([tsize, tsize - e["off"], tsize - e["off"] + 1, 0xFFFFFFFF, 1 << 31]))), None
    if kind == "size_zero":
        return P(e["pos"] + 2, u32(0)), None
    if kind == "do_zero":
        return P(e["pos"] + 20, [0]), None
    if kind == "do_big":
        return P(e["pos"] + 20, [rng.choice([255, 254, min(255, e["size"] - 21), min(255, max(0, e["size"] - 22))])]), None
    if kind == "do_shift":
        return P(e["pos"] + 20, [max(0, min(255, e["do"] + rng.choice([-2, -1, 1, 2, 4])))]), None
    if kind == "type_unknown":
        return P(e["pos"], u16(rng.choice([0, 2, 10, 0xEE, 0xFF, 0x0A00]) | (e["type"] & 0xFF00 if rng.random() < 0.5 else 0))), None
    if kind == "type_free":
        return P(e["pos"], u16(1 | (e["type"] & 0xFF00))), None
    if kind == "type_node":
        return P(e["pos"], u16(9)), None
    if kind == "type_swap":
        return P(e["pos"], u16(rng.choice([3, 4, 5, 6, 7, 8]) | (e["type"] & 0xFF00))), None
    if kind == "flag_fo":
        return P(e["pos"] + 1, [(e["type"] >> 8) | 1]), None
    if kind == "flag_off":
        if not fos:
            return [], None
        x = rng.choice(fos)
        return P(x["pos"] + 1, [(x["type"] >> 8) & 0xFE]), None
    if kind == "parent_idx":
        return P(e["pos"] + 6, u16(rng.choice([0, 0x7777, e["pt"] + 1, 0xFFFF]))), None
    if kind == "parent_off":
        return P(e["pos"] + 8, u32(rng.choice([0, 9, 11, e["po"] + 1, e["po"] + 21, 0xFFFFFFFF]))), None
    if kind == "parent_self":
        idx = struct.unpack_from("<H", data, toff + 2)[0]
        return P(e["pos"] + 6, u16(idx) + u32(e["off"])), None
    if kind == "parent_leaf":
        idx = struct.unpack_from("<H", data, toff + 2)[0]
        x = rng.choice(ents)
        return P(e["pos"] + 6, u16(idx) + u32(x["off"])), None
    if kind == "key_utf8":
        if e["do"] < 2:
            return [], None
        bad = rng.choice([b"\xff", b"\xc0", b"\x80", b"\xed\xa0\x80", b"\xf4\x90\x80\x80", b"\xe0\x80\x80", b"\xc2", b"\xf0\x9f", b"\x00"])
        k = rng.randrange(max(1, e["do"] - len(bad)))
        return P(e["pos"] + 21 + k, bad[: e["do"] - 1 - k] or b"\xff"), None
    if kind == "key_trunc":
        return P(e["pos"] + 21 + max(0, e["do"] - 2), [rng.choice([0xC3, 0xE2, 0xF0, 0x80])]), None
    if kind in ("len_odd", "len_big", "len_zero"):
        if not strs:
            return [], None
        x = rng.choice(strs)
        cur = struct.unpack_from("<I", data, x["pos"] + 21 + x["do"])[0]
        v = {"len_odd": cur + rng.choice([1, -1]) if cur else 1, "len_big": rng.choice([cur + 2, cur + 100, 0xFFFFFFFF, 0x80000000]), "len_zero": 0}[kind]
        return P(x["pos"] + 21 + x["do"], u32(v)), None
    if kind == "surrogate":
        ss = [x for x in strs if x["type"] & 0xFF == 6 and struct.unpack_from("<I", data, x["pos"] + 21 + x["do"])[0] >= 4]
        if not ss:
            return [], None
        x = rng.choice(ss)
        n = struct.unpack_from("<I", data, x["pos"] + 21 + x["do"])[0] // 2
        k = rng.randrange(n)
        return P(x["pos"] + 21 + x["do"] + 4 + 2 * k, u16(rng.choice([0xD800, 0xDBFF, 0xDC00, 0xDFFF]))), None
    if kind in ("ptr_off", "ptr_size"):
        if not fos:
            return [], None
        x = rng.choice(fos)
        p = x["pos"] + 21 + x["do"]
        size, off = struct.unpack_from("<IQ", data, p)
        if kind == "ptr_off":
            return P(p + 4, u64(rng.choice([off + 1, 0, 0x2000, 1 << 40]))), None
        return P(p, u32(rng.choice([0, 1, size - 1, size + 1, size + 0x1000, 0xFFFFFFFF]))), None
    if kind.startswith("obj_"):
        cand = [o for o in objs if o[4] and o[1] in (1, 2, 3)]
        if not cand:
            return [], None
        o = rng.choice(cand)
        if kind == "obj_unalloc":
            return P(o[0] + 17, [0]), None
        if kind == "obj_type":
            return P(o[0], [rng.choice([0, 1, 2, 3, 4, 5, 6, 7, 9, 0xFF])]), None
        if kind == "obj_size":
            return P(o[0] + 13, u32(rng.choice([0, 9, 10, 11, 30, 31, o[3] - 1, o[3] + 1, o[3] // 2, 0xFFFFFFFF]))), None
        src = rng.choice(objs)
        return P(o[0], data[src[0]: src[0] + 18]), None                              # obj_dup: one entry replaced by a copy of another
    if kind == "ot_count":
        n = struct.unpack_from("<I", data, 0x2004)[0]
        return P(0x2004, u32(rng.choice([0, max(0, n - 1), n + 1, n + 1000, 0xFFFFFFFF]))), None
    if kind == "ot_sig":
        return P(0x2000 + rng.randrange(4), [data[0x2000] ^ 0x10]), None
    if kind == "kt_sig":
        return P(toff, u16(rng.choice([0, 1, 3, 0x0200]))), None
    if kind == "kt_seq":
        return P(toff + 4, u16(rng.choice([0, 1, 0xFFFF, rng.randrange(0x10000)]))), None
    if kind == "kt_idx":
        other = rng.choice(kts)
        return P(toff + 2, data[other[0] + 2: other[0] + 4] if rng.random() < 0.6 else u16(rng.choice([0, 1, 0xFFFF]))), None
    if kind == "hdr_version":
        return P(10, u32(rng.choice([0x300, 0x401, 0, 0x40000]))) + P(0x1000 + 10, u32(0x300)), None
    if kind == "hdr_sig":
        which = rng.choice([0, 0x1000])
        return P(which + rng.randrange(4), [0x55]), None
    if kind == "hdr_seq_eq":
        return P(8, data[0x1008:0x100A]), None
    if kind == "hdr_swap":
        return P(0, data[0x1000:0x1000 + 46]) + P(0x1000, data[0:46]), None
    if kind in ("log_sig", "log_count"):
        h1, h2 = struct.unpack_from("<H", data, 8)[0], struct.unpack_from("<H", data, 0x1008)[0]
        base = 0 if h1 > h2 else 0x1000
        lo = struct.unpack_from("<Q", data, base + 26)[0]
        if lo + 34 > len(data):
            return [], None
        return (P(lo, u32(0x01110002)) if kind == "log_sig" else P(lo + 8, u32(rng.choice([1, 2, 3, 1000, 0xFFFFFFFF])))), None
    if kind == "truncate":
        return [], rng.choice([0x1000, 0x1000 + 45, 0x1000 + 46, 0x2007, 0x2008, 0x2008 + 17, toff + 9, toff + 10, toff + 30, e["pos"] + 20,
                               e["pos"] + 21, e["pos"] + e["size"] - 1, len(data) - 1, rng.randrange(0x2000, max(0x2001, len(data)))])
    return [], None


# --------------------------------------------------------------------------- cases


# --------------------------------------------------------------------------- the Lean writer (Hv/HyperVEnc.lean) vs gen_hyperv

ENC_MAX = 1 << 20       # files up to this size are re-encoded by the Lean writer


def _hx(b: bytes) -> str:
    return b.hex() if b else "-"


def _tree_tokens(node) -> list[str]:
    out = [str(len(node.get("children", {})))]
    for k, c in node.get("children", {}).items():
        out.append(_hx(k.encode("utf-8")))
        t = c["t"]
        if t == "node":
            out += ["N"] + _tree_tokens(c)
        elif t == "int":
            out += ["I", str(int(c["v"]))]
        elif t == "uint":
            out += ["U", str(int(c["v"]))]
        elif t == "double":
            out += ["D", str(int(c["bits"]))]
        elif t == "str":
            out += ["S", _hx(gen_hyperv.leaf_value(c).encode("utf-16-le"))]
        elif t == "bytes":
            out += ["Y", _hx(gen_hyperv.leaf_value(c))]
        else:
            out += ["B", "1" if c["v"] else "0"]
    return out


def phys_tokens(data: bytes, trace: dict, tree) -> list[str]:
    """the written file split back into the fields of the physical description `Phys` of Hv/HyperVEnc.lean (independent field
    splitter: struct formats hard-coded here), plus the tree. `hyperv.enc` lays the description out again; the bytes must be the same."""
    pos, regs = trace["pos"], trace["regs"]
    toks = [str(len(data))]
    for off in (0, 0x1000):
        toks += ["H"] + [str(x) for x in struct.unpack_from("<IIHIQIQQI", data, off)]
    lo, ln = pos["log"], regs["log"]
    sig, ck, n = struct.unpack_from("<III", data, lo)
    assert sig == gen_hyperv.SIG_LOG
    toks += ["L", str(lo), str(ck), str(n), _hx(data[lo + 12:lo + ln])]
    for k, cnt in enumerate(trace["ot_n"]):
        o = pos[f"ot{k}"]
        sig, n = struct.unpack_from("<II", data, o)
        assert sig == gen_hyperv.SIG_OT and n == cnt
        toks += ["O", str(o), str(n)]
        for j in range(n):
            toks += [str(x) for x in struct.unpack_from("<BIQIB", data, o + 8 + 18 * j)]
    kts = [(pos[f"kt{i}"], sz, tail) for i, (sz, tail) in enumerate(trace["tables"])] + [(pos[f"dk{i}"], sz, tail) for i, (sz, tail) in enumerate(trace["decoys"])]
    for base, size, tail in kts:
        sig, idx, seq, ck = struct.unpack_from("<HHHI", data, base)
        assert sig == gen_hyperv.SIG_KT
        ents, o = [], 10
        while o < size:
            ty, esz, pt, po, eck, ins, doff = struct.unpack_from("<HIHIIIB", data, base + o)
            if esz == 0:
                break
            ents.append((ty, pt, po, eck, ins, doff, data[base + o + 21:base + o + esz]))
            o += esz
        assert (o == size) != (tail == "zero"), (o, size, tail)
        tl = "x" if o == size else _hx(data[base + o + 21:base + size])
        toks += ["K", str(base), str(idx), str(seq), str(ck), tl, str(len(ents))]
        for e in ents:
            toks += [str(x) for x in e[:6]] + [_hx(e[6])]
    for name, o in pos.items():
        if name.startswith("fo") or name.startswith("junk") or name == "ilog":
            toks += ["B", str(o), _hx(data[o:o + (48 if name == "ilog" else regs[name])])]
    return toks + ["T"] + _tree_tokens(tree)


def second_object_table(r, rng):
    """directed layout: the FIRST object table holds an allocated ObjectTable entry that points to a SECOND object table, and that
    second table lists the key table with the most entries (and one more at random) and every second file object -- so a reader
    that does not follow ObjectTable entries, or follows them without registering what they list, loses keys / values."""
    r = copy.deepcopy(r)
    objs = [o for o in r["objs"] if not (o[1] == "ot")]
    for o in objs:                      # everything into tables 0 / 1 only, chain 0 -> 1
        o[0] = min(o[0], 1)
    kts = [o for o in objs if o[1] == "kt"]
    if kts:
        big = max(kts, key=lambda o: sum(1 for it in r["tables"][o[2]]["items"] if isinstance(it, int)))
        big[0] = 1
        rng.choice(kts)[0] = 1
    for j, o in enumerate([o for o in objs if o[1] == "fo"]):
        o[0] = 1 if j % 2 == 0 else o[0]
    objs.insert(rng.randrange(len(objs) + 1), [0, "ot", 1])
    if rng.random() < 0.3:
        objs.append([1, "ot", 0])        # back link: must not be loaded a second time
    r["objs"] = objs
    return r


def slash_recipes(seed, tier, n):
    """directed: recipes whose stored keys contain '/' (leading, trailing, inner, repeated): a key is an opaque string"""
    srng = random.Random(f"C17/slash/{seed}/{tier}")
    orig = gen_hyperv._key

    def slash_key(rng, used):
        k = orig(rng, used)
        if len(k.encode()) > 200:
            return k
        for form in rng.sample([k + "/x", "/" + k, k + "/", k[:1] + "/" + k[1:], "a/b/" + k, k + "//0"], 6):
            if form not in used:
                used.discard(k)
                used.add(form)
                return form
        return k
    out = []
    gen_hyperv._key = slash_key
    try:
        for _ in range(n):
            out.append(gen_hyperv.gen_recipe(srng, "quick"))
    finally:
        gen_hyperv._key = orig
    return out


def generate(seed, tier):
    rng = random.Random(f"C17/{seed}/{tier}")
    n = 200 if tier == "quick" else 2600
    cases = []
    for i in range(n):
        far = (i % 40 == 17)
        r = gen_hyperv.gen_recipe(rng, tier if i % 8 == 7 else "quick", far=far)
        if i % 4 == 1:
            r = second_object_table(r, rng)
        cases.append({"id": f"g{i}", "recipe": r, "queries": ["as_dict", "typed"]})
    for i in range(12 if tier == "quick" else 120):
        cases.append({"id": f"r{i}", "recipe": gen_hyperv.gen_recipe(rng, "quick", p_root_leaf=1.0), "root_leaf": True, "queries": ["as_dict", "typed"]})
    for i in range(60 if tier == "quick" else 1200):
        r = gen_hyperv.gen_recipe(rng, "quick")
        cases.append({"id": f"h{i}", "recipe": r, "hostile": [HOSTILE[(i + seed) % len(HOSTILE)], rng.randrange(1 << 30)], "queries": ["as_dict", "typed"]})
    for i, r in enumerate(slash_recipes(seed, tier, 16 if tier == "quick" else 160)):
        cases.append({"id": f"k{i}", "recipe": r, "queries": ["as_dict", "typed"]})
    return cases


def _depth2(tree) -> bool:
    return any(c["t"] == "node" and any(g["t"] == "node" for g in c["children"].values()) for c in tree["children"].values())


def build(case):
    r = copy.deepcopy(case["recipe"])          # build_image annotates the recipe's dicts
    trace = {}
    im, truth, typed = gen_hyperv.build_image(r, trace)
    ents = gen_hyperv.entries(r["tree"])
    opts = r.get("opts", {})
    hostile = case.get("hostile")
    applied = None
    if hostile:
        data = im.read_at(0, im.size)
        patches, trunc = hostile_patches(data, random.Random(hostile[1]), hostile[0])
        for off, hx in patches:
            im.patch(off, bytes.fromhex(hx))
        if trunc is not None:
            im.truncate(min(trunc, im.size))
        applied = bool(patches) or trunc is not None
    in_scope = not hostile and not case.get("root_leaf")
    T = block("A", dict_items(gen_hyperv.canon(truth))) + block("T", typed_items(typed)) + ["R:same"] if in_scope else None
    types = sorted({e["spec"]["t"] for e in ents})
    nfo = sum(1 for e in ents if gen_hyperv.is_fo(e["spec"], opts.get(str(e["id"]), {})))
    decoys = r.get("decoys", [])
    br = {"type-" + t for t in types} | {f"tables-{min(len(r['tables']), 4)}{'+' if len(r['tables']) > 4 else ''}", f"hdr-active-{r['hdr']['active']}",
                                          "hdr-inactive-" + r["hdr"]["inactive"]}
    br |= {"file-object"} if nfo else set()
    br |= {"decoy-" + d["kind"] + ("" if d.get("alloc", 1) else "-unalloc") for d in decoys}
    if any(d.get("alloc", 1) and d["kind"] == "mut" for d in decoys):
        kt_pos = {o[2]: i for i, o in enumerate(r["objs"]) if o[1] == "kt"}
        for di, d in enumerate(decoys):
            dpos = next((i for i, o in enumerate(r["objs"]) if o[1] == "dk" and o[2] == di), None)
            if d.get("alloc", 1) and d["kind"] == "mut" and dpos is not None and d["of"] in kt_pos:
                br.add("stale-copy-listed-" + ("after" if dpos > kt_pos[d["of"]] else "before"))
    br |= {"multi-object-table"} if any(o[0] > 0 for o in r["objs"]) else set()
    br |= {"key-table-in-2nd-object-table"} if any(o[0] > 0 and o[1] == "kt" and any(isinstance(it, int) for it in r["tables"][o[2]]["items"]) for o in r["objs"]) else set()
    br |= {"file-object-in-2nd-object-table"} if any(o[0] > 0 and o[1] == "fo" for o in r["objs"]) else set()
    br |= {"free-entries"} if any(not isinstance(it, int) for t in r["tables"] for it in t["items"]) else set()
    br |= {"far"} if r.get("far") else set()
    br |= {"uint>=2^63"} if any(e["spec"]["t"] == "uint" and e["spec"]["v"] >= 2 ** 63 for e in ents) else set()
    br |= {"int<0"} if any(e["spec"]["t"] == "int" and e["spec"]["v"] < 0 for e in ents) else set()
    br |= {"root-leaf"} if case.get("root_leaf") else set()
    br |= {"hostile-" + hostile[0] + ("" if applied else "-n/a")} if hostile else set()
    info = {"branches": sorted(br), "in_scope": in_scope, "compare_model_out_of_scope": True,
            "nontrivial": in_scope and len(ents) >= 3 and _depth2(r["tree"]) and len([t for t in types if t != "node"]) >= 2,
            "entries": len(ents), "file_objects": nfo}
    bl = Built({"a": im}, T, info)
    bl.data = im.read_at(0, im.size) if im.size <= (64 << 20) else None
    bl.enc = None
    if in_scope or case.get("root_leaf"):
        if bl.data is not None and len(bl.data) <= ENC_MAX:
            bl.enc = phys_tokens(bl.data, trace, r["tree"])
    return bl


def impl_run(case, built):
    """as_dict() and the typed walk, then BOTH AGAIN on the same HyperVFile object, then every leaf `.value` once more in reverse
    order: a decoded value must not depend on how often or in which order it (or a file object) was read before."""
    from dissect.hypervisor.descriptor.c_hyperv import KeyDataType
    src = built.data if built.data is not None else built.files["a"]
    errors = {}
    try:
        hv = gen_hyperv._open(src)
    except Exception as e:  # noqa
        return {"answers": ["E", "E", "R:same"], "errors": {"0": f"{type(e).__name__}: {e}"[:300]}}

    def as_dict(tag):
        try:
            return dict_items(gen_hyperv.canon(hv.as_dict()))
        except Exception as e:  # noqa
            errors.setdefault(tag, f"as_dict: {type(e).__name__}: {e}"[:300])
            return None

    def walk(children, pfx, leaves, keys=()):
        out = []
        for k, e in children.items():
            p = _path(pfx, k)
            if e.type == KeyDataType.Node:
                out.append(p + ":N")
                out += walk(e.children, p, leaves, keys + (k,))
            else:
                v = e.value
                out.append(p + ":" + _val_canon(e.type.name, gen_hyperv.canon(v)))
                leaves.append((out[-1], p, e, keys + (k,)))
        return out

    def typed(tag, leaves):
        try:
            return walk(hv.root, "", leaves)
        except Exception as e:  # noqa
            errors.setdefault(tag, f"typed: {type(e).__name__}: {e}"[:300])
            return None
    a1 = as_dict("0")
    leaves = []
    t1 = typed("1", leaves)
    a2 = as_dict("0b")
    t2 = typed("1b", [])
    same = (a1 == a2) and (t1 == t2)
    if t1 is not None:
        # the other observation point: HyperVFile[key][key]... must reach the very entry the walk found under the stored keys
        for item, p, e, keys in leaves:
            try:
                x = hv[keys[0]]
                for k in keys[1:]:
                    x = x[k]
                if x is not e:
                    raise LookupError("another entry")
            except Exception as ex:  # noqa
                same = False
                errors["R"] = f"lookup {p}: {type(ex).__name__}: {ex}"[:200]
                break
        for item, p, e, _keys in reversed(leaves):
            try:
                again = p + ":" + _val_canon(e.type.name, gen_hyperv.canon(e.value))
            except Exception as ex:  # noqa
                again = f"E {type(ex).__name__}"
            if again != item:
                same = False
                errors["R"] = f"{p}: first {item[-60:]}, again {again[-60:]}"
                break
    elif a1 is not None and a2 is not None and a1 != a2:
        errors["R"] = "as_dict() differs between two calls"
    if not same and "R" not in errors:
        errors["R"] = "second as_dict() / typed walk differs from the first"
    return {"answers": block("A", a1) + block("T", t1) + ["R:same" if same else "R:differs"], "errors": errors}


def model_lines(case, built):
    return core.file_lines(built.files) + ["hyperv.tree a"] + (["hyperv.enc " + " ".join(built.enc)] if getattr(built, "enc", None) else [])


def _mblock(tag, s, strip_types):
    if s.startswith("E:"):
        return None, s[2:]
    if not s.startswith("ok:"):
        return None, "?" + s[:40]
    items = [x for x in s[3:].split(",") if x]
    return ([untype(x) for x in items] if strip_types else items), None


def model_parse(case, built, out):
    if not out or " " not in out[0]:
        return {"answers": None, "wf": None, "raw": out[:1] if out else None}
    sa, st = out[0].split(" ", 1)
    a, ea = _mblock("A", sa, True)
    t, et = _mblock("T", st, False)
    if "nonterm" in (ea, et):
        return {"answers": None, "wf": False, "raw": "model fuel exhausted"}
    # `wf` = the case is inside the hypotheses of hyperv_file_roundtrip (`Desc.WF`, evaluated by `hyperv.enc` below); files the Lean
    # writer is not asked to re-encode (> ENC_MAX, far placements) and hostile edits are not counted
    res = {"answers": block("A", a) + block("T", t) + ["R:same"], "wf": None, "errs": [ea, et]}
    if getattr(built, "enc", None):
        # the file IS `Phys.file d` for the description d split off the generator's bytes: the Lean writer must reproduce the bytes
        # (ties Hv/HyperVEnc.lean to gen_hyperv), the description must be well formed (`Phys.WF`), and inside `Desc.WF` the
        # evaluated instance of hyperv_file_roundtrip(_typed) must hold; `wf` = the case is inside the theorem's hypotheses
        line = out[1] if len(out) > 1 else ""
        f = line.split(" ")
        res["spec"] = line[:400]
        if len(f) < 8 or f[0] != "ok":
            res["spec_eq_model"] = False
        else:
            same = f[5] == f"{len(built.data)}.{zlib.crc32(built.data) & 0xFFFFFFFF}"
            inside = f[2] == "D1" and (f[3] == "R1" or case.get("root_leaf"))
            thm = f[8] in ("A-Y-", "A1Y1") or (case.get("root_leaf") and f[8] == "A0Y1" and f[3] == "R0")
            res["spec_eq_model"] = same and f[1] == "P1" and f[4] == "S1" and (thm or f[2] != "D1")
            res["enc_same"], res["desc_wf"] = same, f[2] == "D1"
            res["wf"] = bool(inside and built.info["in_scope"])
    return res


def nontrivial(case, built, model):
    return built.info["nontrivial"]


def search(seed, broken, budget):
    rng = random.Random(f"C17/search/{seed}")
    return [{"id": f"s{i}", "recipe": gen_hyperv.gen_recipe(rng, "quick"), "queries": ["as_dict", "typed"]} for i in range(min(budget, 1500))]


def shrink(case):
    """drop competing tables, extra object entries and subtrees while the implementation still disagrees with construction truth"""
    if case.get("hostile") or case.get("root_leaf"):
        return case
    tries = [0]

    def failing(rec):
        tries[0] += 1
        c = dict(case, recipe=rec)
        try:
            b = build(c)
            res = core.run_impl(__name__, [c], timeout_case=TIMEOUT_CASE, nproc=1).get(c["id"], {})
            return bool(res.get("fatal")) or res.get("answers") != b.truth
        except Exception:
            return False
    r = case["recipe"]
    # 1. competing tables (object entries name them by position)
    i = len(r.get("decoys", []))
    while i > 0 and tries[0] < 40:
        i -= 1
        r2 = copy.deepcopy(r)
        del r2["decoys"][i]
        r2["objs"] = [[o[0], o[1], o[2] - 1] if o[1] == "dk" and o[2] > i else o for o in r2["objs"] if not (o[1] == "dk" and o[2] == i)]
        if failing(r2):
            r = r2
    # 2. object entries that carry nothing
    i = len(r.get("objs", []))
    while i > 0 and tries[0] < 50:
        i -= 1
        if r["objs"][i][1] in ("misc", "dead", "zero", "log"):
            r2 = copy.deepcopy(r)
            del r2["objs"][i]
            if failing(r2):
                r = r2
    # 3. children, deepest last (entry ids shift; build() tolerates stale layout references)
    def paths(node, pfx):
        for k, c in node.get("children", {}).items():
            if c["t"] == "node":
                yield from paths(c, pfx + [k])
            yield pfx + [k]
    for pth in list(paths(r["tree"], [])):
        if tries[0] >= 70:
            break
        r2 = copy.deepcopy(r)
        node = r2["tree"]
        for k in pth[:-1]:
            node = node["children"][k]
        del node["children"][pth[-1]]
        r2["opts"] = {}
        if failing(r2):
            r = r2
    return dict(case, recipe=r)
