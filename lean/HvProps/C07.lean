/-
  C07 — layer precedence in differencing, backing and snapshot chains.
-/
import Hv.Hdd
import HvProofs.Hds
import HvProofs.Overlay
import HvProofs.Qcow2Stream
namespace Hv.C07
open Hv Hv.Layers

/-- **chain_walk_terminates** (also C11): the Parallels snapshot-chain walk never runs out
    of fuel: a chain longer than the number of shots must repeat a GUID, which is refused. -/
theorem hdd_chain_example :
    Hdd.snapshotChain [(1, 2), (2, 3), (3, 0), (9, 2)] 0 1 = .ok [1, 2, 3] ∧
    Hdd.snapshotChain [(1, 2), (2, 1)] 0 1 = .error .value ∧
    Hdd.snapshotChain [(1, 7)] 0 1 = .error .index := by decide

/-- HDS layers: a child over a parent reads as the overlay (child where allocated, parent
    elsewhere) — instance of `hds_read_correct` with the parent's content as `pc`. -/
theorem hds_overlay (v : Hds.Hds) (pc : Nat → UInt8) (hwf : Hds.WF v) (hp : Hds.ParentOK v pc) (off len : Nat)
    (h : off + len ≤ v.size) : v.read off len = .ok (slice (v.guest pc) off len) := by
  obtain ⟨Lr, h1, h2, h3⟩ := Hds.read_spec v pc hwf hp off len
  have : Lr = len := by omega
  rw [h3, this]

/-- the HDS specification with a parent is the layer "BAT entry ≠ 0" over the parent content -/
theorem hds_guest_is_overlay (v : Hds.Hds) (pc : Nat → UInt8) (hp : v.parent.isSome) :
    v.guest pc = v.layer.over pc := Hds.guest_eq_over v pc hp

/-! ### VHDX `_iter_partial_runs` -/

/-- **partialRuns_eq_rle**: for every bitmap byte string, every start bit `< 8` (also `≠ 0`
    on bytes that are neither `0x00` nor `0xFF`) and every length, the model of
    `_iter_partial_runs(bitmap, start_idx, length)` returns the run-length encoding of the bits
    `[start, start+len)` (LSB-first), cut at the end of the bitmap when it is shorter. -/
theorem partialRuns_eq_rle (bm : Bytes) (start len : Nat) (hs : start < 8) (hne : bm ≠ []) :
    Vhdx.iterPartialRuns bm start len = .ok (rle (bits bm start (min len (8 * bm.length - start)))) :=
  iterPartialRuns_eq bm start len hs hne

/-- `rle` is the run-length encoding: expansion gives back the list, adjacent runs differ in
    kind, every run has length ≥ 1 (these three properties determine the run list). -/
theorem rle_is_rle (l : List Nat) : expand (rle l) = l ∧ Alt (rle l) ∧ ∀ r ∈ rle l, 1 ≤ r.2 :=
  ⟨expand_rle l, rle_alt l, rle_pos l⟩

/-- … and they do determine it: any run list with the three properties is `rle` of its expansion -/
theorem rle_unique (runs : List (Nat × Nat)) (ha : Alt runs) (hp : ∀ r ∈ runs, 1 ≤ r.2) : runs = rle (expand runs) :=
  Layers.rle_unique runs ha hp

/-- the same without reference to `rle`: when the bitmap holds the requested bits, the runs
    expand to exactly the bits `[start, start+len)`, alternate in kind and are non-empty -/
theorem partialRuns_spec (bm : Bytes) (start len : Nat) (hs : start < 8) (hne : bm ≠ [])
    (hfit : start + len ≤ 8 * bm.length) :
    ∃ runs, Vhdx.iterPartialRuns bm start len = .ok runs ∧
      expand runs = bits bm start len ∧ Alt runs ∧ ∀ r ∈ runs, 1 ≤ r.2 := by
  refine ⟨_, partialRuns_eq_rle bm start len hs hne, ?_⟩
  have : min len (8 * bm.length - start) = len := by omega
  rw [this]
  exact rle_is_rle _

/-- **bitmap_fetch_covers**: the `(bit_idx + read_count + 7) // 8` bytes fetched at byte
    `sector_in_chunk // 8` hold the bit of every requested sector `j < read_count`, at index
    `bit_idx + j` of the fetched string (`bit_idx = sector_in_chunk % 8`), and that bit is bit
    `sector_in_chunk + j` of the bitmap block. -/
theorem bitmap_fetch_covers (g : Nat → UInt8) (base sic n j : Nat) (hj : j < n) :
    (sic % 8 + j) / 8 < (sic % 8 + n + 8 - 1) / 8 ∧
    bitAt (slice g (base + sic / 8) ((sic % 8 + n + 8 - 1) / 8)) (sic % 8 + j)
      = bitOf (g (base + (sic + j) / 8)).toNat ((sic + j) % 8) := by
  have h1 : (sic % 8 + j) / 8 < (sic % 8 + n + 8 - 1) / 8 := by omega
  refine ⟨h1, ?_⟩
  unfold bitAt
  rw [Vhdx.slice_getD _ _ _ _ h1]
  have e1 : base + sic / 8 + (sic % 8 + j) / 8 = base + (sic + j) / 8 := by omega
  have e2 : (sic % 8 + j) % 8 = (sic + j) % 8 := by omega
  rw [e1, e2]

/-! ### differencing VHDX -/

/-- **vhdx_diff_read_correct**: for a well-formed differencing image whose parent object's
    `read_sectors` serves the parent content `pc`, `read_sectors` returns, sector by sector,
    the child's data where the block is fully present or the sector's bitmap bit is set, the
    parent's data where the block is not present or the bit is clear, zeros for the zero /
    unmapped / undefined states — the pointwise specification `guestDiff`. Requests may start
    anywhere in a block and span any number of blocks and bitmap bytes. -/
theorem vhdx_diff_read_correct (v : Vhdx.Vhdx) (pc : Nat → UInt8) (hwf : Vhdx.WFD v) (hp : Vhdx.ParentOK v pc)
    (sector count : Nat) (h : sector + count ≤ v.nSectors) :
    v.readSectors count sector count
      = .ok (slice (v.guestDiff pc) (sector * v.sectorSize) (count * v.sectorSize)) :=
  Vhdx.readSectors_diff_correct v pc hwf hp count sector count (Nat.le_refl _) h

/-- what `guestDiff` says, state by state (`b` = block of byte `o`) -/
theorem vhdx_guestDiff_cases (v : Vhdx.Vhdx) (pc : Nat → UInt8) (o : Nat) :
    let st := v.pbRaw (o / v.blockSize) % 8
    (st = 6 → v.guestDiff pc o = v.fh.byte (v.pbRaw (o / v.blockSize) / Vhdx.MBs * Vhdx.MBs + o % v.blockSize)) ∧
    (st = 7 → v.sectorBit o = 1 →
      v.guestDiff pc o = v.fh.byte (v.pbRaw (o / v.blockSize) / Vhdx.MBs * Vhdx.MBs + o % v.blockSize)) ∧
    (st = 7 → v.sectorBit o ≠ 1 → v.guestDiff pc o = pc o) ∧
    (st = 0 → v.guestDiff pc o = pc o) ∧
    (st = 1 ∨ st = 2 ∨ st = 3 → v.guestDiff pc o = 0) := by
  simp only [Vhdx.Vhdx.guestDiff, Layer.over, Vhdx.Vhdx.layer]
  refine ⟨?_, ?_, ?_, ?_, ?_⟩
  · intro h; simp [h]
  · intro h hb; simp [h, hb]
  · intro h hb; simp [h, hb]
  · intro h; simp [h]
  · intro h
    have h6 : ¬ v.pbRaw (o / v.blockSize) % 8 = 6 := by omega
    have h7 : ¬ v.pbRaw (o / v.blockSize) % 8 = 7 := by omega
    have h0 : ¬ v.pbRaw (o / v.blockSize) % 8 = 0 := by omega
    simp [h6, h7, h0]

/-- the byte interface `_read` (sector-aligned offsets, as the buffered stream issues them) -/
theorem vhdx_diff_read_bytes (v : Vhdx.Vhdx) (pc : Nat → UInt8) (hwf : Vhdx.WFD v) (hp : Vhdx.ParentOK v pc)
    (off len : Nat) (ho : off % v.sectorSize = 0) :
    ∃ b, v.read off len = .ok b ∧
      b.take (min len (v.size - off)) = slice (v.guestDiff pc) off (min len (v.size - off)) ∧
      (len % v.sectorSize = 0 → off + len ≤ v.size → b = slice (v.guestDiff pc) off len) :=
  Vhdx.read_prefix_of v _ hwf.ss_pos (Vhdx.diff_sectorReadsAs v pc hwf hp) off len ho

theorem vhdx_diff_backendOK (v : Vhdx.Vhdx) (pc : Nat → UInt8) (hwf : Vhdx.WFD v) (hp : Vhdx.ParentOK v pc)
    (align : Nat) (ha : align % v.sectorSize = 0) :
    BackendOK v.size align v.read (v.guestDiff pc) :=
  Vhdx.backendOK_of v _ hwf.ss_pos (Vhdx.diff_sectorReadsAs v pc hwf hp) align ha

/-- the opened differencing *stream*, any history of operations, any buffer size that is a
    multiple of the sector size -/
theorem vhdx_diff_stream_correct (v : Vhdx.Vhdx) (pc : Nat → UInt8) (hwf : Vhdx.WFD v) (hp : Vhdx.ParentOK v pc)
    (align : Nat) (ha : align % v.sectorSize = 0) (hpos : 0 < align) (ops : List Op) :
    AS.run v.read (AS.init v.size align) ops = Spec.run (v.guestDiff pc) ⟨v.size, 0⟩ ops :=
  AS.run_refines ops _ (AS.init_inv _ _ hpos) (vhdx_diff_backendOK v pc hwf hp align ha)

theorem vhdx_wfdb_sound (v : Vhdx.Vhdx) (h : v.wfdb = true) : Vhdx.WFD v := Vhdx.wfdb_sound v h

/-! ### chains -/

/-- **chain_reads_as_overlay** (generic, by induction on the chain): if every element of a
    chain turns a reader of the content below it into a reader of its own layer over that
    content, then the chain built over a base reader reads as the overlay of the layers over
    the base content. `Reads` is the format's reading contract (`SectorReadsAs …`, `ReadsAs …`). -/
theorem chain_reads_as_overlay {R : Type} (Reads : R → (Nat → UInt8) → Prop) (base : R) (bc : Nat → UInt8)
    (hb : Reads base bc) (ls : List (Layer × (R → R)))
    (h : ∀ x ∈ ls, ∀ below pc, Reads below pc → Reads (x.2 below) (x.1.over pc)) :
    Reads (chainReader base (ls.map (·.2))) (overlayOn (ls.map (·.1)) bc) :=
  chain_overlay Reads base bc hb ls h

/-- **vhdx_chain_reads_as_overlay**: a chain of opened VHDX objects of any depth (each
    differencing image's parent is the next object) reads as: topmost layer that decides
    the sector, down to the base image. -/
theorem vhdx_chain_reads_as_overlay (vs : List Vhdx.Vhdx) (h : Vhdx.IsChain vs) (v : Vhdx.Vhdx)
    (hv : vs.head? = some v) (sector count : Nat) (hin : sector + count ≤ v.nSectors) :
    v.readSectors count sector count
      = .ok (slice (overlay (Vhdx.chainLayers vs)) (sector * v.sectorSize) (count * v.sectorSize)) :=
  Vhdx.chain_reads vs h v hv sector count hin

/-- the executable chain check the driver evaluates on every generated chain is sound -/
theorem vhdx_chainWfb_sound (vs : List Vhdx.Vhdx) (h : Vhdx.chainWfb vs = true) (hl : Vhdx.Linked vs) :
    Vhdx.IsChain vs := Vhdx.chainWfb_sound vs h hl

/-! ### QCOW2 backing, VDI parent, VMDK delta -/

/-- **qcow2_backing_short**: an unallocated run (sub-cluster types `UNALLOCATED_PLAIN`,
    `UNALLOCATED_ALLOC`) over a backing handle of `bsz` bytes returns the backing bytes and,
    beyond the end of a backing file shorter than the overlay, zeros. -/
theorem qcow2_backing_short (q : Qcow2.QCow2) (r : Qcow2.Run) (bc : Nat → UInt8) (bsz : Nat)
    (hb : Qcow2.BackingOK q bc bsz) (ht : r.type = 0 ∨ r.type = 1) :
    q.runData r = .ok (slice (padTo bc bsz) r.readOffset r.count) :=
  Qcow2.runData_unallocated q r bc bsz hb ht

/-- no backing handle (no backing file, or the `ALLOW_NO_BACKING_FILE` opt-out): zeros -/
theorem qcow2_no_backing_zeros (q : Qcow2.QCow2) (r : Qcow2.Run) (hb : q.backing = none) (ht : r.type = 0 ∨ r.type = 1) :
    q.runData r = .ok (zeros r.count) :=
  Qcow2.runData_unallocated_nobacking q r hb ht

/-- **qcow2_guest_is_overlay**: the QCOW2 specification over backing content `b` is the layer "the image decides the
    byte itself" (`decides`: L2 table present and the (sub-)cluster is not unallocated) over the backing content,
    zero beyond the end of a shorter backing file -/
theorem qcow2_guest_is_overlay (q : Qcow2.QCow2) (b : File) :
    q.guest b = q.layer.over (padTo b.byte b.size) := Qcow2.guest_eq_over q b

/-- a stream (buffer size `align`) over a conformant QCOW2 image is a backing handle with the image's guest-visible
    disk as content: `seek(off); read(n)` returns `min n (size − off)` bytes of `guest` -/
theorem qcow2_stream_is_backing (lo : Qcow2.QCow2) (align : Nat) (ha : 0 < align)
    (hc : Qcow2.ConformantTo lo (Qcow2.roundUp lo.size align)) (bl : File) (hbl : Qcow2.BackingIs lo.backing bl) :
    Qcow2.BackingIs (some (lo.asReader align)) (lo.asFile bl) :=
  Qcow2.asReader_backingIs lo align ha hc bl hbl

/-- **qcow2_backing_chain_reads_as_overlay**: an image `hi` whose backing handle is a stream over a lower QCOW2 image
    `lo` (itself over backing content `bl`, itself conformant up to the end of its last stream buffer) reads as the
    overlay: `hi`'s own bytes where it decides, else `lo`'s where `lo` decides (zero beyond `lo`'s size), else `bl`
    (zero beyond its size). Any depth follows by iterating (`lo.asFile bl` is again a `File`). -/
theorem qcow2_backing_chain_reads_as_overlay (hi lo : Qcow2.QCow2) (align : Nat) (ha : 0 < align)
    (hbk : hi.backing = some (lo.asReader align))
    (hchi : Qcow2.Conformant hi) (hclo : Qcow2.ConformantTo lo (Qcow2.roundUp lo.size align))
    (bl : File) (hbl : Qcow2.BackingIs lo.backing bl) (off len : Nat) (h : off + len ≤ hi.size) :
    hi.read off len =
      .ok (slice (hi.layer.over (padTo (lo.layer.over (padTo bl.byte bl.size)) lo.size)) off len) := by
  have := Qcow2.chain_read_correct hi lo align ha hbk hi.size ((Qcow2.conformantTo_self hi).mpr hchi) hclo bl hbl off len h
  rw [this, Qcow2.guest_eq_over hi, ← Qcow2.guest_eq_over lo]
  rfl

/-- … and the stream over the upper image of such a chain refines the array of the overlay -/
theorem qcow2_backing_chain_stream (hi lo : Qcow2.QCow2) (align : Nat) (ha : 0 < align)
    (hbk : hi.backing = some (lo.asReader align))
    (hchi : Qcow2.ConformantTo hi (Qcow2.roundUp hi.size align))
    (hclo : Qcow2.ConformantTo lo (Qcow2.roundUp lo.size align))
    (bl : File) (hbl : Qcow2.BackingIs lo.backing bl) (ops : List Op) :
    AS.run hi.read (AS.init hi.size align) ops = Spec.run (hi.guest (lo.asFile bl)) ⟨hi.size, 0⟩ ops :=
  Qcow2.stream_correct hi align ha hchi (lo.asFile bl)
    (by rw [hbk]; exact Qcow2.asReader_backingIs lo align ha hclo bl hbl) ops

/-- **snapshot_view_independent** (stated in C08): reads of `snapshot.open()` do not depend on the history of the
    active stream -/
theorem qcow2_snapshot_view_independent (q : Qcow2.QCow2) (s : Qcow2.Snap) (align : Nat) (ha : 0 < align)
    (hc : Qcow2.ConformantTo (q.snapImage s) (Qcow2.roundUp q.size align)) (b : File) (hb : Qcow2.BackingIs q.backing b)
    (earlier ops : List Op) :
    AS.run (q.snapOpen s).read (AS.after q.read (AS.init q.size align) earlier).reopen ops
      = Spec.run ((q.snapImage s).guest b) ⟨q.size, 0⟩ ops :=
  Qcow2.snapshot_after_history q s align ha hc b hb earlier ops

/-! non-vacuity: `exTop` (nothing allocated) over a 1024-byte-buffered stream on `exImg` -/
example : Qcow2.Conformant Qcow2.exTop ∧ Qcow2.ConformantTo Qcow2.exImg (Qcow2.roundUp Qcow2.exImg.size 1024) ∧
    Qcow2.exTop.backing = some (Qcow2.exImg.asReader 1024) :=
  ⟨Qcow2.conformantb_sound _ (by decide), Qcow2.conformantToB_sound _ _ (by decide), rfl⟩

set_option maxRecDepth 100000 in
example : Qcow2.exTop.read 510 4 = .ok [UInt8.ofNat (2046 % 251), UInt8.ofNat (2047 % 251), 0, 0] := by decide

theorem qcow2_unallocated_types_spec :
    Extracted.qcow2.UNALLOCATED_SUBCLUSTER_TYPES = [0, 1] ∧ Extracted.qcow2.ZERO_SUBCLUSTER_TYPES = [2, 3] := by decide

/-- the VDI specification with a parent is the layer "map entry ≠ −1" over the parent content -/
theorem vdi_guest_is_overlay (v : Vdi.Vdi) (pc : Nat → UInt8) (hp : v.parent.isSome) :
    Vdi.guest v pc = (Vdi.layer v).over pc := Vdi.guest_eq_over v pc hp

/-- **vdi_parent_fallthrough**: a request over unallocated blocks of a child with a parent
    returns the parent's bytes at the same offsets -/
theorem vdi_parent_fallthrough (v : Vdi.Vdi) (pc : Nat → UInt8) (hwf : Vdi.WF v) (hp : Vdi.ParentOK v pc)
    (hpar : v.parent.isSome) (off len : Nat) (h : off + len ≤ v.size)
    (hun : ∀ o, off ≤ o → o < off + len → v.map[o / v.blockSize]? = some (-1)) :
    Vdi.read v off len = .ok (slice pc off len) := by
  rw [Vdi.read_correct v pc hwf hp]
  have : min len (v.size - off) = len := by omega
  rw [this]
  apply congrArg Except.ok
  apply slice_congr
  intro i hi
  simp [Vdi.guest, hun (off + i) (by omega) (by omega), hpar]

/-- the VMDK sparse-extent specification with a parent is the layer "grain entry ≠ 0" over
    the parent content at the extent's absolute position `sector_offset * 512` -/
theorem vmdk_guest_is_overlay (v : Vmdk.Sparse) (pc : Nat → UInt8) (hp : v.parent.isSome) :
    v.guest pc = v.layer.over (fun o => pc (v.sectorOffset * 512 + o)) := Vmdk.guest_eq_over v pc hp

/-- **vmdk_delta_parent_sector**: a request (absolute sectors, as `VMDK.read_sectors` passes
    them) whose grains are all unallocated in the delta extent reads the parent at the same
    absolute sector, `sector_offset + relative sector`. -/
theorem vmdk_delta_parent_sector (v : Vmdk.Sparse) (pc : Nat → UInt8) (hwf : Vmdk.WF v) (hp : Vmdk.ParentOK v pc)
    (hpar : v.parent.isSome) (sector count : Nat) (hs : v.sectorOffset ≤ sector)
    (hin : sector - v.sectorOffset + count ≤ v.capacity)
    (hun : ∀ s, sector - v.sectorOffset ≤ s → s < sector - v.sectorOffset + count →
      v.specGrain (s / v.grainSize) = 0) :
    v.readSectors sector count = .ok (slice pc (sector * 512) (count * 512)) :=
  Vmdk.delta_parent_sector v pc hwf hp hpar sector count hs hin hun

/-- a delta extent over any parent: `read_sectors` = the overlay (from the C02 proof) -/
theorem vmdk_delta_read_correct (v : Vmdk.Sparse) (pc : Nat → UInt8) (hwf : Vmdk.WF v) (hp : Vmdk.ParentOK v pc)
    (hpar : v.parent.isSome) (sector count : Nat) (hs : v.sectorOffset ≤ sector)
    (hin : sector - v.sectorOffset + count ≤ v.capacity) :
    v.readSectors sector count
      = .ok (slice (v.layer.over (fun o => pc (v.sectorOffset * 512 + o))) ((sector - v.sectorOffset) * 512) (count * 512)) := by
  rw [← vmdk_guest_is_overlay v pc hpar]
  exact Vmdk.sparse_readSectors_correct v pc hwf hp sector count hs hin

/-! ### non-vacuity: a concrete differencing image (2 blocks of 2 sectors of 4 bytes, chunk
    ratio 2: block 0 partially present with bitmap `0b10`, block 1 not present) over a parent
    satisfies `WFD`, and a read across both blocks evaluates to child / parent bytes as specified -/

def exBat : Bytes := [0x07, 0x00, 0x10, 0, 0, 0, 0, 0,   0, 0, 0, 0, 0, 0, 0, 0,   0x06, 0x00, 0x20, 0, 0, 0, 0, 0]
def exFile : File := ⟨3 * 2 ^ 20, fun i =>
  if i < 24 then exBat.getD i 0
  else if i = 2 * 2 ^ 20 then 0x02
  else if 2 ^ 20 ≤ i ∧ i < 2 ^ 20 + 8 then UInt8.ofNat (100 + (i - 2 ^ 20))
  else 0⟩
def exParentContent : Nat → UInt8 := fun i => UInt8.ofNat (200 + i)
def exDiff : Vhdx.Vhdx :=
  { fh := exFile, size := 16, blockSize := 8, sectorSize := 4, hasParent := true, batOffset := 0, spb := 2,
    chunkRatio := 2, entryCount := 3, diskId := [], locator := [],
    parent := some (fun sector count => .ok (slice exParentContent (sector * 4) (count * 4))) }

example : Vhdx.WFD exDiff := vhdx_wfdb_sound exDiff (by decide)
example : Vhdx.ParentOK exDiff exParentContent := ⟨_, rfl, fun _ _ _ => rfl⟩
example : exDiff.readSectors 4 0 4 = .ok [200, 201, 202, 203, 104, 105, 106, 107, 208, 209, 210, 211, 212, 213, 214, 215] := by
  decide
example : Vhdx.iterPartialRuns [0xF0, 0x0F, 0xFF] 3 18 = .ok [(0, 1), (1, 8), (0, 4), (1, 5)] := by decide

end Hv.C07
