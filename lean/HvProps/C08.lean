/-
  C08 — a disk stream behaves as an immutable byte array under any access history.
  Property theorems only (helper lemmas are in HvProofs/Stream.lean).
-/
import HvProofs.Stream
import HvProofs.Qcow2Stream
namespace Hv.C08
open Hv

/-- **stream_refines_array**: for every backend that satisfies `BackendOK` for content `c`,
    every finite sequence of seek/read/readinto/readall/peek/readoffset/tell operations on a
    freshly opened stream yields exactly the outputs of the immutable-array specification:
    each read returns `min n (size-pos)` bytes equal to the slice and advances by that. -/
theorem stream_refines_array (size align : Nat) (rd : Rd) (c : Nat → UInt8) (ha : 0 < align)
    (hb : BackendOK size align rd c) (ops : List Op) :
    AS.run rd (AS.init size align) ops = Spec.run c ⟨size, 0⟩ ops :=
  AS.run_refines ops (AS.init size align) (AS.init_inv size align ha) hb

/-- **history_independent**: from *any* reachable state (any earlier history, any buffer
    contents consistent with the backend), outputs only depend on the current position. -/
theorem history_independent (rd : Rd) (c : Nat → UInt8) (s : AS) (hi : s.Inv rd)
    (hb : BackendOK s.size s.align rd c) (ops : List Op) :
    AS.run rd s ops = Spec.run c ⟨s.size, s.pos⟩ ops :=
  AS.run_refines ops s hi hb

/-- **buffer_size_independent**: two stream buffer sizes give identical outputs for the
    same history, provided the backend is `BackendOK` for both. -/
theorem buffer_size_independent (size a1 a2 : Nat) (rd : Rd) (c : Nat → UInt8)
    (h1 : 0 < a1) (h2 : 0 < a2) (hb1 : BackendOK size a1 rd c) (hb2 : BackendOK size a2 rd c)
    (ops : List Op) :
    AS.run rd (AS.init size a1) ops = AS.run rd (AS.init size a2) ops := by
  rw [stream_refines_array size a1 rd c h1 hb1, stream_refines_array size a2 rd c h2 hb2]

/-- **stream_refines_array_at**: the same under the weaker contract `BackendOKAt` — only the requests the buffered
    layer really issues are constrained: buffer fills `rd off align` (they may run past the end) and in-range
    whole-block requests. `BackendOK → BackendOKAt` (`BackendOK.at`). -/
theorem stream_refines_array_at (size align : Nat) (rd : Rd) (c : Nat → UInt8) (ha : 0 < align)
    (hb : BackendOKAt size align rd c) (ops : List Op) :
    AS.run rd (AS.init size align) ops = Spec.run c ⟨size, 0⟩ ops :=
  AS.run_refines_at ops (AS.init size align) (AS.init_inv size align ha) hb

theorem history_independent_at (rd : Rd) (c : Nat → UInt8) (s : AS) (hi : s.Inv rd)
    (hb : BackendOKAt s.size s.align rd c) (ops : List Op) :
    AS.run rd s ops = Spec.run c ⟨s.size, s.pos⟩ ops :=
  AS.run_refines_at ops s hi hb

/-! ### QCOW2 (the other backends: `*_stream_correct` in C02 … C06, C07) -/

open Hv.Qcow2 in
/-- **qcow2_stream_refines_array**: a QCOW2 stream with a buffer of `align > 0` bytes over an image that is conformant
    up to the end of its last buffer (`roundUp size align` — `QCow2._read` is not clamped to the disk size, the tables
    of the clusters in `[size, roundUp size align)` are walked too) behaves as the immutable array `guest` under any
    access history -/
theorem qcow2_stream_refines_array (q : QCow2) (align : Nat) (ha : 0 < align)
    (hc : ConformantTo q (roundUp q.size align)) (b : File) (hb : BackingIs q.backing b) (ops : List Op) :
    AS.run q.read (AS.init q.size align) ops = Spec.run (q.guest b) ⟨q.size, 0⟩ ops :=
  stream_correct q align ha hc b hb ops

open Hv.Qcow2 in
/-- … from any reachable state of the stream -/
theorem qcow2_history_independent (q : QCow2) (s : AS) (hs : s.size = q.size) (hi : s.Inv q.read)
    (hc : ConformantTo q (roundUp q.size s.align)) (b : File) (hb : BackingIs q.backing b) (ops : List Op) :
    AS.run q.read s ops = Spec.run (q.guest b) ⟨q.size, s.pos⟩ ops := by
  have := AS.run_refines_at (c := q.guest b) ops s hi (by rw [hs]; exact backendOKAt q s.align hi.apos hc b hb)
  rw [hs] at this
  exact this

open Hv.Qcow2 in
/-- two buffer sizes give the same outputs -/
theorem qcow2_buffer_size_independent (q : QCow2) (a1 a2 : Nat) (h1 : 0 < a1) (h2 : 0 < a2)
    (hc1 : ConformantTo q (roundUp q.size a1)) (hc2 : ConformantTo q (roundUp q.size a2))
    (b : File) (hb : BackingIs q.backing b) (ops : List Op) :
    AS.run q.read (AS.init q.size a1) ops = AS.run q.read (AS.init q.size a2) ops := by
  rw [stream_correct q a1 h1 hc1 b hb, stream_correct q a2 h2 hc2 b hb]

/-! ### QCOW2 internal snapshots: `QCow2Snapshot.open()`

`snapOpen q s` = `copy.copy` of the image object with the snapshot's L1 table as cached `l1_table`; its stream state is
`st.reopen` = the active stream's state `st` with `_buf = None` and `seek(0)` (Hv/Qcow2Stream.lean). -/

/-- whatever the active image's stream did before, the snapshot's stream starts as a freshly constructed one -/
theorem snapshot_stream_fresh (st : AS) : st.reopen = AS.init st.size st.align := AS.reopen_eq st

open Hv.Qcow2 in
/-- **snapshot_view_independent**: the outputs of any history `ops` on the stream of `snapshot.open()` are those of the
    immutable array of the snapshot's own guest content (`guest` of `snapImage`: the same image with the snapshot's L1
    table) read from position 0 — for *any* earlier history on the active image, whose buffer, position and L1 table
    leave no trace. Both objects share the file handles (`fh`, data file, backing handle). -/
theorem snapshot_view_independent (q : QCow2) (s : Snap) (align : Nat) (ha : 0 < align)
    (hc : ConformantTo (q.snapImage s) (roundUp q.size align)) (b : File) (hb : BackingIs q.backing b)
    (earlier ops : List Op) :
    AS.run (q.snapOpen s).read (AS.after q.read (AS.init q.size align) earlier).reopen ops
      = Spec.run ((q.snapImage s).guest b) ⟨q.size, 0⟩ ops :=
  snapshot_after_history q s align ha hc b hb earlier ops

open Hv.Qcow2 in
/-- … stated for an arbitrary state of the active stream (reachable or not) -/
theorem snapshot_view_independent_state (q : QCow2) (s : Snap) (align : Nat) (ha : 0 < align)
    (hc : ConformantTo (q.snapImage s) (roundUp q.size align)) (b : File) (hb : BackingIs q.backing b)
    (st : AS) (hsz : st.size = q.size) (hal : st.align = align) (ops : List Op) :
    AS.run (q.snapOpen s).read st.reopen ops = Spec.run ((q.snapImage s).guest b) ⟨q.size, 0⟩ ops :=
  snapshot_stream q s align ha hc b hb st hsz hal ops

open Hv.Qcow2 in
/-- … as an equation between two runs: two different earlier histories, same outputs -/
theorem snapshot_view_independent_pair (q : QCow2) (s : Snap) (align : Nat) (ha : 0 < align)
    (hc : ConformantTo (q.snapImage s) (roundUp q.size align)) (b : File) (hb : BackingIs q.backing b)
    (e1 e2 ops : List Op) :
    AS.run (q.snapOpen s).read (AS.after q.read (AS.init q.size align) e1).reopen ops
      = AS.run (q.snapOpen s).read (AS.after q.read (AS.init q.size align) e2).reopen ops := by
  rw [snapshot_after_history q s align ha hc b hb e1, snapshot_after_history q s align ha hc b hb e2]

open Hv.Qcow2 in
/-- the object `open()` returns reads exactly like the image with the snapshot's L1 table in its header: `_read`
    bounds the L1 index by the table in use, not by `header.l1_size` of the active image -/
theorem snapshot_reads_own_l1 (q : QCow2) (s : Snap) : (q.snapOpen s).read = (q.snapImage s).read := snapOpen_read q s

open Hv.Qcow2 in
/-- and the active image, meanwhile, still refines *its* array: the two views are independent both ways -/
theorem active_view_independent (q : QCow2) (align : Nat) (ha : 0 < align)
    (hc : ConformantTo q (roundUp q.size align)) (b : File) (hb : BackingIs q.backing b) (earlier ops : List Op) :
    AS.run q.read (AS.init q.size align) (earlier ++ ops)
      = Spec.run (q.guest b) ⟨q.size, 0⟩ (earlier ++ ops) :=
  stream_correct q align ha hc b hb _

/-! non-vacuity (objects in HvProofs/Qcow2Stream.lean): the active image shows data in cluster 0, the snapshot's L1
    table has no L2 table at all; buffers of 1024 bytes, so the last fill runs 548 bytes past the end of the disk -/
open Hv.Qcow2 in
example : ConformantTo exImg (roundUp exImg.size 1024) ∧ ConformantTo (exImg.snapImage exSnap) (roundUp exImg.size 1024) :=
  ⟨conformantToB_sound _ _ (by decide), conformantToB_sound _ _ (by decide)⟩

open Hv.Qcow2 in
set_option maxRecDepth 100000 in
example :
    AS.run exImg.read (AS.init exImg.size 1024) [.seek 510 .set, .read 4, .tell]
      = [.pos 510, .data [UInt8.ofNat (2046 % 251), UInt8.ofNat (2047 % 251), 0, 0], .pos 514] ∧
    AS.run (exImg.snapOpen exSnap).read (AS.after exImg.read (AS.init exImg.size 1024) [.seek 510 .set, .read 4]).reopen
        [.tell, .seek 510 .set, .read 4, .seek (-2) .end_, .read 9]
      = [.pos 0, .pos 510, .data [0, 0, 0, 0], .pos 1498, .data [0, 0]] := by
  decide

/-- non-vacuity: the identity backend over a 3-byte array is `BackendOK`, and a concrete
    history evaluates as stated. -/
example : BackendOK 3 2 (fun off len => .ok (slice (fun i => UInt8.ofNat (i + 1)) off (min len (3 - off))))
    (fun i => UInt8.ofNat (i + 1)) :=
  backendOK_of_clamped _ _ _ _ (fun _ _ => rfl)

example : AS.run (fun off len => .ok (slice (fun i => UInt8.ofNat (i + 1)) off (min len (3 - off))))
    (AS.init 3 2) [.read 1, .peek 5, .seek (-1) .end_, .read (-1), .read 4, .tell]
    = [.data [1], .data [2, 3], .pos 2, .data [3], .data [], .pos 3] := by decide

end Hv.C08
