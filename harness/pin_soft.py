#!/usr/bin/env python3
"""pin_soft.py: (re)compute harness/pinned_soft.json.

Some extracted values are read off *function bodies* (the int / bytes / str literals of a function in source order, slice bounds,
string tuples).  They are positional: any edit of the function, also a harmless one (a named constant, a helper, a log line),
changes them.  They are therefore treated as *drift detectors*, not as proof obligations: core.prepare compares what the code says
now with the values pinned here (the values the proofs were written against); on a difference the model keeps the pinned values
(a hand-written model for those constants), the drift is recorded in the evidence and the correspondence check - which is then
the tie for those constants - runs with the extended search budget.  Everything else (module-level constants, struct layouts,
regular expressions, XPath arguments, the AST tables of C09 / C19) stays a hard tie: a change breaks a `_spec` theorem.

Which names are body-derived is not listed by hand: the extractor is run a second time with its body-literal helpers perturbed
(a sentinel is added to what they return); every value that changes is soft.  Run this script on the clean tree after a change
of /repo that legitimately changes such literals (e.g. a `fix:` commit) and commit the result together with the adapted proofs."""
import json
import os
import subprocess
import sys
import tempfile
from pathlib import Path

HERE = Path(__file__).resolve().parent
PY = "/venv/bin/python"


def values(perturb: bool) -> dict:
    with tempfile.NamedTemporaryFile(suffix=".json", delete=False) as tf:
        path = tf.name
    env = dict(os.environ, VERIF_VALUES_FILE=path)
    env.pop("VERIF_PIN_FILE", None)
    if perturb:
        env["VERIF_EXTRACT_PERTURB"] = "1"
    r = subprocess.run([PY, str(HERE / "extract.py")], capture_output=True, text=True, env=env, cwd=HERE.parent)
    try:
        return json.loads(Path(path).read_text())
    except Exception:
        sys.exit("extract.py failed: " + r.stderr[-2000:])
    finally:
        os.unlink(path)


def main():
    a, b = values(False), values(True)
    soft = {k: v for k, v in a.items() if b.get(k) != v}
    (HERE / "pinned_soft.json").write_text(json.dumps({"soft": soft}, indent=1, sort_keys=True))
    print(f"{len(soft)} soft values of {len(a)}:", ", ".join(sorted(soft)))


if __name__ == "__main__":
    main()
