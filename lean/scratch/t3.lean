import HvProofs.VmdkDesc
open Hv Hv.Regex Hv.VmdkDesc
#check @List.all_takeWhile
#check @List.exists_of_findSome?_eq_some
#check @List.isPrefixOf_iff_prefix
#check @List.prefix_iff_eq_append
#check @List.take_append_drop
#check @List.getElem?_eq_some_iff
#check @List.drop_eq_getElem_cons
#check @List.contains_iff_mem
#check @List.elem_iff
#check @List.drop_left
#check @List.take_left
#check @List.drop_append_of_le_length
#check @List.getLast?_append
#check @List.getLast?_concat
