"""C16 — independent WRITER for ESXi "DataTransformEnvelope" files (version 2, AES-256-GCM) and file keystores.

Layout written here (all little-endian, block = 4096):
  block 0 (header)  : 0 magic "DataTransformEnvelope"(21) | 21 zero pad(483) | 504 u32 size = 4096-512 | 508 u32 version = 2
                      512.. attributes: u8 type, u8 flag, 2 zero bytes, name NUL-terminated, value
                      (1..4 u8/u16/u32/u64, 5..8 i8..i64, 9 f32, 10 f64, 11 NUL-terminated string, 12 u64 length + bytes),
                      then 4 NUL bytes (terminator: type 0), zero fill to 4096.
  blocks 1..n       : AES-256-GCM ciphertext of  payload | padding bytes | 3584 filler bytes | crypto footer (512):
                      "DataTransformCryptoFooter"(25) | zero(479) | u32 padding | u32 version = 2
  last block (AEAD) : "DataTransformAeadFooter"(23) | zero(9) | tag(16) + zeros (4056) | u32 tag size = 16 | u32 version = 1
GCM AAD = the 4096 header bytes exactly as written (canonical: all discarded bytes zero) + optional caller AAD.
Keystore: text lines `name = "value"`; mode = NONE; ConfigEncData = keyId=<b64>:data1=<b64>:data2=<b64>:version=1 (url-encoded);
key = PBKDF2-HMAC-SHA256(password = data1 + SALT, salt = data2, 100000 rounds, 32 bytes).

regions values are LISTS of (start, end) half-open byte ranges of the envelope. Extra region "term" = the single terminator
type byte; region "aad" is handled by tamper() on the caller AAD (returns the altered aad, not an envelope).
"""
from __future__ import annotations

import base64
import hashlib
import io
import json
import random
import re
import struct
import sys

BLOCK = 4096
HDR = 512
SALT = b"This is obfuscation, not encryption. If you want encryption, use TPM."
CIPHER = "AES-256-GCM"
T_STRING, T_BYTES = 11, 12
NUM_FMT = {1: "<B", 2: "<H", 3: "<I", 4: "<Q", 5: "<b", 6: "<h", 7: "<i", 8: "<q", 9: "<f", 10: "<d"}
REQUIRED = ("vmware.iv", "vmware.keyInfo", "vmware.cipherName", "vmware.keyHash")
SNAN_RATE = 0.03        # share of Float attributes that hold a signalling NaN (set 0 to exclude that known deviation)

# ---------------------------------------------------------------------------- keystore pool (pbkdf2 is ~30 ms: reuse)
_POOL_LENS = [(16, 16), (16, 16), (32, 16), (16, 32), (1, 1), (0, 8), (48, 64), (16, 0)]


def _mk_pool():
    out = []
    for i, (n1, n2) in enumerate(_POOL_LENS):
        r = random.Random(0xE5C1 + i)
        out.append({"keyId": r.randbytes(16).hex(), "data1": r.randbytes(n1).hex(), "data2": r.randbytes(n2).hex()})
    return out


KEYSTORE_POOL = _mk_pool()
_KEYS: dict[int, bytes] = {}


def pool_key(i: int) -> bytes:
    if i not in _KEYS:
        e = KEYSTORE_POOL[i]
        _KEYS[i] = hashlib.pbkdf2_hmac("sha256", bytes.fromhex(e["data1"]) + SALT, bytes.fromhex(e["data2"]), 100000, 32)
    return _KEYS[i]


def pool_key_id(i: int) -> str:
    h = KEYSTORE_POOL[i]["keyId"]
    return f"{h[0:8]}-{h[8:12]}-{h[12:16]}-{h[16:20]}-{h[20:32]}"


def _urlenc(s: str, style: str) -> str:
    if style == "none":
        return s
    if style == "all":
        return "".join(f"%{ord(c):02x}" for c in s)
    esc = {"pad": {"=": "%3d"}, "PAD": {"=": "%3D"}, "b64": {"=": "%3d", "+": "%2b", "/": "%2F"}}[style]
    return "".join(esc.get(c, c) for c in s)


def keystore_text(idx: int, k: dict) -> str:
    e = KEYSTORE_POOL[idx]
    f = {n: _urlenc(base64.b64encode(bytes.fromhex(e[n])).decode(), k["enc"]) for n in ("keyId", "data1", "data2")}
    f["version"] = "1"
    osp = k["optsp"]
    ced = ":".join(f"{osp}{n}{osp}={osp}{f[n]}{osp}" for n in k["order"])
    q = '"' if k["quote"] else ""
    l, r = k["sp"]

    def line(n, v):
        return f"{k['indent']}{n}{l}={r}{q}{v}{q}{k['trail']}"
    body = [line("mode", "NONE"), line("ConfigEncData", ced)]
    body += [line(n, v) for n, v in k["extra"]]
    body += ["# comment = \"x\" mode = TPM"] * k["comments"] + [""] * k["blanks"] + ["   \t"] * (k["blanks"] // 2)
    random.Random(k["shuffle"]).shuffle(body)
    if k["decoy"]:                        # an earlier `mode` line that is overridden by the later one
        body.insert(0, line("mode", "TPM"))
    head = [line(".encoding", "UTF-8")] if k["dotenc"] else []
    return k["eol"].join(head + body) + (k["eol"] if k["final_eol"] else "")


def _gen_kst(rng) -> dict:
    extra = []
    for i in range(rng.choice([0, 0, 1, 2, 4])):
        kind = rng.choice(["flat", "dotted", "deep", "leaddot", "leaddot2"])
        n = {"flat": f"includeKeyCache{i}", "dotted": f"x{i}.sub", "deep": f"x{i}.a.b.c.d", "leaddot": f".opt{i}",
             "leaddot2": f".x{i}.sub.leaf"}[kind]
        extra.append([n, rng.choice(["FALSE", "", "a=b", "a b", "mode", "1.5"])])
    order = ["keyId", "data1", "data2", "version"]
    if rng.random() < 0.5:
        rng.shuffle(order)
    return {"enc": rng.choice(["pad", "pad", "PAD", "b64", "all", "none"]), "quote": rng.random() < 0.7,
            "sp": rng.choice([[" ", " "], ["", ""], ["  ", "   "], ["\t", " "], [" ", ""]]), "optsp": rng.choice(["", "", " "]),
            "indent": rng.choice(["", "", "  ", "\t"]), "trail": rng.choice(["", "", " ", " \t"]), "eol": rng.choice(["\n", "\n", "\r\n"]),
            "final_eol": rng.random() < 0.7, "comments": rng.choice([0, 0, 1, 3]), "blanks": rng.choice([0, 0, 1, 4]),
            "decoy": rng.random() < 0.2, "dotenc": rng.random() < 0.6, "order": order, "extra": extra, "shuffle": rng.randrange(1 << 16)}


# ---------------------------------------------------------------------------- attributes
def _pack_attr(a: dict) -> bytes:
    t = a["type"]
    out = bytes([t, a["flag"], 0, 0]) + a["name"].encode() + b"\0"
    v = a["value"]
    if t == T_STRING:
        return out + v.encode() + b"\0"
    if t == T_BYTES:
        b = bytes.fromhex(v)
        return out + struct.pack("<Q", len(b)) + b
    if t in (9, 10):                       # value = raw IEEE bits, kept exact
        return out + struct.pack("<I" if t == 9 else "<Q", v)
    return out + struct.pack(NUM_FMT[t], v)


def _attr_spans(attrs: list[dict]):
    """-> (packed bytes, [(start, end) of each attribute relative to the attribute area])"""
    buf, spans = b"", []
    for a in attrs:
        p = _pack_attr(a)
        spans.append((len(buf), len(buf) + len(p)))
        buf += p
    return buf, spans


_ALPHA = "abcdefghijklmnopqrstuvwxyzABCDEFGHIJKLMNOPQRSTUVWXYZ0123456789._-"


def _gen_text(rng, n, uni=0.1):
    return "".join(rng.choice("é✓日ß") if rng.random() < uni else rng.choice(_ALPHA) for _ in range(n))


def _gen_value(rng, t):
    if t in (1, 2, 3, 4):
        bits = 8 << (t - 1)
        return rng.choice([0, 1, (1 << bits) - 1, rng.getrandbits(bits)])
    if t in (5, 6, 7, 8):
        bits = 8 << (t - 5)
        return rng.choice([0, -1, (1 << (bits - 1)) - 1, -(1 << (bits - 1)), rng.getrandbits(bits) - (1 << (bits - 1))])
    if t in (9, 10):
        bits, ebits, mbits = (32, 8, 23) if t == 9 else (64, 11, 52)
        v = rng.choice([0, 1 << (bits - 1), rng.getrandbits(bits), struct.unpack("<I", struct.pack("<f", 1.5))[0] if t == 9 else
                        struct.unpack("<Q", struct.pack("<d", -2.25))[0], ((1 << ebits) - 1) << mbits])
        if (v >> mbits) & ((1 << ebits) - 1) == (1 << ebits) - 1 and v & ((1 << mbits) - 1):
            v |= 1 << (mbits - 1)          # NaN: normally quiet
        if t == 9 and rng.random() < SNAN_RATE:
            v = 0x7FA00000 | rng.getrandbits(16) | 1        # float32 signalling NaN: a legal stored value (see report: real code
        return v                                             # cannot re-serialise it, so the untampered envelope fails its MAC)
    if t == T_STRING:
        return _gen_text(rng, rng.choice([0, 1, 5, 20, 80]))
    return rng.randbytes(rng.choice([0, 1, 7, 16, 32, 120])).hex()


def _required_attrs(recipe) -> dict:
    key = pool_key(recipe["ks"])
    return {"vmware.iv": (T_BYTES, recipe["iv"]), "vmware.keyInfo": (T_STRING, pool_key_id(recipe["ks"])),
            "vmware.cipherName": (T_STRING, CIPHER), "vmware.keyHash": (T_BYTES, hashlib.sha256(CIPHER.encode() + key).hexdigest())}


def _resolve(recipe) -> list[dict]:
    req = _required_attrs(recipe)
    out = []
    for a in recipe["attrs"]:
        if "req" in a:
            t, v = req[a["req"]]
            out.append({"name": a["req"], "type": t, "flag": a["flag"], "value": v})
        else:
            out.append(a)
    return out


def has_snan(recipe) -> bool:
    """recipe stores a float32 signalling NaN in some Float attribute (known deviation of the real code)"""
    return any(a.get("type") == 9 and a["value"] & 0x7FC00000 == 0x7F800000 and a["value"] & 0x3FFFFF for a in recipe["attrs"])


def gen_recipe(rng: random.Random, tier: str = "quick") -> dict:
    k = rng.random()
    if tier != "quick" and k < 0.02:
        plen = 4 * 1024 * 1024 + rng.choice([-4096, 0, 1, 5000, 4 * 1024 * 1024 + 17])     # crosses the 4 MiB decrypt chunk
    elif k < 0.25:
        plen = rng.choice([0, 1, 15, 16, 17, 511, 512, 4095, 4096, 4097, 8192, 3 * 4096])
    else:
        plen = rng.randrange(0, 3 * 4096 + rng.choice([1, 100, 4096]))
    padding = (-plen) % BLOCK if rng.random() < 0.5 else rng.choice([0, 1, 4095, rng.randrange(4096)])
    r = {"plen": plen, "pseed": rng.randrange(1 << 32), "padding": padding, "fill": rng.choice(["rand", "rand", "zero"]),
         "ks": rng.randrange(len(KEYSTORE_POOL)), "kst": _gen_kst(rng),
         "iv": rng.randbytes(rng.choice([12, 12, 12, 12, 1, 8, 13, 16, 32, 64])).hex(),
         "aad": rng.randbytes(rng.choice([1, 16, 16, rng.randrange(1, 201)])).hex() if rng.random() < 0.5 else None}
    flag = lambda: rng.choice([0, 0, 0, 1, 0x80, rng.randrange(256)])
    attrs = [{"req": n, "flag": flag()} for n in REQUIRED]
    if rng.random() < 0.7:
        rng.shuffle(attrs)
    names = set(REQUIRED)
    for _ in range(rng.choice([0, 0, 1, 2, 4, 8, 13])):
        nm = _gen_text(rng, rng.choice([0, 1, 3, 8, 20, 64, 200]) if rng.random() < 0.3 else rng.randrange(1, 24))
        if rng.random() < 0.3:
            nm = "vmware." + nm
        if nm in names:
            continue
        names.add(nm)
        t = rng.randrange(1, 13)
        attrs.insert(rng.randrange(len(attrs) + 1), {"name": nm, "type": t, "flag": flag(), "value": _gen_value(rng, t)})
    r["attrs"] = attrs
    if rng.random() < 0.12:               # fill the attribute area: `slack` bytes left after the 4-byte terminator
        slack = rng.choice([0, 0, 1, 2, 5])
        used = len(_attr_spans(_resolve(r))[0])
        n = BLOCK - HDR - 4 - slack - used - (4 + 5 + 8)
        attrs.insert(rng.randrange(len(attrs) + 1), {"name": "fill", "type": T_BYTES, "flag": 0, "value": rng.randbytes(n).hex()})
    return r


# ---------------------------------------------------------------------------- build
def build(recipe: dict) -> dict:
    from Crypto.Cipher import AES
    key = pool_key(recipe["ks"])
    attrs = _resolve(recipe)
    abytes, spans = _attr_spans(attrs)
    if HDR + len(abytes) + 4 > BLOCK:
        raise ValueError("attributes do not fit the header block")
    header = bytearray(BLOCK)
    header[0:21] = b"DataTransformEnvelope"
    struct.pack_into("<II", header, 504, BLOCK - HDR, 2)
    header[HDR:HDR + len(abytes)] = abytes
    header = bytes(header)

    rnd = random.Random(recipe["pseed"])
    payload = rnd.randbytes(recipe["plen"])
    padding = recipe["padding"]
    fill = (lambda n: rnd.randbytes(n)) if recipe["fill"] == "rand" else (lambda n: bytes(n))
    cfoot = b"DataTransformCryptoFooter" + bytes(479) + struct.pack("<II", padding, 2)
    plain = payload + fill(padding) + fill(BLOCK - 512) + cfoot
    aad = bytes.fromhex(recipe["aad"]) if recipe["aad"] is not None else None
    c = AES.new(key, AES.MODE_GCM, nonce=bytes.fromhex(recipe["iv"]), mac_len=16)
    c.update(header)
    if aad:
        c.update(aad)
    ct, tag = c.encrypt_and_digest(plain)
    afoot = bytearray(BLOCK)
    afoot[0:23] = b"DataTransformAeadFooter"
    afoot[32:48] = tag
    struct.pack_into("<II", afoot, 4088, 16, 1)
    env = header + ct + bytes(afoot)

    fo = BLOCK + len(ct)
    a_end = HDR + len(abytes)
    attr_r, pad_r = [], [(21, 504)]
    for s, e in spans:
        attr_r += [(HDR + s, HDR + s + 2), (HDR + s + 4, HDR + e)]
        pad_r.append((HDR + s + 2, HDR + s + 4))
    pad_r.append((a_end + 1, BLOCK))
    regions = {"attr": attr_r, "term": [(a_end, a_end + 1)], "hdr_fixed": [(0, 21), (504, 512)], "hdr_pad": pad_r,
               "cipher": [(BLOCK, fo)], "tag": [(fo + 32, fo + 48)], "footer_other": [(fo, fo + 32), (fo + 48, fo + BLOCK)]}
    return {"envelope": env, "keystore_text": keystore_text(recipe["ks"], recipe["kst"]), "key": key, "key_id": pool_key_id(recipe["ks"]),
            "payload": payload, "aad": aad, "regions": regions, "attrs": attrs}


def tamper(built: dict, rng: random.Random, region: str):
    """XOR one byte of the named region with a random non-zero mask. -> (altered envelope, position);
    region "aad": -> (altered aad, position) (None, None when there is no aad / the region is empty)."""
    mask = rng.choice([1 << rng.randrange(8), rng.randrange(1, 256)])
    if region == "aad":
        a = built["aad"]
        if not a:
            return None, None
        p = rng.randrange(len(a))
        return a[:p] + bytes([a[p] ^ mask]) + a[p + 1:], p
    ranges = [(s, e) for s, e in built["regions"][region] if e > s]
    if not ranges:
        return None, None
    k = rng.randrange(sum(e - s for s, e in ranges))
    for s, e in ranges:
        if k < e - s:
            break
        k -= e - s
    p = s + k
    env = bytearray(built["envelope"])
    env[p] ^= mask
    return bytes(env), p


# ---------------------------------------------------------------------------- real code
def canon(b: bytes) -> str:
    return b.hex() if len(b) <= 64 else f"sha256:{hashlib.sha256(b).hexdigest()}:{len(b)}"


def _err(e: BaseException) -> str:
    return f"{type(e).__name__}: {e}"[:300]


def impl_decrypt(envelope: bytes, key: bytes, aad, verify: bool = True):
    from dissect.hypervisor.util.envelope import Envelope
    try:
        return ("ok", canon(Envelope(io.BytesIO(envelope), verify=verify).decrypt(key, aad)))
    except Exception as e:  # noqa
        return ("err", _err(e))


def impl_keystore(text: str):
    from dissect.hypervisor.util.envelope import KeyStore
    try:
        ks = KeyStore.from_text(text)
        return ("ok", ks.id, ks.key.hex())
    except Exception as e:  # noqa
        return ("err", _err(e))


def impl_cli(envelope: bytes, keystore_text: str):
    """-> ("ok", written bytes, files created) | ("err", "ExcType: msg", files created)"""
    import contextlib
    import shutil
    import tempfile
    from pathlib import Path

    from dissect.hypervisor.tools import envelope as tool
    d = Path(tempfile.mkdtemp(prefix="envcli."))
    argv = sys.argv
    try:
        (d / "in.ve").write_bytes(envelope)
        (d / "ks.info").write_bytes(keystore_text.encode())          # bytes: no newline translation
        sys.argv = ["envelope-decrypt", str(d / "in.ve"), "-ks", str(d / "ks.info"), "-o", str(d / "out.bin")]
        created = lambda: sorted(f"{p.name}:{p.stat().st_size}" for p in d.iterdir() if p.name not in ("in.ve", "ks.info"))
        try:
            with contextlib.redirect_stderr(io.StringIO()), contextlib.redirect_stdout(io.StringIO()):
                rc = tool.main()
        except BaseException as e:  # noqa  (argparse exits with SystemExit)
            return ("err", _err(e), created())
        if rc != 0:
            return ("err", f"rc={rc}", created())
        return ("ok", (d / "out.bin").read_bytes(), created())
    finally:
        sys.argv = argv
        shutil.rmtree(d, ignore_errors=True)


# ---------------------------------------------------------------------------- selftest
def selftest(n: int = 300, seed: int = 1, tier: str = "quick", cli_every: int = 1) -> int:
    from collections import Counter
    rng = random.Random(seed)
    bad, tally = [], Counter()

    def chk(name, recipe, ok, detail):
        if has_snan(recipe):
            name += "[f32-sNaN attribute]"
        tally[name + (":ok" if ok else ":MISMATCH")] += 1
        if not ok:
            bad.append((name, recipe, detail))
    for i in range(n):
        r = gen_recipe(rng, tier)
        b = build(r)
        assert json.loads(json.dumps(r)) == r and build(json.loads(json.dumps(r)))["envelope"] == b["envelope"], "recipe not JSON-stable"
        env, key, aad, want = b["envelope"], b["key"], b["aad"], ("ok", canon(b["payload"]))
        got = impl_keystore(b["keystore_text"])
        chk("keystore", r, got == ("ok", b["key_id"], key.hex()), got)
        got = impl_decrypt(env, key, aad)
        chk("decrypt", r, got == want, (got, want))
        got = impl_decrypt(env, key, aad, verify=False)
        chk("decrypt_noverify", r, got == want, (got, want))
        if i % cli_every == 0:
            got = impl_cli(env, b["keystore_text"])
            if aad is None:
                chk("cli", r, got == ("ok", b["payload"], [f"out.bin:{len(b['payload'])}"]), (got[0], canon(got[1]) if got[0] == "ok" else got[1], got[2]))
            else:                          # the tool has no way to pass associated data: informational only
                tally[f"cli_with_aad -> {got[0]} {got[1] if got[0] == 'err' else ''} files={[f.split(':')[0] + ':' + ('0' if f.endswith(':0') else 'n') for f in got[2]]}"] += 1
        wk = pool_key((r["ks"] + 1 + rng.randrange(len(KEYSTORE_POOL) - 1)) % len(KEYSTORE_POOL))
        got = impl_decrypt(env, wk, aad)
        chk("wrong_key", r, got[0] == "err", got)
        got = impl_decrypt(env, key, None if aad else b"\x00")
        chk("aad_presence", r, got[0] == "err", got)
        for region in ("attr", "cipher", "tag", "aad", "term", "hdr_pad", "hdr_fixed", "footer_other"):
            alt, pos = tamper(b, rng, region)
            if alt is None:
                continue
            got = impl_decrypt(env, key, alt) if region == "aad" else impl_decrypt(alt, key, aad)
            if has_snan(r):
                continue
            if region in ("attr", "cipher", "tag", "aad"):
                chk("tamper_" + region, r, got[0] == "err", (pos, got))
            else:
                what = "ok(same plaintext)" if got == want else ("ok(DIFFERENT plaintext)" if got[0] == "ok" else "err " + got[1].split(":")[0] + ":" + got[1].split(":", 1)[1][:60])
                tally[f"tamper_{region} -> {re.sub(r'[0-9]+$', 'N', what)}"] += 1
    for k in sorted(tally):
        print(f"{tally[k]:6d}  {k}")
    for name, r, detail in bad:
        print("MISMATCH", name, detail, json.dumps(r))
    print(f"selftest: {n} cases, {len(bad)} mismatches")
    return len(bad)


if __name__ == "__main__":
    a = sys.argv[1:]
    if a and a[0] == "selftest":
        sys.exit(1 if selftest(int(a[1]) if len(a) > 1 else 300, int(a[2]) if len(a) > 2 else 1, a[3] if len(a) > 3 else "quick") else 0)
    print("usage: gen_envelope.py selftest [n] [seed] [tier]")
