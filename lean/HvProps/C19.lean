/-
  C19 — XML descriptors are parsed without entity expansion or external fetches.
-/
import Hv.Xml
namespace Hv.C19
open Hv Hv.Xml

/-- the installed defusedxml's `fromstring` defaults: DTDs allowed, entities and external references forbidden -/
theorem defaults_spec : defaults = ⟨false, true, true⟩ := by decide

/-- **all_entrypoints_hardened**: every call in dissect.hypervisor that turns text into an element tree resolves to
    `defusedxml.ElementTree.fromstring` with default (hardening) flags; there is exactly one per XML-reading module;
    every import of a non-hardened XML library sits under `if TYPE_CHECKING:` (typing only). -/
theorem all_entrypoints_hardened :
    Extracted.xml.entrypoints.all Entry.ok = true ∧
    Extracted.xml.entrypoints.map (·.1) = expectedFiles ∧
    Extracted.xml.imports.all Import.ok = true := by decide

theorem hardenedFrom_append (fl : Flags) (pre : List Ev) (hpre : ∀ e ∈ pre, e.forbidden fl = false) :
    ∀ n rest, hardenedFrom fl n (pre ++ rest) = hardenedFrom fl (n + pre.length) rest := by
  induction pre with
  | nil => intro n rest; simp
  | cons e es ih =>
    intro n rest
    have he : e.forbidden fl = false := hpre e (by simp)
    simp only [List.cons_append, hardenedFrom, he, Bool.false_eq_true, if_false, List.length_cons]
    rw [ih (fun x hx => hpre x (by simp [hx]))]
    congr 1; omega

/-- **entity_decl_refused**: any document whose event stream contains an entity declaration, an unparsed-entity
    declaration or an external-entity reference — at any position, with anything after it, nested to any depth — is
    refused by the hardened parser, and the refusal happens at the *first* such event: nothing after it is consumed,
    so nothing is ever expanded or fetched (the result does not depend on the rest of the document). -/
theorem entity_decl_refused (pre post : List Ev) (e : Ev) (he : e.isEntity = true)
    (hpre : ∀ x ∈ pre, x.isEntity = false) :
    hardened defaults (pre ++ e :: post) = .refused (pre.length + 1) := by
  have hd := defaults_spec
  have hf : ∀ x : Ev, x.forbidden defaults = x.isEntity := by
    intro x; rw [hd]; cases x <;> rfl
  unfold hardened
  rw [hardenedFrom_append defaults pre (fun x hx => by rw [hf]; exact hpre x hx)]
  simp [hardenedFrom, hf, he]

/-- corollary in the vocabulary of the property: a declared entity anywhere ⇒ refused (some prefix length) -/
theorem declares_entities_refused (evs : List Ev) (h : ∃ e ∈ evs, e.isEntity = true) :
    ∃ k, hardened defaults evs = .refused k ∧ k ≤ evs.length := by
  induction evs with
  | nil => obtain ⟨e, he, _⟩ := h; cases he
  | cons x xs ih =>
    have hd := defaults_spec
    have hf : ∀ y : Ev, y.forbidden defaults = y.isEntity := by
      intro y; rw [hd]; cases y <;> rfl
    by_cases hx : x.isEntity = true
    · exact ⟨1, by simp [hardened, hardenedFrom, hf, hx], by simp⟩
    · have hx' : x.isEntity = false := by simpa using hx
      obtain ⟨e, he, hee⟩ := h
      have : ∃ e ∈ xs, e.isEntity = true := by
        rcases List.mem_cons.mp he with rfl | h'
        · rw [hx'] at hee; cases hee
        · exact ⟨e, h', hee⟩
      obtain ⟨k, hk, hkl⟩ := ih this
      refine ⟨k + 1, ?_, by simp; omega⟩
      unfold hardened at hk ⊢
      simp only [hardenedFrom, hf, hx', Bool.false_eq_true, if_false]
      have := hardenedFrom_shift defaults xs 0 1
      simp only [Nat.zero_add] at this
      rw [this, hk]
where
  hardenedFrom_shift (fl : Flags) : ∀ (evs : List Ev) (n d : Nat),
      hardenedFrom fl (n + d) evs = (match hardenedFrom fl n evs with
        | .refused k => .refused (k + d) | .parsed k => .parsed (k + d)) := by
    intro evs
    induction evs with
    | nil => intro n d; simp [hardenedFrom]
    | cons e es ih =>
      intro n d
      simp only [hardenedFrom]
      split
      · simp; omega
      · have := ih (n + 1) d
        rw [show n + d + 1 = n + 1 + d by omega, this]

/-- **no_decl_parses_as_usual**: a document without entity declarations or references is consumed completely,
    exactly as by the plain parser (DOCTYPEs without entities, comments, PIs, notations included). -/
theorem no_decl_parses_as_usual (evs : List Ev) (h : ∀ e ∈ evs, e.isEntity = false) :
    hardened defaults evs = plain evs := by
  have hd := defaults_spec
  have hf : ∀ x : Ev, x.forbidden defaults = x.isEntity := by
    intro x; rw [hd]; cases x <;> rfl
  have := hardenedFrom_append defaults evs (fun x hx => by rw [hf]; exact h x hx) 0 []
  simp only [List.append_nil, Nat.zero_add] at this
  simp [hardened, plain, this, hardenedFrom]

/-! non-vacuity: a billion-laughs prolog is refused at its first declaration; a DOCTYPE without entities parses -/
example : hardened defaults [.pi, .comment, .doctype, .entityDecl, .entityDecl, .startEl, .text, .endEl] = .refused 4 := by decide
example : hardened defaults [.doctype, .notationDecl, .startEl, .text, .endEl] = plain [.doctype, .notationDecl, .startEl, .text, .endEl] := by decide

end Hv.C19
