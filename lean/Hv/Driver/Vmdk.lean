import Hv.Driver.Core
import Hv.Vmdk
import Hv.Prim.Inflate
namespace Hv.Driver
open Hv

/-- `VMDK([fh, ...])` with explicit handles: sparse magic → SparseDisk, otherwise RawDisk -/
def vmdkOpenHandles (files : List File) : Except Err (Vmdk.Vmdk × List Vmdk.Sparse) := do
  let mut mk : List (Nat → Vmdk.Disk) := []
  let mut sparses : List Vmdk.Sparse := []
  for fh in files do
    let magic := fh.read 0 4
    if magic = Extracted.vmdk.COWD_MAGIC ∨ magic = Extracted.vmdk.VMDK_MAGIC ∨ magic = Extracted.vmdk.SESPARSE_MAGIC then
      let sp ← Vmdk.openSparse fh none 0 Inflate.zlibInflate
      sparses := sparses ++ [sp]
      mk := mk ++ [fun so => Vmdk.sparseDisk { sp with sectorOffset := so }]
    else
      mk := mk ++ [fun so => Vmdk.rawDisk fh none so]
  pure (Vmdk.assemble mk, sparses)

def vmdkFiles (st : St) (ids : List String) : Except Err (List File) :=
  ids.mapM fun id => match st.file? id with | some f => .ok f | none => .error .other

def vmdkCmd (st : St) : List String → String
  | "vmdk.open" :: ids =>
    match vmdkFiles st ids >>= vmdkOpenHandles with
    | .ok (v, sps) =>
      let desc := sps.map (fun sp => s!"[cap={sp.capacity} gs={sp.grainSize} gt={sp.gtSize} gd={sp.gd.size} k={repr sp.kind} wf={if sp.wfb then 1 else 0} wfU={if sp.wfbU then 1 else 0}]")
      s!"ok size={v.size} disks={v.disks.size} wf={if sps.all (·.wfb) then 1 else 0} {" ".intercalate desc}"
    | .error e => s!"err {e}"
  | "vmdk.stream" :: align :: nids :: rest =>
    match align.toNat?, nids.toNat? with
    | some a, some k =>
      match vmdkFiles st (rest.take k) >>= vmdkOpenHandles with
      | .ok (v, _) => runStreamSec v.read (some v.readSectors) v.size a (rest.drop k)
      | .error e => s!"err {e}"
    | _, _ => "bad-args"
  | _ => "bad-cmd"

end Hv.Driver
