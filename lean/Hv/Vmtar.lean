/-
  Hv.Vmtar — model of dissect/hypervisor/util/vmtar.py (VisorTarInfo.frombuf,
  VisorTarInfo._proc_member) on top of a transcription of the parts of CPython's
  `tarfile` it inherits (nts, nti, calc_chksums, TarInfo.frombuf, _proc_builtin,
  _proc_gnulong, TarFile.next, extractfile).  Mathlib-free (driver imports it).

  Modelled, not verified: CPython's tarfile (transcribed from 3.12), tied by correspondence.
  Not modelled (reported as `unsupported`, never compared): pax headers (x/g/X), old GNU
  sparse members (S), int()'s exotic octal spellings (sign, 0o prefix, underscores).
-/
import Hv.Prim.Bytes
import Hv.Extracted
namespace Hv.Vmtar
open Hv

def BLOCK : Nat := 512

/-- header-level outcomes of `TarInfo.frombuf` / `fromtarfile` (tarfile's HeaderError family) -/
inductive HErr where
  | empty | truncated | eofHeader | invalid | subsequent
  | unexpectedEnd      -- ReadError("unexpected end of data")
  | unsupported        -- outside the model
  | fuel
  deriving Repr, DecidableEq, Inhabited

/-- `tarfile.nts` without the decode: cut at the first NUL -/
def nts (b : Bytes) : Bytes := b.takeWhile (· ≠ 0)

/-- `str.isspace()` on ASCII -/
def isSpace (b : UInt8) : Bool := b = 32 || (9 ≤ b && b ≤ 13) || (28 ≤ b && b ≤ 31)

def strip (b : Bytes) : Bytes := ((b.dropWhile isSpace).reverse.dropWhile isSpace).reverse

def isOct (c : UInt8) : Bool := 48 ≤ c && c ≤ 55

def octVal (t : Bytes) : Nat := t.foldl (fun a c => a * 8 + (c.toNat - 48)) 0

/-- the text branch of `tarfile.nti`: `int(nts(s, "ascii", "strict").strip() or "0", 8)` -/
def ntiOct (b : Bytes) : Except HErr Int :=
  let s := nts b
  if s.any (· ≥ 128) then .error .invalid else
  let t := strip s
  if t = [] then .ok 0
  else if t.all isOct then .ok (octVal t)
  else if t.any (fun c => c = 43 || c = 45 || c = 95 || c = 111 || c = 79) then .error .unsupported
  else .error .invalid

/-- `tarfile.nti` -/
def nti (b : Bytes) : Except HErr Int :=
  match b with
  | [] => .error .invalid
  | h :: t =>
    if h = 0o200 then .ok (beNat t)
    else if h = 0o377 then .ok ((beNat t : Int) - (256 ^ t.length : Nat))
    else ntiOct b

def sub (b : Bytes) (a e : Nat) : Bytes := (b.drop a).take (e - a)

def sumU (b : Bytes) : Nat := b.foldl (fun a c => a + c.toNat) 0
def sumS (b : Bytes) : Int := b.foldl (fun a c => a + (if c.toNat < 128 then (c.toNat : Int) else (c.toNat : Int) - 256)) 0

/-- `tarfile.calc_chksums`: the chksum field counts as eight spaces -/
def chksums (buf : Bytes) : Int × Int :=
  ((256 + sumU (sub buf 0 148) + sumU (sub buf 156 512) : Nat), 256 + sumS (sub buf 0 148) + sumS (sub buf 156 512))

def rstripSlash (b : Bytes) : Bytes := (b.reverse.dropWhile (· = 47)).reverse
def removeSuffixSlash (b : Bytes) : Bytes :=
  match b.reverse with
  | 47 :: r => r.reverse
  | _ => b

/-- type flags -/
def tREG : UInt8 := 48      -- '0'
def tAREG : UInt8 := 0
def tLNK : UInt8 := 49
def tSYM : UInt8 := 50
def tCHR : UInt8 := 51
def tBLK : UInt8 := 52
def tDIR : UInt8 := 53
def tFIFO : UInt8 := 54
def tCONT : UInt8 := 55
def tLONGNAME : UInt8 := 76  -- 'L'
def tLONGLINK : UInt8 := 75  -- 'K'
def tSPARSE : UInt8 := 83    -- 'S'
def tXHD : UInt8 := 120
def tXGL : UInt8 := 103
def tSOLX : UInt8 := 88

def isReg (t : UInt8) : Bool := t = tREG || t = tAREG || t = tCONT || t = tSPARSE
def supported (t : UInt8) : Bool :=
  t = tREG || t = tAREG || t = tLNK || t = tSYM || t = tDIR || t = tFIFO || t = tCONT || t = tCHR || t = tBLK
    || t = tLONGNAME || t = tLONGLINK || t = tSPARSE
def gnuType (t : UInt8) : Bool := t = tLONGNAME || t = tLONGLINK || t = tSPARSE

/-- what `frombuf` yields (VisorTarInfo.frombuf = TarInfo.frombuf + the visor trailer) -/
structure Hdr where
  name : Bytes
  mode : Int
  uid : Int
  gid : Int
  size : Int
  mtime : Int
  typ : UInt8
  linkname : Bytes
  uname : Bytes
  gname : Bytes
  isVisor : Bool
  vOffset : Nat       -- buf[496:500] "<I"
  vTextPgs : Nat      -- buf[504:508]
  vFixUpPgs : Nat     -- buf[508:512]
  deriving Repr, DecidableEq, Inhabited

/-! The positions used by `VisorTarInfo.frombuf`, re-extracted from the source on every run. -/
def magicLo : Nat := Extracted.vmtar.frombuf_ints.getD 0 0
def magicHi : Nat := Extracted.vmtar.frombuf_ints.getD 1 0
def offLo : Nat := Extracted.vmtar.frombuf_ints.getD 2 0
def offHi : Nat := Extracted.vmtar.frombuf_ints.getD 3 0
def textLo : Nat := Extracted.vmtar.frombuf_ints.getD 4 0
def textHi : Nat := Extracted.vmtar.frombuf_ints.getD 5 0
def fixLo : Nat := Extracted.vmtar.frombuf_ints.getD 6 0
def fixHi : Nat := Extracted.vmtar.frombuf_ints.getD 7 0
def visorMagic : Bytes := Extracted.vmtar.frombuf_magic

/-- the fields `TarInfo.frombuf` decodes from a 512-byte block (after its length / all-zero checks) -/
structure Base where
  name : Bytes
  mode : Int
  uid : Int
  gid : Int
  size : Int
  mtime : Int
  typ : UInt8
  linkname : Bytes
  uname : Bytes
  gname : Bytes
  deriving Repr, DecidableEq, Inhabited

def tarFields (buf : Bytes) : Except HErr Base :=
  nti (sub buf 148 156) >>= fun chk =>
  if chk ≠ (chksums buf).1 ∧ chk ≠ (chksums buf).2 then .error .invalid else
  nti (sub buf 100 108) >>= fun mode =>
  nti (sub buf 108 116) >>= fun uid =>
  nti (sub buf 116 124) >>= fun gid =>
  nti (sub buf 124 136) >>= fun size =>
  nti (sub buf 136 148) >>= fun mtime =>
  nti (sub buf 329 337) >>= fun _ =>        -- devmajor
  nti (sub buf 337 345) >>= fun _ =>        -- devminor
  let name := nts (sub buf 0 100)
  let typ0 := buf.getD 156 0
  let pfx := nts (sub buf 345 500)
  -- "Old V7 tar format represents a directory as a regular file with a trailing slash."
  let typ := if typ0 = tAREG ∧ name.getLast? = some 47 then tDIR else typ0
  if typ = tSPARSE then .error .unsupported else
  let name := if typ = tDIR then rstripSlash name else name
  let name := if pfx ≠ [] ∧ ¬ gnuType typ then pfx ++ [47] ++ name else name
  .ok { name, mode, uid, gid, size, mtime, typ, linkname := nts (sub buf 157 257),
        uname := nts (sub buf 265 297), gname := nts (sub buf 297 329) }

/-- `VisorTarInfo.frombuf`: `TarInfo.frombuf`, the negative-size refusal, then the visor trailer.
    `aware = false` is the plain `tarfile.TarInfo` (the visor fields are computed but never used). -/
def frombuf (aware : Bool) (buf : Bytes) : Except HErr Hdr :=
  if buf.length = 0 then .error .empty
  else if buf.length ≠ BLOCK then .error .truncated
  else if buf.all (· = 0) then .error .eofHeader
  else match tarFields buf with
    | .error e => .error e
    | .ok b =>
      if aware ∧ b.size < 0 then .error .invalid else
      let isVisor := decide (sub buf magicLo magicHi = visorMagic)
      .ok { name := b.name, mode := b.mode, uid := b.uid, gid := b.gid, size := b.size, mtime := b.mtime, typ := b.typ,
            linkname := b.linkname, uname := b.uname, gname := b.gname, isVisor,
            vOffset := if isVisor then leNat (sub buf offLo offHi) else 0,
            vTextPgs := if isVisor then leNat (sub buf textLo textHi) else 0,
            vFixUpPgs := if isVisor then leNat (sub buf fixLo fixHi) else 0 }

/-- a listed member -/
structure Member where
  hdr : Hdr
  name : Bytes
  linkname : Bytes
  offset : Nat          -- TarInfo.offset: where the member's (first) header starts
  offsetData : Int      -- TarInfo.offset_data
  deriving Repr, DecidableEq, Inhabited

/-- `TarInfo._block` (Python divmod on a possibly negative count) -/
def blockI (n : Int) : Int := (n + 511) / 512 * 512     -- Int.div rounds toward −∞ for a positive divisor, as Python's

/-- `fromtarfile` = read one header at `tell`, then `_proc_member`.
    Returns the member, the next header offset (`tarfile.offset`) and the new file position.
    `aware = true` is VisorTarInfo; `aware = false` is the plain `tarfile.TarInfo`. -/
def fromTarfile (f : File) (aware : Bool) : Nat → Nat → Except HErr (Member × Int × Nat)
  | 0, _ => .error .fuel
  | fuel + 1, tell =>
    match frombuf aware (f.read tell BLOCK) with
    | .error e => .error e
    | .ok h =>
      -- obj.offset = tell() - BLOCKSIZE = `tell`; the file position is now `tell + BLOCK`
      if aware ∧ h.isVisor ∧ h.vOffset ≠ 0 then
        -- VisorTarInfo._proc_member: data lives elsewhere; the next header follows immediately
        .ok ({ hdr := h, name := h.name, linkname := h.linkname, offset := tell, offsetData := h.vOffset },
             ((tell + BLOCK : Nat) : Int), tell + BLOCK)
      else if h.typ = tLONGNAME ∨ h.typ = tLONGLINK then
        if h.size < 0 then .error .unsupported          -- fileobj.read(negative) = read to the end: not modelled
        else
          let payload := f.read (tell + BLOCK) (blockI h.size).toNat
          match fromTarfile f aware fuel (tell + BLOCK + payload.length) with
          | .error .unsupported => .error .unsupported
          | .error .fuel => .error .fuel
          | .error .unexpectedEnd => .error .unexpectedEnd
          | .error _ => .error .subsequent
          | .ok (m, off, t) =>
            let m := { m with offset := tell }
            let m := if h.typ = tLONGNAME then { m with name := nts payload } else { m with linkname := nts payload }
            let m := if m.hdr.typ = tDIR then { m with name := removeSuffixSlash m.name } else m
            .ok (m, off, t)
      else if h.typ = tXHD ∨ h.typ = tXGL ∨ h.typ = tSOLX then .error .unsupported
      else
        -- _proc_builtin
        let skip : Int := if isReg h.typ ∨ ¬ supported h.typ then blockI h.size else 0
        let name := if h.typ = tDIR then rstripSlash h.name else h.name
        .ok ({ hdr := h, name := name, linkname := h.linkname, offset := tell, offsetData := ((tell + BLOCK : Nat) : Int) },
             ((tell + BLOCK : Nat) : Int) + skip, tell + BLOCK)

inductive Outcome where
  | ok (ms : List Member)
  | readError                 -- open / getmembers raises
  | unsupported
  | nonTermination            -- fuel exhausted (see `list_fuel_suffices`)
  deriving Repr, DecidableEq, Inhabited

/-- `TarFile.getmembers()`: repeated `next()`. `offset` is `tarfile.offset`, `tell` the file position. -/
def listFrom (f : File) (aware : Bool) : Nat → Int → Nat → List Member → Outcome
  | 0, _, _, _ => .nonTermination
  | fuel + 1, offset, tell, acc =>
    -- "Advance the file pointer"
    if offset < 0 then .readError else          -- seek(negative) raises
    let off := offset.toNat
    let adv : Except HErr Unit :=
      if off ≠ tell then
        if off = 0 then .error .eofHeader        -- `return None`
        else if off - 1 < f.size then .ok () else .error .unexpectedEnd
      else .ok ()
    match adv with
    | .error .unexpectedEnd => .readError
    | .error _ => .ok acc.reverse
    | .ok () =>
      match fromTarfile f aware (f.size / BLOCK + 2) off with
      | .ok (m, next, t) => listFrom f aware fuel next t (m :: acc)
      | .error .eofHeader => .ok acc.reverse
      | .error .invalid => if off = 0 then .readError else .ok acc.reverse
      | .error .empty => if off = 0 then .readError else .ok acc.reverse
      | .error .truncated => if off = 0 then .readError else .ok acc.reverse
      | .error .subsequent => .readError
      | .error .unexpectedEnd => .readError
      | .error .unsupported => .unsupported
      | .error .fuel => .nonTermination

/-- fuel that suffices for every archive whose sizes are non-negative: each `next()` advances by ≥ 512 -/
def listFuel (f : File) : Nat := f.size / BLOCK + 2

def list (f : File) (aware : Bool) : Outcome := listFrom f aware (listFuel f) 0 0 []

/-- `extractfile(m).read()`: `size` bytes at `offset_data` (short at EOF); `none` for members without data -/
def extract (f : File) (m : Member) : Option Bytes :=
  if isReg m.hdr.typ ∨ ¬ supported m.hdr.typ then
    if m.offsetData < 0 ∨ m.hdr.size < 0 then some [] else
    some (f.read m.offsetData.toNat m.hdr.size.toNat)
  else none

/-! ### Specification side: what the archive *stores* (independent of the iteration logic) -/

/-- the data offset recorded in a visor header block -/
def storedOffset (f : File) (hdrOff : Nat) : Nat := leNat (slice f.byte (hdrOff + 496) 4)

end Hv.Vmtar
