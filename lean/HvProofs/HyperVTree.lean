/- C17, second part: the tree assembly (`childrenOf`, `treeOf`, `asDict`): fuel sufficiency for arbitrary parent
   references, and `tree_decode` (a stored layout decodes to the tree it encodes). Core Lean only. -/
import HvProofs.HyperV
namespace Hv.HyperV
open Hv Hv.Extracted.hyperv

/-! ### small facts about `mapE`, `dictSet`, `childrenOf` -/

theorem mapE_error {α β : Type} (g : α → Except Err β) : ∀ (l : List α) (x : Err), mapE g l = .error x → ∃ a ∈ l, g a = .error x := by
  intro l
  induction l with
  | nil => intro x h; simp [mapE] at h
  | cons a r ih =>
    intro x h
    unfold mapE at h
    cases ha : g a with
    | error y => rw [ha] at h; simp only [Except.error.injEq] at h; subst h; exact ⟨a, by simp, ha⟩
    | ok b =>
      rw [ha] at h; simp only [] at h
      cases hr : mapE g r with
      | error y => rw [hr] at h; simp only [Except.error.injEq] at h; subst h; obtain ⟨a', h1, h2⟩ := ih y hr; exact ⟨a', by simp [h1], h2⟩
      | ok bs => rw [hr] at h; cases h

theorem mem_dictSet (k : Bytes) (v : Link) (d : List (Bytes × Link)) (kv : Bytes × Link) (h : kv ∈ dictSet k v d) :
    kv = (k, v) ∨ kv ∈ d := by
  induction d with
  | nil => simp [dictSet] at h; exact .inl h
  | cons p r ih =>
    obtain ⟨k', v'⟩ := p
    simp only [dictSet] at h
    split at h
    · simp only [List.mem_cons] at h
      rcases h with h | h
      · exact .inl h
      · exact .inr (by simp [h])
    · simp only [List.mem_cons] at h
      rcases h with h | h
      · exact .inr (by simp [h])
      · rcases ih h with h | h
        · exact .inl h
        · exact .inr (by simp [h])

theorem mem_foldl_dictSet (ls : List Link) : ∀ (d : List (Bytes × Link)) (kv : Bytes × Link),
    kv ∈ ls.foldl (fun d l => dictSet l.key l d) d → kv ∈ d ∨ (kv.2 ∈ ls ∧ kv.1 = kv.2.key) := by
  induction ls with
  | nil => intro d kv h; exact .inl h
  | cons l r ih =>
    intro d kv h
    simp only [List.foldl_cons] at h
    rcases ih _ kv h with h | h
    · rcases mem_dictSet _ _ _ _ h with h | h
      · subst h; exact .inr ⟨by simp, rfl⟩
      · exact .inl h
    · exact .inr ⟨by simp [h.1], h.2⟩

/-- members of a `children` dict are links whose parent is that node -/
theorem mem_childrenOf (links : List Link) (p : Option Ref) (kv : Bytes × Link) (h : kv ∈ childrenOf links p) :
    kv.2 ∈ links ∧ kv.2.parent = p ∧ kv.1 = kv.2.key := by
  unfold childrenOf at h
  rcases mem_foldl_dictSet _ [] kv h with h | h
  · cases h
  · have := List.mem_filter.1 h.1
    exact ⟨this.1, by simpa using this.2, h.2⟩


/-! ### leaf decoding never reports exhausted fuel -/

theorem map_err {α β : Type} (r : Except Err α) (g : α → β) (x : Err) (h : r.map g = .error x) : r = .error x := by
  cases r with
  | error y => simpa [Except.map] using h
  | ok a => simp [Except.map] at h

theorem unpack_err (fmt : Option (Bool × Nat)) (n : Nat) (d : Bytes) (x : Err) (h : unpack fmt n d = .error x) : x ≠ .nonTermination := by
  unfold unpack at h
  split at h
  · cases h; simp
  · split at h
    · cases h; simp
    · split at h <;> cases h

theorem decodeUtf16_err (b : Bytes) (x : Err) (h : decodeUtf16 b = .error x) : x ≠ .nonTermination := by
  unfold decodeUtf16 at h
  split at h
  · cases h; simp
  · split at h <;> cases h; simp

theorem decodeValue_err (ty : Nat) (isFo : Bool) (d : Bytes) (x : Err) (h : decodeValue ty isFo d = .error x) : x ≠ .nonTermination := by
  unfold decodeValue at h
  split at h
  · exact unpack_err _ _ _ _ (map_err _ _ _ h)
  · split at h
    · exact unpack_err _ _ _ _ (map_err _ _ _ h)
    · split at h
      · exact unpack_err _ _ _ _ (map_err _ _ _ h)
      · split at h
        · simp only [bind, Except.bind] at h
          split at h
          · rename_i y hy
            cases h
            split at hy
            · cases hy
            · exact unpack_err _ _ _ _ (map_err _ _ _ hy)
          · split at h
            · exact decodeUtf16_err _ _ (map_err _ _ _ h)
            · cases h
        · split at h
          · exact unpack_err _ _ _ _ (map_err _ _ _ h)
          · cases h; simp

theorem valueOf_err (f : File) (fos : List (Nat × Nat)) (e : Entry) (x : Err) (h : valueOf f fos e = .error x) : x ≠ .nonTermination := by
  unfold valueOf at h
  split at h
  · rename_i y hy
    cases h
    unfold entryData at hy
    simp only [] at hy
    split at hy
    · split at hy
      · cases hy; simp
      · split at hy
        · cases hy; simp
        · split at hy <;> cases hy; simp
    · cases hy
  · exact decodeValue_err _ _ _ _ h


/-! ### depth of a link below the root -/

def refOf (l : Link) : Ref := (l.idx, l.entry.offset)

/-- an entry reference (table index, offset) names one link -/
def UniqueRefs (links : List Link) : Prop := ∀ a ∈ links, ∀ b ∈ links, refOf a = refOf b → a = b

/-- `Anc links d l`: following parent references from `l` reaches the root after `d` steps -/
inductive Anc (links : List Link) : Nat → Link → Prop
  | root (l : Link) : l ∈ links → l.parent = none → Anc links 0 l
  | step (l p : Link) (d : Nat) : l ∈ links → Anc links d p → l.parent = some (refOf p) → Anc links (d + 1) l

theorem Anc.mem {links : List Link} {d : Nat} {l : Link} (h : Anc links d l) : l ∈ links := by
  cases h <;> assumption

theorem Anc.unique {links : List Link} (hu : UniqueRefs links) : ∀ {d : Nat} {l : Link}, Anc links d l → ∀ {d' : Nat}, Anc links d' l → d = d' := by
  intro d l h
  induction h with
  | root l _ hp =>
    intro d' h'
    cases h' with
    | root => rfl
    | step _ p _ _ _ hp' => rw [hp] at hp'; cases hp'
  | step l p d _ hpa hp ih =>
    intro d' h'
    cases h' with
    | root _ _ hp' => rw [hp] at hp'; cases hp'
    | step _ p' d'' _ hpa' hp' =>
      rw [hp] at hp'
      have : p = p' := hu p hpa.mem p' hpa'.mem (by simpa using hp')
      subst this
      rw [ih hpa']

theorem Anc.chain {links : List Link} : ∀ {d : Nat} {l : Link}, Anc links d l →
    ∃ ch : List Link, ch.length = d + 1 ∧ ∀ i (hi : i < ch.length), Anc links i ch[i] := by
  intro d l h
  induction h with
  | root l hm hp => exact ⟨[l], rfl, fun i hi => by
      have : i = 0 := by simpa using hi
      subst this; exact Anc.root l hm hp⟩
  | step l p d hm hpa hp ih =>
    obtain ⟨ch, hl, hc⟩ := ih
    refine ⟨ch ++ [l], by simp [hl], ?_⟩
    intro i hi
    by_cases h1 : i < ch.length
    · rw [List.getElem_append_left h1]; exact hc i h1
    · have : i = d + 1 := by simp [hl] at hi; omega
      subst this
      rw [List.getElem_append_right (by omega)]
      simp [hl]
      exact Anc.step l p d hm hpa hp

/-- root paths do not repeat a link: depth < number of links -/
theorem Anc.depth_lt {links : List Link} (hu : UniqueRefs links) {d : Nat} {l : Link} (h : Anc links d l) : d < links.length := by
  obtain ⟨ch, hl, hc⟩ := h.chain
  have hn : ch.Nodup := by
    rw [List.Nodup, List.pairwise_iff_getElem]
    intro i j hi hj hij heq
    have := Anc.unique hu (hc i hi) (heq ▸ hc j hj)
    omega
  have hs : ch ⊆ links := by
    intro a ha
    obtain ⟨i, hi, rfl⟩ := List.getElem_of_mem ha
    exact (hc i hi).mem
  have := List.Nodup.length_le_of_subset hn hs
  omega


/-! ### the tree assembly never exhausts its fuel -/

/-- the function `treeOf` maps over a `children` dict -/
def childStep (f : File) (fos : List (Nat × Nat)) (links : List Link) (fuel : Nat) (kc : Bytes × Link) : Except Err (Bytes × Tree) :=
  match treeOf f fos links fuel kc.2 with
  | .error x => .error x
  | .ok t => .ok (kc.1, t)

theorem treeOf_succ (f : File) (fos : List (Nat × Nat)) (links : List Link) (fuel : Nat) (l : Link) :
    treeOf f fos links (fuel + 1) l =
      if l.entry.kind = tNode then
        match mapE (childStep f fos links fuel) (childrenOf links (some (l.idx, l.entry.offset))) with
        | .error x => .error x
        | .ok cs => .ok (.node cs)
      else match valueOf f fos l.entry with
        | .error x => .error x
        | .ok v => .ok (.leaf v) := by
  rfl

theorem childStep_error (f : File) (fos : List (Nat × Nat)) (links : List Link) (fuel : Nat) (kc : Bytes × Link) (x : Err)
    (h : childStep f fos links fuel kc = .error x) : treeOf f fos links fuel kc.2 = .error x := by
  unfold childStep at h
  split at h
  · rename_i y hy; simp only [Except.error.injEq] at h; subst h; exact hy
  · cases h

theorem treeOf_fuel (f : File) (fos : List (Nat × Nat)) (links : List Link) (hu : UniqueRefs links) :
    ∀ fuel d l, Anc links d l → links.length ≤ fuel + d → treeOf f fos links fuel l ≠ .error .nonTermination := by
  intro fuel
  induction fuel with
  | zero =>
    intro d l ha hle
    have := ha.depth_lt hu
    omega
  | succ fuel ih =>
    intro d l ha hle
    rw [treeOf_succ]
    split
    · split
      · rename_i x hx
        obtain ⟨kc, hkc, hg⟩ := mapE_error _ _ _ hx
        have hm := mem_childrenOf links _ kc hkc
        have ha' : Anc links (d + 1) kc.2 := Anc.step kc.2 l d hm.1 ha hm.2.1
        have := ih (d + 1) kc.2 ha' (by omega)
        intro hc
        simp only [Except.error.injEq] at hc
        subst hc
        exact this (childStep_error _ _ _ _ _ _ hg)
      · simp
    · split
      · rename_i x hx
        intro hc; simp only [Except.error.injEq] at hc; subst hc
        exact valueOf_err _ _ _ _ hx rfl
      · simp


/-! ### what `linkAll` produces -/

theorem linkEntries_mem (kts : List (Nat × List KeyTable)) (i : Nat) : ∀ (es : List Entry) (ls : List Link),
    linkEntries kts i es = .ok ls → ∀ l ∈ ls, l.idx = i ∧ l.entry ∈ es ∧ parentOf kts l.entry = .ok l.parent ∧ keyOf l.entry = .ok l.key := by
  intro es
  induction es with
  | nil => intro ls h l hl; simp [linkEntries] at h; subst h; cases hl
  | cons e es ih =>
    intro ls h l hl
    unfold linkEntries at h
    split at h
    · obtain ⟨a, b, c, d⟩ := ih ls h l hl
      exact ⟨a, by simp [b], c, d⟩
    · cases hp : parentOf kts e with
      | error x => rw [hp] at h; cases h
      | ok p =>
        rw [hp] at h; simp only [] at h
        cases hk : keyOf e with
        | error x => rw [hk] at h; cases h
        | ok k =>
          rw [hk] at h; simp only [] at h
          cases hr : linkEntries kts i es with
          | error x => rw [hr] at h; cases h
          | ok ls' =>
            rw [hr] at h; simp only [Except.ok.injEq] at h
            subst h
            simp only [List.mem_cons] at hl
            rcases hl with hl | hl
            · subst hl; exact ⟨rfl, by simp, hp, hk⟩
            · obtain ⟨a, b, c, d⟩ := ih ls' hr l hl
              exact ⟨a, by simp [b], c, d⟩

theorem linkAll_mem (kts : List (Nat × List KeyTable)) : ∀ (kts' : List (Nat × List KeyTable)) (links : List Link),
    linkAll kts kts' = .ok links → ∀ l ∈ links, ∃ t rest, (l.idx, t :: rest) ∈ kts' ∧ l.entry ∈ t.entries ∧
      parentOf kts l.entry = .ok l.parent ∧ keyOf l.entry = .ok l.key := by
  intro kts'
  induction kts' with
  | nil => intro links h l hl; simp [linkAll] at h; subst h; cases hl
  | cons p r ih =>
    intro links h l hl
    obtain ⟨i, ts⟩ := p
    cases ts with
    | nil => simp [linkAll] at h
    | cons t rest =>
      simp only [linkAll] at h
      cases ha : linkEntries kts i t.entries with
      | error x => rw [ha] at h; cases h
      | ok a =>
        rw [ha] at h; simp only [] at h
        cases hb : linkAll kts r with
        | error x => rw [hb] at h; cases h
        | ok b =>
          rw [hb] at h; simp only [Except.ok.injEq] at h
          subst h
          rcases List.mem_append.1 hl with hl | hl
          · obtain ⟨h1, h2, h3, h4⟩ := linkEntries_mem kts i t.entries a ha l hl
            exact ⟨t, rest, by simp [h1], h2, h3, h4⟩
          · obtain ⟨t', rest', h1, h2, h3, h4⟩ := ih b hb l hl
            exact ⟨t', rest', by simp [h1], h2, h3, h4⟩

def OffsetsInc (es : List Entry) : Prop := es.Pairwise (fun a b => a.offset < b.offset)

/-- registry shape: one list per index, every table's entries at strictly increasing offsets -/
def RegOK (kts : List (Nat × List KeyTable)) : Prop :=
  (kts.map Prod.fst).Nodup ∧ ∀ p ∈ kts, ∀ t ∈ p.2, OffsetsInc t.entries

theorem eq_of_offset_eq {es : List Entry} (h : OffsetsInc es) {a b : Entry} (ha : a ∈ es) (hb : b ∈ es) (e : a.offset = b.offset) : a = b := by
  induction es with
  | nil => cases ha
  | cons x r ih =>
    simp only [OffsetsInc, List.pairwise_cons] at h
    simp only [List.mem_cons] at ha hb
    rcases ha with ha | ha <;> rcases hb with hb | hb
    · rw [ha, hb]
    · subst ha; have := h.1 b hb; omega
    · subst hb; have := h.1 a ha; omega
    · exact ih h.2 ha hb

theorem snd_eq_of_nodup_fst {α : Type} {l : List (Nat × α)} (h : (l.map Prod.fst).Nodup) {i : Nat} {a b : α}
    (ha : (i, a) ∈ l) (hb : (i, b) ∈ l) : a = b := by
  induction l with
  | nil => cases ha
  | cons x r ih =>
    simp only [List.map_cons, List.nodup_cons] at h
    simp only [List.mem_cons] at ha hb
    rcases ha with ha | ha <;> rcases hb with hb | hb
    · rw [← ha] at hb; exact (Prod.mk.inj hb).2.symm
    · subst ha; exact absurd (List.mem_map_of_mem (f := Prod.fst) hb) h.1
    · subst hb; exact absurd (List.mem_map_of_mem (f := Prod.fst) ha) h.1
    · exact ih h.2 ha hb

theorem linkAll_uniqueRefs (kts kts' : List (Nat × List KeyTable)) (hk : RegOK kts') (links : List Link)
    (h : linkAll kts kts' = .ok links) : UniqueRefs links := by
  intro a ha b hb hab
  obtain ⟨ta, ra, a1, a2, a3, a4⟩ := linkAll_mem kts kts' links h a ha
  obtain ⟨tb, rb, b1, b2, b3, b4⟩ := linkAll_mem kts kts' links h b hb
  simp only [refOf, Prod.mk.injEq] at hab
  rw [← hab.1] at b1
  have := snd_eq_of_nodup_fst hk.1 a1 b1
  simp only [List.cons.injEq] at this
  obtain ⟨rfl, _⟩ := this
  have he : a.entry = b.entry := eq_of_offset_eq (hk.2 _ a1 ta (by simp)) a2 b2 hab.2
  cases a; cases b
  simp only at he hab a3 a4 b3 b4
  obtain ⟨h1, _⟩ := hab
  subst h1 he
  rw [a3] at b3; rw [a4] at b4
  simp only [Except.ok.injEq] at b3 b4
  subst b3 b4
  rfl


/-! ### every registry built by `load` has the shape `RegOK` -/

theorem parseEntry_offset (rest : Bytes) (off : Nat) (e : Entry) (h : parseEntry rest off = .ok e) : e.offset = off := by
  unfold parseEntry at h
  split at h
  · cases h
  · simp only [Except.ok.injEq] at h; subst h; rfl

theorem walkEntries_inc : ∀ (fuel : Nat) (rest : Bytes) (off size : Nat) (es : List Entry),
    walkEntries fuel rest off size = .ok es → OffsetsInc es ∧ ∀ e ∈ es, off ≤ e.offset := by
  intro fuel
  induction fuel with
  | zero =>
    intro rest off size es h
    simp only [walkEntries] at h
    split at h
    · cases h
    · simp only [Except.ok.injEq] at h; subst h; exact ⟨List.Pairwise.nil, by simp⟩
  | succ fuel ih =>
    intro rest off size es h
    unfold walkEntries at h
    split at h
    · simp only [Except.ok.injEq] at h; subst h; exact ⟨List.Pairwise.nil, by simp⟩
    · split at h
      · cases h
      · rename_i e he
        split at h
        · simp only [Except.ok.injEq] at h; subst h; exact ⟨List.Pairwise.nil, by simp⟩
        · rename_i hz
          split at h
          · cases h
          · rename_i es' hes
            simp only [Except.ok.injEq] at h; subst h
            obtain ⟨h1, h2⟩ := ih _ _ _ _ hes
            have ho := parseEntry_offset _ _ _ he
            refine ⟨List.pairwise_cons.2 ⟨fun x hx => by have := h2 x hx; omega, h1⟩, ?_⟩
            intro x hx
            simp only [List.mem_cons] at hx
            rcases hx with hx | hx
            · subst hx; omega
            · have := h2 x hx; omega

theorem parseKeyTable_inc (raw : Bytes) (size : Nat) (t : KeyTable) (h : parseKeyTable raw size = .ok t) : OffsetsInc t.entries := by
  unfold parseKeyTable at h
  split at h
  · cases h
  · split at h
    · cases h
    · split at h
      · cases h
      · rename_i es hes
        simp only [Except.ok.injEq] at h; subst h
        exact (walkEntries_inc _ _ _ _ _ hes).1

theorem register_keys (t : KeyTable) (acc : List (Nat × List KeyTable)) :
    (register t acc).map Prod.fst = if t.index ∈ acc.map Prod.fst then acc.map Prod.fst else acc.map Prod.fst ++ [t.index] := by
  induction acc with
  | nil => simp [register]
  | cons p r ih =>
    obtain ⟨i, ts⟩ := p
    by_cases h : i = t.index
    · simp [register, h]
    · have h' : ¬ t.index = i := fun e => h e.symm
      simp only [register, h, if_false, List.map_cons, ih, List.mem_cons, h', false_or]
      split <;> simp

theorem register_tables (t : KeyTable) (acc : List (Nat × List KeyTable)) :
    ∀ p ∈ register t acc, ∀ u ∈ p.2, u = t ∨ ∃ q ∈ acc, u ∈ q.2 := by
  induction acc with
  | nil => intro p hp u hu; simp [register] at hp; subst hp; simp at hu; exact .inl hu
  | cons q r ih =>
    obtain ⟨i, ts⟩ := q
    intro p hp u hu
    simp only [register] at hp
    split at hp
    · simp only [List.mem_cons] at hp
      rcases hp with hp | hp
      · subst hp
        rcases (mem_insertBySeq t u ts).1 hu with h | h
        · exact .inl h
        · exact .inr ⟨(i, ts), by simp, h⟩
      · exact .inr ⟨p, by simp [hp], hu⟩
    · simp only [List.mem_cons] at hp
      rcases hp with hp | hp
      · subst hp; exact .inr ⟨(i, ts), by simp, hu⟩
      · rcases ih p hp u hu with h | ⟨q, hq, h⟩
        · exact .inl h
        · exact .inr ⟨q, by simp [hq], h⟩

theorem RegOK_register (t : KeyTable) (acc : List (Nat × List KeyTable)) (h : RegOK acc) (ht : OffsetsInc t.entries) :
    RegOK (register t acc) := by
  refine ⟨?_, ?_⟩
  · rw [register_keys]
    split
    · exact h.1
    · rename_i hn
      exact List.nodup_append.2 ⟨h.1, by simp, by
        intro a ha b hb; simp at hb; subst hb; intro e; subst e; exact hn ha⟩
  · intro p hp u hu
    rcases register_tables t acc p hp u hu with rfl | ⟨q, hq, hu'⟩
    · exact ht
    · exact h.2 q hq u hu'

theorem stepReg_RegOK (f : File) (e : ObjEntry) (r r' : Reg) (hr : RegOK r.keyTables) (h : stepReg f e r = .ok r') : RegOK r'.keyTables := by
  unfold stepReg at h
  simp only [bind, Except.bind] at h
  split at h
  · cases h
  · rename_i r1 h1
    have ok1 : RegOK r1.keyTables := by
      split at h1
      · split at h1
        · cases h1
        · rename_i t ht
          simp only [Except.ok.injEq] at h1; subst h1
          exact RegOK_register t _ hr (parseKeyTable_inc _ _ _ ht)
      · simp only [Except.ok.injEq] at h1; subst h1; exact hr
    split at h
    · cases h
    · rename_i r2 h2
      have ok2 : RegOK r2.keyTables := by
        split at h2 <;> (simp only [Except.ok.injEq] at h2; subst h2; exact ok1)
      split at h
      · split at h
        · cases h
        · simp only [Except.ok.injEq] at h; subst h; exact ok2
      · simp only [Except.ok.injEq] at h; subst h; exact ok2

theorem stepObj_reg (f : File) (e : ObjEntry) (w w' : Walk) (h : stepObj f e w = .ok w') : w'.reg = w.reg := by
  unfold stepObj at h
  split at h
  · split at h
    · cases h
    · simp only [Except.ok.injEq] at h; subst h; rfl
  · simp only [Except.ok.injEq] at h; subst h; rfl

theorem stepEntry_RegOK (f : File) (e : ObjEntry) (w w' : Walk) (hr : RegOK w.reg.keyTables) (h : stepEntry f e w = .ok w') :
    RegOK w'.reg.keyTables := by
  unfold stepEntry at h
  split at h
  · simp only [Except.ok.injEq] at h; subst h; exact hr
  · split at h
    · cases h
    · rename_i w1 h1
      split at h
      · cases h
      · rename_i r h2
        simp only [Except.ok.injEq] at h; subst h
        exact stepReg_RegOK f e _ r (by rw [stepObj_reg f e w w1 h1]; exact hr) h2

theorem stepEntries_RegOK (f : File) : ∀ (es : List ObjEntry) (w w' : Walk), RegOK w.reg.keyTables → stepEntries f es w = .ok w' →
    RegOK w'.reg.keyTables := by
  intro es
  induction es with
  | nil => intro w w' hr h; simp only [stepEntries, Except.ok.injEq] at h; subst h; exact hr
  | cons e es ih =>
    intro w w' hr h
    unfold stepEntries at h
    split at h
    · cases h
    · rename_i w1 h1
      exact ih w1 w' (stepEntry_RegOK f e w w1 hr h1) h

theorem walkTables_RegOK (f : File) : ∀ (fuel : Nat) (w : Walk) (r : Reg), RegOK w.reg.keyTables → walkTables f fuel w = .ok r →
    RegOK r.keyTables := by
  intro fuel
  induction fuel with
  | zero =>
    intro w r hr h
    unfold walkTables at h
    split at h
    · simp only [Except.ok.injEq] at h; subst h; exact hr
    · cases h
  | succ fuel ih =>
    intro w r hr h
    unfold walkTables at h
    split at h
    · simp only [Except.ok.injEq] at h; subst h; exact hr
    · split at h
      · cases h
      · rename_i w' h1
        have key := fun hh => stepEntries_RegOK f _ _ w' hh h1
        exact ih w' r (key hr) h

theorem load_RegOK (f : File) (r : Reg) (h : load f = .ok r) : RegOK r.keyTables := by
  unfold load at h
  simp only [bind, Except.bind] at h
  repeat' (split at h)
  all_goals first | (cases h; done) | skip
  all_goals exact walkTables_RegOK f _ _ r ⟨by simp, by intro p hp; cases hp⟩ h


/-! ### `as_dict` / the typed walk never exhaust the fuel -/

theorem linkEntries_err (kts : List (Nat × List KeyTable)) (i : Nat) : ∀ (es : List Entry) (x : Err),
    linkEntries kts i es = .error x → x ≠ .nonTermination := by
  intro es
  induction es with
  | nil => intro x h; simp [linkEntries] at h
  | cons e es ih =>
    intro x h
    unfold linkEntries at h
    split at h
    · exact ih x h
    · split at h
      · rename_i y hy
        simp only [Except.error.injEq] at h; subst h
        unfold parentOf at hy
        split at hy
        · cases hy
        · split at hy
          · cases hy; simp
          · split at hy <;> cases hy; simp
      · split at h
        · rename_i y hy
          simp only [Except.error.injEq] at h; subst h
          unfold keyOf at hy
          simp only [] at hy
          split at hy <;> cases hy; simp
        · split at h
          · rename_i y hy; simp only [Except.error.injEq] at h; subst h; exact ih _ hy
          · cases h

theorem linkAll_err (kts : List (Nat × List KeyTable)) : ∀ (kts' : List (Nat × List KeyTable)) (x : Err),
    linkAll kts kts' = .error x → x ≠ .nonTermination := by
  intro kts'
  induction kts' with
  | nil => intro x h; simp [linkAll] at h
  | cons p r ih =>
    intro x h
    obtain ⟨i, ts⟩ := p
    cases ts with
    | nil => simp only [linkAll, Except.error.injEq] at h; subst h; simp
    | cons t rest =>
      simp only [linkAll] at h
      split at h
      · rename_i y hy; simp only [Except.error.injEq] at h; subst h; exact linkEntries_err _ _ _ _ hy
      · split at h
        · rename_i y hy; simp only [Except.error.injEq] at h; subst h; exact ih _ hy
        · cases h

theorem openFile_spec (f : File) :
    (∀ x, openFile f = .error x → x ≠ .nonTermination) ∧ (∀ L, openFile f = .ok L → UniqueRefs L.links) := by
  unfold openFile
  cases hl : load f with
  | error x =>
    refine ⟨fun y hy => ?_, fun _ h => (by cases h)⟩
    simp only [Except.error.injEq] at hy; subst hy
    intro hc; subst hc; exact load_terminates f hl
  | ok reg =>
    simp only []
    cases hk : linkAll reg.keyTables reg.keyTables with
    | error x =>
      refine ⟨fun y hy => ?_, fun _ h => (by cases h)⟩
      simp only [Except.error.injEq] at hy; subst hy
      exact linkAll_err _ _ _ hk
    | ok links =>
      refine ⟨fun _ h => (by cases h), fun L h => ?_⟩
      simp only [Except.ok.injEq] at h; subst h
      exact linkAll_uniqueRefs _ _ (load_RegOK f reg hl) links hk

/-- the root-level step of `asDict` (root entries must be nodes) -/
def rootA (f : File) (L : Loaded) (kc : Bytes × Link) : Except Err (Bytes × Tree) :=
  if kc.2.entry.kind ≠ tNode then .error .other else
  match treeOf f L.reg.fileObjects L.links (L.links.length + 1) kc.2 with
  | .error x => .error x
  | .ok t => .ok (kc.1, t)

/-- the root-level step of `typedTree` -/
def rootT (f : File) (L : Loaded) (kc : Bytes × Link) : Except Err (Bytes × Tree) :=
  match treeOf f L.reg.fileObjects L.links (L.links.length + 1) kc.2 with
  | .error x => .error x
  | .ok t => .ok (kc.1, t)

def dictOf (L : Loaded) (g : Bytes × Link → Except Err (Bytes × Tree)) : Except Err Tree :=
  match mapE g (childrenOf L.links none) with
  | .error x => .error x
  | .ok cs => .ok (.node cs)

theorem asDict_eq (f : File) : asDict f = match openFile f with | .error x => .error x | .ok L => dictOf L (rootA f L) := by
  unfold asDict
  cases openFile f <;> rfl

theorem typedTree_eq (f : File) : typedTree f = match openFile f with | .error x => .error x | .ok L => dictOf L (rootT f L) := by
  unfold typedTree
  cases openFile f <;> rfl

theorem rootStep_error (f : File) (L : Loaded) (kc : Bytes × Link) (x : Err)
    (h : rootA f L kc = .error x ∨ rootT f L kc = .error x) :
    x = .other ∨ treeOf f L.reg.fileObjects L.links (L.links.length + 1) kc.2 = .error x := by
  rcases h with h | h
  · unfold rootA at h
    split at h
    · simp only [Except.error.injEq] at h; exact .inl h.symm
    · split at h
      · rename_i y hy; simp only [Except.error.injEq] at h; subst h; exact .inr hy
      · cases h
  · unfold rootT at h
    split at h
    · rename_i y hy; simp only [Except.error.injEq] at h; subst h; exact .inr hy
    · cases h

theorem dictOf_terminates (f : File) (L : Loaded) (hu : UniqueRefs L.links) (g : Bytes × Link → Except Err (Bytes × Tree))
    (hg : g = rootA f L ∨ g = rootT f L) : dictOf L g ≠ .error .nonTermination := by
  unfold dictOf
  split
  · rename_i x hx
    obtain ⟨kc, hkc, he⟩ := mapE_error _ _ _ hx
    have hm := mem_childrenOf L.links none kc hkc
    intro hc; simp only [Except.error.injEq] at hc; subst hc
    have := rootStep_error f L kc _ (by rcases hg with rfl | rfl; exact .inl he; exact .inr he)
    rcases this with h | h
    · cases h
    · exact treeOf_fuel f _ L.links hu (L.links.length + 1) 0 kc.2 (Anc.root kc.2 hm.1 hm.2.1) (by omega) h
  · simp

theorem asDict_terminates' (f : File) : asDict f ≠ .error .nonTermination ∧ typedTree f ≠ .error .nonTermination := by
  rw [asDict_eq, typedTree_eq]
  have sp := openFile_spec f
  cases h : openFile f with
  | error x => exact ⟨fun hc => by simp only [Except.error.injEq] at hc; exact sp.1 x h hc, fun hc => by simp only [Except.error.injEq] at hc; exact sp.1 x h hc⟩
  | ok L => exact ⟨dictOf_terminates f L (sp.2 L h) _ (.inl rfl), dictOf_terminates f L (sp.2 L h) _ (.inr rfl)⟩


/-! ### a link represents a tree -/

/-- `RepT t l`: the sub-structure hanging below link `l` is the tree `t` (children in dict order) -/
def RepT (f : File) (fos : List (Nat × Nat)) (links : List Link) : Tree → Link → Prop
  | .leaf v, l => l.entry.kind ≠ tNode ∧ valueOf f fos l.entry = .ok v
  | .node cs, l => l.entry.kind = tNode ∧ RepL cs (childrenOf links (some (l.idx, l.entry.offset)))
where RepL : List (Bytes × Tree) → List (Bytes × Link) → Prop
  | [], kls => kls = []
  | (k, t) :: cs, kls => ∃ l rest, kls = (k, l) :: rest ∧ RepT f fos links t l ∧ RepL cs rest

theorem mapE_children (f : File) (fos : List (Nat × Nat)) (links : List Link) (fuel : Nat)
    (ih : ∀ t l, RepT f fos links t l → treeOf f fos links fuel l ≠ .error .nonTermination → treeOf f fos links fuel l = .ok t) :
    ∀ (cs : List (Bytes × Tree)) (kls : List (Bytes × Link)), RepT.RepL f fos links cs kls →
      mapE (childStep f fos links fuel) kls ≠ .error .nonTermination → mapE (childStep f fos links fuel) kls = .ok cs := by
  intro cs
  induction cs with
  | nil => intro kls h _; simp only [RepT.RepL] at h; subst h; rfl
  | cons c cs ihl =>
    obtain ⟨k, t⟩ := c
    intro kls h hn
    simp only [RepT.RepL] at h
    obtain ⟨l, rest, rfl, ht, hr⟩ := h
    unfold mapE at hn ⊢
    have h1 : treeOf f fos links fuel l ≠ .error .nonTermination := by
      intro hc; apply hn; simp [childStep, hc]
    have h2 := ih t l ht h1
    have hs : childStep f fos links fuel (k, l) = .ok (k, t) := by simp [childStep, h2]
    rw [hs] at hn ⊢
    simp only [] at hn ⊢
    have h3 : mapE (childStep f fos links fuel) rest ≠ .error .nonTermination := by
      intro hc; apply hn; rw [hc]
    rw [ihl rest hr h3]

theorem treeOf_of_rep (f : File) (fos : List (Nat × Nat)) (links : List Link) : ∀ fuel t l, RepT f fos links t l →
    treeOf f fos links fuel l ≠ .error .nonTermination → treeOf f fos links fuel l = .ok t := by
  intro fuel
  induction fuel with
  | zero => intro t l _ h; exact absurd rfl h
  | succ fuel ih =>
    intro t l hr hn
    rw [treeOf_succ] at hn ⊢
    cases t with
    | leaf v =>
      simp only [RepT] at hr
      rw [if_neg hr.1, hr.2]
    | node cs =>
      simp only [RepT] at hr
      rw [if_pos hr.1] at hn ⊢
      have h3 : mapE (childStep f fos links fuel) (childrenOf links (some (l.idx, l.entry.offset))) ≠ .error .nonTermination := by
        intro hc; apply hn; rw [hc]
      rw [mapE_children f fos links fuel ih cs _ hr.2 h3]


theorem mapE_congr {α β : Type} (g g' : α → Except Err β) : ∀ (l : List α), (∀ a ∈ l, g a = g' a) → mapE g l = mapE g' l := by
  intro l
  induction l with
  | nil => intro _; rfl
  | cons a r ih =>
    intro h
    unfold mapE
    rw [h a (by simp), ih (fun x hx => h x (by simp [hx]))]

theorem RepL_mem (f : File) (fos : List (Nat × Nat)) (links : List Link) : ∀ (cs : List (Bytes × Tree)) (kls : List (Bytes × Link)),
    RepT.RepL f fos links cs kls → ∀ kc ∈ kls, ∃ t, (kc.1, t) ∈ cs ∧ RepT f fos links t kc.2 := by
  intro cs
  induction cs with
  | nil => intro kls h kc hkc; simp only [RepT.RepL] at h; subst h; cases hkc
  | cons c cs ih =>
    obtain ⟨k, t⟩ := c
    intro kls h kc hkc
    simp only [RepT.RepL] at h
    obtain ⟨l, rest, rfl, ht, hr⟩ := h
    simp only [List.mem_cons] at hkc
    rcases hkc with rfl | hkc
    · exact ⟨t, by simp, ht⟩
    · obtain ⟨t', h1, h2⟩ := ih rest hr kc hkc
      exact ⟨t', by simp [h1], h2⟩

/-- **assembly**: if the root dict represents the children `cs`, both walks return the tree `node cs` -/
theorem dictOf_of_rep (f : File) (L : Loaded) (hu : UniqueRefs L.links) (cs : List (Bytes × Tree))
    (hr : RepT.RepL f L.reg.fileObjects L.links cs (childrenOf L.links none)) :
    dictOf L (rootT f L) = .ok (.node cs) ∧
    ((∀ kt ∈ cs, ∃ cs', kt.2 = .node cs') → dictOf L (rootA f L) = .ok (.node cs)) := by
  have hstep : rootT f L = childStep f L.reg.fileObjects L.links (L.links.length + 1) := by funext kc; rfl
  have hn : mapE (childStep f L.reg.fileObjects L.links (L.links.length + 1)) (childrenOf L.links none) ≠ .error .nonTermination := by
    intro hc
    obtain ⟨kc, hkc, he⟩ := mapE_error _ _ _ hc
    have hm := mem_childrenOf L.links none kc hkc
    exact treeOf_fuel f _ L.links hu (L.links.length + 1) 0 kc.2 (Anc.root kc.2 hm.1 hm.2.1) (by omega) (childStep_error _ _ _ _ _ _ he)
  have hT := mapE_children f L.reg.fileObjects L.links (L.links.length + 1)
    (treeOf_of_rep f L.reg.fileObjects L.links (L.links.length + 1)) cs _ hr hn
  refine ⟨by unfold dictOf; rw [hstep, hT], ?_⟩
  intro hnodes
  have hA : mapE (rootA f L) (childrenOf L.links none) = mapE (rootT f L) (childrenOf L.links none) := by
    apply mapE_congr
    intro kc hkc
    obtain ⟨t, h1, h2⟩ := RepL_mem f _ _ cs _ hr kc hkc
    obtain ⟨cs', h3⟩ := hnodes _ h1
    simp only at h3
    subst h3
    simp only [RepT] at h2
    unfold rootA
    rw [if_neg (by simp [h2.1])]
    rfl
  unfold dictOf
  rw [hA, hstep, hT]


/-! ### from the entries of the active tables to the links (`pref`, `nonFree`, `firstIdx`, `ActiveOf`, `actEntries`, `ParentOK`
    are defined in `Hv.HyperVEnc`) -/

def keyD (e : Entry) : Bytes := match keyOf e with | .ok k => k | .error _ => []

def mkLink (ie : Nat × Entry) : Link := { parent := pref ie.2, key := keyD ie.2, idx := ie.1, entry := ie.2 }

/-- all linkable entries (table index, entry) of the active tables, in linking order -/
def allEntries : List (Nat × List KeyTable) → List (Nat × Entry)
  | [] => []
  | (_, []) :: r => allEntries r
  | (i, t :: _) :: r => (nonFree t.entries).map (fun e => (i, e)) ++ allEntries r

/-- every linkable entry has a resolvable parent reference and a decodable key -/
def Linkable (kts : List (Nat × List KeyTable)) (ies : List (Nat × Entry)) : Prop :=
  ∀ ie ∈ ies, parentOf kts ie.2 = .ok (pref ie.2) ∧ ∃ k, keyOf ie.2 = .ok k

theorem linkEntries_eq (kts : List (Nat × List KeyTable)) (i : Nat) : ∀ (es : List Entry),
    Linkable kts ((nonFree es).map (fun e => (i, e))) → linkEntries kts i es = .ok (((nonFree es).map (fun e => (i, e))).map mkLink) := by
  intro es
  induction es with
  | nil => intro _; rfl
  | cons e es ih =>
    intro h
    unfold linkEntries
    by_cases hf : e.kind = tFree
    · have : nonFree (e :: es) = nonFree es := by simp [nonFree, hf]
      rw [if_pos hf, this]
      rw [this] at h
      exact ih h
    · have hnf : nonFree (e :: es) = e :: nonFree es := by simp [nonFree, hf]
      rw [hnf] at h ⊢
      obtain ⟨hp, k, hk⟩ := h (i, e) (by simp)
      simp only at hp hk
      rw [if_neg hf, hp, hk]
      simp only []
      rw [ih (fun ie hie => h ie (by simp only [List.map_cons, List.mem_cons]; exact .inr hie))]
      simp [mkLink, keyD, hk]

theorem linkAll_eq (kts : List (Nat × List KeyTable)) : ∀ (kts' : List (Nat × List KeyTable)),
    (∀ p ∈ kts', p.2 ≠ []) → Linkable kts (allEntries kts') → linkAll kts kts' = .ok ((allEntries kts').map mkLink) := by
  intro kts'
  induction kts' with
  | nil => intro _ _; rfl
  | cons p r ih =>
    obtain ⟨i, ts⟩ := p
    intro hne h
    cases ts with
    | nil => exact absurd rfl (hne (i, []) (by simp))
    | cons t rest =>
      simp only [allEntries] at h ⊢
      simp only [linkAll]
      rw [linkEntries_eq kts i t.entries (fun ie hie => h ie (List.mem_append.2 (.inl hie)))]
      simp only []
      rw [ih (fun q hq => hne q (by simp [hq])) (fun ie hie => h ie (List.mem_append.2 (.inr hie)))]
      simp

/-! ### `children` dicts with distinct keys -/

theorem dictSet_fresh (k : Bytes) (v : Link) : ∀ (d : List (Bytes × Link)), k ∉ d.map Prod.fst → dictSet k v d = d ++ [(k, v)] := by
  intro d
  induction d with
  | nil => intro _; rfl
  | cons p r ih =>
    obtain ⟨k', v'⟩ := p
    intro h
    simp only [List.map_cons, List.mem_cons, not_or] at h
    simp only [dictSet]
    rw [if_neg (fun e => h.1 e.symm), ih h.2]
    rfl

theorem foldl_dictSet_nodup : ∀ (ls : List Link) (d : List (Bytes × Link)), (d.map Prod.fst ++ ls.map Link.key).Nodup →
    ls.foldl (fun d l => dictSet l.key l d) d = d ++ ls.map (fun l => (l.key, l)) := by
  intro ls
  induction ls with
  | nil => intro d _; simp
  | cons l r ih =>
    intro d h
    have hk : l.key ∉ d.map Prod.fst := by
      intro hc
      have := (List.nodup_append.1 h).2.2 _ hc l.key (by simp)
      exact this rfl
    simp only [List.foldl_cons]
    rw [dictSet_fresh l.key l d hk, ih]
    · simp
    · have e : (d ++ [(l.key, l)]).map Prod.fst ++ r.map Link.key = d.map Prod.fst ++ (l :: r).map Link.key := by simp
      rw [e]; exact h

theorem childrenOf_nodup (links : List Link) (p : Option Ref) (h : ((links.filter (fun l => l.parent = p)).map Link.key).Nodup) :
    childrenOf links p = (links.filter (fun l => l.parent = p)).map (fun l => (l.key, l)) := by
  unfold childrenOf
  rw [foldl_dictSet_nodup _ [] (by simpa using h)]
  simp


/-! ### `Encodes` at the level of the active tables' entries -/

/-- `EncT all t ie`: among the linkable entries `all` of the active tables, entry `ie` (table index, entry) stores the
    tree `t`: a value entry decoding to `v`, or a Node entry whose children — exactly the entries whose parent reference
    is `ie`'s (table index, offset), wherever they are stored — carry the keys of `t`'s children (distinct) and store them -/
def EncT (f : File) (fos : List (Nat × Nat)) (all : List (Nat × Entry)) : Tree → Nat × Entry → Prop
  | .leaf v, ie => ie.2.kind ≠ tNode ∧ valueOf f fos ie.2 = .ok v
  | .node cs, ie => ie.2.kind = tNode ∧ (cs.map Prod.fst).Nodup ∧
      EncL cs (all.filter (fun x => pref x.2 = some (ie.1, ie.2.offset)))
where EncL : List (Bytes × Tree) → List (Nat × Entry) → Prop
  | [], ies => ies = []
  | (k, t) :: cs, ies => ∃ ie rest, ies = ie :: rest ∧ keyOf ie.2 = .ok k ∧ EncT f fos all t ie ∧ EncL cs rest

theorem encL_keys (f : File) (fos : List (Nat × Nat)) (all : List (Nat × Entry)) : ∀ (cs : List (Bytes × Tree)) (ies : List (Nat × Entry)),
    EncT.EncL f fos all cs ies → ies.map (fun ie => keyD ie.2) = cs.map Prod.fst := by
  intro cs
  induction cs with
  | nil => intro ies h; simp only [EncT.EncL] at h; subst h; rfl
  | cons c cs ih =>
    obtain ⟨k, t⟩ := c
    intro ies h
    simp only [EncT.EncL] at h
    obtain ⟨ie, rest, rfl, hk, _, hr⟩ := h
    have e : keyD ie.2 = k := by simp [keyD, hk]
    simp only [List.map_cons, e, ih rest hr]

theorem filter_links (all : List (Nat × Entry)) (p : Option Ref) :
    (all.map mkLink).filter (fun l => l.parent = p) = (all.filter (fun x => pref x.2 = p)).map mkLink := by
  induction all with
  | nil => rfl
  | cons a r ih =>
    simp only [List.map_cons, List.filter_cons, ih]
    by_cases h : pref a.2 = p <;> simp [mkLink, h]

mutual
theorem encT_rep (f : File) (fos : List (Nat × Nat)) (all : List (Nat × Entry)) :
    ∀ (t : Tree) (ie : Nat × Entry), EncT f fos all t ie → RepT f fos (all.map mkLink) t (mkLink ie)
  | .leaf v, ie, h => by
    simp only [EncT] at h
    simp only [RepT, mkLink]
    exact h
  | .node cs, ie, h => by
    simp only [EncT] at h
    obtain ⟨hk, hnd, hl⟩ := h
    simp only [RepT]
    refine ⟨hk, ?_⟩
    have hkeys := encL_keys f fos all cs _ hl
    have hch : childrenOf (all.map mkLink) (some ((mkLink ie).idx, (mkLink ie).entry.offset)) =
        (all.filter (fun x => pref x.2 = some (ie.1, ie.2.offset))).map (fun x => (keyD x.2, mkLink x)) := by
      have e : some ((mkLink ie).idx, (mkLink ie).entry.offset) = some (ie.1, ie.2.offset) := rfl
      rw [e, childrenOf_nodup]
      · rw [filter_links]; simp [mkLink]
      · rw [filter_links]
        have : ((all.filter (fun x => pref x.2 = some (ie.1, ie.2.offset))).map mkLink).map Link.key =
            (all.filter (fun x => pref x.2 = some (ie.1, ie.2.offset))).map (fun x => keyD x.2) := by simp [mkLink]
        rw [this, hkeys]; exact hnd
    rw [hch]
    exact encL_rep f fos all cs _ hl
theorem encL_rep (f : File) (fos : List (Nat × Nat)) (all : List (Nat × Entry)) :
    ∀ (cs : List (Bytes × Tree)) (ies : List (Nat × Entry)), EncT.EncL f fos all cs ies →
      RepT.RepL f fos (all.map mkLink) cs (ies.map (fun x => (keyD x.2, mkLink x)))
  | [], ies, h => by
    simp only [EncT.EncL] at h; subst h
    simp [RepT.RepL]
  | (k, t) :: cs, ies, h => by
    simp only [EncT.EncL] at h
    obtain ⟨ie, rest, rfl, hk, ht, hr⟩ := h
    simp only [RepT.RepL, List.map_cons]
    have e : keyD ie.2 = k := by simp [keyD, hk]
    exact ⟨mkLink ie, rest.map (fun x => (keyD x.2, mkLink x)), by rw [e], encT_rep f fos all t ie ht, encL_rep f fos all cs rest hr⟩
end


/-- **tree decode, registry level**: `load` produced the registry `reg`; every linkable entry of the active tables has a
    resolvable parent and a valid key; the root-level entries store the children `cs` (recursively, `EncT`).
    Then the typed walk returns `node cs`, and so does `as_dict` when the root children are nodes. -/
theorem tree_decode_loaded (f : File) (reg : Reg) (hload : load f = .ok reg) (hne : ∀ p ∈ reg.keyTables, p.2 ≠ [])
    (cs : List (Bytes × Tree)) (hlink : Linkable reg.keyTables (allEntries reg.keyTables)) (hnd : (cs.map Prod.fst).Nodup)
    (henc : EncT.EncL f reg.fileObjects (allEntries reg.keyTables) cs ((allEntries reg.keyTables).filter (fun x => pref x.2 = none))) :
    typedTree f = .ok (.node cs) ∧ ((∀ kt ∈ cs, ∃ cs', kt.2 = .node cs') → asDict f = .ok (.node cs)) := by
  have hl := linkAll_eq reg.keyTables reg.keyTables hne hlink
  have hopen : openFile f = .ok { reg := reg, links := (allEntries reg.keyTables).map mkLink } := by
    unfold openFile; rw [hload]; simp only []; rw [hl]
  have hu := (openFile_spec f).2 _ hopen
  have hkeys := encL_keys f reg.fileObjects _ cs _ henc
  have hch : childrenOf ((allEntries reg.keyTables).map mkLink) none =
      ((allEntries reg.keyTables).filter (fun x => pref x.2 = none)).map (fun x => (keyD x.2, mkLink x)) := by
    rw [childrenOf_nodup]
    · rw [filter_links]; simp [mkLink]
    · rw [filter_links]
      have : (((allEntries reg.keyTables).filter (fun x => pref x.2 = none)).map mkLink).map Link.key =
          ((allEntries reg.keyTables).filter (fun x => pref x.2 = none)).map (fun x => keyD x.2) := by simp [mkLink]
      rw [this, hkeys]; exact hnd
  have hrep := encL_rep f reg.fileObjects _ cs _ henc
  rw [← hch] at hrep
  have := dictOf_of_rep f { reg := reg, links := (allEntries reg.keyTables).map mkLink } hu cs hrep
  rw [asDict_eq, typedTree_eq, hopen]
  exact this


/-! ### the registry of a list of tables with stale competitors -/

theorem foldl_register_keys (ts : List KeyTable) : ∀ acc : List (Nat × List KeyTable),
    (ts.foldl (fun acc t => register t acc) acc).map Prod.fst =
      (ts.map KeyTable.index).foldl (fun ks i => if i ∈ ks then ks else ks ++ [i]) (acc.map Prod.fst) := by
  induction ts with
  | nil => intro acc; rfl
  | cons t r ih => intro acc; simp only [List.foldl_cons, List.map_cons]; rw [ih, register_keys]

theorem registerAll_keys (ts : List KeyTable) : (registerAll ts).map Prod.fst = firstIdx (ts.map KeyTable.index) := by
  have := foldl_register_keys ts []
  simpa [registerAll, firstIdx] using this

theorem foldl_register_RegOK (ts : List KeyTable) : ∀ acc, (acc.map Prod.fst).Nodup →
    ((ts.foldl (fun acc t => register t acc) acc).map Prod.fst).Nodup := by
  induction ts with
  | nil => intro acc h; exact h
  | cons t r ih =>
    intro acc h
    simp only [List.foldl_cons]
    apply ih
    rw [register_keys]
    split
    · exact h
    · rename_i hn
      exact List.nodup_append.2 ⟨h, by simp, by intro a ha b hb; simp at hb; subst hb; intro e; subst e; exact hn ha⟩

theorem registerAll_nodup (ts : List KeyTable) : ((registerAll ts).map Prod.fst).Nodup :=
  foldl_register_RegOK ts [] (by simp)

theorem lookup_of_mem {α : Type} : ∀ (l : List (Nat × α)), (l.map Prod.fst).Nodup → ∀ (i : Nat) (a : α), (i, a) ∈ l → l.lookup i = some a := by
  intro l
  induction l with
  | nil => intro _ i a h; cases h
  | cons p r ih =>
    obtain ⟨j, b⟩ := p
    intro hn i a h
    simp only [List.map_cons, List.nodup_cons] at hn
    simp only [List.mem_cons] at h
    rcases h with h | h
    · cases h; simp [List.lookup]
    · have hij : (i == j) = false := by
        have : i ≠ j := by intro e; subst e; exact hn.1 (List.mem_map_of_mem (f := Prod.fst) h)
        simp [this]
      simp only [List.lookup, hij]
      exact ih hn.2 i a h

theorem registry_head (ts act : List KeyTable) (h : ActiveOf ts act) :
    ∀ p ∈ registerAll ts, ∃ t ∈ act, t.index = p.1 ∧ ∃ rest, p.2 = t :: rest := by
  intro p hp
  obtain ⟨i, l⟩ := p
  have hl := lookup_of_mem _ (registerAll_nodup ts) i l hp
  obtain ⟨hne, hsorted, hmem⟩ := ((RegInv_registerAll ts) i).1 l hl
  have hi : i ∈ act.map KeyTable.index := by
    rw [h.1, ← registerAll_keys]; exact List.mem_map_of_mem (f := Prod.fst) hp
  obtain ⟨t, ht, hti⟩ := List.mem_map.1 hi
  refine ⟨t, ht, hti, ?_⟩
  cases l with
  | nil => exact absurd rfl hne
  | cons hd rest =>
    have htl : t ∈ hd :: rest := (hmem t).2 ⟨(h.2 t ht).1, hti⟩
    have hhd := (hmem hd).1 (by simp)
    have hle : t.seq ≤ hd.seq := by
      simp only [List.mem_cons] at htl
      rcases htl with rfl | htl
      · exact Nat.le_refl _
      · exact (List.pairwise_cons.1 hsorted).1 t htl
    rcases (h.2 t ht).2 hd hhd.1 (by rw [hhd.2, hti]) with e | e
    · subst e; exact ⟨rest, rfl⟩
    · omega

theorem allEntries_of_heads : ∀ (kts : List (Nat × List KeyTable)) (act : List KeyTable),
    kts.map Prod.fst = act.map KeyTable.index → (act.map KeyTable.index).Nodup →
    (∀ p ∈ kts, ∃ t ∈ act, t.index = p.1 ∧ ∃ rest, p.2 = t :: rest) → allEntries kts = actEntries act := by
  intro kts
  induction kts with
  | nil => intro act h _ _; cases act with
    | nil => rfl
    | cons a r => simp at h
  | cons p kts ih =>
    intro act h hn hh
    cases act with
    | nil => simp at h
    | cons a act =>
      simp only [List.map_cons, List.cons.injEq] at h
      simp only [List.map_cons, List.nodup_cons] at hn
      obtain ⟨t, ht, hti, rest, hp⟩ := hh p (by simp)
      have hta : t = a := by
        simp only [List.mem_cons] at ht
        rcases ht with ht | ht
        · exact ht
        · exact absurd (by rw [← h.1, ← hti]; exact List.mem_map_of_mem (f := KeyTable.index) ht) hn.1
      subst hta
      obtain ⟨i, l⟩ := p
      simp only at hp hti h
      subst hp
      have htail := ih act h.2 hn.2 (by
        intro q hq
        obtain ⟨u, hu, hui, r, hq2⟩ := hh q (by simp [hq])
        simp only [List.mem_cons] at hu
        rcases hu with hu | hu
        · subst hu
          have : q.1 ∈ act.map KeyTable.index := by rw [← h.2]; exact List.mem_map_of_mem (f := Prod.fst) hq
          rw [← hui] at this
          exact absurd this hn.1
        · exact ⟨u, hu, hui, r, hq2⟩)
      simp only [allEntries, actEntries, List.flatMap_cons, htail, hti]

theorem eq_of_index_eq : ∀ (l : List KeyTable), (l.map KeyTable.index).Nodup → ∀ a ∈ l, ∀ b ∈ l, a.index = b.index → a = b := by
  intro l
  induction l with
  | nil => intro _ a ha; cases ha
  | cons x r ih =>
    intro hn a ha b hb e
    simp only [List.map_cons, List.nodup_cons] at hn
    simp only [List.mem_cons] at ha hb
    rcases ha with ha | ha <;> rcases hb with hb | hb
    · rw [ha, hb]
    · subst ha; exact absurd (by rw [e]; exact List.mem_map_of_mem (f := KeyTable.index) hb) hn.1
    · subst hb; exact absurd (by rw [← e]; exact List.mem_map_of_mem (f := KeyTable.index) ha) hn.1
    · exact ih hn.2 a ha b hb e

theorem act_nodup (ts act : List KeyTable) (h : ActiveOf ts act) : (act.map KeyTable.index).Nodup := by
  rw [h.1, ← registerAll_keys]; exact registerAll_nodup ts

theorem activeTable_of_act (ts act : List KeyTable) (h : ActiveOf ts act) (t : KeyTable) (ht : t ∈ act) :
    activeTable (registerAll ts) t.index = some t := by
  have hi : t.index ∈ (registerAll ts).map Prod.fst := by
    rw [registerAll_keys, ← h.1]; exact List.mem_map_of_mem (f := KeyTable.index) ht
  obtain ⟨p, hp, hpi⟩ := List.mem_map.1 hi
  obtain ⟨u, hu, hui, rest, hq⟩ := registry_head ts act h p hp
  have hut : u = t := eq_of_index_eq act (act_nodup ts act h) u hu t ht (by rw [hui, hpi])
  subst hut
  obtain ⟨i, l⟩ := p
  simp only at hpi hq
  subst hpi hq
  have := lookup_of_mem _ (registerAll_nodup ts) _ _ hp
  simp [activeTable, this]


/-! ### `Encodes` and the decode theorem over stored tables -/

/-- what a file stores, above the object-table walk: `tables` = every key table the walk registers, in that order
    (stale copies included); `act` = the tables in use; `fos` = the File objects (offset, size), newest first -/
structure Layout where
  tables : List KeyTable
  act : List KeyTable
  fos : List (Nat × Nat)

/-- `Encodes lay cs f`: file `f` stores the root children `cs` under layout `lay` -/
def Encodes (lay : Layout) (cs : List (Bytes × Tree)) (f : File) : Prop :=
  (∃ reg, load f = .ok reg ∧ reg.keyTables = registerAll lay.tables ∧ reg.fileObjects = lay.fos) ∧
  ActiveOf lay.tables lay.act ∧
  (∀ ie ∈ actEntries lay.act, ParentOK lay.act ie.2 ∧ ∃ k, keyOf ie.2 = .ok k) ∧
  (cs.map Prod.fst).Nodup ∧
  EncT.EncL f lay.fos (actEntries lay.act) cs ((actEntries lay.act).filter (fun x => pref x.2 = none))

theorem parentOf_of_ok (ts act : List KeyTable) (h : ActiveOf ts act) (e : Entry) (hp : ParentOK act e) :
    parentOf (registerAll ts) e = .ok (pref e) := by
  unfold parentOf pref
  by_cases h0 : e.parentIdx = 0
  · simp [h0]
  · rcases hp with hp | ⟨t, ht, hti, p, hp, hpo⟩
    · exact absurd hp h0
    · rw [if_neg h0, if_neg h0, ← hti, activeTable_of_act ts act h t ht]
      simp only []
      rw [if_pos (List.any_eq_true.2 ⟨p, hp, by simp [hpo]⟩), hti]

theorem tree_decode_encodes (lay : Layout) (cs : List (Bytes × Tree)) (f : File) (h : Encodes lay cs f) :
    typedTree f = .ok (.node cs) ∧ ((∀ kt ∈ cs, ∃ cs', kt.2 = .node cs') → asDict f = .ok (.node cs)) := by
  obtain ⟨⟨reg, hload, hk, hf⟩, hact, hlink, hnd, henc⟩ := h
  have hall : allEntries reg.keyTables = actEntries lay.act := by
    rw [hk]
    exact allEntries_of_heads _ _ (by rw [registerAll_keys, hact.1]) (act_nodup _ _ hact) (registry_head _ _ hact)
  apply tree_decode_loaded f reg hload
  · intro p hp
    rw [hk] at hp
    obtain ⟨t, _, _, rest, hq⟩ := registry_head _ _ hact p hp
    rw [hq]; simp
  · rw [hall]
    intro ie hie
    obtain ⟨hp, hk'⟩ := hlink ie hie
    exact ⟨by rw [hk]; exact parentOf_of_ok _ _ hact ie.2 hp, hk'⟩
  · exact hnd
  · rw [hall, hf]; exact henc

/-! ### the example file of `HvProofs/HyperV.lean` as a layout -/
def exTab1 : KeyTable := ⟨1, 5, parsedFrom exT1 KTH⟩
def exTab1old : KeyTable := ⟨1, 1, parsedFrom exT1old KTH⟩
def exTab2 : KeyTable := ⟨2, 9, parsedFrom exT2 KTH⟩
/-- registration order of `exFile`'s object table: active table of index 1, table of index 2, then the stale copy -/
def exTs : List KeyTable := [exTab1, exTab2, exTab1old]
def exAct : List KeyTable := [exTab1, exTab2]

end Hv.HyperV
