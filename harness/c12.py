"""C12 — foreign / unsupported inputs are refused at open. Gate enumeration: every single-bit flip of every
validated magic / signature, unsupported versions, out-of-range geometry, unsupported feature flags and
identifiers, each applied to an otherwise valid generated input."""
from __future__ import annotations

import io
import os
import random
import shutil
import struct
import tempfile

import c05 as vdi
import c06 as hds
import core
import gen_hdd
import gen_qcow2
import gen_vhdx
import gen_vmdk
from core import Built
from sparse import Image

PROPERTY = "C12"
RULE = ("gate enumeration on valid generated inputs: exhaustive single-bit flips of each magic/signature (QCOW2 magic 32, VDI "
        "signature 32, HDS signature 128, VHDX file identifier 64 / active header 32 / both region tables 32+32 / metadata table 64; the "
        "VHDX structures with a redundant copy in the current copy only (other header a valid older copy or zero, either slot order), in "
        "both copies, and in the non-current header alone (accepted), "
        "VMDK sparse header and footer magic 32+32, Hyper-V header/log/object-table/key-table signatures, envelope magic), "
        "unsupported versions (0,1,4,5,16,2^31,2^32-1 …), cluster_bits 0..8 and 22.., crypt methods, every unknown incompatible "
        "feature bit 5..63, data-file / extended-L2 / zstd flags without support, missing backing argument, missing VHDX regions, "
        "foreign parent-locator type, unsupported Parallels image type, missing DiskDescriptor.xml, keystore modes, key-safe "
        "identifiers / locator kinds / cipher / MAC / KDF names (also on the first pair of a 2..4-pair list unlocked with the LAST pair's "
        "passphrase), key-safe lists that mix supported phrase pairs with a member that is / wraps / contains a locator of an unsupported kind "
        "(rawkey, fqid, ldap, script, role, unknown identifiers, respelled Phrase / PAIR / List; as bare member, pair locator, list inside a "
        "pair, pair inside a pair, nested list; first / middle / last; unlocked with the passphrase of an intact pair). Every case must raise at open (`E`); only raised-vs-returned is "
        "compared, three ways: real code vs expectation vs the Lean model of that parser (Vdi/Hds/Qcow2/Vhdx/Vmdk opens, HyperV.asDict, "
        "Envelope.openEnv / keystore, Vmx.unlock over the primitive table, HddOpen.open over the parsed element tree). Each non-disk family "
        "also carries its unmutated input (`base_ok`), which must be accepted by code and model alike. Non-trivial = every case (each "
        "carries exactly one gate mutation); distinct (family, gate, value).")
ASSUMPTIONS = ["only raised vs returned is compared (exception class is not verdict-bearing)",
               "the crypto primitives of the key-safe model (PBKDF2, HMAC, AES-CBC, base64, int, UTF-8 validity, .vmx dictionary syntax) are a finite table computed with the real libraries (protocol of C15); a model answer `need …` for the keystore (PBKDF2 with 100000 rounds) counts as accepted: every gate lies before the first crypto call (keystore_gate_before_content)",
               "the Parallels directory is abstract in the model (descriptor present / parsed element tree / which names `_open_image` can open)"]
ACCEPT = {"hyperv": "ok", "envelope": "accepted", "vmx": "unlocked"}
TIMEOUT_CASE = 30.0


def be32(v):
    return struct.pack(">I", v & 0xFFFFFFFF)


def be64(v):
    return struct.pack(">Q", v & 0xFFFFFFFFFFFFFFFF)


def flip(b: bytes, bit: int) -> bytes:
    x = bytearray(b)
    x[bit // 8] ^= 1 << (bit % 8)
    return bytes(x)


def generate(seed, tier):
    rng = random.Random(f"C12/{seed}/{tier}")
    cases = []
    reps = 1 if tier == "quick" else 6

    def add(fam, recipe, gate, patches, extra=None):
        c = {"id": f"{fam}-{gate}-{len(cases)}", "fam": fam, "recipe": recipe, "gate": gate, "patches": patches, "align": 8192, "queries": []}
        if extra:
            c.update(extra)
        cases.append(c)

    for rep in range(reps):
        # ---------------- qcow2
        def q3(**kn):
            while True:
                r = gen_qcow2.gen_recipe(rng, "quick", version=3, backing="none", nsnaps=0, datafile=None, **kn)
                if r["version"] == 3 and not r.get("datafile") and not r.get("backing"):
                    return r
        r = q3()
        img = gen_qcow2.Truth(r).files["img"]
        magic = img.read_at(0, 4)
        for b in range(32):
            add("qcow2", r, f"magic_bit{b}", [["img", 0, flip(magic, b).hex()]])
        for v in [0, 1, 4, 5, 16, 255, 1 << 31, (1 << 32) - 1]:
            add("qcow2", r, f"version{v}", [["img", 4, be32(v).hex()]])
        for cb in list(range(0, 9)) + [22, 23, 31, 32, 63, 64, 255, 1 << 31]:
            add("qcow2", r, f"cluster_bits{cb}", [["img", 20, be32(cb).hex()]])
        for cm in [1, 2, 255]:
            add("qcow2", r, f"crypt{cm}", [["img", 32, be32(cm).hex()]])
        inc = struct.unpack(">Q", img.read_at(72, 8))[0]
        for b in range(5, 64):
            add("qcow2", r, f"incompat_bit{b}", [["img", 72, be64(inc | (1 << b)).hex()]])
        add("qcow2", r, "datafile_required", [["img", 72, be64(inc | 4).hex()]])
        r2 = q3(cluster_bits=rng.choice([9, 10, 12, 13]), ext=False)
        inc2 = struct.unpack(">Q", gen_qcow2.Truth(r2).files["img"].read_at(72, 8))[0]
        add("qcow2", r2, "extl2_small_clusters", [["img", 72, be64(inc2 | 16).hex()]])
        r3 = q3(hlen=112)
        add("qcow2", r3, "zstd", [["img", 104, "01"]])
        rb = gen_qcow2.gen_recipe(rng, "quick", backing="raw", nsnaps=0)
        add("qcow2", rb, "backing_not_given", [], {"no_backing": True})
        # ---------------- vdi
        rv = vdi.gen_recipe(rng, "quick", allow_parent=False)
        sig = struct.pack("<I", 0xBEDA107F)
        for b in range(32):
            add("vdi", rv, f"signature_bit{b}", [["a", 0x40, flip(sig, b).hex()]])
        # ---------------- hds
        rh = hds.gen_recipe(rng, "quick")
        rh = {"layers": rh["layers"][-1:]}
        s16 = hds.SIG1 if rh["layers"][0]["ver"] == 1 else hds.SIG2
        for b in range(128):
            add("hds", rh, f"signature_bit{b}", [["l0", 0, flip(s16, b).hex()]])
        # ---------------- vhdx
        rx = gen_vhdx.gen_recipe(rng, "quick", depth=1)
        l = rx["layers"][0]
        for b in range(64):
            add("vhdx", rx, f"identifier_bit{b}", [["l0", 0, flip(b"vhdxfile", b).hex()]])
        hoff = gen_vhdx.header_offsets(l)[0]
        for b in range(32):
            add("vhdx", rx, f"header_bit{b}", [["l0", hoff, flip(b"head", b).hex()]])
        # structures with a redundant copy (two headers, two region tables): the wrong signature in the *current* copy only (the
        # other copy valid: an older header with the lower sequence number), in both copies, and - for the headers - in either slot
        # order; a wrong signature in the non-current header alone is no reason to refuse (that copy is never consulted)
        import copy
        for slot in (1, 2):
            for other in ("valid", "zero"):
                rh2 = copy.deepcopy(rx)
                rh2["layers"][0].update({"active_header": slot, "other_header": other})
                cur, old = gen_vhdx.header_offsets(rh2["layers"][0])
                for b in (range(32) if other == "valid" else (0, 13, 31)):
                    add("vhdx", rh2, f"header{slot}_current_{other}_other_bit{b}", [["l0", cur, flip(b"head", b).hex()]])
                if other == "valid":
                    for b in range(32):
                        add("vhdx", rh2, f"header{slot}_both_bit{b}", [["l0", cur, flip(b"head", b).hex()], ["l0", old, flip(b"head", (b * 7 + slot) % 32).hex()]])
                    add("vhdx", rh2, f"header{slot}_base_ok", [], {"expect_ok": True})
                    for b in (3, 30):
                        add("vhdx", rh2, f"header{slot}_older_only_bit{b}", [["l0", old, flip(b"head", b).hex()]], {"expect_ok": True})
        for which, off in (("regi1", 192 << 10), ("regi2", 256 << 10)):
            for b in range(32):
                add("vhdx", rx, f"{which}_bit{b}", [["l0", off, flip(b"regi", b).hex()]])
        for b in range(32):
            add("vhdx", rx, f"regi_both_bit{b}", [["l0", 192 << 10, flip(b"regi", b).hex()], ["l0", 256 << 10, flip(b"regi", (b * 5 + 1) % 32).hex()]])
        moff = gen_vhdx.layout(l)["meta_off"]
        for b in range(64):
            add("vhdx", rx, f"metadata_bit{b}", [["l0", moff, flip(b"metadata", b).hex()]])
        # a metadata item the reader does not know: flagged IsRequired (alone / with IsVirtualDisk / with IsUser) it must be refused,
        # optional (system or user) it must be ignored (MS-VHDX 2.6.1). Appended to the table, its data = an existing item's.
        img = gen_vhdx.Truth(rx).layers[0][1]
        mh = img.read_at(moff, 32)
        cnt = int.from_bytes(mh[10:12], "little")
        last = img.read_at(moff + 32 + 32 * (cnt - 1), 32)
        for flags, ok in ((4, False), (6, False), (5, False), (7, False), (0, True), (1, True), (2, True)):
            ent = bytes(rng.getrandbits(8) for _ in range(16)) + last[16:24] + flags.to_bytes(4, "little") + bytes(4)
            add("vhdx", rx, f"unknown_metadata_item_flags{flags}", [["l0", moff + 10, (cnt + 1).to_bytes(2, "little").hex()], ["l0", moff + 32 + 32 * cnt, ent.hex()]],
                {"expect_ok": True} if ok else None)
        # missing regions: corrupt the GUID of the region entry in the (used) first region table
        rt = img.read_at(192 << 10, 16 + 2 * 32)
        for k in range(2):
            g = rt[16 + 32 * k: 32 + 32 * k]
            name = "bat_region_missing" if g == gen_vhdx.BAT_GUID else "metadata_region_missing"
            add("vhdx", rx, name, [["l0", (192 << 10) + 16 + 32 * k, flip(g, rng.randrange(128)).hex()]])
        # ---------------- vmdk sparse extents behind a descriptor
        for kind in ("kdmv", "cowd", "sesparse", "kdmv_footer"):
            ext = gen_vmdk.gen_extent(rng, "quick", kind=kind, huge=False)
            et = gen_vmdk.ExtentTruth(ext)
            m = et.image.read_at(0, 4)
            for b in range(32):
                add("vmdk", {"extent": ext}, f"{kind}_magic_bit{b}", [["e", 0, flip(m, b).hex()]])
            if kind == "sesparse":          # the SE-sparse magic is 64 bits wide: the upper half is validated too
                hi = et.image.read_at(4, 4)
                for b in range(32):
                    add("vmdk", {"extent": ext}, f"sesparse_magic_hi_bit{b}", [["e", 4, flip(hi, b).hex()]])
            if kind == "kdmv_footer":
                foff = et.image.size - 1024
                fm = et.image.read_at(foff, 4)
                for b in range(32):
                    add("vmdk", {"extent": ext}, f"footer_magic_bit{b}", [["e", foff, flip(fm, b).hex()]])
        # ---------------- Parallels directory
        rd = gen_hdd.gen_recipe(rng, "quick", max_depth=1)
        add("hdd", rd, "base_ok", [], {"expect_ok": True})
        for ty in ["Foo", "compressed", "Expanding", "", "PLAIN", "Plain "]:
            add("hdd", rd, f"image_type_{ty.replace(' ', '_') or 'empty'}", [], {"image_type": ty})
        add("hdd", rd, "missing_descriptor", [], {"no_descriptor": True})
        # ---------------- VHDX parent locator type (differencing image next to its parent in a real directory)
        while True:
            rp = gen_vhdx.gen_recipe(rng, "quick", depth=2)
            if all(l["bs"] <= 2 << 20 and len(l["blocks"]) <= 3 for l in rp["layers"]):
                break
        rp["layers"][1]["locator"] = "relative"
        poff = vhdx_locator_offset(rp)
        add("vhdx2", rp, "locator_base_ok", [], {"expect_ok": True})
        for b in (0, 7, 63, 64, 127):
            add("vhdx2", rp, f"locator_type_bit{b}", [["l1", poff, flip(gen_vhdx.PLOC_TYPE, b).hex()]])
        add("vhdx2", rp, "locator_type_zero", [["l1", poff, bytes(16).hex()]])
        add("vhdx2", rp, "locator_type_item_guid", [["l1", poff, gen_vhdx.PLOC.hex()]])
        # ---------------- Hyper-V
        import gen_hyperv
        ry = gen_hyperv.gen_recipe(rng, "quick")
        add("hyperv", ry, "base_ok", [], {"expect_ok": True})
        for gate in (["header_sig_bit%d" % b for b in range(0, 32, 1)] + ["version_%d" % v for v in (0, 1, 0x300, 0x401, 0x500, 0xFFFFFFFF)] +
                     ["log_sig_bit%d" % b for b in range(32)] + ["objtable_sig_bit%d" % b for b in range(32)] + ["keytable_sig_bit%d" % b for b in range(16)]):
            add("hyperv", ry, gate, [])
        # ---------------- envelope / keystore
        import gen_envelope
        re_ = gen_envelope.gen_recipe(rng, "quick")
        add("envelope", re_, "base_ok", [], {"expect_ok": True})
        add("envelope", re_, "keystore_base_ok", [], {"expect_ok": True})
        for gate in (["magic_bit%d" % b for b in range(0, 168)] + ["version_%d" % v for v in (0, 1, 3, 255, 1 << 31)] +
                     ["footer_version_%d" % v for v in (0, 2, 255)] + ["cipher_AES-128-GCM", "cipher_AES-256-CBC", "cipher_"] +
                     ["missing_vmware.keyInfo", "missing_vmware.cipherName", "missing_vmware.keyHash"] +
                     ["keystore_mode_TPM", "keystore_mode_missing", "keystore_mode_none"]):
            add("envelope", re_, gate, [])
            if not gate.startswith(("magic_bit", "keystore_")) or gate in ("magic_bit0", "magic_bit77"):
                add("envelope", re_, gate, [], {"verify": False})       # the gates do not depend on the verify option
        # ---------------- vmx key safe
        import gen_vmx
        vmx_gates = ["identifier", "locator_rawkey", "locator_ldap", "locator_script", "cipher_AES-512", "cipher_DES", "mac_HMAC-MD5", "mac_HMAC-SHA-512",
                     "kdf_PBKDF2-HMAC-MD5", "kdf_scrypt", "not_a_list"]
        while True:                      # a recipe whose encoding every mutation applies to
            rm = gen_vmx.gen_recipe(rng, "quick")
            try:
                for gate in vmx_gates:
                    vmx_mutated(rm, gate)
                break
            except HarnessError:
                continue
        add("vmx", rm, "base_ok", [], {"expect_ok": True})
        for gate in ["identifier", "locator_rawkey", "locator_ldap", "locator_script", "cipher_AES-512", "cipher_DES", "mac_HMAC-MD5", "mac_HMAC-SHA-512",
                     "kdf_PBKDF2-HMAC-MD5", "kdf_scrypt", "not_a_list"]:
            add("vmx", rm, gate, [])
        # ---------------- vmx key safe, several members: the passphrase belongs to a LATER pair than the one that carries the
        # unsupported name, so the refusal cannot come from "nothing opens" (the untouched list opens: base_ok)
        while True:
            rm2 = gen_vmx.gen_recipe(rng, "quick", npairs=rng.choice([2, 3, 4]))
            rm2["pos"] = len(rm2["pairs"]) - 1
            try:
                for gate in vmx_gates:
                    vmx_mutated(rm2, gate)
                break
            except HarnessError:
                continue
        add("vmx", rm2, "base_ok", [], {"expect_ok": True})
        for gate in vmx_gates:
            add("vmx", rm2, gate, [])
        # ---------------- vmx key safe: lists that MIX supported phrase pairs with a member that is, wraps or contains a key locator
        # of an unsupported kind (written by gen_vmx.foreign_member): first / middle / last, before and after the pair that would open
        k = 0
        for kind in gen_vmx.FOREIGN_KINDS:
            for shape in gen_vmx.FOREIGN_SHAPES:
                n = rng.choice([1, 2, 3, 3])
                rx = gen_vmx.gen_recipe(rng, "quick", npairs=n, pos=rng.randrange(n))
                at = [0, n, rng.randrange(1, n) if n > 1 else 0][(k + k // 6) % 3]
                rx["foreign"] = [gen_vmx.gen_foreign(rng, kind, shape, at)]
                where = "first" if at == 0 else "last" if at == n else "middle"
                if k % 10 == 0:
                    add("vmx", {kk: v for kk, v in rx.items() if kk != "foreign"}, "base_ok", [], {"expect_ok": True})
                add("vmx", rx, f"mixed_{kind}_{shape}_{where}", [])
                k += 1
        for n, ats in [(2, [0, 1, 2]), (3, [0, 3]), (3, [1, 2])]:           # several foreign members around the supported pairs
            rx = gen_vmx.gen_recipe(rng, "quick", npairs=n)
            rx["foreign"] = [gen_vmx.gen_foreign(rng, rng.choice(gen_vmx.FOREIGN_KINDS[:7]), rng.choice(gen_vmx.FOREIGN_SHAPES), a) for a in ats]
            add("vmx", rx, "mixed_several_" + "".join(map(str, ats)), [])
    return cases


# --------------------------------------------------------------------------------------------- building

class HarnessError(BaseException):
    """a problem of the harness itself: never to be mistaken for a refusal by the code under test"""


def _apply(files, patches):
    out = {k: v for k, v in files.items()}
    for fid, off, hx in patches:
        out[fid] = out[fid].copy().patch(off, bytes.fromhex(hx))
    return out


def _img(data: bytes) -> Image:
    im = Image()
    im.put_hex(0, bytes(data))
    im.finish(len(data))
    return im


def vhdx_locator_offset(r) -> int:
    """file offset of the parent-locator item (its first 16 bytes are the locator type GUID) in the top layer"""
    im = gen_vhdx.Truth(r).layers[-1][1]
    moff = gen_vhdx.layout(r["layers"][-1])["meta_off"]
    n = struct.unpack("<H", im.read_at(moff + 10, 2))[0]
    for k in range(n):
        ent = im.read_at(moff + 32 + 32 * k, 32)
        if ent[:16] == gen_vhdx.PLOC:
            return moff + struct.unpack("<I", ent[16:20])[0]
    raise HarnessError("no parent locator item")


def hdd_xml(case, r):
    """the descriptor text of a Parallels case: `None` = no DiskDescriptor.xml; an image_type case changes the type of the
    image of the first storage (in XML order) that lies on the snapshot chain, so the mutation is always on the open path"""
    if case.get("no_descriptor"):
        return None
    if "image_type" not in case:
        return gen_hdd.render_xml(r)
    import copy
    r2 = copy.deepcopy(r)
    st = r2["storages"][r2["xml_order"][0]]
    im = next(im for im in st["images"] if im["guid"] in r2["chain"])
    im["type"] = case["image_type"]
    return gen_hdd.render_xml(r2)


def hdd_names(r):
    """what the `File` elements say -> the file in the directory `_open_image` ends up with"""
    root_dir = "/nonexistent/orig.pvm/orig.hdd"
    return {((root_dir + "/" + im["file"]) if r["abs_paths"] else im["file"]): im["file"] for s in r["storages"] for im in s["images"]}


_MEMO: dict = {}


def _gen_build(mod_name: str, r):
    """`gen_<x>.build(recipe)` once per recipe and process (every gate case of a family shares one recipe)"""
    import copy
    import importlib
    import json
    k = (mod_name, json.dumps(r, sort_keys=True, default=str))
    if k not in _MEMO:
        _MEMO[k] = importlib.import_module(mod_name).build(copy.deepcopy(r))      # some builders annotate the recipe they are given
    return _MEMO[k]


_VMX_PENDING: list = []        # (P, A) token pairs of every vmx case built in this process: their tables are resolved in one batch


def build(case):
    fam, r = case["fam"], case["recipe"]
    info = {"branches": [fam, case["gate"].rstrip("0123456789")], "in_scope": True, "gate": case["gate"]}
    truth = [ACCEPT.get(fam, "opened-and-served")] if case.get("expect_ok") else ["E"]
    if fam == "qcow2":
        t = gen_qcow2.Truth(r)
        b = Built(_apply(dict(t.files), case["patches"]), truth, info)
        b.t = t
        return b
    if fam == "vdi":
        t = vdi.Truth(r)
        return Built(_apply({"a": t.im}, case["patches"]), truth, info)
    if fam == "hds":
        im, _ = hds.build_layer(r["layers"][0])
        return Built(_apply({"l0": im}, case["patches"]), truth, info)
    if fam == "vhdx":
        t = gen_vhdx.Truth(r)
        return Built(_apply({"l0": t.layers[0][1]}, case["patches"]), truth, info)
    if fam == "vhdx2":
        t = gen_vhdx.Truth(r)
        return Built(_apply({f"l{k}": im for k, (_, im, _) in enumerate(t.layers)}, case["patches"]), truth, info)
    if fam == "vmdk":
        et = gen_vmdk.ExtentTruth(r["extent"])
        ty = {"cowd": "VMFSSPARSE", "sesparse": "SESPARSE"}.get(r["extent"]["kind"], "SPARSE")
        desc = ("# Disk DescriptorFile\nversion=1\nCID=12345678\nparentCID=ffffffff\ncreateType=\"custom\"\nRW %d %s \"e.vmdk\"\n" % (et.sectors, ty)).encode()
        d = Image()
        d.put_hex(0, desc)
        d.finish()
        return Built(_apply({"d": d, "e": et.image}, case["patches"]), truth, info)
    if fam == "hdd":
        t = gen_hdd.Truth(r)
        ids = {name: f"f{k}" for k, name in enumerate(t.files)}
        b = Built({ids[name]: im for name, im in t.files.items()}, truth, info)
        b.t, b.ids, b.xml = t, ids, hdd_xml(case, r)
        return b
    if fam == "hyperv":
        data = bytearray(_gen_build("gen_hyperv", r)[0])
        mutate_hyperv(data, case["gate"])
        return Built({"a": _img(data)}, truth, info)
    if fam == "envelope":
        b = Built({}, truth, info)
        if case["gate"].startswith("keystore_"):
            b.ks_text = keystore_text(r, case["gate"])
        else:
            b.files = {"a": _img(envelope_bytes(r, case["gate"]))}
        return b
    if fam == "vmx":
        import c15
        b = Built({}, truth, info)
        b.text, b.pw = vmx_mutated(r, case["gate"])
        b.key = c15._tokens(b.text, b.pw)
        _VMX_PENDING.append(b.key)
        return b
    raise HarnessError(fam)


# --------------------------------------------------------------------------------------------- real code

def _try(fn):
    try:
        r = fn()
        return {"answers": ["ok" if r is None else r]}
    except HarnessError:
        raise
    except Exception as e:  # noqa
        return {"answers": ["E"], "errors": {"0": f"{type(e).__name__}: {e}"[:200]}}


def _served(stream):
    stream.seek(0)
    stream.read(512)
    return "opened-and-served"


def impl_run(case, built):
    fam, r, gate = case["fam"], case["recipe"], case["gate"]
    if fam == "qcow2":
        from dissect.hypervisor.disk.qcow2 import QCow2
        t = built.t

        def go():
            bk = None
            if not case.get("no_backing"):
                bk = gen_qcow2.open_impl(t.backing_truth) if t.backing_truth else (t.backing_img.open() if t.backing_img is not None else None)
            q = QCow2(built.files["img"].open(), data_file=built.files["data"].open() if "data" in built.files else None, backing_file=bk)
            return _served(q)
        return _try(go)
    if fam == "vdi":
        from dissect.hypervisor.disk.vdi import VDI
        return _try(lambda: _served(VDI(built.files["a"].open())))
    if fam == "hds":
        from dissect.hypervisor.disk.hdd import HDS
        return _try(lambda: _served(HDS(built.files["l0"].open())))
    if fam == "vhdx":
        from dissect.hypervisor.disk.vhdx import VHDX
        return _try(lambda: _served(VHDX(built.files["l0"].open())))
    if fam in ("vmdk", "hdd", "vhdx2"):
        tmp = tempfile.mkdtemp(prefix="hvc12.")
        try:
            from pathlib import Path
            if fam == "vmdk":
                from dissect.hypervisor.disk.vmdk import VMDK
                built.files["d"].write_to(os.path.join(tmp, "d.vmdk"))
                built.files["e"].write_to(os.path.join(tmp, "e.vmdk"))
                return _try(lambda: _served(VMDK(Path(tmp) / "d.vmdk")))
            if fam == "vhdx2":
                from dissect.hypervisor.disk.vhdx import VHDX
                for k in range(len(built.files)):
                    built.files[f"l{k}"].write_to(os.path.join(tmp, f"l{k}.vhdx"))
                return _try(lambda: _served(VHDX(Path(tmp) / f"l{len(built.files) - 1}.vhdx")))
            from dissect.hypervisor.disk.hdd import HDD
            d = os.path.join(tmp, "x.hdd")
            built.t.write_dir(d)
            p = os.path.join(d, "DiskDescriptor.xml")
            if built.xml is None:
                os.unlink(p)
            else:
                with open(p, "w") as f:
                    f.write(built.xml)
            return _try(lambda: _served(HDD(Path(d)).open()))
        finally:
            shutil.rmtree(tmp, ignore_errors=True)
    if fam == "hyperv":
        from dissect.hypervisor.descriptor.hyperv import HyperVFile
        return _try(lambda: (HyperVFile(built.files["a"].open()).as_dict(), "ok")[1])
    if fam == "envelope":
        from dissect.hypervisor.util.envelope import Envelope, KeyStore
        if gate.startswith("keystore_"):
            return _try(lambda: (KeyStore.from_text(built.ks_text), "accepted")[1])
        return _try(lambda: (Envelope(built.files["a"].open(), verify=case.get("verify", True)), "accepted")[1])
    if fam == "vmx":
        from dissect.hypervisor.descriptor.vmx import VMX

        def go():
            v = VMX.parse(built.text)
            v.unlock_with_phrase(built.pw)
            return "unlocked"
        return _try(go)
    raise HarnessError(fam)


def mutate_hyperv(data: bytearray, gate: str):
    if gate == "base_ok":
        return
    s1 = struct.unpack_from("<H", data, 8)[0]
    s2 = struct.unpack_from("<H", data, 0x1008)[0]
    hoff = 0 if s1 > s2 else 0x1000
    if gate.startswith("header_sig_bit"):
        b = int(gate[len("header_sig_bit"):])
        data[hoff + b // 8] ^= 1 << (b % 8)
    elif gate.startswith("version_"):
        struct.pack_into("<I", data, hoff + 10, int(gate[8:]))
    elif gate.startswith("log_sig_bit"):
        off = struct.unpack_from("<Q", data, hoff + 26)[0]
        b = int(gate[len("log_sig_bit"):])
        data[off + b // 8] ^= 1 << (b % 8)
    elif gate.startswith("objtable_sig_bit"):
        b = int(gate[len("objtable_sig_bit"):])
        data[0x2000 + b // 8] ^= 1 << (b % 8)
    elif gate.startswith("keytable_sig_bit"):
        # first allocated key-table entry of the first object table: entries are 18 bytes from 0x2008
        n = struct.unpack_from("<I", data, 0x2004)[0]
        for i in range(n):
            ty, _, off, size, alloc = struct.unpack_from("<BIQIB", data, 0x2008 + 18 * i)
            if ty == 2 and alloc:
                b = int(gate[len("keytable_sig_bit"):])
                data[off + b // 8] ^= 1 << (b % 8)
                return
        raise HarnessError("no key table")
    else:
        raise HarnessError(gate)


def keystore_text(r, gate) -> str:
    import re

    txt = _gen_build("gen_envelope", r)["keystore_text"]
    if gate == "keystore_base_ok":
        return txt
    m = gate[len("keystore_mode_"):]
    lines = [ln for ln in txt.split("\n") if not re.match(r"\s*mode\s*=", ln)]
    if m != "missing":
        lines.insert(0, f'mode = "{m}"')
    return "\n".join(lines)


def envelope_bytes(r, gate) -> bytes:
    if gate.startswith("missing_") or gate.startswith("cipher_"):
        r2 = dict(r)
        if gate.startswith("missing_"):
            r2["drop_required"] = gate[len("missing_"):]
        else:
            r2["cipher_name"] = gate[len("cipher_"):]
        return build_envelope_variant(r2)
    env = bytearray(_gen_build("gen_envelope", r)["envelope"])
    if gate.startswith("magic_bit"):
        b = int(gate[9:])
        env[b // 8] ^= 1 << (b % 8)
    elif gate.startswith("version_"):
        struct.pack_into("<I", env, 508, int(gate[8:]))
    elif gate.startswith("footer_version_"):
        struct.pack_into("<I", env, len(env) - 4, int(gate[15:]))
    elif gate != "base_ok":
        raise HarnessError(gate)
    return bytes(env)


def build_envelope_variant(r2):
    """re-serialise the header attributes of a built envelope with one required attribute dropped / another cipher name"""
    b = _gen_build("gen_envelope", {k: v for k, v in r2.items() if k not in ("drop_required", "cipher_name")})
    env = bytearray(b["envelope"])
    # attribute area: parse minimally (type u8, flag u8, 2 pad, name\0, value)
    pos = 512
    out = bytearray()
    while env[pos] != 0:
        start = pos
        ty = env[pos]
        pos += 4
        e = env.index(0, pos)
        name = bytes(env[pos:e]).decode()
        pos = e + 1
        if ty == 0x0B:
            e = env.index(0, pos)
            val_start, pos = pos, e + 1
        elif ty == 0x0C:
            ln = struct.unpack_from("<Q", env, pos)[0]
            pos += 8 + ln
        else:
            pos += {1: 1, 2: 2, 3: 4, 4: 8, 5: 1, 6: 2, 7: 4, 8: 8, 9: 4, 10: 8}[ty]
        rec = bytes(env[start:pos])
        if r2.get("drop_required") == name:
            continue
        if name == "vmware.cipherName" and "cipher_name" in r2:
            rec = rec[:4] + name.encode() + b"\0" + r2["cipher_name"].encode() + b"\0"
        out += rec
    out += b"\0\0\0\0"
    new = bytearray(env)
    new[512:4096] = bytes(4096 - 512)
    new[512:512 + len(out)] = out
    return bytes(new)


def vmx_mutated(r, gate):
    """(.vmx text with one mutation inside the key safe, passphrase)"""
    import re

    b = _gen_build("gen_vmx", r)
    text = b["text"]
    m = re.search(r'(?im)^(\s*encryption\.keysafe\s*=\s*"?)([^"\s]*)', text)
    if not m or not m.group(2).startswith("vmware:key/list/"):
        raise HarnessError("key safe not found")
    ks = m.group(2)
    if gate == "base_ok" or gate.startswith("mixed_"):
        if (gate == "base_ok") == bool(b["foreign"]):
            raise HarnessError("a mixed_ gate needs a recipe with foreign members, base_ok one without")
        ks2 = ks
    elif gate == "identifier":
        ks2 = ks.replace("vmware:key", "vmware:kez", 1)
    elif gate.startswith("locator_"):
        ks2 = ks.replace("phrase/", gate[8:] + "/", 1) if "phrase/" in ks else None
    elif gate == "not_a_list":
        ks2 = ks.replace("vmware:key/list/", "vmware:key/lisp/", 1)
    else:
        kind, val = gate.split("_", 1)
        from urllib.parse import unquote
        ks2 = None
        # names of the *first* pair only (the one `unseal_with_phrase` tries first; the names of pairs behind the one that
        # unlocks are never looked up): `pair/(<locator>,<mac>,<data>)`, commas inside the locator are percent-encoded
        i = ks.find("pair/(")
        c1 = ks.find(",", i)
        c2 = ks.find(",", c1 + 1)
        if i < 0 or c1 < i or c2 < c1:
            raise HarnessError("no first pair")
        if kind == "mac":
            if unquote(ks[c1 + 1:c2]) in ("HMAC-SHA-1", "HMAC-SHA-1-128", "HMAC-SHA-256"):
                ks2 = ks[:c1 + 1] + val + ks[c2:]
        else:
            key = {"cipher": "cipher", "kdf": "pass2key"}[kind]
            # the crypto dict of the phrase is url-encoded once more inside the locator: either spelling of '='
            mm = re.search(re.escape(key) + r"(?:%3d|%3D|=)([A-Za-z0-9%\-]+?)(?=(%3a|%3A|:|,|/|\)|$))", ks[:c1 + 1])
            if mm:
                ks2 = ks[:mm.start(1)] + val + ks[mm.end(1):]
    if ks2 is None or (ks2 == ks and gate != "base_ok" and not gate.startswith("mixed_")):
        raise HarnessError("gate not applicable to this encoding")
    return text[:m.start(2)] + ks2 + text[m.end(2):], b["passphrase"]


# --------------------------------------------------------------------------------------------- model

DEFAULT_TOP_INT = 0x5fbaabe3695840ff92a7860e329aab41


def model_lines(case, built):
    fam = case["fam"]
    if fam == "qcow2":
        import c01
        toks = c01.tokens(built.t)
        if case.get("no_backing"):
            toks = [toks[-1].rsplit(":", 1)[0] + ":x"]
        return core.file_lines(built.files) + [f"qcow2.open 8192 " + " ".join(toks)]
    if fam == "vdi":
        return core.file_lines(built.files) + ["vdi.open a -"]
    if fam == "hds":
        return core.file_lines(built.files) + ["hds.open 8192 l0"]
    if fam == "vhdx":
        return core.file_lines(built.files) + ["vhdx.open l0"]
    if fam == "vhdx2":
        return core.file_lines(built.files) + ["vhdx.open " + " ".join(f"l{k}" for k in range(len(built.files)))]
    if fam == "vmdk":
        return core.file_lines(built.files) + [f"vmdk.desc.open d {'e.vmdk'.encode().hex()}=e"]
    if fam == "hdd":
        # HddOpen.open over what the real XML parser made of the descriptor (no tokens: it raised)
        toks = []
        if built.xml is not None:
            try:
                import c14
                toks = c14._tree_tokens(built.xml.encode("utf-8"))
            except Exception:  # noqa
                toks = []
        names = [f"{k.encode().hex()}={built.ids[v]}" for k, v in hdd_names(case["recipe"]).items()]
        return core.file_lines(built.files) + [" ".join(["meta.hddopen", "0", str(DEFAULT_TOP_INT), "-", "0" if built.xml is None else "1", "8192",
                                                           str(len(names))] + names + toks)]
    if fam == "hyperv":
        return core.file_lines(built.files) + ["hyperv.tree a"]
    if fam == "envelope":
        if case["gate"].startswith("keystore_"):
            return [f"env.keystore - {built.ks_text.encode('utf-8').hex() or '-'}"]
        return core.file_lines(built.files) + ["env.attrs a"]
    if fam == "vmx":
        import c15
        if built.key not in c15._TABLES:
            c15.resolve(_VMX_PENDING + [built.key])
        p, a = built.key
        return [c15._line(p, a, {r: v for r, v in c15._TABLES[built.key].items() if not r.startswith("!")})]
    return []


def model_parse(case, built, out):
    if not out:
        return {"answers": None, "wf": None}
    fam, l = case["fam"], out[0]
    ok = ACCEPT.get(fam, "opened-and-served")
    verdict = None
    if fam == "hyperv":              # `<as_dict> <typed walk>`, each `ok:…` or `E:<kind>`
        verdict = "E" if l.startswith("E:") else ok if l.startswith("ok:") else None
        if l.startswith("E:nonterm"):
            verdict = None
    elif fam == "envelope":          # env.attrs: `ok …` | `E <kind>`; env.keystore: `K…` | `need pbkdf2 …` | `E <kind>`
        verdict = "E" if l.startswith("E ") else ok if (l.startswith("ok ") or l.startswith("K") or l.startswith("need pbkdf2 ")) else None
    elif fam == "vmx":               # `ok <attr>` | `err value|other <attr>`; need / unsupported / nonterm are protocol
        parts = l.split()
        verdict = ok if parts[:1] == ["ok"] else "E" if parts[:1] == ["err"] and parts[1:2] in (["value"], ["other"]) else None
    else:
        verdict = "E" if l.startswith("err") else ok if l.startswith("ok") else None
    if verdict is None:
        return {"answers": None, "wf": None, "raw": l[:120]}
    return {"answers": [verdict], "wf": True}


def nontrivial(case, built, model):
    return True


def search(seed, broken, budget):
    return generate(seed + 1, "quick")
