#!/usr/bin/env python3
"""Regenerates MANIFEST.json from the table below (kept here so the file stays valid and uniform)."""
import json
from pathlib import Path

ROOT = Path(__file__).resolve().parent.parent
BASE = "cd /repo && /venv/bin/python -m pytest -ra -q -p no:cacheprovider --timeout=900 --continue-on-collection-errors tests"

CHECKS = {
    "C05": ("Lean 4 theorem vdi_read_correct (+ stream refinement) over a model of VDI.__init__/_read; layouts and constants re-extracted from the live cstruct definitions on every run; model, real code and construction truth compared on generated images",
            "§6 C05",
            "unbounded proof (induction over the block loop) + extraction + differential correspondence",
            "Modelled, not verified: cstruct, array('i') endianness, AlignedStream transcription, CPython bytes/int semantics. WF = positive block size, map covers the disk, entries in {-1,-2} or inside the file."),
    "C04": ("Lean 4 theorems vhd_read_correct / vhd_backendOK / vhd_stream_correct over a model of vhd.py (footer selection, fixed/dynamic dispatch, BAT, per-block loop); layouts/constants re-extracted each run; model, real code and construction truth compared on generated fixed and dynamic images",
            "§6 C04",
            "unbounded proof (induction over the sector loop) + extraction + differential correspondence",
            "Modelled, not verified: cstruct, struct.Struct('>I'), lru_cache transparency (file immutable), AlignedStream transcription. WF: block size a multiple of 4096, BAT inside the file, allocated blocks inside the file, size within BAT coverage."),
    "C06": ("Lean 4 theorems hds_read_correct / hds_backendOK / hds_stream_correct over a model of HDS.__init__, the cached BAT, _iter_runs (sentinel-0 run coalescer) and _read; the coalescing proof carries an invariant on the pending run, so the sparse-run/offset coincidence is covered for all geometries; layouts/constants re-extracted each run; model, real code and construction truth compared on generated v1/v2 images and parent chains",
            "§6 C06",
            "unbounded proof (induction over the run iterator with a pending-run invariant) + extraction + differential correspondence",
            "Modelled, not verified: cstruct, cached_property, AlignedStream transcription, parent stream seek/read. WF: cluster size and multiplier positive, BAT covers the disk, allocated clusters inside the file. Parent assumed at least as large as the child's cluster coverage."),
    "C03": ("Lean 4 theorems vhdx_read_correct / bat_index_matches_layout / vhdx_backendOK / vhdx_stream_correct over a model of VHDX.__init__ (file identifier, headers, region table, metadata table incl. skipping unknown optional items), BlockAllocationTable (pb/sb index, bounds, bit-field decode) and read_sectors; layouts/GUIDs/constants re-extracted each run; model, real code and construction truth compared on generated images (block sizes 1..256 MiB, > chunk-ratio blocks, sparse multi-GiB files)",
            "§6 C03",
            "unbounded proof (induction over the block loop; BAT index arithmetic for every chunk ratio) + extraction + differential correspondence",
            "Modelled, not verified: cstruct (bit-fields re-probed), UUID comparison, lru_cache, AlignedStream transcription. WF: no parent, block size = whole sectors, chunk ratio > 0, BAT inside the file, payload states in {0,1,2,3,6}, present blocks inside the file."),
    "C08": ("Lean 4 refinement theorem stream_refines_array (induction over operation lists: AlignedStream model = immutable array with cursor, for every backend satisfying BackendOK) + per-format BackendOK theorems (C03-C06 so far) + history/buffer-size independence corollaries; random operation histories on every stream class, several buffer sizes, compared op by op: real code vs Lean model vs array specification on construction truth",
            "§6 C08",
            "unbounded refinement proof over operation histories + differential correspondence",
            "dissect.util.stream.AlignedStream is an external dependency, transcribed into Hv/Stream.lean (modelled, tied by correspondence). lru_cache/cached_property transparency rests on file immutability (C09). Stream classes covered so far: VDI, VHD, HDS, VHDX (VMDK, QCOW2, StorageStream are added as their models land)."),
    "C02": ("Lean 4 theorems sparse_read_correct / getRuns_merge_sound / vmdk_backendOK / vmdk_stream_correct over a model of vmdk.py (three header layouts, footer re-read, GD sizing, grain-table and grain lookup incl. SE-sparse decoding, get_runs coalescer, read_sectors, compressed-grain reader with inflate as a parameter, RawDisk, extent walk); the coalescing proof carries a pending-run invariant; masks/shifts/layouts re-extracted each run (incl. literals inside function bodies); model (with a Lean inflate), real code and construction truth compared on generated extents of all kinds",
            "§6 C02",
            "unbounded proof (induction over get_runs with a pending-run invariant) + extraction + differential correspondence",
            "Proved for uncompressed sparse extents (hosted, footer, COWD, SE-sparse) and flat extents; for stream-optimised (compressed) extents only progress is proved and the read path is covered by the executable model + correspondence (sparse_read_correct is *partial* there). zlib is a parameter of the model. WF includes 'every needed lookup returns the format's value' (evaluated per case by the driver)."),
    "C01": ("Lean 4 executable model of qcow2.py (header + gates, v2 normalisation, extensions, L1/L2 walk, cluster and sub-cluster classification incl. extended L2, contiguous-run counting, _yield_runs, _read dispatch, compressed clusters with inflate as a parameter, backing incl. short backing files, external data file); constants/layouts/bit-counter behaviour re-extracted each run; model (with a Lean inflate), real code and construction truth compared on generated images of every advertised feature",
            "§6 C01",
            "executable Lean model + extraction + differential correspondence; theorems so far: extracted-constant equalities (read-path theorems are being added: see DESIGN §6 C01 status)",
            "PARTIAL: the unbounded read-correctness theorem for QCOW2 (qcow2_read_correct) is not proved yet; what is machine-checked is the constant/layout equalities, and what ties the model to the code is the correspondence. zlib is a parameter of the model."),
    "C10": ("Lean 4: the extent-line grammar is the regex *translated from the live RE_EXTENT_DESCRIPTOR on every run* and executed by a kernel-reducible backtracking matcher; theorem wiring_total (decide) shows every data-bearing extent kind is accepted by the grammar and mapped by VMDK.__init__; executable models of DiskDescriptor.parse, the extent walk of VMDK.read_sectors and StorageStream; real code vs model vs construction truth on generated multi-extent disks (descriptor and handle mode), Parallels storages, 20 000 extent lines and 4 000 descriptor texts per quick run",
            "§6 C10",
            "translator-regenerated model (regex) + kernel-evaluated table theorem + differential correspondence",
            "PARTIAL: vmdk_concat_read_correct / storage_concat_read_correct (read = slice of the concatenation for every request) are covered by the executable models + correspondence, not yet by a theorem. Known findings D20a/D20b (ZERO/RDM/RAW extents unmapped; FLAT start offset ignored) are listed in known_findings.json."),
    "C07": ("Executable Lean models of every layering mechanism (VHDX partially-present blocks with sector bitmaps and _iter_partial_runs, VMDK delta extents with run_parent, HDS parent chains, QCOW2 backing incl. short backing files and internal snapshots, VDI parents, Parallels snapshot-chain walk) composed into chains by the driver; theorems: hds_overlay (HDS child over any parent, from the C06 proof), snapshot-chain termination/cycle refusal; real code (real temp directories, all parent-location configurations incl. missing) vs model vs construction truth",
            "§6 C07",
            "executable Lean models + proved HDS overlay theorem + differential correspondence on chains of depth ≤ 4 (8 thorough)",
            "PARTIAL: the per-format overlay theorems for VHDX partial blocks, VMDK deltas and QCOW2 backing are not proved yet (the models are executable and tied by correspondence); parent *resolution* over a real filesystem is exercised on the implementation side only — the model receives the resolved chain and checks that an absent required parent is an error."),
    "C12": ("Lean 4 gate theorems in the form 'accepted ⇒ the validated field has an accepted value' (universally quantified over all inputs): VDI signature, HDS signatures, QCOW2 header gates as one pure function (magic, version, cluster_bits, zstd, sub-cluster size, crypt method, unknown incompatible bits) + data-file and backing-file gates decided inside open, VHDX file-identifier / region-table / metadata-table signatures and required regions, VMDK sparse magic (header and footer); gate constants re-extracted each run; exhaustive enumeration of single-bit flips of every magic and of the unsupported values on valid generated inputs, real code vs model vs expectation",
            "§6 C12",
            "universally quantified gate theorems + exhaustive gate enumeration (fault enumeration over the finite flip sets) + correspondence",
            "Gates of the Hyper-V, envelope/keystore and key-safe parsers are enumerated against the real code (implementation vs expectation); their Lean models belong to C15-C17. Only raised-vs-returned is compared. VMDK(fh) deliberately treats a file without sparse magic as a flat extent (not a gate)."),
    "C17": ("Lean 4 theorems over a model of hyperv.py (header pair, replay log, object-table walk with the once-per-offset rule, key-table registration ordered by sequence number, entry framing, free entries, key / typed value decoding, file-object pointers, parent linking through the active table of an index, as_dict): value_roundtrip (all six leaf types in range, any slack; unsigned_is_not_signed), file_object_value, entry_walk (+ zero-terminated, free_entries_ignored; induction over arbitrary entry lists), active_header_max_seq, active_table_max_seq / active_table_exists (any registration order), tree_decode_partial (a stored table parses to all its (offset, parent, key, typed value) records), object_walk_terminates / entry_loop_terminates (fuel size+1 suffices: pigeonhole on distinct table offsets); struct layouts, signatures, enums, masks and struct formats re-extracted from c_hyperv / hyperv.py each run; independent file writer; as_dict() and a typed walk of the real code vs model vs construction truth, plus hostile edits model-vs-implementation",
            "§6 C17",
            "unbounded proofs (induction over entry lists, registration orders, object-table walk) + extraction + differential correspondence",
            "PARTIAL: the assembly of the decoded records into the nested tree for arbitrary multi-table layouts (tree_decode) is not a theorem; it is covered by the executable model (kernel-evaluated example with competing tables, free entries, file objects) and the correspondence. Modelled, not verified: cstruct, struct.unpack, list.sort stability, strict utf-8 / utf-16-le decoding, dict semantics. Leaf values directly under the root (as_dict raises TypeError) and Python's recursion limit are outside the property."),
    "C15": ("Lean 4 theorems over a model of the encrypted-VMX unlock path (KeySafe.from_text / _parse_key_locator / _split_list / _parse_crypto_dict / unquote, Phrase.unwrap, _decrypt_hmac, unseal_with_phrase, VMX.unlock_with_phrase) with the primitives as parameters: unlock_roundtrip (a file sealed by the writer unlocks to exactly its configuration, for every MAC of the table, any KDF/cipher/rounds/salt/IV/content, CBC-inverts-encrypt as a hypothesis), keysafe_roundtrip (from_text of a rendered key safe = the pairs), pkcs7_strip_roundtrip (every plaintext incl. last byte = pad length), decrypt_hmac_roundtrip, fail_closed + unlock_ok_iff (attr changes only after both stages verified), wrong_mac_is_error, mac_covers_plaintext, padding_authenticated / bad_padding_is_error / altered_byte_refused_or_mac_input_changes (decrypted text = plaintext ‖ k bytes of value k, MAC over that plaintext), unseal_authenticated, unwrap_is_function_of_locator, tables_total; tables and grammar literals re-extracted from the live module each run; independent sealer (pycryptodome/hashlib) x real code x model on all 18 combinations, wrong passphrases, single-byte alterations of every encrypted field, multi-pair key safes with shared phrase ids, files unlocked in sequence in one process",
            "§6 C15",
            "unbounded proofs (induction over the grammar / the locator list; round trips with primitive laws as hypotheses) + extraction + differential correspondence with fault enumeration",
            "Primitives are modelled, not verified: PBKDF2, HMAC, AES-CBC, base64, int(), UTF-8 decoding and the .vmx dictionary syntax are parameters of the model, supplied per attempt as a table computed with the real libraries (detection of an altered MACed byte is HMAC's property). Finding D26 (padding not authenticated) was repaired in /repo 8052c1c; alterations reaching only padding are ordinary in-scope attempts (truth: refused)."),
    "C14": ("Lean 4 theorems over the metadata layer Hv/Meta.lean (built on the open/parse models of C01-C06/C10): ext_walk_roundtrip (for every list of header "
            "extensions - any count, types, payload lengths incl. multiples of 8 - the walk of QCow2._read_extensions on the encoded area returns exactly the list; induction "
            "over the list, with the fuel QCow2.open uses), ext_padding_spec ((len+7)&0xFFFFFFF8 = round-up-to-8 on 32-bit lengths), snapshot_table_offsets (entry i is parsed "
            "at the 8-byte aligned offset after its predecessors; induction over nb_snapshots), snapshot_entry_layout (id / name / unknown extra data are the stored bytes at "
            "40+extra, +id; entry_size), descriptor_kv_roundtrip (+_unquoted: key = \"value\" is split at the FIRST '=' for every key without '=' and every value, which may "
            "contain '='), max_seq_header_chosen / max_seq_header_unique, parent_locator_dict_roundtrip; struct layouts, padding literals/operators, the string-method calls of "
            "DiskDescriptor.parse and the comparison operator of the VHDX header choice re-extracted from the source on every run; independent writers for 8 families "
            "(qcow2, vhdx, vmdk text/embedded, vhd, vdi, hds, Parallels XML); real objects' public attributes vs model vs construction truth",
            "§6 C14",
            "unbounded proof (induction over extension lists / snapshot counts / strings) + extraction + differential correspondence",
            "Partial: the snapshot table and parent locator theorems are stated on file positions / the dictionary (byte-level halves of the round trips), the numeric fields are "
            "Field.decode of the extracted layouts (pinned by _spec theorems, exercised by the harness). backing_format / image_backing_file are compared after the documented "
            "upper-casing. Duplicate keys / duplicate known extension types, invalid UTF-8/UTF-16 and other spellings of int()/UUID() are outside the generated truth."),
    "C20": ("Lean 4 theorems visor_member_extracts_stored_bytes (every listed visor member with a recorded data offset extracts to file[offset, offset+size), offset = the little-endian word at header+496, for every file content / member count / order / placement, GNU long names included), visor_next_header_adjacent, plain_tar_unchanged (visor-aware listing = standard listing on archives without visor data offsets; induction over the iteration), vmtar_listing_terminates (fuel size/512+2 always suffices) over a model of VisorTarInfo.frombuf/_proc_member and the inherited CPython tarfile iteration (nts, nti incl. base-256, checksums, frombuf, _proc_builtin, _proc_gnulong, next, extractfile); slice positions/magic/struct formats in VisorTarInfo.frombuf re-extracted from the source on every run; independent archive writer; real code vs model vs construction truth (and vs tarfile.open for plain archives)",
            "§6 C20",
            "unbounded proof (induction over the member iteration) + extraction + differential correspondence",
            "Modelled, not verified: CPython tarfile (transcribed from 3.12). Outside the model (reported as unsupported, never compared): pax headers, old GNU sparse members, int()'s signed/0o/underscore octal spellings. A visor prefix field of 151 bytes without NUL is compared model-vs-implementation only (the property speaks about extracted bytes)."),
    "C19": ("Lean 4 theorems entity_decl_refused (any event stream containing an entity declaration / unparsed-entity declaration / external-entity reference, at any position and nesting depth, is refused at the first such event and nothing after it is consumed), declares_entities_refused, no_decl_parses_as_usual (no entity events: consumed exactly as by the plain parser), all_entrypoints_hardened (decide over the XML entry-point and import tables re-extracted from the source AST on every run: exactly one parse call per XML-reading module, each resolving to defusedxml.ElementTree.fromstring with default flags; non-hardened XML imports only under TYPE_CHECKING), defaults_spec (the installed defusedxml's default flags); hostile and benign documents x prolog variants at all four entry points under an audit hook and the time/memory watchdog: real code vs model vs expectation",
            "§6 C19",
            "proof of the decision logic + kernel-evaluated entry-point table (regenerated from the source) + differential runtime check with hostile documents",
            "PARTIAL by nature: expat and defusedxml are trusted libraries; the model is the hardened parser's decision logic over the expat event stream and the wiring of the four entry points. What the model cannot exhibit: expat's own behaviour on malformed input, memory use of the C parser."),
    "C09": ("Lean 4 theorems all_sites_readonly and single_writer (decide over the I/O call-site table re-extracted from the source AST of every module on every run: path opens only 'rb'/'r', read_text/read_bytes only, write-like methods only on private in-memory streams — directly or through helpers all of whose callers pass one —, no os/shutil/tempfile/subprocess/socket/mmap calls, no dynamic evaluation, no in-place crypto output, no buffer aliasing of caller handles; the only writers are the two --output lines of tools/envelope.py: main), readonly_trace_preserves_fs (induction over traces on an abstract file system), only_the_named_output_changes, firstViolation_none_iff; runtime audit (sys.addaudithook attributed to dissect.hypervisor frames + recording handles that accept writes + content comparison) over the C01-C07/C10/C20 workloads, envelope decrypt, Hyper-V files incl. outstanding replay-log entries, VMX unlock, OVF/VBox/PVS and the decrypt tool; the observed trace is judged by the Lean model and every path open must map to an extracted site",
            "§6 C09",
            "kernel-evaluated call-site table (regenerated from the source) + proof over operation traces + runtime audit correspondence",
            "PARTIAL for the 'all code paths' clause: the table covers what is visible in the AST (it also proves there is no dynamic dispatch site), the runtime audit is sampling; effects inside C extensions that raise no audit event are invisible."),
    "C11": ("Lean 4 termination theorems, each for *arbitrary* header / table / file contents: vdi_read_terminates, vhd_read_terminates, vhdx_read_terminates, hds_read_terminates, vmdk_getRuns_terminates, vmdk_compressed_run_terminates (induction on fuel with a progress >= 1 argument), chain_walk_terminates (Parallels snapshot graphs of any shape: pigeonhole over the shot list), vmtar_listing_terminates; every model loop is fuel-recursive with a distinct non-termination outcome, so the theorems say that outcome is unreachable; mutation streams (field values 0/1/max/sign/±1/self-reference in both endiannesses, truncations, corruption), deflate bombs with disagreeing header/footer, cyclic snapshot graphs, negative tar sizes, mutated Hyper-V files / envelopes / key safes: the real code under watchdog + tracemalloc bound, the Lean models on the same bytes must never answer nonterm",
            "§6 C11",
            "unbounded termination proofs (progress / pigeonhole) + fault-injection correspondence under a watchdog and an allocation bound",
            "PARTIAL: real CPU time and memory of CPython, cstruct and zlib are measured, not proved. Not yet a theorem: progress of QCOW2 _yield_runs (the model reports nonterm on a zero-length run and the harness flags any nonterm from the driver), Hyper-V / envelope loops (see C16/C17). The inflate bound is a parameter of the models (max_length = allocation unit at every call site) and is exercised by the bomb cases."),
    "C13": ("Lean 4 wide-offset theorems over the extracted masks / layouts: qcow2_offset_mask_wide and qcow2_l1_mask_wide (every 512-aligned host offset < 2^56 survives the L2 / L1 masks under any flag bits; bit-extensional proof), qcow2_compressed_descriptor_wide (every cluster size 9..21: descriptor decodes to its host offset < 2^x and sector count), sesparse_entry_wide (every grain number < 2^60 recombines from the split hi/lo fields), vhdx_file_offset_wide (44-bit MiB offsets through the extracted bit-field), vhd_bat_entry_unsigned (32-bit unsigned sectors, format string extracted); sparse counting backing files with tables / blocks / clusters / grains beyond 2^32 bytes, 2^32 sectors and up to 2^55, virtual sizes of tens of TiB, few vs many allocated units: content real code vs Lean model vs construction truth, and bytes read at open / per request against a bound that depends on mapping metadata and request only",
            "§6 C13",
            "unbounded proofs of the wide-offset arithmetic + extraction + differential correspondence with I/O accounting on sparse multi-terabyte files",
            "PARTIAL: the I/O bound (no scan, no dependence on allocated data) is measured on the real code against a bound computed from the generator's geometry, not yet proved on an instrumented model (planned: footprint theorems 'the result depends only on the bytes of the tables and units the request maps to'). Read-ahead inside Python's own file objects is outside the model."),
    "C16": ("Lean 4 theorems over a model of util/envelope.py + tools/envelope.py with SHA-256 / PBKDF2 / AES-GCM as parameters (structure Crypto, no axioms): attrs_roundtrip (read(pack as) = as for every well-formed attribute list of all twelve types, by induction), header_repack_identity (the re-serialised header fed to GCM is the stored block), padding_strip (every payload and padding length incl. 0), decrypt_fail_closed / decrypt_wrong_key (key-hash gate, missing IV, tag mismatch => error, no plaintext), aad_covers (success => stored tag = tag over header||AAD and ciphertext), keystore_deterministic (key = pbkdf2(data1||SALT, data2, 100000) of the stored values, pure function), cli_writes_exactly, envelope_roundtrip (open + decrypt of header||ciphertext||AEAD footer returns exactly the payload); layouts, magics, salt, type map, literals re-extracted each run; independent envelope/keystore writer (pycryptodome) vs real code vs model; the model's crypto is a finite table computed with the real libraries for exactly the model's calls",
            "§6 C16",
            "unbounded proofs (induction over attribute lists; control-flow theorems over abstract crypto) + extraction + differential correspondence incl. tamper enumeration, keystore sequences in one process and the CLI in a temp dir",
            "Crypto is a parameter: AES-GCM's own authenticity / PBKDF2 / SHA-256 are the libraries'. Modelled, not verified: cstruct, CPython float32<->double conversion, str.strip/split/partition, urllib unquote, binascii base64 (non-strict), UTF-8 validity, pycryptodome verify() and key-length check. Known finding D27 (float32 signalling-NaN attribute breaks the MAC) is listed in known_findings.json."),
}

NOT_YET = {
}


def main():
    checks = []
    for pid, (text, ref, tech, note) in sorted(CHECKS.items()):
        checks.append({
            "property_id": pid,
            "quick_cmd": f"./check {pid} --tier quick",
            "thorough_cmd": f"./check {pid} --tier thorough",
            "evidence_file": f"evidence/{pid}.json",
            "replay_cmd_template": f"./check {pid} --replay {{path}}",
            "engine": "lean4+correspondence",
            "level_claimed": {"category": "proof", "text": text, "design_ref": ref},
            "level_note": note,
            "technique": tech,
        })
    props = [json.loads(l)["id"] for l in (ROOT / "properties.jsonl").read_text().splitlines() if l.strip()]
    na = [{"property_id": p, "reason": NOT_YET.get(p, "check not built yet in this round (model and theorems planned in DESIGN.md §6; not a limitation of the technique)")}
          for p in props if p not in CHECKS]
    m = {
        "version": 1,
        "setup_cmd": "./setup.sh",
        "hooks": {"guard": "DISSECT_HYPERVISOR_VERIF", "enable": "no source hooks are needed; the guard name is reserved",
                  "baseline_off_cmd": BASE, "source_commits": [], "add_only": True},
        "engines": [{"name": "lean4+correspondence", "path": "lean/ + harness/", "serves_properties": sorted(CHECKS),
                     "kind_free_text": "Lean 4 models + theorems (lake), constants/layouts regenerated from /repo on every run, compiled Lean driver compared with the real code and with construction truth"}],
        "checks": checks,
        "notes": "See DESIGN.md. Exit 0 = held; 1 = VIOLATION line; 2 = infrastructure failure (never a verdict).",
        "not_applicable": na,
    }
    (ROOT / "MANIFEST.json").write_text(json.dumps(m, indent=1) + "\n")


if __name__ == "__main__":
    main()
