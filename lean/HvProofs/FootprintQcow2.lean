/-
  Footprint theorems for QCOW2 (C13, I/O clause): `_read` — the L1/L2 walk, `count_contiguous_subclusters`, the run
  reader, standard and extended L2 entries, compressed clusters — depends on the image file only through its size and
  the bytes named by `Hv.Footprint.qcow2Meta` (L2 entries of the guest clusters the request touches, compressed data),
  and on the data file only through its size and `Hv.Footprint.qcow2Data` (requested parts of the normal host clusters).
-/
import Hv.Footprint
import HvProofs.Footprint
import HvProofs.Qcow2
namespace Hv.Footprint
open Hv Hv.Qcow2 Hv.Extracted.qcow2

section qcow2

/-- the image object over other file contents -/
abbrev qWith (q : QCow2) (f' d' : File) : QCow2 := { q with fh := f', dataFile := d' }

theorem mem_units_of_bounds (u off len i : Nat) (hl : 0 < len) (h1 : off / u ≤ i) (h2 : i ≤ (off + len - 1) / u) :
    i ∈ unitsTouched u off len := by
  unfold unitsTouched
  have hl' : len ≠ 0 := by omega
  simp only [hl', if_false, List.mem_map, List.mem_range]
  exact ⟨i - off / u, by omega, by omega⟩

theorem partIn_contains (u off len G : Nat) (hu : 0 < u) (h1 : off ≤ G) (h2 : G < off + len) :
    (partIn u off len (G / u)).1 ≤ G % u ∧ G % u < (partIn u off len (G / u)).1 + (partIn u off len (G / u)).2 := by
  have hdm := Nat.div_add_mod G u
  have hmod := Nat.mod_lt G hu
  have hmul : (G / u + 1) * u = G / u * u + u := by rw [Nat.add_mul, Nat.one_mul]
  have hcomm : u * (G / u) = G / u * u := Nat.mul_comm _ _
  unfold partIn
  show max off (G / u * u) - G / u * u ≤ G % u ∧
    G % u < max off (G / u * u) - G / u * u + (min (off + len) ((G / u + 1) * u) - max off (G / u * u))
  rw [hmul]
  generalize G / u * u = A at *
  omega

/-- `l2_table[idx]` looks only at the words `qcow2Words` names -/
theorem qcow2_l2Entry_congr (q : QCow2) (f' d' : File) (l2o idx : Nat) (hs : q.fh.size = f'.size)
    (h : ∀ r ∈ qcow2Words q l2o idx, ∀ p, r.1 ≤ p → p < r.1 + r.2 → q.fh.byte p = f'.byte p) :
    (qWith q f' d').l2Entry l2o idx = q.l2Entry l2o idx := by
  unfold QCow2.l2Entry
  have e0 : (qWith q f' d').l2EntrySize = q.l2EntrySize := rfl
  have e0' : (qWith q f' d').l2Size = q.l2Size := rfl
  have e0'' : (qWith q f' d').sub = q.sub := rfl
  simp only [e0, e0', e0'']
  show (if l2o + 8 * (q.l2Size * (q.l2EntrySize / 8)) > f'.size then _ else _) = _
  rw [← hs]
  unfold qcow2Words at h
  by_cases h1 : l2o + 8 * (q.l2Size * (q.l2EntrySize / 8)) > q.fh.size
  · simp only [h1, if_true]
  · simp only [h1, if_false] at h ⊢
    show (if idx * q.l2EntrySize / 8 ≥ q.l2Size * (q.l2EntrySize / 8) then _ else _) = _
    by_cases h2 : idx * q.l2EntrySize / 8 ≥ q.l2Size * (q.l2EntrySize / 8)
    · simp only [h2, if_true]
    · simp only [h2, if_false] at h ⊢
      have e1 : slice f'.byte (l2o + 8 * (idx * q.l2EntrySize / 8)) 8 = slice q.fh.byte (l2o + 8 * (idx * q.l2EntrySize / 8)) 8 := by
        apply slice_congr
        intro i hi
        exact (h (l2o + 8 * (idx * q.l2EntrySize / 8), 8) (List.mem_cons_self ..) _ (by simp only; omega) (by simp only; omega)).symm
      show (if q.sub = true then _ else _) = _
      cases hsub : q.sub with
      | false =>
        simp only [Bool.false_eq_true, if_false]
        show Except.ok (beNat (slice f'.byte _ 8), 0) = _
        rw [e1]
      | true =>
        simp only [hsub, if_true] at h ⊢
        show (if idx * q.l2EntrySize / 8 + 1 ≥ q.l2Size * (q.l2EntrySize / 8) then _ else _) = _
        by_cases h3 : idx * q.l2EntrySize / 8 + 1 ≥ q.l2Size * (q.l2EntrySize / 8)
        · simp only [h3, if_true]
        · simp only [h3, if_false] at h ⊢
          have e2 : slice f'.byte (l2o + 8 * (idx * q.l2EntrySize / 8 + 1)) 8
              = slice q.fh.byte (l2o + 8 * (idx * q.l2EntrySize / 8 + 1)) 8 := by
            apply slice_congr
            intro i hi
            exact (h (l2o + 8 * (idx * q.l2EntrySize / 8 + 1), 8) (by simp) _ (by simp only; omega) (by simp only; omega)).symm
          show Except.ok (beNat (slice f'.byte _ 8), beNat (slice f'.byte _ 8)) = _
          rw [e1, e2]

/-- `count_contiguous_subclusters` looks only at the entries `l2Index + i .. l2Index + i + k - 1` -/
theorem qcow2_countLoop_congr (q : QCow2) (f' d' : File) (l2o l2Index sc : Nat) :
    ∀ k i st, (∀ j, i ≤ j → j < i + k → (qWith q f' d').l2Entry l2o (l2Index + j) = q.l2Entry l2o (l2Index + j)) →
      (qWith q f' d').countLoop l2o l2Index sc k i st = q.countLoop l2o l2Index sc k i st := by
  intro k
  induction k with
  | zero => intro i st _; rfl
  | succ k ih =>
    intro i st H
    have ih' : ∀ st', (qWith q f' d').countLoop l2o l2Index sc k (i + 1) st' = q.countLoop l2o l2Index sc k (i + 1) st' :=
      fun st' => ih (i + 1) st' (fun j h1 h2 => H j (by omega) (by omega))
    unfold QCow2.countLoop
    rw [H i (Nat.le_refl _) (by omega)]
    have e1 : (qWith q f' d').subclusterRangeType = q.subclusterRangeType := rfl
    have e2 : (qWith q f' d').scPer = q.scPer := rfl
    have e3 : (qWith q f' d').cs = q.cs := rfl
    simp only [e1, e2, e3, ih']

/-- the L2 table offset the walk uses for an offset is the one `qcow2L2` gives for its cluster -/
theorem qcow2L2_of (q : QCow2) (_g : Geom q) (l1 : Array Nat) (c l1e : Nat) (hl1 : q.l1 = .ok l1)
    (hl1e : l1[c / q.l2Size]? = some l1e) (hnz : l1e &&& L1E_OFFSET_MASK ≠ 0) :
    qcow2L2 q c = some (l1e &&& L1E_OFFSET_MASK) := by
  unfold qcow2L2
  simp only [hl1, hl1e, hnz, if_false]

theorem l1Index_eq (q : QCow2) (g : Geom q) (o : Nat) : o / 2 ^ (q.l2Bits + q.clusterBits) = o / q.cs / q.l2Size := by
  rw [g.l1sh, Nat.div_div_eq_div_mul, Nat.mul_comm]

/-- the clusters `count_contiguous_subclusters` may look at are clusters the request touches, in the same L2 table -/
theorem qcow2_ahead (q : QCow2) (g : Geom q) (offset length o l j : Nat) (h0 : offset ≤ o) (he : o + l = offset + length)
    (hl : 0 < l) (hj : j < (q.bn o l + (q.cs - 1)) / q.cs) :
    o / q.cs + j ∈ unitsTouched q.cs offset length ∧ (o / q.cs + j) / q.l2Size = o / q.cs / q.l2Size ∧
      (o / q.cs + j) % q.l2Size = o / q.cs % q.l2Size + j := by
  have hcs := cs_pos q
  have hl2 := g.l2_pos
  obtain ⟨hb1, hb2, hb3⟩ := bn_bounds q g o l hl
  have hjc : j * q.cs < q.bn o l := by
    have : (j + 1) * q.cs ≤ q.bn o l + (q.cs - 1) := (Nat.le_div_iff_mul_le hcs).1 hj
    rw [Nat.add_mul, Nat.one_mul] at this
    omega
  have hjl : j < q.l2Size - o / q.cs % q.l2Size := by
    apply Nat.lt_of_mul_lt_mul_right (a := q.cs)
    omega
  have hm := Nat.mod_lt (o / q.cs) hl2
  have hdm := Nat.div_add_mod o q.cs
  have hc : o / q.cs = q.l2Size * (o / q.cs / q.l2Size) + o / q.cs % q.l2Size := (Nat.div_add_mod _ _).symm
  have hc' : o / q.cs + j = q.l2Size * (o / q.cs / q.l2Size) + (o / q.cs % q.l2Size + j) := by omega
  refine ⟨?_, ?_, ?_⟩
  · apply mem_units_of_bounds _ _ _ _ (by omega)
    · have := Nat.div_le_div_right (c := q.cs) h0
      omega
    · rw [Nat.le_div_iff_mul_le hcs, Nat.add_mul]
      have : o / q.cs * q.cs = q.cs * (o / q.cs) := Nat.mul_comm _ _
      omega
  · have h0' : (o / q.cs % q.l2Size + j) / q.l2Size = 0 := Nat.div_eq_of_lt (by omega)
    rw [hc', Nat.mul_add_div hl2, h0', Nat.add_zero]
  · have h0' : (o / q.cs % q.l2Size + j) % q.l2Size = o / q.cs % q.l2Size + j := Nat.mod_eq_of_lt (by omega)
    rw [hc', Nat.mul_add_mod, h0']

/-- one iteration of `_yield_runs` depends on the image file only through the L2 entries of the clusters touched -/
theorem qcow2_step_congr (q : QCow2) (g : Geom q) (f' d' : File) (offset length : Nat)
    (H : ∀ c ∈ unitsTouched q.cs offset length, ∀ l2o, qcow2L2 q c = some l2o →
      (qWith q f' d').l2Entry l2o (c % q.l2Size) = q.l2Entry l2o (c % q.l2Size))
    (o l : Nat) (h0 : offset ≤ o) (he : o + l = offset + length) (hl : 0 < l) :
    (qWith q f' d').step o l = q.step o l := by
  unfold QCow2.step
  have e2 : (qWith q f' d').l2Bits = q.l2Bits := rfl
  have e4 : (qWith q f' d').cs = q.cs := rfl
  have e5 : (qWith q f' d').l2Size = q.l2Size := rfl
  have e6 : (qWith q f' d').scBits = q.scBits := rfl
  have e7 : (qWith q f' d').scPer = q.scPer := rfl
  have e8 : (qWith q f' d').subclusterType = q.subclusterType := rfl
  simp only [e2, e4, e5, e6, e7, e8]
  cases hl1 : q.l1 with
  | error e => rfl
  | ok l1 =>
    simp only [bind, Except.bind]
    by_cases hidx : o / 2 ^ (q.l2Bits + q.clusterBits) ≥ l1.size
    · simp only [hidx, if_true]
    · simp only [hidx, if_false]
      cases hl1e : l1[o / 2 ^ (q.l2Bits + q.clusterBits)]? with
      | none => rfl
      | some l1e =>
        simp only
        by_cases hz : l1e &&& L1E_OFFSET_MASK = 0
        · simp only [hz, if_true]
        · simp only [hz, if_false]
          have hl2o : ∀ j, j < (q.bn o l + (q.cs - 1)) / q.cs →
              (qWith q f' d').l2Entry (l1e &&& L1E_OFFSET_MASK) (o / q.cs % q.l2Size + j)
                = q.l2Entry (l1e &&& L1E_OFFSET_MASK) (o / q.cs % q.l2Size + j) := by
            intro j hj
            obtain ⟨hm, hd, hmod⟩ := qcow2_ahead q g offset length o l j h0 he hl hj
            have := H _ hm (l1e &&& L1E_OFFSET_MASK)
              (qcow2L2_of q g l1 _ l1e hl1 (by rw [hd, ← l1Index_eq q g]; exact hl1e) hz)
            rw [hmod] at this
            exact this
          have hk : 0 < (q.bn o l + (q.cs - 1)) / q.cs := by
            obtain ⟨hb1, _, _⟩ := bn_bounds q g o l hl
            exact Nat.div_pos (by have := cs_pos q; omega) (cs_pos q)
          have hfirst := hl2o 0 hk
          rw [Nat.add_zero] at hfirst
          rw [hfirst]
          have hcount : ∀ sc st, (qWith q f' d').countLoop (l1e &&& L1E_OFFSET_MASK) (o / q.cs % q.l2Size) sc
                ((q.bn o l + (q.cs - 1)) / q.cs) 0 st
              = q.countLoop (l1e &&& L1E_OFFSET_MASK) (o / q.cs % q.l2Size) sc ((q.bn o l + (q.cs - 1)) / q.cs) 0 st := by
            intro sc st
            apply qcow2_countLoop_congr
            intro j _ hj
            exact hl2o j (by omega)
          have hbn : min (l + o % q.cs) ((q.l2Size - o / q.cs % q.l2Size) * q.cs) = q.bn o l := rfl
          simp only [hbn, hcount]

/-- `_yield_runs` produces the same runs -/
theorem qcow2_yieldRuns_congr (q : QCow2) (g : Geom q) (f' d' : File) (offset length : Nat)
    (H : ∀ c ∈ unitsTouched q.cs offset length, ∀ l2o, qcow2L2 q c = some l2o →
      (qWith q f' d').l2Entry l2o (c % q.l2Size) = q.l2Entry l2o (c % q.l2Size)) :
    ∀ fuel o l, offset ≤ o → o + l = offset + length →
      (qWith q f' d').yieldRuns fuel o l = q.yieldRuns fuel o l := by
  intro fuel
  induction fuel with
  | zero => intro o l _ _; rfl
  | succ fuel ih =>
    intro o l h0 he
    rw [yieldRuns_succ, yieldRuns_succ]
    by_cases hl : l = 0
    · simp only [hl, if_true]
    · simp only [hl, if_false]
      rw [qcow2_step_congr q g f' d' offset length H o l h0 he (by omega)]
      cases hst : q.step o l with
      | error e => simp only [bind, Except.bind]
      | ok nr =>
        obtain ⟨n, run⟩ := nr
        simp only [bind, Except.bind]
        by_cases hn : n = 0
        · simp only [hn, if_true]
        · simp only [hn, if_false]
          obtain ⟨hn1, hn2, _, _⟩ := step_progress q g o l n run (by omega) hst
          rw [ih (o + n) (l - n) (by omega) (by omega)]

/-! ### the runs are covered -/

theorem subclusterType_normal (q : QCow2) (e bm s : Nat) (h : q.subclusterType e bm s = .ok SC_NORMAL) :
    q.clusterType e = .normal := by
  unfold QCow2.subclusterType at h
  cases hct : q.clusterType e <;> simp only [hct] at h <;>
    first | rfl | (exfalso; revert h; (repeat' split) <;> (intro h; first | cases h | simp at h))

theorem subclusterType_compressed (q : QCow2) (e bm s : Nat) (h : q.subclusterType e bm s = .ok SC_COMPRESSED) :
    q.clusterType e = .compressed := by
  unfold QCow2.subclusterType at h
  cases hct : q.clusterType e <;> simp only [hct] at h <;>
    first | rfl | (exfalso; revert h; (repeat' split) <;> (intro h; first | cases h | simp at h))

/-- what one run of `_read` looks at -/
def RunCovered (q : QCow2) (Pm Pd : Nat → Prop) (r : Run) : Prop :=
  (r.type = SC_NORMAL → ∀ p, r.hostOffset ≤ p → p < r.hostOffset + r.count → Pd p) ∧
  (r.type = SC_COMPRESSED → ∀ p, (qcow2Comp q r.hostOffset).1 ≤ p →
    p < (qcow2Comp q r.hostOffset).1 + (qcow2Comp q r.hostOffset).2 → Pm p)

theorem qcow2_step_covered (q : QCow2) (g : Geom q) (offset length : Nat) (Pm Pd : Nat → Prop)
    (hm : ∀ r ∈ qcow2Meta q offset length, ∀ p, r.1 ≤ p → p < r.1 + r.2 → Pm p)
    (hd : ∀ r ∈ qcow2Data q offset length, ∀ p, r.1 ≤ p → p < r.1 + r.2 → Pd p)
    (o l n : Nat) (run : Run) (h0 : offset ≤ o) (he : o + l = offset + length) (hl : 0 < l)
    (hst : q.step o l = .ok (n, run)) : RunCovered q Pm Pd run := by
  have hcs := cs_pos q
  obtain ⟨hb1, hb2, hb3⟩ := bn_bounds q g o l hl
  cases step_info q g o l n run hl hst with
  | unalloc l1 hl1 hidx hrun hn =>
    subst hrun
    unfold RunCovered
    constructor <;> intro h <;> simp at h
  | mapped l1 l1e e bm t cnt hl1 hl1e hl2 hE hT hrun hcnt hcomp hgood hn =>
    subst hrun
    have hl1e' : l1[o / q.cs / q.l2Size]? = some l1e := by rw [← l1Index_eq q g]; exact hl1e
    constructor
    · -- a normal run: host clusters are contiguous, each one is the cluster of a guest cluster the request touches
      intro ht p hp1 hp2
      simp only at ht hp1 hp2
      subst ht
      have hhost : (if SC_NORMAL = SC_COMPRESSED then e &&& L2E_COMPRESSED_OFFSET_SIZE_MASK
          else if NORMAL_SUBCLUSTER_TYPES.contains SC_NORMAL then (e &&& L2E_OFFSET_MASK) + o % q.cs else 0)
          = (e &&& L2E_OFFSET_MASK) + o % q.cs := by
        have c1 : ¬ (SC_NORMAL = SC_COMPRESSED) := by decide
        have c2 : NORMAL_SUBCLUSTER_TYPES.contains SC_NORMAL = true := by decide
        simp only [c1, c2, if_false, if_true]
      rw [hhost] at hp1 hp2
      obtain ⟨x, hx⟩ : ∃ x, p = (e &&& L2E_OFFSET_MASK) + o % q.cs + x := ⟨p - ((e &&& L2E_OFFSET_MASK) + o % q.cs), by omega⟩
      have hxn : x < n := by omega
      have hy1 : o % q.cs + x < q.bn o l := by omega
      have hy2 : o % q.cs + x < (cnt + o / 2 ^ q.scBits % q.scPer) * 2 ^ q.scBits := by omega
      obtain ⟨a1, a2, a3, a4, a5, _, a7⟩ := cluster_arith q g o x (by omega)
      have hS : 0 < 2 ^ q.scBits := Nat.two_pow_pos _
      have hpp1 : o / 2 ^ q.scBits % q.scPer ≤ (o % q.cs + x) / 2 ^ q.scBits := by
        rw [← oic_sc q g o]
        exact Nat.div_le_div_right (by omega)
      have hpp2 : (o % q.cs + x) / 2 ^ q.scBits < o / 2 ^ q.scBits % q.scPer + cnt := by
        apply Nat.div_lt_of_lt_mul
        rw [Nat.mul_comm, Nat.add_comm _ cnt]; exact hy2
      obtain ⟨e', bm', hE', hT', hoff⟩ := hgood _ hpp1 hpp2
      rw [a7] at hE' hoff
      have hoff' := hoff (Or.inl rfl)
      -- the guest position
      have hG1 : offset ≤ o + x := by omega
      have hG2 : o + x < offset + length := by omega
      have hmem : (o + x) / q.cs ∈ unitsTouched q.cs offset length := mem_unitsTouched _ _ _ _ hG1 hG2
      obtain ⟨hc1, hc2⟩ := partIn_contains q.cs offset length (o + x) hcs hG1 hG2
      have hL2 : qcow2L2 q ((o + x) / q.cs) = some (l1e &&& L1E_OFFSET_MASK) := by
        apply qcow2L2_of q g l1 _ l1e hl1 _ hl2
        rw [a1, g.l2, a4]; exact hl1e
      have hidx : (o + x) / q.cs % q.l2Size = o / q.cs % q.l2Size + (o % q.cs + x) / q.cs := by
        rw [← g.l2] at a5
        rw [a1, a5]
      have hct := subclusterType_normal q e' bm' _ hT'
      apply hd ((e' &&& L2E_OFFSET_MASK) + (partIn q.cs offset length ((o + x) / q.cs)).1,
        (partIn q.cs offset length ((o + x) / q.cs)).2)
      · unfold qcow2Data
        rw [List.mem_flatMap]
        refine ⟨_, hmem, ?_⟩
        simp only [qcow2DataUnit, hL2, hidx, hE', hct, if_true, List.mem_singleton]
      · simp only
        have := Nat.div_add_mod (o % q.cs + x) q.cs
        rw [a2] at hc1 hc2
        rw [hoff', hx]
        have hmc : q.cs * ((o % q.cs + x) / q.cs) = (o % q.cs + x) / q.cs * q.cs := Nat.mul_comm _ _
        omega
      · simp only
        have := Nat.div_add_mod (o % q.cs + x) q.cs
        rw [a2] at hc1 hc2
        rw [hoff', hx]
        have hmc : q.cs * ((o % q.cs + x) / q.cs) = (o % q.cs + x) / q.cs * q.cs := Nat.mul_comm _ _
        omega
    · -- a compressed run: the descriptor of the cluster of `o`
      intro ht p hp1 hp2
      simp only at ht hp1 hp2
      subst ht
      simp only [if_true] at hp1 hp2
      have hmem : o / q.cs ∈ unitsTouched q.cs offset length := mem_unitsTouched _ _ _ _ h0 (by omega)
      have hL2 : qcow2L2 q (o / q.cs) = some (l1e &&& L1E_OFFSET_MASK) := qcow2L2_of q g l1 _ l1e hl1 hl1e' hl2
      have hct := subclusterType_compressed q e bm _ hT
      apply hm (qcow2Comp q (e &&& L2E_COMPRESSED_OFFSET_SIZE_MASK)) _ p hp1 hp2
      unfold qcow2Meta
      rw [List.mem_flatMap]
      refine ⟨_, hmem, ?_⟩
      simp only [qcow2MetaUnit, hL2, hE, hct, if_true, List.mem_append, List.mem_singleton, or_true]

theorem qcow2_runs_covered (q : QCow2) (g : Geom q) (offset length : Nat) (Pm Pd : Nat → Prop)
    (hm : ∀ r ∈ qcow2Meta q offset length, ∀ p, r.1 ≤ p → p < r.1 + r.2 → Pm p)
    (hd : ∀ r ∈ qcow2Data q offset length, ∀ p, r.1 ≤ p → p < r.1 + r.2 → Pd p) :
    ∀ fuel o l runs, offset ≤ o → o + l = offset + length → q.yieldRuns fuel o l = .ok runs →
      ∀ r ∈ runs, RunCovered q Pm Pd r := by
  intro fuel
  induction fuel with
  | zero =>
    intro o l runs _ _ h
    unfold QCow2.yieldRuns at h
    by_cases hl : l = 0
    · simp only [hl, if_true, Except.ok.injEq] at h
      subst h; intro r hr; cases hr
    · simp [hl] at h
  | succ fuel ih =>
    intro o l runs h0 he h
    rw [yieldRuns_succ] at h
    by_cases hl : l = 0
    · simp only [hl, if_true, Except.ok.injEq] at h
      subst h; intro r hr; cases hr
    · simp only [hl, if_false] at h
      cases hst : q.step o l with
      | error e => simp [hst, bind, Except.bind] at h
      | ok nr =>
        obtain ⟨n, run⟩ := nr
        simp only [hst, bind, Except.bind] at h
        by_cases hn : n = 0
        · simp [hn] at h
        · simp only [hn, if_false] at h
          obtain ⟨hn1, hn2, _, _⟩ := step_progress q g o l n run (by omega) hst
          cases hrest : q.yieldRuns fuel (o + n) (l - n) with
          | error e => simp [hrest] at h
          | ok rest =>
            simp only [hrest, Except.ok.injEq] at h
            subst h
            intro r hr
            rcases List.mem_cons.1 hr with hr | hr
            · subst hr
              exact qcow2_step_covered q g offset length Pm Pd hm hd o l n _ h0 he (by omega) hst
            · exact ih _ _ rest (by omega) (by omega) hrest r hr

theorem qcow2_execRuns_congr (q : QCow2) (f' d' : File) (hs : q.fh.size = f'.size) (hds : q.dataFile.size = d'.size) :
    ∀ runs, (∀ r ∈ runs, RunCovered q (fun p => q.fh.byte p = f'.byte p) (fun p => q.dataFile.byte p = d'.byte p) r) →
      q.execRuns runs = (qWith q f' d').execRuns runs := by
  intro runs
  induction runs with
  | nil => intro _; rfl
  | cons r rest ih =>
    intro h
    unfold QCow2.execRuns
    have hd : q.runData r = (qWith q f' d').runData r := by
      obtain ⟨hn, hc⟩ := h r (List.mem_cons_self ..)
      unfold QCow2.runData
      have e1 : (qWith q f' d').backing = q.backing := rfl
      simp only [e1]
      split
      · rfl
      · split
        · rfl
        · split
          · rename_i hcomp
            unfold QCow2.readCompressed
            have e2 : (qWith q f' d').cs = q.cs := rfl
            have e3 : (qWith q f' d').clusterOffsetMask = q.clusterOffsetMask := rfl
            have e4 : (qWith q f' d').csizeShift = q.csizeShift := rfl
            have e5 : (qWith q f' d').csizeMask = q.csizeMask := rfl
            have e6 : (qWith q f' d').compressionType = q.compressionType := rfl
            have e7 : (qWith q f' d').inflate = q.inflate := rfl
            simp only [e2, e3, e4, e5, e6, e7]
            have hrd : f'.read (r.hostOffset &&& q.clusterOffsetMask)
                ((((r.hostOffset >>> q.csizeShift) &&& q.csizeMask) + 1) * QCOW2_COMPRESSED_SECTOR_SIZE -
                  ((r.hostOffset &&& q.clusterOffsetMask) &&& 511))
                = q.fh.read (r.hostOffset &&& q.clusterOffsetMask)
                ((((r.hostOffset >>> q.csizeShift) &&& q.csizeMask) + 1) * QCOW2_COMPRESSED_SECTOR_SIZE -
                  ((r.hostOffset &&& q.clusterOffsetMask) &&& 511)) :=
              (File.read_congr q.fh f' _ _ hs (hc hcomp)).symm
            simp only [hrd]
          · split
            · rename_i hnorm
              show Except.ok (q.dataFile.read r.hostOffset r.count) = Except.ok (d'.read r.hostOffset r.count)
              rw [File.read_congr q.dataFile d' _ _ hds (hn hnorm)]
            · rfl
    rw [hd, ih (fun r' hr' => h r' (List.mem_cons_of_mem _ hr'))]

/-- **read_footprint (QCOW2)**: `_read(offset, length)` depends on the image file only through its size and the bytes
    of `qcow2Meta` (the L2 entries of the guest clusters the request touches — the look-ahead of
    `count_contiguous_subclusters` stays inside them — and the compressed data of compressed clusters), and on the data
    file only through its size and the bytes of `qcow2Data` (requested parts of the host clusters of normal entries).
    Arbitrary table contents; standard and extended L2 entries; the header geometry is the one `open` accepts. -/
theorem qcow2_read_footprint (q : QCow2) (hh : HdrOK q) (f' d' : File) (offset length : Nat)
    (hm : AgreeOn (qcow2Meta q offset length) q.fh f') (hd : AgreeOn (qcow2Data q offset length) q.dataFile d') :
    q.read offset length = (qWith q f' d').read offset length := by
  have g := geom q hh
  unfold QCow2.read
  have H : ∀ c ∈ unitsTouched q.cs offset length, ∀ l2o, qcow2L2 q c = some l2o →
      (qWith q f' d').l2Entry l2o (c % q.l2Size) = q.l2Entry l2o (c % q.l2Size) := by
    intro c hc l2o hl2
    apply qcow2_l2Entry_congr q f' d' _ _ hm.1
    intro r hr
    apply hm.2 r
    unfold qcow2Meta
    rw [List.mem_flatMap]
    refine ⟨c, hc, ?_⟩
    simp only [qcow2MetaUnit, hl2, List.mem_append]
    exact Or.inl hr
  rw [qcow2_yieldRuns_congr q g f' d' offset length H length offset length (Nat.le_refl _) rfl]
  cases hr : q.yieldRuns length offset length with
  | error e => simp only [bind, Except.bind]
  | ok runs =>
    simp only [bind, Except.bind]
    apply qcow2_execRuns_congr q f' d' hm.1 hd.1
    exact qcow2_runs_covered q g offset length _ _ hm.2 hd.2 length offset length runs (Nat.le_refl _) rfl hr

/-! size bound and placement -/

theorem qcow2Words_total (q : QCow2) (l2o idx : Nat) : total (qcow2Words q l2o idx) ≤ 16 := by
  unfold qcow2Words
  split
  · simp [total]
  · split
    · simp [total]
    · split
      · split <;> simp [total]
      · simp [total]

theorem qcow2Comp_le (q : QCow2) (desc : Nat) : (qcow2Comp q desc).2 ≤ 2 ^ (q.clusterBits - 8) * 512 := by
  unfold qcow2Comp
  simp only
  have h1 : (desc >>> q.csizeShift) &&& q.csizeMask ≤ q.csizeMask := Nat.and_le_right
  have h2 : q.csizeMask + 1 = 2 ^ (q.clusterBits - 8) := by
    unfold QCow2.csizeMask
    have := Nat.two_pow_pos (q.clusterBits - 8)
    omega
  have h3 : ((desc >>> q.csizeShift) &&& q.csizeMask) + 1 ≤ 2 ^ (q.clusterBits - 8) := by omega
  have h4 := Nat.mul_le_mul_right QCOW2_COMPRESSED_SECTOR_SIZE h3
  have h5 : QCOW2_COMPRESSED_SECTOR_SIZE = 512 := rfl
  rw [h5] at h4 ⊢
  exact Nat.le_trans (Nat.sub_le _ _) h4

theorem qcow2MetaUnit_total (q : QCow2) (c : Nat) :
    total (qcow2MetaUnit q c) ≤ 0 + (16 + 2 ^ (q.clusterBits - 8) * 512) := by
  unfold qcow2MetaUnit
  split
  · simp [total]
  · rename_i l2o' _
    rw [total_append]
    have h1 := qcow2Words_total q l2o' (c % q.l2Size)
    have h2 : ∀ l2o, total (match q.l2Entry l2o (c % q.l2Size) with
        | .ok (e, _) => if q.clusterType e = .compressed then [qcow2Comp q (e &&& L2E_COMPRESSED_OFFSET_SIZE_MASK)] else []
        | .error _ => []) ≤ 2 ^ (q.clusterBits - 8) * 512 := by
      intro l2o
      split
      · split
        · rw [total_cons, total_nil]; exact qcow2Comp_le q _
        · simp [total]
      · simp [total]
    have h3 := h2 l2o'
    generalize total (qcow2Words q l2o' (c % q.l2Size)) = A at h1 ⊢
    generalize total (match q.l2Entry l2o' (c % q.l2Size) with
        | .ok (e, _) => if q.clusterType e = .compressed then [qcow2Comp q (e &&& L2E_COMPRESSED_OFFSET_SIZE_MASK)] else []
        | .error _ => []) = B at h3 ⊢
    omega

/-- **footprint_size_bound (QCOW2, image file)**: per guest cluster touched one L2 entry (≤ 16 bytes) and, for a
    compressed cluster, its compressed data (at most `2^(cluster_bits − 8)` sectors) -/
theorem qcow2_meta_size_bound (q : QCow2) (offset length : Nat) :
    total (qcow2Meta q offset length) ≤ (16 + 2 ^ (q.clusterBits - 8) * 512) * (length / q.cs + 2) := by
  unfold qcow2Meta
  have h1 := total_flatMap_le (unitsTouched q.cs offset length) (qcow2MetaUnit q) (fun _ => 0)
    (16 + 2 ^ (q.clusterBits - 8) * 512) (qcow2MetaUnit_total q)
  have h3 := unitsTouched_length q.cs offset length
  have h0 : ((unitsTouched q.cs offset length).map (fun _ => 0)).sum = 0 := by
    generalize unitsTouched q.cs offset length = l
    induction l with
    | nil => rfl
    | cons a t ih => simp [ih]
  rw [h0, Nat.zero_add] at h1
  exact Nat.le_trans h1 (Nat.mul_le_mul_left _ h3)

theorem qcow2DataUnit_total (q : QCow2) (offset length c : Nat) :
    total (qcow2DataUnit q offset length c) ≤ (partIn q.cs offset length c).2 + 0 := by
  unfold qcow2DataUnit
  split
  · simp [total]
  · split
    · split <;> simp [total]
    · simp [total]

/-- **footprint_size_bound (QCOW2, data file)**: no more data bytes than requested -/
theorem qcow2_data_size_bound (q : QCow2) (offset length : Nat) : total (qcow2Data q offset length) ≤ length := by
  unfold qcow2Data
  have := total_flatMap_le (unitsTouched q.cs offset length) (qcow2DataUnit q offset length)
    (fun i => (partIn q.cs offset length i).2) 0 (qcow2DataUnit_total q offset length)
  have h2 := sum_parts_le q.cs offset length
  simp only [Nat.zero_mul, Nat.add_zero] at this
  exact Nat.le_trans this h2

/-- **footprint_inside_request_units (QCOW2, data file)**: every data range lies inside the host cluster that the L2
    entry of a guest cluster the request touches names -/
theorem qcow2_data_inside (q : QCow2) (offset length : Nat) (r : Nat × Nat) (hr : r ∈ qcow2Data q offset length) :
    ∃ c l2o e bm, offset / q.cs ≤ c ∧ c ≤ (offset + length - 1) / q.cs ∧ qcow2L2 q c = some l2o ∧
      q.l2Entry l2o (c % q.l2Size) = .ok (e, bm) ∧ q.clusterType e = .normal ∧
      (e &&& L2E_OFFSET_MASK) ≤ r.1 ∧ r.1 + r.2 ≤ (e &&& L2E_OFFSET_MASK) + q.cs := by
  unfold qcow2Data at hr
  simp only [List.mem_flatMap] at hr
  obtain ⟨c, hc, hrc⟩ := hr
  obtain ⟨_, hlo, hhi⟩ := unitsTouched_bounds _ _ _ _ hc
  unfold qcow2DataUnit at hrc
  cases hl2 : qcow2L2 q c with
  | none => simp [hl2] at hrc
  | some l2o =>
    simp only [hl2] at hrc
    cases hE : q.l2Entry l2o (c % q.l2Size) with
    | error e => simp [hE] at hrc
    | ok eb =>
      obtain ⟨e, bm⟩ := eb
      simp only [hE] at hrc
      by_cases hct : q.clusterType e = .normal
      · simp only [hct, if_true, List.mem_singleton] at hrc
        have hin := partIn_inside q.cs offset length c (cs_pos q) hlo
        generalize partIn q.cs offset length c = pp at *
        subst hrc
        exact ⟨c, l2o, e, bm, hlo, hhi, hl2, hE, hct, by simp only; omega, by simp only; omega⟩
      · simp [hct] at hrc

/-- **footprint_inside_request_units (QCOW2, image file)**: every image-file range is a word of the L2 table that the
    L1 entry of a guest cluster the request touches names, or the compressed data its (compressed) entry names -/
theorem qcow2_meta_inside (q : QCow2) (offset length : Nat) (r : Nat × Nat) (hr : r ∈ qcow2Meta q offset length) :
    ∃ c l2o, offset / q.cs ≤ c ∧ c ≤ (offset + length - 1) / q.cs ∧ qcow2L2 q c = some l2o ∧
      ((l2o ≤ r.1 ∧ r.1 + r.2 ≤ l2o + 8 * (q.l2Size * (q.l2EntrySize / 8))) ∨
        ∃ e bm, q.l2Entry l2o (c % q.l2Size) = .ok (e, bm) ∧ q.clusterType e = .compressed ∧
          r = qcow2Comp q (e &&& L2E_COMPRESSED_OFFSET_SIZE_MASK)) := by
  unfold qcow2Meta at hr
  simp only [List.mem_flatMap] at hr
  obtain ⟨c, hc, hrc⟩ := hr
  obtain ⟨_, hlo, hhi⟩ := unitsTouched_bounds _ _ _ _ hc
  unfold qcow2MetaUnit at hrc
  cases hl2 : qcow2L2 q c with
  | none => simp [hl2] at hrc
  | some l2o =>
    simp only [hl2, List.mem_append] at hrc
    refine ⟨c, l2o, hlo, hhi, hl2, ?_⟩
    rcases hrc with hw | hcmp
    · left
      unfold qcow2Words at hw
      by_cases h1 : l2o + 8 * (q.l2Size * (q.l2EntrySize / 8)) > q.fh.size
      · simp [h1] at hw
      · simp only [h1, if_false] at hw
        by_cases h2 : c % q.l2Size * q.l2EntrySize / 8 ≥ q.l2Size * (q.l2EntrySize / 8)
        · simp [h2] at hw
        · simp only [h2, if_false, List.mem_cons] at hw
          rcases hw with hw | hw
          · subst hw; simp only; omega
          · by_cases hs : q.sub = true
            · simp only [hs, if_true] at hw
              by_cases h3 : c % q.l2Size * q.l2EntrySize / 8 + 1 ≥ q.l2Size * (q.l2EntrySize / 8)
              · simp [h3] at hw
              · simp only [h3, if_false, List.mem_singleton] at hw
                subst hw; simp only; omega
            · simp [hs] at hw
    · right
      cases hE : q.l2Entry l2o (c % q.l2Size) with
      | error e => simp [hE] at hcmp
      | ok eb =>
        obtain ⟨e, bm⟩ := eb
        simp only [hE] at hcmp
        by_cases hct : q.clusterType e = .compressed
        · simp only [hct, if_true, List.mem_singleton] at hcmp
          exact ⟨e, bm, rfl, hct, hcmp⟩
        · simp [hct] at hcmp

end qcow2

/-! objects for the non-vacuity examples of `HvProps/C13.lean`: 512-byte clusters, the L2 table at 2^40, guest cluster 1
    mapped to the host cluster at 2^41 (entry bytes 00 00 02 00 00 00 00 00) -/
def exQFile (g : Nat → UInt8) : File :=
  ⟨2 ^ 42, fun p => if p = 2 ^ 40 + 10 then 2 else if 2 ^ 40 + 8 ≤ p ∧ p < 2 ^ 40 + 16 then 0
    else if 2 ^ 41 ≤ p ∧ p < 2 ^ 41 + 512 then UInt8.ofNat p else g p⟩
def exQ : QCow2 :=
  { fh := exQFile (fun p => UInt8.ofNat p), dataFile := exQFile (fun p => UInt8.ofNat p), hasDataFile := false, backing := none,
    version := 3, clusterBits := 9, size := 64 * 512, l1Size := 1, l1Offset := 2 ^ 39, sub := false, compressionType := 0,
    l1 := .ok #[2 ^ 40], inflate := fun _ _ => .error .other, backingName := none, exts := [], nbSnapshots := 0,
    snapshotsOffset := 0 }

end Hv.Footprint
