/-
  HvProofs.Qcow2 — C01: `QCow2.read` returns the guest-visible bytes of `Hv/Qcow2Spec.lean`.
  Core Lean only.
-/
import Hv.Qcow2
import Hv.Qcow2Spec
import HvProofs.Basic
import HvProofs.Stream
set_option linter.unusedSimpArgs false
namespace Hv.Qcow2
open Hv Hv.Extracted.qcow2

/-! ### bits -/

theorem and_two_pow_ne_zero (a i : Nat) : a &&& 2 ^ i ≠ 0 ↔ a.testBit i = true := by
  constructor
  · intro h
    obtain ⟨j, hj⟩ := Nat.exists_testBit_of_ne_zero h
    rw [Nat.testBit_and, Nat.testBit_two_pow] at hj
    simp only [Bool.and_eq_true, decide_eq_true_eq] at hj
    obtain ⟨h1, h2⟩ := hj
    subst h2; exact h1
  · intro h h0
    have : (a &&& 2 ^ i).testBit i = true := by
      rw [Nat.testBit_and, h, Nat.testBit_two_pow_self]; rfl
    rw [h0, Nat.zero_testBit] at this
    cases this

theorem and_two_pow_eq_zero (a i : Nat) : a &&& 2 ^ i = 0 ↔ a.testBit i = false := by
  have := and_two_pow_ne_zero a i
  cases h : a.testBit i
  · simp only [h] at this
    constructor
    · intro _; rfl
    · intro _
      apply Classical.byContradiction
      intro hc; have := this.mp hc; cases this
  · constructor
    · intro h0; exact absurd h0 (this.mpr h)
    · intro hc; cases hc

theorem eq_zero_iff_testBit (a : Nat) : a = 0 ↔ ∀ i, a.testBit i = false := by
  constructor
  · intro h i; rw [h, Nat.zero_testBit]
  · intro h
    apply Nat.eq_of_testBit_eq
    intro i; rw [h i, Nat.zero_testBit]

/-! ### `ctz` / `cto` -/

def firstIdx (p : Nat → Bool) (n : Nat) : Nat := ((List.range n).find? p).getD n

theorem firstIdx_le (p : Nat → Bool) (n : Nat) : firstIdx p n ≤ n := by
  unfold firstIdx
  cases h : (List.range n).find? p with
  | none => simp
  | some k =>
    have := (List.find?_range_eq_some.mp h).2.1
    simp only [List.mem_range] at this
    simp only [Option.getD_some]; omega

theorem firstIdx_before (p : Nat → Bool) (n i : Nat) (hi : i < firstIdx p n) : p i = false := by
  unfold firstIdx at hi
  cases h : (List.range n).find? p with
  | none =>
    rw [h] at hi
    simp only [Option.getD_none] at hi
    have := List.find?_range_eq_none.mp h i hi
    simpa using this
  | some k =>
    rw [h] at hi
    simp only [Option.getD_some] at hi
    have := (List.find?_range_eq_some.mp h).2.2 i hi
    simpa using this

/-- the first index is beyond `s` when `p` is false on `[0, s]` -/
theorem firstIdx_gt (p : Nat → Bool) (n s : Nat) (hs : s < n) (h : ∀ i, i ≤ s → p i = false) : s < firstIdx p n := by
  unfold firstIdx
  cases hf : (List.range n).find? p with
  | none => simpa using hs
  | some k =>
    simp only [Option.getD_some]
    have hk := (List.find?_range_eq_some.mp hf).1
    apply Classical.byContradiction
    intro hc
    have := h k (by omega)
    rw [this] at hk; cases hk

theorem ctz_eq (v n : Nat) : ctz v n = firstIdx (fun i => v.testBit i) n := rfl
theorem cto_eq (v n : Nat) : cto v n = firstIdx (fun i => !v.testBit i) n := rfl

theorem cto_le (v n : Nat) : cto v n ≤ n := firstIdx_le _ _
theorem ctz_le (v n : Nat) : ctz v n ≤ n := firstIdx_le _ _
theorem cto_before (v n i : Nat) (h : i < cto v n) : v.testBit i = true := by
  have := firstIdx_before _ _ _ h
  simpa using this
theorem ctz_before (v n i : Nat) (h : i < ctz v n) : v.testBit i = false := firstIdx_before _ _ _ h
theorem cto_gt (v n s : Nat) (hs : s < n) (h : ∀ i, i ≤ s → v.testBit i = true) : s < cto v n :=
  firstIdx_gt _ _ _ hs (fun i hi => by simp [h i hi])
theorem ctz_gt (v n s : Nat) (hs : s < n) (h : ∀ i, i ≤ s → v.testBit i = false) : s < ctz v n :=
  firstIdx_gt _ _ _ hs h


/-! ### geometry -/

theorem ctz_tab : ∀ cb, cb < 22 → ctz (2 ^ cb) 32 = cb := by decide
theorem ctz_esz : ctz 8 32 = 3 ∧ ctz 16 32 = 4 := by decide
theorem inv_tab : ∀ sf, sf < 33 → 2 ^ 64 - 1 - (2 ^ sf - 1) = (2 ^ (64 - sf) - 1) * 2 ^ sf := by decide

theorem cs_eq (q : QCow2) : q.cs = q.clusterSize := rfl
theorem cs_pos (q : QCow2) : 0 < q.cs := Nat.two_pow_pos _
theorem scPer_pos (q : QCow2) : 0 < q.scPer := by unfold QCow2.scPer; split <;> decide

structure Geom (q : QCow2) : Prop where
  per_size : q.scPer * q.scSize = q.cs
  bits : 2 ^ q.scBits = q.scSize
  size_pos : 0 < q.scSize
  l2 : q.l2Size = q.l2n
  l2_pos : 0 < q.l2Size
  l1sh : 2 ^ (q.l2Bits + q.clusterBits) = q.l2Size * q.cs
  tbl : q.l2Size * q.l2EntrySize = q.cs

theorem geom (q : QCow2) (h : HdrOK q) : Geom q := by
  have h1 := h.cb_lo
  have h2 := h.cb_hi
  have hcs : q.cs = 2 ^ q.clusterBits := rfl
  cases hs : q.sub with
  | false =>
    have e1 : q.scPer = 1 := by simp [QCow2.scPer, hs]
    have e2 : q.scSize = 2 ^ q.clusterBits := by simp [QCow2.scSize, e1, hcs]
    have e3 : q.scBits = q.clusterBits := by
      unfold QCow2.scBits; rw [e2]; exact ctz_tab _ (by omega)
    have e4 : q.l2EntrySize = 8 := by simp [QCow2.l2EntrySize, hs, L2E_SIZE_NORMAL]
    have e5 : q.l2Bits = q.clusterBits - 3 := by unfold QCow2.l2Bits; rw [e4, ctz_esz.1]
    have e6 : q.l2Size = 2 ^ (q.clusterBits - 3) := by unfold QCow2.l2Size; rw [e5]
    have e7 : (2:Nat) ^ q.clusterBits = 2 ^ (q.clusterBits - 3) * 8 := by
      rw [show (8:Nat) = 2 ^ 3 from rfl, ← Nat.pow_add]; congr 1; omega
    refine ⟨by rw [e1, e2, hcs, Nat.one_mul], by rw [e3, e2], by rw [e2]; exact Nat.two_pow_pos _, ?_,
      by rw [e6]; exact Nat.two_pow_pos _, ?_, by rw [e6, e4, hcs, e7]⟩
    · unfold QCow2.l2n QCow2.clusterSize QCow2.entrySize
      simp only [hs, Bool.false_eq_true, if_false]
      rw [e6, e7, Nat.mul_div_cancel _ (by decide)]
    · rw [e5, e6, hcs, ← Nat.pow_add]
  | true =>
    have h3 := h.sub_lo hs
    have e1 : q.scPer = 32 := by simp [QCow2.scPer, hs, QCOW_EXTL2_SUBCLUSTERS_PER_CLUSTER]
    have e7 : (2:Nat) ^ q.clusterBits = 32 * 2 ^ (q.clusterBits - 5) := by
      rw [show (32:Nat) = 2 ^ 5 from rfl, ← Nat.pow_add]; congr 1; omega
    have e2 : q.scSize = 2 ^ (q.clusterBits - 5) := by
      unfold QCow2.scSize; rw [e1, hcs, e7, Nat.mul_div_cancel_left _ (by decide)]
    have e3 : q.scBits = q.clusterBits - 5 := by
      unfold QCow2.scBits; rw [e2]; exact ctz_tab _ (by omega)
    have e4 : q.l2EntrySize = 16 := by simp [QCow2.l2EntrySize, hs, L2E_SIZE_EXTENDED]
    have e5 : q.l2Bits = q.clusterBits - 4 := by unfold QCow2.l2Bits; rw [e4, ctz_esz.2]
    have e6 : q.l2Size = 2 ^ (q.clusterBits - 4) := by unfold QCow2.l2Size; rw [e5]
    have e8 : (2:Nat) ^ q.clusterBits = 2 ^ (q.clusterBits - 4) * 16 := by
      rw [show (16:Nat) = 2 ^ 4 from rfl, ← Nat.pow_add]; congr 1; omega
    refine ⟨by rw [e1, e2, hcs, e7], by rw [e3, e2], by rw [e2]; exact Nat.two_pow_pos _, ?_,
      by rw [e6]; exact Nat.two_pow_pos _, ?_, by rw [e6, e4, hcs, e8]⟩
    · unfold QCow2.l2n QCow2.clusterSize QCow2.entrySize
      simp only [hs, if_true]
      rw [e6, e8, Nat.mul_div_cancel _ (by decide)]
    · rw [e5, e6, hcs, ← Nat.pow_add]

/-! ### `get_subcluster_type` / `get_subcluster_range_type` -/

theorem subclusterType_sub (q : QCow2) (hs : q.sub = true) (e bm s : Nat) :
    q.subclusterType e bm s =
      match q.clusterType e with
      | .compressed => .ok SC_COMPRESSED
      | .normal =>
        if (bm >>> 32) &&& bm ≠ 0 then .ok SC_INVALID
        else if bm.testBit (s + 32) = true then .ok SC_ZERO_ALLOC
        else if bm.testBit s = true then .ok SC_NORMAL else .ok SC_UNALLOC_ALLOC
      | .unallocated =>
        if bm &&& (2 ^ 32 - 1) ≠ 0 then .ok SC_INVALID
        else if bm.testBit (s + 32) = true then .ok SC_ZERO_PLAIN else .ok SC_UNALLOC_PLAIN
      | _ => .error .other := by
  unfold QCow2.subclusterType
  simp only [hs, if_true, ← Nat.pow_add, and_two_pow_ne_zero]
  cases q.clusterType e <;> rfl

theorem subclusterType_std (q : QCow2) (hs : q.sub = false) (e bm s s' : Nat) :
    q.subclusterType e bm s = q.subclusterType e bm s' := by
  unfold QCow2.subclusterType
  simp only [hs, Bool.false_eq_true, if_false]

theorem subclusterType_std_ok (q : QCow2) (hs : q.sub = false) (e bm s : Nat) :
    ∃ t, q.subclusterType e bm s = .ok t ∧ t ≠ SC_INVALID ∧ t ≠ SC_UNALLOC_ALLOC := by
  unfold QCow2.subclusterType
  simp only [hs, Bool.false_eq_true, if_false]
  cases q.clusterType e <;> exact ⟨_, rfl, by decide, by decide⟩


theorem scPer_sub (q : QCow2) (hs : q.sub = true) : q.scPer = 32 := by
  simp [QCow2.scPer, hs, QCOW_EXTL2_SUBCLUSTERS_PER_CLUSTER]
theorem scPer_std (q : QCow2) (hs : q.sub = false) : q.scPer = 1 := by
  simp [QCow2.scPer, hs]

/-- `(bm >>> 32) &&& bm = 0`: no sub-cluster is both allocated and zero -/
theorem disj_bits (bm s : Nat) (h : ¬ ((bm >>> 32) &&& bm ≠ 0)) (ha : bm.testBit s = true) : bm.testBit (s + 32) = false := by
  have h0 : (bm >>> 32) &&& bm = 0 := Classical.not_not.mp h
  have := (eq_zero_iff_testBit _).mp h0 s
  rw [Nat.testBit_and, Nat.testBit_shiftRight, ha, Bool.and_true, Nat.add_comm] at this
  exact this

theorem low_bits (bm s : Nat) (h : ¬ (bm &&& (2 ^ 32 - 1) ≠ 0)) (hs : s < 32) : bm.testBit s = false := by
  have h0 : bm &&& (2 ^ 32 - 1) = 0 := Classical.not_not.mp h
  have := (eq_zero_iff_testBit _).mp h0 s
  rw [Nat.testBit_and, Nat.testBit_two_pow_sub_one] at this
  simpa [hs] using this

theorem normVal_bit (bm sf i : Nat) : (bm ||| (2 ^ sf - 1)).testBit i = (bm.testBit i || decide (i < sf)) := by
  rw [Nat.testBit_or, Nat.testBit_two_pow_sub_one]

theorem zeroVal_bit (bm sf i : Nat) :
    ((bm ||| ((2 ^ sf - 1) <<< 32)) >>> 32).testBit i = (bm.testBit (i + 32) || decide (i < sf)) := by
  rw [Nat.testBit_shiftRight, Nat.testBit_or, Nat.testBit_shiftLeft, Nat.testBit_two_pow_sub_one, Nat.add_comm 32 i]
  simp

theorem unallocVal_bit (bm sf i : Nat) (hsf : sf < 33) (hi : i < 64) :
    (((bm >>> 32) ||| bm) &&& (2 ^ 64 - 1 - (2 ^ sf - 1))).testBit i
      = ((bm.testBit (i + 32) || bm.testBit i) && decide (sf ≤ i)) := by
  rw [inv_tab sf hsf, Nat.testBit_and, Nat.testBit_or, Nat.testBit_shiftRight, Nat.testBit_mul_two_pow,
    Nat.testBit_two_pow_sub_one, Nat.add_comm 32 i]
  by_cases h : sf ≤ i
  · have : i - sf < 64 - sf := by omega
    simp [h, this]
  · simp [h]

set_option maxRecDepth 2048 in
/-- **range type soundness** (arbitrary entry and bitmap): the `n` sub-clusters from `sf` on all have
    the type `t`; `n ≥ 1`; the range stays inside the cluster. -/
theorem rangeType_sound (q : QCow2) (e bm sf t n : Nat) (hsf : sf < q.scPer)
    (h : q.subclusterRangeType e bm sf = .ok (t, n)) :
    1 ≤ n ∧ sf + n ≤ q.scPer ∧ q.subclusterType e bm sf = .ok t ∧
      ∀ s, sf ≤ s → s < sf + n → q.subclusterType e bm s = .ok t := by
  unfold QCow2.subclusterRangeType at h
  cases hs : q.sub with
  | false =>
    cases ht : q.subclusterType e bm sf with
    | error err => rw [ht] at h; simp [bind, Except.bind] at h
    | ok t' =>
      rw [ht] at h
      simp only [bind, Except.bind, hs, pure, Except.pure, Bool.false_eq_true, not_false_eq_true, true_or, if_true] at h
      injection h with h; injection h with h1 h2
      subst h1 h2
      rw [scPer_std q hs] at hsf ⊢
      refine ⟨by omega, by omega, rfl, fun s _ _ => ?_⟩
      rw [subclusterType_std q hs e bm s sf]; exact ht
  | true =>
    have hper := scPer_sub q hs
    rw [hper] at hsf ⊢
    have hT := subclusterType_sub q hs e bm
    rw [hT sf] at h
    cases hct : q.clusterType e with
    | compressed =>
      rw [hct] at h
      simp only [bind, Except.bind, hs, pure, Except.pure, SC_COMPRESSED, or_true, if_true, hper] at h
      injection h with h; injection h with h1 h2
      subst h1 h2
      refine ⟨by omega, by omega, by rw [hT, hct], fun s _ _ => by rw [hT, hct]⟩
    | zeroPlain => rw [hct] at h; simp [bind, Except.bind] at h
    | zeroAlloc => rw [hct] at h; simp [bind, Except.bind] at h
    | normal =>
      rw [hct] at h
      by_cases hX : (bm >>> 32) &&& bm ≠ 0
      · simp [hX, bind, Except.bind, hs, SC_INVALID, SC_COMPRESSED, SC_NORMAL, ZERO_SUBCLUSTER_TYPES, UNALLOCATED_SUBCLUSTER_TYPES, pure, Except.pure] at h
      · by_cases hz : bm.testBit (sf + 32) = true
        · -- ZERO_ALLOC
          simp only [hX, hz, if_true, if_false, bind, Except.bind, hs, SC_ZERO_ALLOC, SC_COMPRESSED, SC_NORMAL, pure, Except.pure,
            ZERO_SUBCLUSTER_TYPES, not_true, false_or, List.contains_cons, List.contains_nil, Nat.reduceBEq, Bool.or_false, Bool.or_true,
            Nat.reduceEqDiff, Bool.false_or] at h
          injection h with h; injection h with h1 h2
          subst h1
          have hgt : sf < cto ((bm ||| ((2 ^ sf - 1) <<< 32)) >>> 32) 32 := by
            apply cto_gt _ _ _ hsf
            intro i hi
            rw [zeroVal_bit]
            by_cases hlt : i < sf
            · simp [hlt]
            · have : i = sf := by omega
              subst this; simp [hz]
          have hle := cto_le ((bm ||| ((2 ^ sf - 1) <<< 32)) >>> 32) 32
          refine ⟨by omega, by omega, by rw [hT, hct]; simp only [hX, hz, if_true, if_false] <;> rfl, fun s h1 h2 => ?_⟩
          have hb := cto_before ((bm ||| ((2 ^ sf - 1) <<< 32)) >>> 32) 32 s (by omega)
          rw [zeroVal_bit] at hb
          have hns : ¬ s < sf := by omega
          simp only [hns, decide_false, Bool.or_false] at hb
          rw [hT, hct]; simp only [hX, hb, if_true, if_false] <;> rfl
        · by_cases ha : bm.testBit sf = true
          · -- NORMAL
            simp only [hX, hz, ha, if_true, if_false, bind, Except.bind, hs, SC_COMPRESSED, SC_NORMAL, pure, Except.pure,
              not_true, false_or, Nat.reduceEqDiff] at h
            injection h with h; injection h with h1 h2
            subst h1
            have hgt : sf < cto (bm ||| (2 ^ sf - 1)) 32 := by
              apply cto_gt _ _ _ hsf
              intro i hi
              rw [normVal_bit]
              by_cases hlt : i < sf
              · simp [hlt]
              · have : i = sf := by omega
                subst this; simp [ha]
            have hle := cto_le (bm ||| (2 ^ sf - 1)) 32
            refine ⟨by omega, by omega, by rw [hT, hct]; simp only [hX, hz, ha, if_true, if_false] <;> rfl, fun s h1 h2 => ?_⟩
            have hb := cto_before (bm ||| (2 ^ sf - 1)) 32 s (by omega)
            rw [normVal_bit] at hb
            have hns : ¬ s < sf := by omega
            simp only [hns, decide_false, Bool.or_false] at hb
            have hzs := disj_bits bm s hX hb
            rw [hT, hct]; simp only [hX, hb, hzs, if_true, if_false, Bool.false_eq_true] <;> rfl
          · -- UNALLOC_ALLOC
            simp only [hX, hz, ha, if_true, if_false, bind, Except.bind, hs, SC_COMPRESSED, SC_NORMAL, SC_UNALLOC_ALLOC, pure, Except.pure,
              not_true, false_or, Nat.reduceEqDiff, ZERO_SUBCLUSTER_TYPES, UNALLOCATED_SUBCLUSTER_TYPES,
              List.contains_cons, List.contains_nil, Nat.reduceBEq, Bool.or_false, Bool.or_true, Bool.false_eq_true] at h
            injection h with h; injection h with h1 h2
            subst h1
            have hgt : sf < ctz (((bm >>> 32) ||| bm) &&& (2 ^ 64 - 1 - (2 ^ sf - 1))) 32 := by
              apply ctz_gt _ _ _ hsf
              intro i hi
              rw [unallocVal_bit bm sf i (by omega) (by omega)]
              by_cases hlt : i < sf
              · have : ¬ sf ≤ i := by omega
                simp [this]
              · have : i = sf := by omega
                subst this; simp [hz, ha]
            have hle := ctz_le (((bm >>> 32) ||| bm) &&& (2 ^ 64 - 1 - (2 ^ sf - 1))) 32
            refine ⟨by omega, by omega, by rw [hT, hct]; simp only [hX, hz, ha, if_true, if_false] <;> rfl, fun s h1 h2 => ?_⟩
            have hb := ctz_before (((bm >>> 32) ||| bm) &&& (2 ^ 64 - 1 - (2 ^ sf - 1))) 32 s (by omega)
            rw [unallocVal_bit bm sf s (by omega) (by omega)] at hb
            simp only [h1, decide_true, Bool.and_true, Bool.or_eq_false_iff] at hb
            rw [hT, hct]; simp only [hX, hb.1, hb.2, if_true, if_false, Bool.false_eq_true] <;> rfl
    | unallocated =>
      rw [hct] at h
      by_cases hY : bm &&& (2 ^ 32 - 1) ≠ 0
      · simp [hY, bind, Except.bind, hs, SC_INVALID, SC_COMPRESSED, SC_NORMAL, ZERO_SUBCLUSTER_TYPES, UNALLOCATED_SUBCLUSTER_TYPES, pure, Except.pure] at h
      · by_cases hz : bm.testBit (sf + 32) = true
        · -- ZERO_PLAIN
          simp only [hY, hz, if_true, if_false, bind, Except.bind, hs, SC_ZERO_PLAIN, SC_COMPRESSED, SC_NORMAL, pure, Except.pure,
            ZERO_SUBCLUSTER_TYPES, not_true, false_or, List.contains_cons, List.contains_nil, Nat.reduceBEq, Bool.or_false, Bool.or_true,
            Nat.reduceEqDiff, Bool.false_or] at h
          injection h with h; injection h with h1 h2
          subst h1
          have hgt : sf < cto ((bm ||| ((2 ^ sf - 1) <<< 32)) >>> 32) 32 := by
            apply cto_gt _ _ _ hsf
            intro i hi
            rw [zeroVal_bit]
            by_cases hlt : i < sf
            · simp [hlt]
            · have : i = sf := by omega
              subst this; simp [hz]
          have hle := cto_le ((bm ||| ((2 ^ sf - 1) <<< 32)) >>> 32) 32
          refine ⟨by omega, by omega, by rw [hT, hct]; simp only [hY, hz, if_true, if_false] <;> rfl, fun s h1 h2 => ?_⟩
          have hb := cto_before ((bm ||| ((2 ^ sf - 1) <<< 32)) >>> 32) 32 s (by omega)
          rw [zeroVal_bit] at hb
          have hns : ¬ s < sf := by omega
          simp only [hns, decide_false, Bool.or_false] at hb
          rw [hT, hct]; simp only [hY, hb, if_true, if_false] <;> rfl
        · -- UNALLOC_PLAIN
          simp only [hY, hz, if_true, if_false, bind, Except.bind, hs, SC_COMPRESSED, SC_NORMAL, SC_UNALLOC_PLAIN, pure, Except.pure,
            not_true, false_or, Nat.reduceEqDiff, ZERO_SUBCLUSTER_TYPES, UNALLOCATED_SUBCLUSTER_TYPES,
            List.contains_cons, List.contains_nil, Nat.reduceBEq, Bool.or_false, Bool.or_true, Bool.false_eq_true] at h
          injection h with h; injection h with h1 h2
          subst h1
          have hgt : sf < ctz (((bm >>> 32) ||| bm) &&& (2 ^ 64 - 1 - (2 ^ sf - 1))) 32 := by
            apply ctz_gt _ _ _ hsf
            intro i hi
            rw [unallocVal_bit bm sf i (by omega) (by omega)]
            by_cases hlt : i < sf
            · have : ¬ sf ≤ i := by omega
              simp [this]
            · have : i = sf := by omega
              subst this
              have := low_bits bm i hY hsf
              simp [hz, this]
          have hle := ctz_le (((bm >>> 32) ||| bm) &&& (2 ^ 64 - 1 - (2 ^ sf - 1))) 32
          refine ⟨by omega, by omega, by rw [hT, hct]; simp only [hY, hz, if_true, if_false] <;> rfl, fun s h1 h2 => ?_⟩
          have hb := ctz_before (((bm >>> 32) ||| bm) &&& (2 ^ 64 - 1 - (2 ^ sf - 1))) 32 s (by omega)
          rw [unallocVal_bit bm sf s (by omega) (by omega)] at hb
          simp only [h1, decide_true, Bool.and_true, Bool.or_eq_false_iff] at hb
          rw [hT, hct]; simp only [hY, hb.1, if_true, if_false, Bool.false_eq_true] <;> rfl


/-! ### `count_contiguous_subclusters` -/

/-- the types whose host offsets must be contiguous -/
def Chk (t : Nat) : Prop := t = SC_NORMAL ∨ t = SC_ZERO_ALLOC ∨ t = SC_UNALLOC_ALLOC
instance (t : Nat) : Decidable (Chk t) := by unfold Chk; infer_instance

/-- sub-cluster position `p`, counted from the start of the cluster with L2 index `l2Index`, has type `t0`
    and (for the offset-checked types) its cluster lies `p / scPer` clusters behind `off0` -/
def Good (q : QCow2) (l2Offset l2Index t0 off0 p : Nat) : Prop :=
  ∃ e bm, q.l2Entry l2Offset (l2Index + p / q.scPer) = .ok (e, bm) ∧
    q.subclusterType e bm (p % q.scPer) = .ok t0 ∧
    (Chk t0 → e &&& L2E_OFFSET_MASK = off0 + (p / q.scPer) * q.cs)

theorem pred_mul (i c : Nat) (h : 1 ≤ i) : (i - 1) * c + c = i * c := by
  cases i with
  | zero => omega
  | succ j => rw [Nat.add_sub_cancel, Nat.add_mul, Nat.one_mul]

theorem countLoop_tail (q : QCow2) (l2Offset l2Index scIndex t0 off0 : Nat) :
    ∀ k i (st : CC) cnt, 1 ≤ i →
      st.count + scIndex = i * q.scPer →
      st.expType = t0 → (st.checkOffset = true ↔ Chk t0) →
      (Chk t0 → st.expOffset = off0 + (i - 1) * q.cs) →
      (∀ p, scIndex ≤ p → p < i * q.scPer → Good q l2Offset l2Index t0 off0 p) →
      q.countLoop l2Offset l2Index scIndex k i st = .ok cnt →
      st.count ≤ cnt ∧ ∀ p, scIndex ≤ p → p < scIndex + cnt → Good q l2Offset l2Index t0 off0 p := by
  have hper := scPer_pos q
  intro k
  induction k with
  | zero =>
    intro i st cnt hi hc _ _ _ hP h
    simp only [QCow2.countLoop] at h
    injection h with h; subst h
    exact ⟨Nat.le_refl _, fun p h1 h2 => hP p h1 (by omega)⟩
  | succ k ih =>
    intro i st cnt hi hc hty hck hoff hP h
    have hi0 : ¬ i = 0 := by omega
    unfold QCow2.countLoop at h
    simp only [hi0, if_false] at h
    cases hE : q.l2Entry l2Offset (l2Index + i) with
    | error err => rw [hE] at h; simp [bind, Except.bind] at h
    | ok eb =>
      obtain ⟨e, bm⟩ := eb
      rw [hE] at h
      simp only [bind, Except.bind] at h
      cases hR : q.subclusterRangeType e bm 0 with
      | error err => rw [hR] at h; simp at h
      | ok tn =>
        obtain ⟨t, n⟩ := tn
        rw [hR] at h
        simp only at h
        obtain ⟨hn1, hn2, _, hrng⟩ := rangeType_sound q e bm 0 t n hper hR
        by_cases hne : t ≠ st.expType
        · rw [if_pos hne] at h
          injection h with h; subst h
          exact ⟨Nat.le_refl _, fun p h1 h2 => hP p h1 (by omega)⟩
        · rw [if_neg hne] at h
          have hteq : t = t0 := by rw [← hty]; exact Classical.not_not.mp hne
          by_cases hbr : st.checkOffset = true ∧ (if st.checkOffset = true then st.expOffset + q.cs else st.expOffset) ≠ e &&& L2E_OFFSET_MASK
          · rw [if_pos hbr] at h
            injection h with h; subst h
            exact ⟨Nat.le_refl _, fun p h1 h2 => hP p h1 (by omega)⟩
          · rw [if_neg hbr] at h
            -- the positions of cluster `i` that are counted
            have hnew : ∀ p, i * q.scPer ≤ p → p < i * q.scPer + n → Good q l2Offset l2Index t0 off0 p := by
              intro p h1 h2
              have hdiv : p / q.scPer = i := by
                apply Nat.div_eq_of_lt_le
                · exact h1
                · rw [Nat.add_mul, Nat.one_mul]; omega
              have hmod : p % q.scPer = p - i * q.scPer := by
                have := Nat.div_add_mod p q.scPer
                rw [hdiv, Nat.mul_comm] at this; omega
              refine ⟨e, bm, by rw [hdiv]; exact hE, ?_, ?_⟩
              · rw [hmod, ← hteq]; exact hrng _ (Nat.zero_le _) (by omega)
              · intro hchk
                have hco : st.checkOffset = true := hck.mpr hchk
                rw [hdiv]
                have : ¬ (if st.checkOffset = true then st.expOffset + q.cs else st.expOffset) ≠ e &&& L2E_OFFSET_MASK := by
                  intro hh; exact hbr ⟨hco, hh⟩
                have := Classical.not_not.mp this
                rw [if_pos hco, hoff hchk] at this
                rw [← this, Nat.add_assoc, pred_mul i q.cs hi]
            have hall : ∀ p, scIndex ≤ p → p < i * q.scPer + n → Good q l2Offset l2Index t0 off0 p := by
              intro p h1 h2
              by_cases hlt : p < i * q.scPer
              · exact hP p h1 hlt
              · exact hnew p (by omega) h2
            by_cases hlast : 0 + n < q.scPer
            · rw [if_pos hlast] at h
              injection h with h; subst h
              exact ⟨Nat.le_add_right _ _, fun p h1 h2 => hall p h1 (by omega)⟩
            · rw [if_neg hlast] at h
              have hn : n = q.scPer := by omega
              have hrec := ih (i + 1) ⟨st.count + n, st.expType,
                  (if st.checkOffset = true then st.expOffset + q.cs else st.expOffset), st.checkOffset⟩ cnt (by omega)
                (by show st.count + n + scIndex = _
                    rw [Nat.add_mul, Nat.one_mul]; omega) hty hck
                (by
                  intro hchk
                  show (if st.checkOffset = true then st.expOffset + q.cs else st.expOffset) = _
                  rw [if_pos (hck.mpr hchk), hoff hchk, Nat.add_sub_cancel, Nat.add_assoc, pred_mul i q.cs hi])
                (by
                  intro p h1 h2
                  apply hall p h1
                  rw [Nat.add_mul, Nat.one_mul] at h2; omega) h
              have h1 : st.count + n ≤ cnt := hrec.1
              exact ⟨by omega, hrec.2⟩

/-- **count soundness** (arbitrary table contents): when `count_contiguous_subclusters` returns `cnt`,
    then `cnt ≥ 1` and every one of the `cnt` sub-clusters from `scIndex` on has the type of the first
    and — for NORMAL / ZERO_ALLOC / UNALLOCATED_ALLOC — a host cluster contiguous with the first. -/
theorem countLoop_sound (q : QCow2) (l2Offset l2Index scIndex k cnt : Nat) (hsc : scIndex < q.scPer)
    (h : q.countLoop l2Offset l2Index scIndex (k + 1) 0 ⟨0, 0, 0, false⟩ = .ok cnt) :
    ∃ e bm t0, q.l2Entry l2Offset l2Index = .ok (e, bm) ∧ q.subclusterType e bm scIndex = .ok t0 ∧
      1 ≤ cnt ∧ (t0 = SC_COMPRESSED → scIndex + cnt ≤ q.scPer) ∧
      ∀ p, scIndex ≤ p → p < scIndex + cnt → Good q l2Offset l2Index t0 (e &&& L2E_OFFSET_MASK) p := by
  have hper := scPer_pos q
  unfold QCow2.countLoop at h
  simp only [if_true, Nat.add_zero] at h
  cases hE : q.l2Entry l2Offset l2Index with
  | error err => rw [hE] at h; simp [bind, Except.bind] at h
  | ok eb =>
    obtain ⟨e, bm⟩ := eb
    rw [hE] at h
    simp only [bind, Except.bind] at h
    cases hR : q.subclusterRangeType e bm scIndex with
    | error err => rw [hR] at h; simp at h
    | ok tn =>
      obtain ⟨t, n⟩ := tn
      rw [hR] at h
      simp only at h
      obtain ⟨hn1, hn2, hty, hrng⟩ := rangeType_sound q e bm scIndex t n hsc hR
      have hfirst : ∀ p, scIndex ≤ p → p < scIndex + n → Good q l2Offset l2Index t (e &&& L2E_OFFSET_MASK) p := by
        intro p h1 h2
        have hdiv : p / q.scPer = 0 := Nat.div_eq_of_lt (by omega)
        have hmod : p % q.scPer = p := Nat.mod_eq_of_lt (by omega)
        refine ⟨e, bm, by rw [hdiv]; exact hE, by rw [hmod]; exact hrng p h1 h2, fun _ => by rw [hdiv]; simp⟩
      refine ⟨e, bm, t, rfl, hty, ?_⟩
      by_cases hcomp : t = SC_COMPRESSED
      · simp only [hcomp, if_true] at h
        injection h with h; subst h
        exact ⟨hn1, fun _ => hn2, hfirst⟩
      · simp only [hcomp, if_false] at h
        by_cases hlast : scIndex + n < q.scPer
        · simp only [hlast, if_true] at h
          injection h with h; subst h
          exact ⟨hn1, fun hc => absurd hc hcomp, hfirst⟩
        · simp only [hlast, if_false] at h
          have := countLoop_tail q l2Offset l2Index scIndex t (e &&& L2E_OFFSET_MASK) k 1 _ cnt (Nat.le_refl _)
            (by simp only; omega) rfl (by simp [Chk]) (by intro _; simp)
            (by intro p h1 h2; exact hfirst p h1 (by omega)) h
          exact ⟨by have := this.1; simp only at this; omega, fun hc => absurd hc hcomp, this.2⟩


/-! ### `_yield_runs`: one iteration -/

/-- the body of the `while length > 0` loop of `_yield_runs`: (bytes consumed, run) -/
def QCow2.step (q : QCow2) (offset length : Nat) : Except Err (Nat × Run) :=
    let l1Index := offset / 2 ^ (q.l2Bits + q.clusterBits)
    let l2Index := (offset / q.cs) % q.l2Size
    let scIndex := (offset / 2 ^ q.scBits) % q.scPer
    let oic := offset % q.cs
    let bytesNeeded := min (length + oic) ((q.l2Size - l2Index) * q.cs)
    let unallocRun : Except Err (Nat × Run) := .ok (bytesNeeded - oic, ⟨SC_UNALLOC_PLAIN, offset, 0, bytesNeeded - oic⟩)
    (do
      let l1 ← q.l1
      if l1Index ≥ l1.size then unallocRun else do
      let l1e ← (match l1[l1Index]? with | some x => .ok x | none => .error .index)
      let l2Offset := l1e &&& L1E_OFFSET_MASK
      if l2Offset = 0 then unallocRun else do
      let (e, bm) ← q.l2Entry l2Offset l2Index
      let t ← q.subclusterType e bm scIndex
      let host := if t = SC_COMPRESSED then e &&& L2E_COMPRESSED_OFFSET_SIZE_MASK
                  else if NORMAL_SUBCLUSTER_TYPES.contains t then (e &&& L2E_OFFSET_MASK) + oic else 0
      let nbClusters := (bytesNeeded + (q.cs - 1)) / q.cs
      let scCount ← q.countLoop l2Offset l2Index scIndex nbClusters 0 ⟨0, 0, 0, false⟩
      let bytesAvailable := (scCount + scIndex) * 2 ^ q.scBits
      let readCount := min bytesAvailable bytesNeeded - oic
      pure (readCount, ⟨t, offset, host, readCount⟩))

theorem yieldRuns_succ (q : QCow2) (fuel offset length : Nat) :
    q.yieldRuns (fuel + 1) offset length =
      (if length = 0 then .ok [] else do
        let (n, run) ← q.step offset length
        if n = 0 then .error .nonTermination else do
        let rest ← q.yieldRuns fuel (offset + n) (length - n)
        .ok (run :: rest)) := rfl

/-- bytes of the request that lie in the current L2 table, counted from the start of the cluster -/
def QCow2.bn (q : QCow2) (offset length : Nat) : Nat :=
  min (length + offset % q.cs) ((q.l2Size - offset / q.cs % q.l2Size) * q.cs)

/-- what one iteration returns -/
inductive StepInfo (q : QCow2) (offset length n : Nat) (run : Run) : Prop where
  | unalloc (l1 : Array Nat)
      (hl1 : q.l1 = .ok l1)
      (hidx : l1.size ≤ offset / 2 ^ (q.l2Bits + q.clusterBits) ∨
        ∃ l1e, l1[offset / 2 ^ (q.l2Bits + q.clusterBits)]? = some l1e ∧ l1e &&& L1E_OFFSET_MASK = 0)
      (hrun : run = ⟨SC_UNALLOC_PLAIN, offset, 0, n⟩)
      (hn : n = q.bn offset length - offset % q.cs)
  | mapped (l1 : Array Nat) (l1e e bm t cnt : Nat)
      (hl1 : q.l1 = .ok l1)
      (hl1e : l1[offset / 2 ^ (q.l2Bits + q.clusterBits)]? = some l1e)
      (hl2 : l1e &&& L1E_OFFSET_MASK ≠ 0)
      (hE : q.l2Entry (l1e &&& L1E_OFFSET_MASK) (offset / q.cs % q.l2Size) = .ok (e, bm))
      (hT : q.subclusterType e bm (offset / 2 ^ q.scBits % q.scPer) = .ok t)
      (hrun : run = ⟨t, offset,
        (if t = SC_COMPRESSED then e &&& L2E_COMPRESSED_OFFSET_SIZE_MASK
         else if NORMAL_SUBCLUSTER_TYPES.contains t then (e &&& L2E_OFFSET_MASK) + offset % q.cs else 0), n⟩)
      (hcnt : 1 ≤ cnt)
      (hcomp : t = SC_COMPRESSED → offset / 2 ^ q.scBits % q.scPer + cnt ≤ q.scPer)
      (hgood : ∀ p, offset / 2 ^ q.scBits % q.scPer ≤ p → p < offset / 2 ^ q.scBits % q.scPer + cnt →
        Good q (l1e &&& L1E_OFFSET_MASK) (offset / q.cs % q.l2Size) t (e &&& L2E_OFFSET_MASK) p)
      (hn : n = min ((cnt + offset / 2 ^ q.scBits % q.scPer) * 2 ^ q.scBits) (q.bn offset length) - offset % q.cs)

theorem bn_bounds (q : QCow2) (g : Geom q) (offset length : Nat) (hl : 0 < length) :
    offset % q.cs < q.bn offset length ∧ q.bn offset length ≤ length + offset % q.cs ∧
    q.bn offset length ≤ (q.l2Size - offset / q.cs % q.l2Size) * q.cs := by
  have hcs := cs_pos q
  have h1 := Nat.mod_lt offset hcs
  have h2 := Nat.mod_lt (offset / q.cs) g.l2_pos
  unfold QCow2.bn
  have : q.cs ≤ (q.l2Size - offset / q.cs % q.l2Size) * q.cs :=
    Nat.le_mul_of_pos_left _ (by omega)
  omega

theorem step_info (q : QCow2) (g : Geom q) (offset length n : Nat) (run : Run) (hl : 0 < length)
    (h : q.step offset length = .ok (n, run)) : StepInfo q offset length n run := by
  have hcs := cs_pos q
  obtain ⟨hb1, hb2, hb3⟩ := bn_bounds q g offset length hl
  unfold QCow2.step at h
  simp only [] at h
  change (do
      let l1 ← q.l1
      if offset / 2 ^ (q.l2Bits + q.clusterBits) ≥ l1.size then
        (Except.ok (q.bn offset length - offset % q.cs, ⟨SC_UNALLOC_PLAIN, offset, 0, q.bn offset length - offset % q.cs⟩) : Except Err (Nat × Run))
      else do
      let l1e ← (match l1[offset / 2 ^ (q.l2Bits + q.clusterBits)]? with | some x => Except.ok x | none => Except.error Err.index)
      if l1e &&& L1E_OFFSET_MASK = 0 then
        Except.ok (q.bn offset length - offset % q.cs, ⟨SC_UNALLOC_PLAIN, offset, 0, q.bn offset length - offset % q.cs⟩)
      else do
      let (e, bm) ← q.l2Entry (l1e &&& L1E_OFFSET_MASK) (offset / q.cs % q.l2Size)
      let t ← q.subclusterType e bm (offset / 2 ^ q.scBits % q.scPer)
      let scCount ← q.countLoop (l1e &&& L1E_OFFSET_MASK) (offset / q.cs % q.l2Size) (offset / 2 ^ q.scBits % q.scPer)
        ((q.bn offset length + (q.cs - 1)) / q.cs) 0 ⟨0, 0, 0, false⟩
      pure (min ((scCount + offset / 2 ^ q.scBits % q.scPer) * 2 ^ q.scBits) (q.bn offset length) - offset % q.cs,
        ⟨t, offset, (if t = SC_COMPRESSED then e &&& L2E_COMPRESSED_OFFSET_SIZE_MASK
           else if NORMAL_SUBCLUSTER_TYPES.contains t then (e &&& L2E_OFFSET_MASK) + offset % q.cs else 0),
         min ((scCount + offset / 2 ^ q.scBits % q.scPer) * 2 ^ q.scBits) (q.bn offset length) - offset % q.cs⟩)) = _ at h
  cases hl1 : q.l1 with
  | error err => rw [hl1] at h; simp [bind, Except.bind] at h
  | ok l1 =>
    rw [hl1] at h
    simp only [bind, Except.bind] at h
    by_cases hidx : offset / 2 ^ (q.l2Bits + q.clusterBits) ≥ l1.size
    · rw [if_pos hidx] at h
      injection h with h; injection h with h1 h2
      exact .unalloc l1 hl1 (Or.inl hidx) (by rw [← h2, h1]) h1.symm
    · rw [if_neg hidx] at h
      cases hl1e : l1[offset / 2 ^ (q.l2Bits + q.clusterBits)]? with
      | none => rw [hl1e] at h; simp at h
      | some l1e =>
        rw [hl1e] at h
        simp only at h
        by_cases hz : l1e &&& L1E_OFFSET_MASK = 0
        · rw [if_pos hz] at h
          injection h with h; injection h with h1 h2
          exact .unalloc l1 hl1 (Or.inr ⟨l1e, hl1e, hz⟩) (by rw [← h2, h1]) h1.symm
        · rw [if_neg hz] at h
          cases hE : q.l2Entry (l1e &&& L1E_OFFSET_MASK) (offset / q.cs % q.l2Size) with
          | error err => rw [hE] at h; simp at h
          | ok eb =>
            obtain ⟨e, bm⟩ := eb
            rw [hE] at h
            simp only at h
            cases hT : q.subclusterType e bm (offset / 2 ^ q.scBits % q.scPer) with
            | error err => rw [hT] at h; simp at h
            | ok t =>
              rw [hT] at h
              simp only at h
              cases hC : q.countLoop (l1e &&& L1E_OFFSET_MASK) (offset / q.cs % q.l2Size) (offset / 2 ^ q.scBits % q.scPer)
                  ((q.bn offset length + (q.cs - 1)) / q.cs) 0 ⟨0, 0, 0, false⟩ with
              | error err => rw [hC] at h; simp at h
              | ok cnt =>
                rw [hC] at h
                simp only [pure, Except.pure] at h
                injection h with h; injection h with h1 h2
                have hk : 1 ≤ (q.bn offset length + (q.cs - 1)) / q.cs := by
                  exact Nat.div_pos (by omega) hcs
                obtain ⟨k, hk'⟩ : ∃ k, (q.bn offset length + (q.cs - 1)) / q.cs = k + 1 :=
                  ⟨(q.bn offset length + (q.cs - 1)) / q.cs - 1, by omega⟩
                rw [hk'] at hC
                obtain ⟨e', bm', t', hE', hT', hc1, hc2, hc3⟩ :=
                  countLoop_sound q _ _ _ k cnt (Nat.mod_lt _ (scPer_pos q)) hC
                rw [hE] at hE'
                injection hE' with hE'; injection hE' with he hb
                subst he hb
                rw [hT] at hT'
                injection hT' with hT'
                subst hT'
                exact .mapped l1 l1e e bm t cnt hl1 hl1e hz hE hT (by rw [← h2, h1]) hc1 hc2 hc3 h1.symm


/-- the sub-cluster index of `offset` is the sub-cluster of its offset into the cluster -/
theorem oic_sc (q : QCow2) (g : Geom q) (offset : Nat) :
    offset % q.cs / 2 ^ q.scBits = offset / 2 ^ q.scBits % q.scPer := by
  rw [g.bits, ← g.per_size]; exact Nat.mod_mul_left_div_self _ _ _

theorem oic_lt (q : QCow2) (g : Geom q) (offset : Nat) :
    offset % q.cs < (offset / 2 ^ q.scBits % q.scPer + 1) * 2 ^ q.scBits := by
  rw [← oic_sc q g offset]
  have hS : 0 < 2 ^ q.scBits := Nat.two_pow_pos _
  have := Nat.div_add_mod (offset % q.cs) (2 ^ q.scBits)
  have := Nat.mod_lt (offset % q.cs) hS
  rw [Nat.add_mul, Nat.one_mul, Nat.mul_comm]; omega

/-- **progress of one iteration**, for arbitrary table contents -/
theorem step_progress (q : QCow2) (g : Geom q) (offset length n : Nat) (run : Run) (hl : 0 < length)
    (h : q.step offset length = .ok (n, run)) :
    1 ≤ n ∧ n ≤ length ∧ run.readOffset = offset ∧ run.count = n := by
  obtain ⟨hb1, hb2, hb3⟩ := bn_bounds q g offset length hl
  cases step_info q g offset length n run hl h with
  | unalloc l1 hl1 hidx hrun hn => subst hrun; exact ⟨by omega, by omega, rfl, rfl⟩
  | mapped l1 l1e e bm t cnt hl1 hl1e hl2 hE hT hrun hcnt hcomp hgood hn =>
    subst hrun
    have h1 := oic_lt q g offset
    have h2 : (offset / 2 ^ q.scBits % q.scPer + 1) * 2 ^ q.scBits ≤ (cnt + offset / 2 ^ q.scBits % q.scPer) * 2 ^ q.scBits :=
      Nat.mul_le_mul_right _ (by omega)
    exact ⟨by omega, by omega, rfl, rfl⟩

/-- the runs are consecutive, non-empty and cover exactly `[off, off + len)` -/
def Tiles : List Run → Nat → Nat → Prop
  | [], _, len => len = 0
  | r :: rs, off, len => r.readOffset = off ∧ 1 ≤ r.count ∧ r.count ≤ len ∧ Tiles rs (off + r.count) (len - r.count)

/-! errors of the table walk are never the fuel error -/

theorem bind_nt {α β : Type} (x : Except Err α) (f : α → Except Err β)
    (hx : x ≠ .error .nonTermination) (hf : ∀ a, x = .ok a → f a ≠ .error .nonTermination) :
    (x >>= f) ≠ .error .nonTermination := by
  cases x with
  | error e => simp only [bind, Except.bind]; intro hc; injection hc with hc; subst hc; exact hx rfl
  | ok a => simp only [bind, Except.bind]; exact hf a rfl

theorem l2Entry_nt (q : QCow2) (l2Offset idx : Nat) : q.l2Entry l2Offset idx ≠ .error .nonTermination := by
  unfold QCow2.l2Entry
  simp only []
  split
  · intro hc; cases hc
  · split
    · intro hc; cases hc
    · split
      · split
        · intro hc; cases hc
        · intro hc; cases hc
      · intro hc; cases hc

theorem subclusterType_nt (q : QCow2) (e bm s : Nat) : q.subclusterType e bm s ≠ .error .nonTermination := by
  unfold QCow2.subclusterType
  simp only []
  cases q.clusterType e <;> (repeat' split) <;> (intro hc; cases hc)

theorem subclusterRangeType_nt (q : QCow2) (e bm s : Nat) : q.subclusterRangeType e bm s ≠ .error .nonTermination := by
  unfold QCow2.subclusterRangeType
  apply bind_nt _ _ (subclusterType_nt q e bm s)
  intro t _
  (repeat' split) <;> (intro hc; cases hc)

theorem countLoop_nt (q : QCow2) (l2Offset l2Index scIndex : Nat) :
    ∀ k i st, q.countLoop l2Offset l2Index scIndex k i st ≠ .error .nonTermination := by
  intro k
  induction k with
  | zero => intro i st; simp [QCow2.countLoop]
  | succ k ih =>
    intro i st
    unfold QCow2.countLoop
    simp only []
    apply bind_nt _ _ (l2Entry_nt q _ _)
    intro eb _
    apply bind_nt _ _ (subclusterRangeType_nt q _ _ _)
    intro tn _
    (repeat' split) <;> first | exact ih _ _ | (intro hc; cases hc)

theorem step_nt (q : QCow2) (hl1 : q.l1 ≠ .error .nonTermination) (offset length : Nat) :
    q.step offset length ≠ .error .nonTermination := by
  unfold QCow2.step
  simp only []
  apply bind_nt _ _ hl1
  intro l1 _
  split
  · intro hc; cases hc
  · apply bind_nt
    · split <;> (intro hc; cases hc)
    · intro l1e _
      split
      · intro hc; cases hc
      · apply bind_nt _ _ (l2Entry_nt q _ _)
        intro eb _
        apply bind_nt _ _ (subclusterType_nt q _ _ _)
        intro t _
        apply bind_nt _ _ (countLoop_nt q _ _ _ _ _ _)
        intro c _
        intro hc; cases hc

theorem yieldRuns_progress' (q : QCow2) (g : Geom q) (hl1 : q.l1 ≠ .error .nonTermination) :
    ∀ fuel offset length, length ≤ fuel → q.yieldRuns fuel offset length ≠ .error .nonTermination := by
  intro fuel
  induction fuel with
  | zero =>
    intro offset length h
    have : length = 0 := by omega
    subst this; simp [QCow2.yieldRuns]
  | succ fuel ih =>
    intro offset length hf
    rw [yieldRuns_succ]
    by_cases hl : length = 0
    · simp [hl]
    · rw [if_neg hl]
      cases hs : q.step offset length with
      | error err =>
        simp only [bind, Except.bind]
        intro hc; injection hc with hc
        subst hc
        -- `step` itself never reports non-termination: its errors come from table access
        exact step_nt q hl1 offset length hs
      | ok nr =>
        obtain ⟨n, run⟩ := nr
        obtain ⟨h1, h2, _, _⟩ := step_progress q g offset length n run (by omega) hs
        simp only [bind, Except.bind]
        have hn0 : ¬ n = 0 := by omega
        rw [if_neg hn0]
        have := ih (offset + n) (length - n) (by omega)
        cases hr : q.yieldRuns fuel (offset + n) (length - n) with
        | error e => simp only; intro hc; injection hc with hc; subst hc; exact this hr
        | ok _ => simp


theorem yieldRuns_tiles' (q : QCow2) (g : Geom q) :
    ∀ fuel offset length runs, q.yieldRuns fuel offset length = .ok runs → Tiles runs offset length := by
  intro fuel
  induction fuel with
  | zero =>
    intro offset length runs h
    simp only [QCow2.yieldRuns] at h
    split at h
    · injection h with h; subst h; assumption
    · cases h
  | succ fuel ih =>
    intro offset length runs h
    rw [yieldRuns_succ] at h
    by_cases hl : length = 0
    · rw [if_pos hl] at h; injection h with h; subst h; exact hl
    · rw [if_neg hl] at h
      cases hs : q.step offset length with
      | error err => rw [hs] at h; simp [bind, Except.bind] at h
      | ok nr =>
        obtain ⟨n, run⟩ := nr
        obtain ⟨h1, h2, h3, h4⟩ := step_progress q g offset length n run (by omega) hs
        rw [hs] at h
        simp only [bind, Except.bind] at h
        have hn0 : ¬ n = 0 := by omega
        rw [if_neg hn0] at h
        cases hr : q.yieldRuns fuel (offset + n) (length - n) with
        | error e => rw [hr] at h; simp at h
        | ok rest =>
          rw [hr] at h
          simp only at h
          injection h with h; subst h
          have := ih _ _ _ hr
          exact ⟨h3, by omega, by omega, by rw [h4]; exact this⟩


/-! ### what `open` guarantees -/

theorem sub_tab : ∀ cb, cb < 22 → ¬ (2 ^ cb / 32 < 2 ^ 9) → 14 ≤ cb := by decide

theorem gate_none (h : Hdr) (hg : h.gate = none) :
    9 ≤ h.clusterBits ∧ h.clusterBits ≤ 21 ∧ (h.sub = true → 14 ≤ h.clusterBits) := by
  unfold Hdr.gate at hg
  have c1 : MIN_CLUSTER_BITS = 9 := rfl
  have c2 : MAX_CLUSTER_BITS = 21 := rfl
  split at hg; · cases hg
  split at hg; · cases hg
  split at hg; · cases hg
  rename_i hcb
  split at hg; · cases hg
  split at hg; · cases hg
  rename_i hsz
  rw [c1, c2] at hcb
  rw [c1] at hsz
  refine ⟨by omega, by omega, fun hs => ?_⟩
  have : h.scPer = 32 := by simp [Hdr.scPer, hs, QCOW_EXTL2_SUBCLUSTERS_PER_CLUSTER]
  rw [this] at hsz
  exact sub_tab _ (by omega) hsz

theorem open_ok (fh : File) (df : Option File) (bk : Option Reader) (allow : Bool)
    (infl : Bytes → Nat → Except Err Bytes) (q : QCow2) (h : «open» fh df bk allow infl = .ok q) :
    HdrOK q ∧ q.l1 ≠ .error .nonTermination ∧
      (q.l1Offset + 8 * q.l1Size ≤ fh.size →
        q.l1 = .ok (decodeBE64 q.l1Size (slice fh.byte q.l1Offset (8 * q.l1Size))).toArray) ∧ q.fh = fh := by
  unfold «open» at h
  cases hh : readHdr fh with
  | error e => rw [hh] at h; simp [bind, Except.bind] at h
  | ok hd =>
    rw [hh] at h
    simp only [bind, Except.bind] at h
    cases hg : hd.gate with
    | some e => rw [hg] at h; simp at h
    | none =>
      rw [hg] at h
      simp only at h
      obtain ⟨g1, g2, g3⟩ := gate_none hd hg
      split at h; · cases h
      split at h; · cases h
      split at h; · cases h
      rename_i v1 ex hex v2 dfile hdf v3 bb hbb
      obtain ⟨bname, bkk⟩ := bb
      simp only at h
      injection h with h
      subst h
      refine ⟨⟨g1, g2, g3⟩, ?_, ?_, rfl⟩
      · simp only
        unfold File.readExact
        split <;> simp [Except.map]
      · intro hin
        simp only at hin ⊢
        unfold File.readExact
        rw [if_pos hin]; rfl


/-! ### the code's masks = the specification's bit fields -/

theorem offset_mask (e : Nat) : e &&& L2E_OFFSET_MASK = hostOff e := by
  have hm : L2E_OFFSET_MASK = (2 ^ 47 - 1) <<< 9 := by decide
  rw [hm]
  unfold hostOff
  apply Nat.eq_of_testBit_eq
  intro i
  rw [Nat.testBit_and, Nat.testBit_shiftLeft, Nat.testBit_two_pow_sub_one, Nat.testBit_mul_two_pow,
    Nat.testBit_div_two_pow, Nat.testBit_mod_two_pow]
  by_cases h : 9 ≤ i
  · have e1 : i - 9 + 9 = i := by omega
    rw [e1]
    by_cases h2 : i < 56
    · have : i - 9 < 47 := by omega
      simp [h, h2, this]
    · have : ¬ i - 9 < 47 := by omega
      simp [h, h2, this]
  · simp [h]

theorem l1_offset_mask (e : Nat) : e &&& L1E_OFFSET_MASK = hostOff e := offset_mask e

theorem compressed_flag (e : Nat) : e &&& QCOW_OFLAG_COMPRESSED ≠ 0 ↔ e.testBit 62 = true := by
  rw [show QCOW_OFLAG_COMPRESSED = 2 ^ 62 from by decide]; exact and_two_pow_ne_zero e 62
theorem zero_flag (e : Nat) : e &&& QCOW_OFLAG_ZERO ≠ 0 ↔ e.testBit 0 = true := by
  rw [show QCOW_OFLAG_ZERO = 2 ^ 0 from by decide]; exact and_two_pow_ne_zero e 0
theorem copied_flag (e : Nat) : e &&& QCOW_OFLAG_COPIED ≠ 0 ↔ e.testBit 63 = true := by
  rw [show QCOW_OFLAG_COPIED = 2 ^ 63 from by decide]; exact and_two_pow_ne_zero e 63

/-- `get_cluster_type` in terms of the specification's bit fields -/
theorem clusterType_eq (q : QCow2) (e : Nat) :
    q.clusterType e =
      if e.testBit 62 = true then .compressed
      else if e.testBit 0 = true ∧ ¬ q.sub = true then (if hostOff e ≠ 0 then .zeroAlloc else .zeroPlain)
      else if hostOff e = 0 then (if q.hasDataFile = true ∧ e.testBit 63 = true then .normal else .unallocated)
      else .normal := by
  unfold QCow2.clusterType
  simp only [compressed_flag, zero_flag, copied_flag, offset_mask]

theorem beNat_foldl_lt (bs : Bytes) : ∀ acc, bs.foldl (fun acc b => acc * 256 + b.toNat) acc < (acc + 1) * 256 ^ bs.length := by
  induction bs with
  | nil => intro acc; simp
  | cons b bs ih =>
    intro acc
    simp only [List.foldl_cons, List.length_cons, Nat.pow_succ]
    have h1 := ih (acc * 256 + b.toNat)
    have hb := b.toNat_lt
    have h2 : (acc * 256 + b.toNat + 1) * 256 ^ bs.length ≤ ((acc + 1) * 256) * 256 ^ bs.length :=
      Nat.mul_le_mul_right _ (by omega)
    rw [Nat.mul_comm (256 ^ bs.length) 256, ← Nat.mul_assoc]
    omega

theorem be64_lt (q : QCow2) (o : Nat) : q.be64 o < 2 ^ 64 := by
  unfold QCow2.be64 beNat
  have := beNat_foldl_lt (slice q.fh.byte o 8) 0
  rw [slice_length] at this
  have h : (0 + 1) * 256 ^ 8 = 2 ^ 64 := by decide
  omega

/-! ### table access = the specification's table words -/

theorem entrySize_eq (q : QCow2) : q.l2EntrySize = q.entrySize := by
  unfold QCow2.l2EntrySize QCow2.entrySize; cases q.sub <;> rfl

theorem l2Entry_eq (q : QCow2) (g : Geom q) (l2Offset idx : Nat) (hin : l2Offset + q.cs ≤ q.fh.size) (hidx : idx < q.l2Size) :
    q.l2Entry l2Offset idx =
      .ok (q.be64 (l2Offset + idx * q.entrySize), if q.sub = true then q.be64 (l2Offset + idx * q.entrySize + 8) else 0) := by
  have htbl := g.tbl
  unfold QCow2.l2Entry
  simp only []
  cases hs : q.sub with
  | false =>
    have e4 : q.l2EntrySize = 8 := by simp [QCow2.l2EntrySize, hs, L2E_SIZE_NORMAL]
    have e5 : q.entrySize = 8 := by simp [QCow2.entrySize, hs]
    rw [e4] at htbl ⊢
    have e7 : (8:Nat) / 8 = 1 := rfl
    have e6 : idx * 8 / 8 = idx := by omega
    rw [e6, e7]
    have h1 : ¬ (l2Offset + 8 * (q.l2Size * 1) > q.fh.size) := by omega
    have h2 : ¬ (idx ≥ q.l2Size * 1) := by omega
    rw [if_neg h1, if_neg h2]
    simp only [Bool.false_eq_true, if_false, e5, QCow2.be64, Nat.mul_comm 8 idx]
  | true =>
    have e4 : q.l2EntrySize = 16 := by simp [QCow2.l2EntrySize, hs, L2E_SIZE_EXTENDED]
    have e5 : q.entrySize = 16 := by simp [QCow2.entrySize, hs]
    rw [e4] at htbl ⊢
    have e6 : idx * 16 / 8 = idx * 2 := by omega
    have e7 : (16:Nat) / 8 = 2 := rfl
    rw [e6, e7]
    have h1 : ¬ (l2Offset + 8 * (q.l2Size * 2) > q.fh.size) := by omega
    have h2 : ¬ (idx * 2 ≥ q.l2Size * 2) := by omega
    have h3 : ¬ (idx * 2 + 1 ≥ q.l2Size * 2) := by omega
    rw [if_neg h1, if_neg h2]
    simp only [if_true, if_neg h3, e5, QCow2.be64]
    have e8 : l2Offset + 8 * (idx * 2) = l2Offset + idx * 16 := by omega
    have e9 : l2Offset + 8 * (idx * 2 + 1) = l2Offset + idx * 16 + 8 := by omega
    rw [e8, e9]

theorem l1Table_size (q : QCow2) : q.l1Table.size = q.l1Size := by simp [QCow2.l1Table]
theorem l1Table_get (q : QCow2) (i : Nat) (h : i < q.l1Size) : q.l1Table[i]? = some (q.l1At i) := by
  simp [QCow2.l1Table, h]


/-! ### classification: `get_subcluster_type` agrees with the specification on conformant entries -/

/-- what a byte at guest offset `o` of sub-cluster type `t` (entry `e`) reads as -/
def QCow2.byteOf (q : QCow2) (b : File) (t e o : Nat) : UInt8 :=
  if t = SC_ZERO_PLAIN ∨ t = SC_ZERO_ALLOC then 0
  else if t = SC_UNALLOC_PLAIN ∨ t = SC_UNALLOC_ALLOC then (if o < b.size then b.byte o else 0)
  else if t = SC_NORMAL then q.dataFile.byte (hostOff e + o % q.clusterSize)
  else match q.decomp e with | .ok d => d.getD (o % q.clusterSize) 0 | .error _ => 0

theorem guest_unmapped (q : QCow2) (b : File) (o : Nat)
    (h : q.l1Size ≤ o / q.clusterSize / q.l2n ∨ q.l2Off (o / q.clusterSize) = 0) :
    q.guest b o = if o < b.size then b.byte o else 0 := by
  unfold QCow2.guest
  simp only []
  by_cases h1 : q.l1Size ≤ o / q.clusterSize / q.l2n
  · rw [if_pos h1]
  · rw [if_neg h1]
    rcases h with h | h
    · exact absurd h h1
    · rw [if_pos h]

theorem guest_mapped (q : QCow2) (b : File) (o : Nat)
    (h1 : ¬ q.l1Size ≤ o / q.clusterSize / q.l2n) (h2 : ¬ q.l2Off (o / q.clusterSize) = 0) :
    q.guest b o =
      if (q.entryAt (o / q.clusterSize)).testBit 62 = true then
        match q.decomp (q.entryAt (o / q.clusterSize)) with
        | .ok d => d.getD (o % q.clusterSize) 0
        | .error _ => 0
      else if q.sub = true then
        if (q.bitmapAt (o / q.clusterSize)).testBit (32 + o % q.clusterSize / (q.clusterSize / 32)) = true then 0
        else if (q.bitmapAt (o / q.clusterSize)).testBit (o % q.clusterSize / (q.clusterSize / 32)) = true then
          q.dataFile.byte (hostOff (q.entryAt (o / q.clusterSize)) + o % q.clusterSize)
        else (if o < b.size then b.byte o else 0)
      else if (q.entryAt (o / q.clusterSize)).testBit 0 = true then 0
      else if hostOff (q.entryAt (o / q.clusterSize)) = 0 ∧ (q.entryAt (o / q.clusterSize)).testBit 63 = false then
        (if o < b.size then b.byte o else 0)
      else q.dataFile.byte (hostOff (q.entryAt (o / q.clusterSize)) + o % q.clusterSize) := by
  unfold QCow2.guest
  simp only []
  rw [if_neg h1, if_neg h2]
  rfl

theorem decomp_ok (q : QCow2) (e : Nat) (h : q.clusterSize ≤ q.decompLen e) :
    ∃ d, q.decomp e = .ok d ∧ q.clusterSize ≤ d.length := by
  unfold QCow2.decompLen at h
  cases hd : q.decomp e with
  | ok d => rw [hd] at h; exact ⟨d, rfl, h⟩
  | error err =>
    rw [hd] at h
    have : 0 < q.clusterSize := Nat.two_pow_pos _
    simp only at h; omega

/-- the sub-cluster type of a standard entry in terms of the specification's bit fields -/
def QCow2.stdType (q : QCow2) (e : Nat) : Nat :=
  if e.testBit 62 = true then SC_COMPRESSED
  else if e.testBit 0 = true then (if hostOff e ≠ 0 then SC_ZERO_ALLOC else SC_ZERO_PLAIN)
  else if hostOff e = 0 then (if q.hasDataFile = true ∧ e.testBit 63 = true then SC_NORMAL else SC_UNALLOC_PLAIN)
  else SC_NORMAL

theorem subclusterType_std_eq (q : QCow2) (hs : q.sub = false) (e bm s : Nat) :
    q.subclusterType e bm s = .ok (q.stdType e) := by
  unfold QCow2.subclusterType QCow2.stdType
  simp only [hs, Bool.false_eq_true, if_false]
  rw [clusterType_eq]
  simp only [hs, Bool.false_eq_true, not_false_eq_true, and_true]
  by_cases h62 : e.testBit 62 = true <;> by_cases h0 : e.testBit 0 = true <;> by_cases ho : hostOff e = 0 <;>
    by_cases hd : (q.hasDataFile = true ∧ e.testBit 63 = true) <;> simp only [h62, h0, ho, hd, if_true, if_false, ne_eq, not_true, not_false_eq_true, Bool.false_eq_true, and_self]

/-- **classify_agrees**, standard L2 entries -/
theorem classify_std (q : QCow2) (b : File) (o s bm : Nat) (hs : q.sub = false)
    (h1 : ¬ q.l1Size ≤ o / q.clusterSize / q.l2n) (h2 : ¬ q.l2Off (o / q.clusterSize) = 0)
    (hok : EntryOK q (o / q.clusterSize)) :
    ∃ t, q.subclusterType (q.entryAt (o / q.clusterSize)) bm s = .ok t ∧ t ≤ 5 ∧
      q.guest b o = q.byteOf b t (q.entryAt (o / q.clusterSize)) o ∧
      (t = SC_NORMAL → hostOff (q.entryAt (o / q.clusterSize)) + q.bytesIn (o / q.clusterSize) ≤ q.dataFile.size) ∧
      (t = SC_COMPRESSED → q.compressionType = QCOW2_COMPRESSION_TYPE_ZLIB ∧
        ∃ d, q.decomp (q.entryAt (o / q.clusterSize)) = .ok d ∧ q.clusterSize ≤ d.length) := by
  rw [guest_mapped q b o h1 h2]
  have hcomp := hok.comp
  have hoff0 := hok.off0
  have hin := hok.std_in
  generalize q.entryAt (o / q.clusterSize) = e at *
  refine ⟨q.stdType e, subclusterType_std_eq q hs e bm s, ?_⟩
  unfold QCow2.stdType QCow2.byteOf
  by_cases hc : e.testBit 62 = true
  · obtain ⟨hz, hl⟩ := hcomp hc
    obtain ⟨d, hd, hdl⟩ := decomp_ok q e hl
    simp only [hc, if_true]
    refine ⟨by decide, ?_, fun h => absurd h (by decide), fun _ => ⟨hz, d, hd, hdl⟩⟩
    simp [SC_COMPRESSED, SC_ZERO_PLAIN, SC_ZERO_ALLOC, SC_UNALLOC_PLAIN, SC_UNALLOC_ALLOC, SC_NORMAL]
  · have hc' : e.testBit 62 = false := by simpa using hc
    rw [if_neg hc, if_neg hc]
    simp only [hs, Bool.false_eq_true, if_false]
    by_cases hz : e.testBit 0 = true
    · rw [if_pos hz, if_pos hz]
      by_cases ho : hostOff e ≠ 0
      · rw [if_pos ho]
        exact ⟨by decide, by simp [SC_ZERO_ALLOC, SC_ZERO_PLAIN], fun h => absurd h (by decide), fun h => absurd h (by decide)⟩
      · rw [if_neg ho]
        exact ⟨by decide, by simp [SC_ZERO_ALLOC, SC_ZERO_PLAIN], fun h => absurd h (by decide), fun h => absurd h (by decide)⟩
    · have hz' : e.testBit 0 = false := by simpa using hz
      rw [if_neg hz, if_neg hz]
      by_cases ho : hostOff e = 0
      · rw [if_pos ho]
        by_cases h63 : e.testBit 63 = true
        · have hdf := hoff0 hc' ho h63
          have hA : q.hasDataFile = true ∧ e.testBit 63 = true := ⟨hdf, h63⟩
          have hB : ¬ (hostOff e = 0 ∧ e.testBit 63 = false) := by simp [h63]
          rw [if_pos hA, if_neg hB]
          refine ⟨by decide, ?_, fun _ => hin hc' hs hz' hB, fun h => absurd h (by decide)⟩
          simp [SC_NORMAL, SC_ZERO_PLAIN, SC_ZERO_ALLOC, SC_UNALLOC_PLAIN, SC_UNALLOC_ALLOC]
        · have h63' : e.testBit 63 = false := by simpa using h63
          have hA : ¬ (q.hasDataFile = true ∧ e.testBit 63 = true) := by simp [h63']
          have hB : hostOff e = 0 ∧ e.testBit 63 = false := ⟨ho, h63'⟩
          rw [if_neg hA, if_pos hB]
          exact ⟨by decide, by simp [SC_UNALLOC_PLAIN, SC_ZERO_PLAIN, SC_ZERO_ALLOC], fun h => absurd h (by decide), fun h => absurd h (by decide)⟩
      · have hB : ¬ (hostOff e = 0 ∧ e.testBit 63 = false) := by simp [ho]
        rw [if_neg ho, if_neg hB]
        refine ⟨by decide, ?_, fun _ => hin hc' hs hz' hB, fun h => absurd h (by decide)⟩
        simp [SC_NORMAL, SC_ZERO_PLAIN, SC_ZERO_ALLOC, SC_UNALLOC_PLAIN, SC_UNALLOC_ALLOC]


theorem noX (bm : Nat) (hlt : bm < 2 ^ 64)
    (hd : ∀ i, i < 32 → ¬ (bm.testBit i = true ∧ bm.testBit (32 + i) = true)) : ¬ ((bm >>> 32) &&& bm ≠ 0) := by
  intro h
  apply h
  apply (eq_zero_iff_testBit _).mpr
  intro i
  rw [Nat.testBit_and, Nat.testBit_shiftRight]
  by_cases hi : i < 32
  · have := hd i hi
    cases h1 : bm.testBit i <;> cases h2 : bm.testBit (32 + i) <;> simp_all
  · have : bm.testBit (32 + i) = false :=
      Nat.testBit_lt_two_pow (Nat.lt_of_lt_of_le hlt (Nat.pow_le_pow_right (by decide) (by omega)))
    rw [this]; rfl

theorem noY (bm : Nat) (h : ∀ i, i < 32 → bm.testBit i = false) : ¬ (bm &&& (2 ^ 32 - 1) ≠ 0) := by
  intro hc
  apply hc
  apply (eq_zero_iff_testBit _).mpr
  intro i
  rw [Nat.testBit_and, Nat.testBit_two_pow_sub_one]
  by_cases hi : i < 32
  · rw [h i hi]; rfl
  · simp [hi]

/-- the sub-cluster type of an extended entry in terms of the specification's bit fields -/
def QCow2.extType (q : QCow2) (e bm s : Nat) : Nat :=
  if e.testBit 62 = true then SC_COMPRESSED
  else if hostOff e = 0 ∧ ¬ (q.hasDataFile = true ∧ e.testBit 63 = true) then
    (if bm.testBit (s + 32) = true then SC_ZERO_PLAIN else SC_UNALLOC_PLAIN)
  else if bm.testBit (s + 32) = true then SC_ZERO_ALLOC
  else if bm.testBit s = true then SC_NORMAL else SC_UNALLOC_ALLOC

theorem subclusterType_ext_eq (q : QCow2) (hs : q.sub = true) (e bm s : Nat)
    (hX : e.testBit 62 = false → ¬ (hostOff e = 0 ∧ ¬ (q.hasDataFile = true ∧ e.testBit 63 = true)) → ¬ ((bm >>> 32) &&& bm ≠ 0))
    (hY : e.testBit 62 = false → (hostOff e = 0 ∧ ¬ (q.hasDataFile = true ∧ e.testBit 63 = true)) → ¬ (bm &&& (2 ^ 32 - 1) ≠ 0)) :
    q.subclusterType e bm s = .ok (q.extType e bm s) := by
  rw [subclusterType_sub q hs, clusterType_eq]
  unfold QCow2.extType
  simp only [hs, not_true, and_false, if_false]
  by_cases h62 : e.testBit 62 = true
  · simp only [h62, if_true]
  · have h62' : e.testBit 62 = false := by simpa using h62
    by_cases hk : hostOff e = 0 ∧ ¬ (q.hasDataFile = true ∧ e.testBit 63 = true)
    · have hY' := hY h62' hk
      obtain ⟨ho, hd⟩ := hk
      simp only [h62, ho, hd, hY', if_true, if_false, and_self, not_false_eq_true, Bool.false_eq_true]
      split <;> rfl
    · have hX' := hX h62' hk
      by_cases ho : hostOff e = 0
      · have hd : q.hasDataFile = true ∧ e.testBit 63 = true := by
          apply Classical.byContradiction
          intro hd; exact hk ⟨ho, hd⟩
        simp only [h62, ho, hd, hX', if_true, if_false, and_self, not_true, and_false, Bool.false_eq_true]
        (repeat' split) <;> rfl
      · simp only [h62, ho, hX', if_true, if_false, false_and, Bool.false_eq_true]
        (repeat' split) <;> rfl

/-- **classify_agrees**, extended L2 entries -/
theorem classify_ext (q : QCow2) (b : File) (o : Nat) (hs : q.sub = true)
    (hs32 : o % q.clusterSize / (q.clusterSize / 32) < 32)
    (h1 : ¬ q.l1Size ≤ o / q.clusterSize / q.l2n) (h2 : ¬ q.l2Off (o / q.clusterSize) = 0)
    (hok : EntryOK q (o / q.clusterSize)) :
    ∃ t, q.subclusterType (q.entryAt (o / q.clusterSize)) (q.bitmapAt (o / q.clusterSize))
        (o % q.clusterSize / (q.clusterSize / 32)) = .ok t ∧ t ≤ 5 ∧
      q.guest b o = q.byteOf b t (q.entryAt (o / q.clusterSize)) o ∧
      (t = SC_NORMAL → hostOff (q.entryAt (o / q.clusterSize)) + q.bytesIn (o / q.clusterSize) ≤ q.dataFile.size) ∧
      (t = SC_COMPRESSED → q.compressionType = QCOW2_COMPRESSION_TYPE_ZLIB ∧
        ∃ d, q.decomp (q.entryAt (o / q.clusterSize)) = .ok d ∧ q.clusterSize ≤ d.length) := by
  rw [guest_mapped q b o h1 h2]
  have hcomp := hok.comp
  have hoff0 := hok.off0
  have hdisj := hok.ext_disj
  have hun := hok.ext_unalloc
  have hin := hok.ext_in
  have hlt : q.bitmapAt (o / q.clusterSize) < 2 ^ 64 := be64_lt q _
  generalize q.entryAt (o / q.clusterSize) = e at *
  generalize q.bitmapAt (o / q.clusterSize) = bm at *
  generalize o % q.clusterSize / (q.clusterSize / 32) = s at *
  -- "unallocated cluster" in the code's sense = offset 0 and bit 63 clear
  have hkind : e.testBit 62 = false → (hostOff e = 0 ∧ ¬ (q.hasDataFile = true ∧ e.testBit 63 = true)) →
      hostOff e = 0 ∧ e.testBit 63 = false := by
    intro h62 ⟨ho, hd⟩
    refine ⟨ho, ?_⟩
    cases h63 : e.testBit 63 with
    | false => rfl
    | true => exact absurd ⟨hoff0 h62 ho h63, h63⟩ hd
  refine ⟨q.extType e bm s, subclusterType_ext_eq q hs e bm s
    (fun h62 _ => noX bm hlt (hdisj h62 hs))
    (fun h62 hk => noY bm (hun h62 hs (hkind h62 hk).1 (hkind h62 hk).2)), ?_⟩
  unfold QCow2.extType QCow2.byteOf
  rw [Nat.add_comm 32 s]
  by_cases hc : e.testBit 62 = true
  · obtain ⟨hz, hl⟩ := hcomp hc
    obtain ⟨d, hd, hdl⟩ := decomp_ok q e hl
    simp only [hc, if_true]
    refine ⟨by decide, ?_, fun h => absurd h (by decide), fun _ => ⟨hz, d, hd, hdl⟩⟩
    simp [SC_COMPRESSED, SC_ZERO_PLAIN, SC_ZERO_ALLOC, SC_UNALLOC_PLAIN, SC_UNALLOC_ALLOC, SC_NORMAL]
  · have hc' : e.testBit 62 = false := by simpa using hc
    rw [if_neg hc, if_neg hc]
    simp only [hs, if_true]
    by_cases hk : hostOff e = 0 ∧ ¬ (q.hasDataFile = true ∧ e.testBit 63 = true)
    · rw [if_pos hk]
      obtain ⟨ho, h63⟩ := hkind hc' hk
      have ha : bm.testBit s = false := hun hc' hs ho h63 s hs32
      by_cases hz : bm.testBit (s + 32) = true
      · rw [if_pos hz, if_pos hz]
        exact ⟨by decide, by simp [SC_ZERO_ALLOC, SC_ZERO_PLAIN], fun h => absurd h (by decide), fun h => absurd h (by decide)⟩
      · rw [if_neg hz, if_neg hz]
        simp only [ha, Bool.false_eq_true, if_false]
        exact ⟨by decide, by simp [SC_UNALLOC_PLAIN, SC_ZERO_PLAIN, SC_ZERO_ALLOC], fun h => absurd h (by decide), fun h => absurd h (by decide)⟩
    · rw [if_neg hk]
      by_cases hz : bm.testBit (s + 32) = true
      · rw [if_pos hz, if_pos hz]
        exact ⟨by decide, by simp [SC_ZERO_ALLOC, SC_ZERO_PLAIN], fun h => absurd h (by decide), fun h => absurd h (by decide)⟩
      · rw [if_neg hz, if_neg hz]
        by_cases ha : bm.testBit s = true
        · rw [if_pos ha, if_pos ha]
          refine ⟨by decide, ?_, fun _ => hin hc' hs ⟨s, hs32, ha⟩, fun h => absurd h (by decide)⟩
          simp [SC_NORMAL, SC_ZERO_PLAIN, SC_ZERO_ALLOC, SC_UNALLOC_PLAIN, SC_UNALLOC_ALLOC]
        · rw [if_neg ha, if_neg ha]
          exact ⟨by decide, by simp [SC_UNALLOC_ALLOC, SC_UNALLOC_PLAIN, SC_ZERO_PLAIN, SC_ZERO_ALLOC], fun h => absurd h (by decide), fun h => absurd h (by decide)⟩


/-- the bitmap word the code passes along: 0 for standard entries -/
def QCow2.bmOf (q : QCow2) (c : Nat) : Nat := if q.sub = true then q.bitmapAt c else 0

/-- **classify_agrees**: on a conformant entry `get_subcluster_type` succeeds with a type ≤ COMPRESSED and
    the specification's byte is the byte that type reads as -/
theorem classify (q : QCow2) (g : Geom q) (b : File) (o : Nat)
    (h1 : ¬ q.l1Size ≤ o / q.clusterSize / q.l2n) (h2 : ¬ q.l2Off (o / q.clusterSize) = 0)
    (hok : EntryOK q (o / q.clusterSize)) :
    ∃ t, q.subclusterType (q.entryAt (o / q.clusterSize)) (q.bmOf (o / q.clusterSize))
        (o / 2 ^ q.scBits % q.scPer) = .ok t ∧ t ≤ 5 ∧
      q.guest b o = q.byteOf b t (q.entryAt (o / q.clusterSize)) o ∧
      (t = SC_NORMAL → hostOff (q.entryAt (o / q.clusterSize)) + q.bytesIn (o / q.clusterSize) ≤ q.dataFile.size) ∧
      (t = SC_COMPRESSED → q.compressionType = QCOW2_COMPRESSION_TYPE_ZLIB ∧
        ∃ d, q.decomp (q.entryAt (o / q.clusterSize)) = .ok d ∧ q.clusterSize ≤ d.length) := by
  cases hs : q.sub with
  | false => exact classify_std q b o _ _ hs h1 h2 hok
  | true =>
    have hper := scPer_sub q hs
    have e1 : q.clusterSize / 32 = 2 ^ q.scBits := by
      rw [g.bits]; unfold QCow2.scSize; rw [hper]; rfl
    have e2 : o / 2 ^ q.scBits % q.scPer = o % q.clusterSize / (q.clusterSize / 32) := by
      rw [e1, ← cs_eq, oic_sc q g o]
    have hlt : o % q.clusterSize / (q.clusterSize / 32) < 32 := by
      rw [← e2, hper]; exact Nat.mod_lt _ (by decide)
    have := classify_ext q b o hs hlt h1 h2 hok
    rw [e2]
    unfold QCow2.bmOf
    simp only [hs, if_true]
    exact this

/-- every sub-cluster of a conformant entry has a type -/
theorem type_ok (q : QCow2) (g : Geom q) (c s : Nat) (hs : s < q.scPer)
    (h1 : ¬ q.l1Size ≤ c / q.l2n) (h2 : ¬ q.l2Off c = 0) (hok : EntryOK q c) :
    ∃ t, q.subclusterType (q.entryAt c) (q.bmOf c) s = .ok t ∧ t ≤ 5 := by
  have hS : 0 < 2 ^ q.scBits := Nat.two_pow_pos _
  have hcs : q.clusterSize = q.scPer * 2 ^ q.scBits := by rw [g.bits, g.per_size]; rfl
  have hlt : s * 2 ^ q.scBits < q.clusterSize := by
    rw [hcs]; exact Nat.mul_lt_mul_of_pos_right hs hS
  have hc : (c * q.clusterSize + s * 2 ^ q.scBits) / q.clusterSize = c := by
    have hpos : 0 < q.clusterSize := Nat.two_pow_pos _
    rw [Nat.mul_comm c, Nat.mul_add_div hpos, Nat.div_eq_of_lt hlt]; rfl
  have hsub : (c * q.clusterSize + s * 2 ^ q.scBits) / 2 ^ q.scBits % q.scPer = s := by
    rw [hcs, ← Nat.mul_assoc, ← Nat.add_mul, Nat.mul_div_cancel _ hS, Nat.mul_comm c, Nat.mul_add_mod]
    exact Nat.mod_eq_of_lt hs
  have := classify q g ⟨0, fun _ => 0⟩ (c * q.clusterSize + s * 2 ^ q.scBits) (by rw [hc]; exact h1) (by rw [hc]; exact h2)
    (by rw [hc]; exact hok)
  rw [hc, hsub] at this
  obtain ⟨t, ht, hle, _⟩ := this
  exact ⟨t, ht, hle⟩

theorem rangeType_ok (q : QCow2) (e bm sf t : Nat) (ht : q.subclusterType e bm sf = .ok t) (hle : t ≤ 5) :
    ∃ n, q.subclusterRangeType e bm sf = .ok (t, n) := by
  unfold QCow2.subclusterRangeType
  rw [ht]
  simp only [bind, Except.bind, pure, Except.pure]
  have : t = 0 ∨ t = 1 ∨ t = 2 ∨ t = 3 ∨ t = 4 ∨ t = 5 := by omega
  rcases this with h | h | h | h | h | h <;> subst h <;> (repeat' split) <;>
    first | exact ⟨_, rfl⟩ | (simp [ZERO_SUBCLUSTER_TYPES, UNALLOCATED_SUBCLUSTER_TYPES, SC_NORMAL, SC_COMPRESSED] at *)

theorem countLoop_ok (q : QCow2) (l2Offset l2Index scIndex : Nat) :
    ∀ k i st,
      (∀ j, i ≤ j → j < i + k → ∃ e bm t n, q.l2Entry l2Offset (l2Index + j) = .ok (e, bm) ∧
        q.subclusterRangeType e bm (if j = 0 then scIndex else 0) = .ok (t, n)) →
      ∃ cnt, q.countLoop l2Offset l2Index scIndex k i st = .ok cnt := by
  intro k
  induction k with
  | zero => intro i st _; exact ⟨_, rfl⟩
  | succ k ih =>
    intro i st h
    obtain ⟨e, bm, t, n, hE, hR⟩ := h i (Nat.le_refl _) (by omega)
    have hrec : ∀ st', ∃ cnt, q.countLoop l2Offset l2Index scIndex k (i + 1) st' = .ok cnt :=
      fun st' => ih (i + 1) st' (fun j h1 h2 => h j (by omega) (by omega))
    unfold QCow2.countLoop
    simp only []
    rw [hE]
    simp only [bind, Except.bind]
    rw [hR]
    simp only []
    (repeat' split) <;> first | exact ⟨_, rfl⟩ | exact hrec _


/-! ### executing one run -/

/-- the backing content as a total function: bytes beyond the backing file read as zero -/
def backByte (b : File) (o : Nat) : UInt8 := if o < b.size then b.byte o else 0

theorem read_ljust (b : File) (off n : Nat) :
    b.read off n ++ zeros (n - (b.read off n).length) = slice (backByte b) off n := by
  unfold File.read
  rw [slice_length]
  apply List.ext_getElem
  · simp [slice_length, zeros_length]; omega
  · intro i h1 h2
    simp only [slice_length] at h2
    by_cases hi : i < min n (b.size - off)
    · rw [List.getElem_append_left (by simpa using hi)]
      simp only [slice, List.getElem_map, List.getElem_range, backByte]
      have : off + i < b.size := by omega
      rw [if_pos this]
    · rw [List.getElem_append_right (by simpa using hi)]
      simp only [slice, zeros, List.getElem_replicate, List.getElem_map, List.getElem_range, backByte]
      have : ¬ off + i < b.size := by omega
      rw [if_neg this]

theorem drop_take_slice (d : Bytes) (a n : Nat) (h : a + n ≤ d.length) :
    (d.drop a).take n = slice (fun i => d.getD i 0) a n := by
  apply List.ext_getElem
  · simp [slice_length]; omega
  · intro i h1 h2
    simp only [slice_length] at h2
    simp only [List.getElem_take, List.getElem_drop, slice, List.getElem_map, List.getElem_range]
    rw [List.getD_eq_getElem?_getD, List.getElem?_eq_getElem (by omega)]
    rfl

theorem runData_zero (q : QCow2) (t ro h n : Nat) (ht : t = SC_ZERO_PLAIN ∨ t = SC_ZERO_ALLOC) :
    q.runData ⟨t, ro, h, n⟩ = .ok (zeros n) := by
  rcases ht with ht | ht <;> subst ht <;> simp [QCow2.runData, ZERO_SUBCLUSTER_TYPES, SC_ZERO_PLAIN, SC_ZERO_ALLOC]

theorem runData_unalloc (q : QCow2) (b : File) (hb : BackingIs q.backing b) (t ro h n : Nat)
    (ht : t = SC_UNALLOC_PLAIN ∨ t = SC_UNALLOC_ALLOC) :
    q.runData ⟨t, ro, h, n⟩ = .ok (slice (backByte b) ro n) := by
  have hz : ZERO_SUBCLUSTER_TYPES.contains t = false := by
    rcases ht with ht | ht <;> subst ht <;> decide
  have hu : UNALLOCATED_SUBCLUSTER_TYPES.contains t = true := by
    rcases ht with ht | ht <;> subst ht <;> decide
  unfold QCow2.runData
  simp only [hz, hu, Bool.false_eq_true, false_or, true_and, if_true]
  unfold BackingIs at hb
  cases hbk : q.backing with
  | none =>
    rw [hbk] at hb
    simp only [Option.isNone_none, if_true]
    congr 1
    apply zeros_eq_slice
    intro i _
    simp only at hb
    simp [backByte, hb]
  | some rd =>
    rw [hbk] at hb
    simp only [Option.isNone_some, Bool.false_eq_true, if_false]
    simp only at hb
    rw [hb ro n]
    simp only [bind, Except.bind]
    rw [read_ljust]

theorem runData_normal (q : QCow2) (ro h n : Nat) :
    q.runData ⟨SC_NORMAL, ro, h, n⟩ = .ok (q.dataFile.read h n) := by
  simp [QCow2.runData, ZERO_SUBCLUSTER_TYPES, UNALLOCATED_SUBCLUSTER_TYPES, SC_NORMAL, SC_COMPRESSED]

theorem runData_comp (q : QCow2) (ro h n : Nat) :
    q.runData ⟨SC_COMPRESSED, ro, h, n⟩ = q.readCompressed h ro n := by
  simp [QCow2.runData, ZERO_SUBCLUSTER_TYPES, UNALLOCATED_SUBCLUSTER_TYPES, SC_COMPRESSED]

/-- **compressed_slice**: the code's descriptor decoding is the specification's, the inflater is
    called with bound `cluster_size`, the result is the slice of the inflated cluster -/
theorem readCompressed_eq (q : QCow2) (hh : HdrOK q) (e offset n : Nat) :
    q.readCompressed (e &&& L2E_COMPRESSED_OFFSET_SIZE_MASK) offset n =
      if q.compressionType ≠ QCOW2_COMPRESSION_TYPE_ZLIB then .error .other
      else (q.decomp e).bind (fun dec => .ok ((dec.drop (offset % q.clusterSize)).take n)) := by
  have h1 := hh.cb_lo
  have h2 := hh.cb_hi
  have hm : L2E_COMPRESSED_OFFSET_SIZE_MASK = 2 ^ 62 - 1 := by decide
  have hx : q.csizeShift = q.cx := rfl
  have hx62 : q.cx ≤ 62 := by unfold QCow2.cx; omega
  have hk : q.clusterBits - 8 = 62 - q.cx := by unfold QCow2.cx; omega
  have e1 : (e &&& L2E_COMPRESSED_OFFSET_SIZE_MASK) &&& q.clusterOffsetMask = e % 2 ^ q.cx := by
    unfold QCow2.clusterOffsetMask
    rw [hm, hx, Nat.and_two_pow_sub_one_eq_mod, Nat.and_two_pow_sub_one_eq_mod]
    exact Nat.mod_mod_of_dvd e (Nat.pow_dvd_pow 2 hx62)
  have e2 : ((e &&& L2E_COMPRESSED_OFFSET_SIZE_MASK) >>> q.csizeShift) &&& q.csizeMask = e / 2 ^ q.cx % 2 ^ (62 - q.cx) := by
    unfold QCow2.csizeMask
    rw [hm, hx, hk, Nat.and_two_pow_sub_one_eq_mod, Nat.and_two_pow_sub_one_eq_mod, Nat.shiftRight_eq_div_pow]
    have : (2:Nat) ^ 62 = 2 ^ q.cx * 2 ^ (62 - q.cx) := by rw [← Nat.pow_add]; congr 1; omega
    rw [this, Nat.mod_mul_right_div_self, Nat.mod_mod]
  have e3 : ∀ x : Nat, x &&& 511 = x % 512 := fun x => Nat.and_two_pow_sub_one_eq_mod x 9
  unfold QCow2.readCompressed
  simp only [e1, e2, e3]
  have hsec : QCOW2_COMPRESSED_SECTOR_SIZE = 512 := rfl
  rw [hsec]
  by_cases hz : q.compressionType ≠ QCOW2_COMPRESSION_TYPE_ZLIB
  · rw [if_pos hz, if_pos hz]
  · rw [if_neg hz, if_neg hz]
    rfl


/-! ### arithmetic of a byte of a run -/

/-- byte `offset + j` of a run that stays inside the L2 table (`x = offset % cs + j` is its distance from the
    start of the first cluster) -/
theorem cluster_arith (q : QCow2) (g : Geom q) (offset j : Nat)
    (hx : offset % q.cs + j < (q.l2Size - offset / q.cs % q.l2Size) * q.cs) :
    (offset + j) / q.cs = offset / q.cs + (offset % q.cs + j) / q.cs ∧
    (offset + j) % q.cs = (offset % q.cs + j) % q.cs ∧
    offset / q.cs % q.l2Size + (offset % q.cs + j) / q.cs < q.l2Size ∧
    (offset / q.cs + (offset % q.cs + j) / q.cs) / q.l2n = offset / 2 ^ (q.l2Bits + q.clusterBits) ∧
    (offset / q.cs + (offset % q.cs + j) / q.cs) % q.l2n = offset / q.cs % q.l2Size + (offset % q.cs + j) / q.cs ∧
    (offset + j) / 2 ^ q.scBits % q.scPer = (offset % q.cs + j) / 2 ^ q.scBits % q.scPer ∧
    (offset % q.cs + j) / 2 ^ q.scBits / q.scPer = (offset % q.cs + j) / q.cs := by
  have hcs := cs_pos q
  have hl2 := g.l2_pos
  have hS : 0 < 2 ^ q.scBits := Nat.two_pow_pos _
  have hoff : offset + j = q.cs * (offset / q.cs) + (offset % q.cs + j) := by
    have := Nat.div_add_mod offset q.cs; omega
  generalize offset % q.cs + j = x at *
  have hi : x / q.cs < q.l2Size - offset / q.cs % q.l2Size := by
    apply Nat.div_lt_of_lt_mul; rw [Nat.mul_comm]; exact hx
  have hm := Nat.mod_lt (offset / q.cs) hl2
  have hc : offset / q.cs = q.l2Size * (offset / q.cs / q.l2Size) + offset / q.cs % q.l2Size :=
    (Nat.div_add_mod _ _).symm
  have hc' : offset / q.cs + x / q.cs = q.l2Size * (offset / q.cs / q.l2Size) + (offset / q.cs % q.l2Size + x / q.cs) := by omega
  have hl1 : offset / q.cs / q.l2Size = offset / 2 ^ (q.l2Bits + q.clusterBits) := by
    rw [g.l1sh, Nat.div_div_eq_div_mul, Nat.mul_comm]
  refine ⟨?_, ?_, by omega, ?_, ?_, ?_, ?_⟩
  · rw [hoff, Nat.mul_add_div hcs]
  · rw [hoff, Nat.mul_add_mod]
  · have h0 : (offset / q.cs % q.l2Size + x / q.cs) / q.l2Size = 0 := Nat.div_eq_of_lt (by omega)
    rw [← g.l2, hc', Nat.mul_add_div hl2, h0, Nat.add_zero, hl1]
  · have h0 : (offset / q.cs % q.l2Size + x / q.cs) % q.l2Size = offset / q.cs % q.l2Size + x / q.cs :=
      Nat.mod_eq_of_lt (by omega)
    rw [← g.l2, hc', Nat.mul_add_mod, h0]
  · have : offset + j = 2 ^ q.scBits * (q.scPer * (offset / q.cs)) + x := by
      rw [← Nat.mul_assoc, Nat.mul_comm (2 ^ q.scBits), g.bits, g.per_size]; exact hoff
    rw [this, Nat.mul_add_div hS, Nat.mul_add_mod]
  · rw [Nat.div_div_eq_div_mul, g.bits, Nat.mul_comm, g.per_size]

theorem lt_nClusters (q : QCow2) (o : Nat) (h : o < q.size) : o / q.clusterSize < q.nClusters := by
  have hpos : 0 < q.clusterSize := Nat.two_pow_pos _
  unfold QCow2.nClusters
  apply (Nat.div_lt_iff_lt_mul hpos).mpr
  have := Nat.div_add_mod (q.size + q.clusterSize - 1) q.clusterSize
  have := Nat.mod_lt (q.size + q.clusterSize - 1) hpos
  rw [Nat.mul_comm]; omega

theorem lt_bytesIn (q : QCow2) (o : Nat) (h : o < q.size) : o % q.clusterSize < q.bytesIn (o / q.clusterSize) := by
  have hpos : 0 < q.clusterSize := Nat.two_pow_pos _
  unfold QCow2.bytesIn
  have h1 := Nat.div_add_mod o q.clusterSize
  have h2 := Nat.mod_lt o hpos
  rw [Nat.add_mul, Nat.one_mul, Nat.mul_comm]
  omega


theorem l1Table_some (q : QCow2) (i l1e : Nat) (h : q.l1Table[i]? = some l1e) : i < q.l1Size ∧ l1e = q.l1At i := by
  by_cases hi : i < q.l1Size
  · rw [l1Table_get q i hi] at h
    injection h with h
    exact ⟨hi, h.symm⟩
  · have : q.l1Table[i]? = none := by
      apply Array.getElem?_eq_none
      rw [l1Table_size]; omega
    rw [this] at h; cases h

/-- **run_uniform** at one byte of a mapped run: the specification's byte is what the run's type reads as,
    through an entry whose host cluster is contiguous with the first one -/
theorem mapped_byte (q : QCow2) (hc : Conformant q) (b : File) (offset length j l1e e bm t cnt : Nat)
    (hl1e : q.l1Table[offset / 2 ^ (q.l2Bits + q.clusterBits)]? = some l1e)
    (hl2 : l1e &&& L1E_OFFSET_MASK ≠ 0)
    (hE : q.l2Entry (l1e &&& L1E_OFFSET_MASK) (offset / q.cs % q.l2Size) = .ok (e, bm))
    (hgood : ∀ p, offset / 2 ^ q.scBits % q.scPer ≤ p → p < offset / 2 ^ q.scBits % q.scPer + cnt →
        Good q (l1e &&& L1E_OFFSET_MASK) (offset / q.cs % q.l2Size) t (e &&& L2E_OFFSET_MASK) p)
    (hj : offset % q.cs + j < min ((cnt + offset / 2 ^ q.scBits % q.scPer) * 2 ^ q.scBits) (q.bn offset length))
    (hsz : offset + j < q.size) :
    ∃ e', q.guest b (offset + j) = q.byteOf b t e' (offset + j) ∧ t ≤ 5 ∧
      (Chk t → hostOff e' = hostOff e + (offset % q.cs + j) / q.cs * q.cs) ∧
      (t = SC_NORMAL → hostOff e' + q.bytesIn ((offset + j) / q.cs) ≤ q.dataFile.size) ∧
      (t = SC_COMPRESSED → (offset % q.cs + j) / q.cs = 0 → e' = e ∧
        q.compressionType = QCOW2_COMPRESSION_TYPE_ZLIB ∧ ∃ d, q.decomp e = .ok d ∧ q.clusterSize ≤ d.length) := by
  have g := geom q hc.hdr
  have hS : 0 < 2 ^ q.scBits := Nat.two_pow_pos _
  have hbn : q.bn offset length ≤ (q.l2Size - offset / q.cs % q.l2Size) * q.cs := by
    unfold QCow2.bn; omega
  obtain ⟨F1, F2, F3, F4, F5, F6, F7⟩ := cluster_arith q g offset j (by omega)
  obtain ⟨hl1lt, hl1eq⟩ := l1Table_some q _ _ hl1e
  -- the cluster of this byte
  generalize hc' : offset / q.cs + (offset % q.cs + j) / q.cs = c' at *
  have hoc : (offset + j) / q.clusterSize = c' := F1
  have hl2off : q.l2Off c' = l1e &&& L1E_OFFSET_MASK := by
    unfold QCow2.l2Off; rw [F4, l1_offset_mask, hl1eq]
  have h1 : ¬ q.l1Size ≤ c' / q.l2n := by rw [F4]; omega
  have h2 : ¬ q.l2Off c' = 0 := by rw [hl2off]; exact hl2
  have hok : EntryOK q c' := hc.entries c' (by rw [← hoc]; exact lt_nClusters q _ hsz) (by omega) h2
  -- its position in the run
  have hsc : offset / 2 ^ q.scBits % q.scPer ≤ (offset % q.cs + j) / 2 ^ q.scBits := by
    rw [← oic_sc q g offset]; exact Nat.div_le_div_right (Nat.le_add_right _ _)
  have hp : (offset % q.cs + j) / 2 ^ q.scBits < offset / 2 ^ q.scBits % q.scPer + cnt := by
    apply Nat.div_lt_of_lt_mul
    have : (cnt + offset / 2 ^ q.scBits % q.scPer) * 2 ^ q.scBits = 2 ^ q.scBits * (offset / 2 ^ q.scBits % q.scPer + cnt) := by
      rw [Nat.mul_comm, Nat.add_comm]
    omega
  obtain ⟨e', bm', hE', hT', hoff'⟩ := hgood _ hsc hp
  rw [F7] at hE' hoff'
  rw [← F6] at hT'
  -- the entry the code fetched is the specification's entry of this cluster
  have hEq := l2Entry_eq q g (q.l2Off c') (offset / q.cs % q.l2Size + (offset % q.cs + j) / q.cs)
    (by have := hok.l2_in; rw [cs_eq]; exact this) F3
  rw [← F5] at hEq
  rw [hl2off] at hEq
  rw [← F5, hEq] at hE'
  injection hE' with hE'
  injection hE' with he hb
  have he' : e' = q.entryAt c' := by rw [← he]; unfold QCow2.entryAt; rw [hl2off]
  have hb' : bm' = q.bmOf c' := by rw [← hb]; unfold QCow2.bmOf QCow2.bitmapAt; rw [hl2off]
  obtain ⟨t', hT, hle, hguest, hnorm, hcomp⟩ := classify q g b (offset + j) (by rw [hoc]; exact h1) (by rw [hoc]; exact h2)
    (by rw [hoc]; exact hok)
  rw [hoc, ← he', ← hb', hT'] at hT
  injection hT with hT
  subst hT
  rw [hoc, ← he'] at hguest hnorm hcomp
  refine ⟨e', hguest, hle, ?_, ?_, ?_⟩
  · intro hchk
    rw [← offset_mask, hoff' hchk, offset_mask]
  · intro ht
    have : (offset + j) / q.cs = c' := hoc
    rw [this]; exact hnorm ht
  · intro ht h0
    have hee : e' = e := by
      have hF5 : c' % q.l2n = offset / q.cs % q.l2Size := by rw [F5, h0, Nat.add_zero]
      rw [hF5, hE] at hEq
      injection hEq with hEq
      injection hEq with hEe _
      rw [he', hEe]
      unfold QCow2.entryAt
      rw [hl2off, hF5]
    rw [← hee]
    exact ⟨rfl, hcomp ht⟩


theorem byteOf_zero (q : QCow2) (b : File) (t e o : Nat) (ht : t = SC_ZERO_PLAIN ∨ t = SC_ZERO_ALLOC) :
    q.byteOf b t e o = 0 := by
  unfold QCow2.byteOf; rw [if_pos ht]

theorem byteOf_unalloc (q : QCow2) (b : File) (t e o : Nat) (ht : t = SC_UNALLOC_PLAIN ∨ t = SC_UNALLOC_ALLOC) :
    q.byteOf b t e o = backByte b o := by
  unfold QCow2.byteOf
  have : ¬ (t = SC_ZERO_PLAIN ∨ t = SC_ZERO_ALLOC) := by
    rcases ht with h | h <;> subst h <;> decide
  rw [if_neg this, if_pos ht]; rfl

theorem byteOf_normal (q : QCow2) (b : File) (e o : Nat) :
    q.byteOf b SC_NORMAL e o = q.dataFile.byte (hostOff e + o % q.clusterSize) := by
  simp [QCow2.byteOf, SC_NORMAL, SC_ZERO_PLAIN, SC_ZERO_ALLOC, SC_UNALLOC_PLAIN, SC_UNALLOC_ALLOC]

theorem byteOf_comp (q : QCow2) (b : File) (e o : Nat) (d : Bytes) (hd : q.decomp e = .ok d) :
    q.byteOf b SC_COMPRESSED e o = d.getD (o % q.clusterSize) 0 := by
  simp [QCow2.byteOf, SC_COMPRESSED, SC_NORMAL, SC_ZERO_PLAIN, SC_ZERO_ALLOC, SC_UNALLOC_PLAIN, SC_UNALLOC_ALLOC, hd]

/-- executing a mapped run yields the specification's bytes -/
theorem run_mapped (q : QCow2) (hc : Conformant q) (b : File) (hb : BackingIs q.backing b)
    (offset length n l1e e bm t cnt : Nat) (hl : 0 < length) (hsz : offset + length ≤ q.size)
    (hl1e : q.l1Table[offset / 2 ^ (q.l2Bits + q.clusterBits)]? = some l1e)
    (hl2 : l1e &&& L1E_OFFSET_MASK ≠ 0)
    (hE : q.l2Entry (l1e &&& L1E_OFFSET_MASK) (offset / q.cs % q.l2Size) = .ok (e, bm))
    (hcomp : t = SC_COMPRESSED → offset / 2 ^ q.scBits % q.scPer + cnt ≤ q.scPer)
    (hgood : ∀ p, offset / 2 ^ q.scBits % q.scPer ≤ p → p < offset / 2 ^ q.scBits % q.scPer + cnt →
        Good q (l1e &&& L1E_OFFSET_MASK) (offset / q.cs % q.l2Size) t (e &&& L2E_OFFSET_MASK) p)
    (hn : n = min ((cnt + offset / 2 ^ q.scBits % q.scPer) * 2 ^ q.scBits) (q.bn offset length) - offset % q.cs)
    (hn1 : 1 ≤ n) :
    q.runData ⟨t, offset,
        (if t = SC_COMPRESSED then e &&& L2E_COMPRESSED_OFFSET_SIZE_MASK
         else if NORMAL_SUBCLUSTER_TYPES.contains t then (e &&& L2E_OFFSET_MASK) + offset % q.cs else 0), n⟩
      = .ok (slice (q.guest b) offset n) := by
  have g := geom q hc.hdr
  have hcs := cs_pos q
  obtain ⟨hb1, hb2, hb3⟩ := bn_bounds q g offset length hl
  have hnl : n ≤ length := by omega
  have hbyte := fun j (hj : j < n) => mapped_byte q hc b offset length j l1e e bm t cnt hl1e hl2 hE hgood (by omega) (by omega)
  obtain ⟨_, _, hle, _⟩ := hbyte 0 (by omega)
  have hcases : t = 0 ∨ t = 1 ∨ t = 2 ∨ t = 3 ∨ t = 4 ∨ t = 5 := by omega
  rcases hcases with h | h | h | h | h | h
  · -- UNALLOCATED_PLAIN
    have ht : t = SC_UNALLOC_PLAIN ∨ t = SC_UNALLOC_ALLOC := Or.inl h
    rw [runData_unalloc q b hb t _ _ _ ht]
    congr 1
    apply slice_congr
    intro i hi
    obtain ⟨e', hg, _⟩ := hbyte i hi
    rw [hg, byteOf_unalloc q b t e' _ ht]
  · have ht : t = SC_UNALLOC_PLAIN ∨ t = SC_UNALLOC_ALLOC := Or.inr h
    rw [runData_unalloc q b hb t _ _ _ ht]
    congr 1
    apply slice_congr
    intro i hi
    obtain ⟨e', hg, _⟩ := hbyte i hi
    rw [hg, byteOf_unalloc q b t e' _ ht]
  · have ht : t = SC_ZERO_PLAIN ∨ t = SC_ZERO_ALLOC := Or.inl h
    rw [runData_zero q t _ _ _ ht]
    congr 1
    apply zeros_eq_slice
    intro i hi
    obtain ⟨e', hg, _⟩ := hbyte i hi
    rw [hg, byteOf_zero q b t e' _ ht]
  · have ht : t = SC_ZERO_PLAIN ∨ t = SC_ZERO_ALLOC := Or.inr h
    rw [runData_zero q t _ _ _ ht]
    congr 1
    apply zeros_eq_slice
    intro i hi
    obtain ⟨e', hg, _⟩ := hbyte i hi
    rw [hg, byteOf_zero q b t e' _ ht]
  · -- NORMAL
    subst h
    clear hcomp
    have hchk : Chk 4 := Or.inl rfl
    -- every byte of the run lies at `host + i` in the data file
    have hpos : ∀ i, i < n → q.guest b (offset + i) = q.dataFile.byte (hostOff e + offset % q.cs + i) ∧
        hostOff e + offset % q.cs + i < q.dataFile.size := by
      intro i hi
      obtain ⟨e', hg, _, ho, hin, hx5⟩ := hbyte i hi
      have hin' := hin rfl
      have hoe := ho hchk
      clear hin ho hx5
      have hxi : offset % q.cs + i < (q.l2Size - offset / q.cs % q.l2Size) * q.cs :=
        Nat.lt_of_lt_of_le (by omega) hb3
      obtain ⟨F1, F2, _⟩ := cluster_arith q g offset i hxi
      have hlt := lt_bytesIn q (offset + i) (by omega)
      have hF2 : (offset + i) % q.clusterSize = (offset % q.cs + i) % q.cs := F2
      have hdm := Nat.div_add_mod (offset % q.cs + i) q.cs
      rw [Nat.mul_comm] at hoe
      refine ⟨?_, ?_⟩
      · rw [hg, byteOf_normal, hF2, hoe]
        exact congrArg _ (by omega)
      · have : (offset + i) / q.clusterSize = (offset + i) / q.cs := rfl
        rw [this] at hlt
        omega
    have hfit : hostOff e + offset % q.cs + n ≤ q.dataFile.size := by
      obtain ⟨_, h⟩ := hpos (n - 1) (by omega); omega
    have hhost : (if (4:Nat) = SC_COMPRESSED then e &&& L2E_COMPRESSED_OFFSET_SIZE_MASK
         else if NORMAL_SUBCLUSTER_TYPES.contains 4 then (e &&& L2E_OFFSET_MASK) + offset % q.cs else 0)
         = hostOff e + offset % q.cs := by
      rw [offset_mask]; rfl
    rw [hhost]
    have := runData_normal q offset (hostOff e + offset % q.cs) n
    rw [show SC_NORMAL = 4 from rfl] at this
    rw [this, File.read_eq_slice _ _ _ hfit]
    congr 1
    apply slice_shift
    intro i hi
    obtain ⟨h, _⟩ := hpos i hi
    exact h.symm
  · -- COMPRESSED
    subst h
    have hc5 := hcomp rfl
    clear hcomp
    have hS : 0 < 2 ^ q.scBits := Nat.two_pow_pos _
    have hle2 : (cnt + offset / 2 ^ q.scBits % q.scPer) * 2 ^ q.scBits ≤ q.cs := by
      rw [← g.per_size, ← g.bits]
      exact Nat.mul_le_mul_right _ (by omega)
    have hin : offset % q.cs + n ≤ q.cs := by omega
    have h00 : (offset % q.cs + 0) / q.cs = 0 := Nat.div_eq_of_lt (by omega)
    obtain ⟨_, hz, d, hd, hdl⟩ : q.entryAt 0 = q.entryAt 0 ∧ q.compressionType = QCOW2_COMPRESSION_TYPE_ZLIB ∧
        ∃ d, q.decomp e = Except.ok d ∧ q.clusterSize ≤ List.length d := by
      obtain ⟨e0, _, _, _, _, hcmp0⟩ := hbyte 0 (by omega)
      exact ⟨rfl, (hcmp0 rfl h00).2⟩
    have hhost : (if (5:Nat) = SC_COMPRESSED then e &&& L2E_COMPRESSED_OFFSET_SIZE_MASK
         else if NORMAL_SUBCLUSTER_TYPES.contains 5 then (e &&& L2E_OFFSET_MASK) + offset % q.cs else 0)
         = e &&& L2E_COMPRESSED_OFFSET_SIZE_MASK := rfl
    rw [hhost]
    have := runData_comp q offset (e &&& L2E_COMPRESSED_OFFSET_SIZE_MASK) n
    rw [show SC_COMPRESSED = 5 from rfl] at this
    rw [this, readCompressed_eq q hc.hdr, if_neg (by simp [hz]), hd]
    simp only [Except.bind]
    congr 1
    have hcs' : q.clusterSize = q.cs := rfl
    rw [drop_take_slice d _ n (by rw [hcs']; omega)]
    apply slice_shift
    intro i hi
    have hi0 : (offset % q.cs + i) / q.cs = 0 := Nat.div_eq_of_lt (by omega)
    obtain ⟨e', hg, hee⟩ : ∃ e', q.guest b (offset + i) = q.byteOf b 5 e' (offset + i) ∧ e' = e := by
      obtain ⟨e', hg, _, _, _, hcmp⟩ := hbyte i hi
      exact ⟨e', hg, (hcmp rfl hi0).1⟩
    have hxi : offset % q.cs + i < (q.l2Size - offset / q.cs % q.l2Size) * q.cs :=
      Nat.lt_of_lt_of_le (by omega) hb3
    obtain ⟨_, F2, _⟩ := cluster_arith q g offset i hxi
    have hF2 : (offset + i) % q.clusterSize = (offset % q.cs + i) % q.cs := F2
    have hm : (offset % q.cs + i) % q.cs = offset % q.cs + i := Nat.mod_eq_of_lt (by omega)
    rw [hg, hee, show (5:Nat) = SC_COMPRESSED from rfl, byteOf_comp q b e _ d hd, hF2, hm]
    rfl

/-- executing an unallocated run (no L2 table) yields the specification's bytes -/
theorem run_unalloc (q : QCow2) (hc : Conformant q) (b : File) (hb : BackingIs q.backing b)
    (offset length n : Nat) (hl : 0 < length)
    (hidx : q.l1Table.size ≤ offset / 2 ^ (q.l2Bits + q.clusterBits) ∨
        ∃ l1e, q.l1Table[offset / 2 ^ (q.l2Bits + q.clusterBits)]? = some l1e ∧ l1e &&& L1E_OFFSET_MASK = 0)
    (hn : n = q.bn offset length - offset % q.cs) :
    q.runData ⟨SC_UNALLOC_PLAIN, offset, 0, n⟩ = .ok (slice (q.guest b) offset n) := by
  have g := geom q hc.hdr
  obtain ⟨hb1, hb2, hb3⟩ := bn_bounds q g offset length hl
  rw [runData_unalloc q b hb _ _ _ _ (Or.inl rfl)]
  congr 1
  apply slice_congr
  intro i hi
  obtain ⟨F1, _, _, F4, _⟩ := cluster_arith q g offset i (by omega)
  have hoc : (offset + i) / q.clusterSize = offset / q.cs + (offset % q.cs + i) / q.cs := F1
  rw [guest_unmapped q b (offset + i)]
  · rfl
  · rw [hoc, F4]
    rcases hidx with h | ⟨l1e, h1, h2⟩
    · left; rw [l1Table_size] at h; exact h
    · right
      obtain ⟨_, heq⟩ := l1Table_some q _ _ h1
      unfold QCow2.l2Off
      rw [F4, ← heq, ← l1_offset_mask]; exact h2


/-! ### no table access fails on a conformant image -/

/-- the entry the code fetches for the cluster of byte `offset + j` (same L2 table as `offset`) is the
    specification's entry of that cluster, and it is well-formed -/
theorem entry_fetch (q : QCow2) (hc : Conformant q) (offset length j l1e : Nat)
    (hl1e : q.l1Table[offset / 2 ^ (q.l2Bits + q.clusterBits)]? = some l1e)
    (hl2 : l1e &&& L1E_OFFSET_MASK ≠ 0)
    (hj : offset % q.cs + j < q.bn offset length) (hsz : offset + j < q.size) :
    ¬ q.l1Size ≤ (offset + j) / q.clusterSize / q.l2n ∧ ¬ q.l2Off ((offset + j) / q.clusterSize) = 0 ∧
    EntryOK q ((offset + j) / q.clusterSize) ∧
    q.l2Entry (l1e &&& L1E_OFFSET_MASK) (offset / q.cs % q.l2Size + (offset % q.cs + j) / q.cs)
      = .ok (q.entryAt ((offset + j) / q.clusterSize), q.bmOf ((offset + j) / q.clusterSize)) := by
  have g := geom q hc.hdr
  have hbn : q.bn offset length ≤ (q.l2Size - offset / q.cs % q.l2Size) * q.cs := by
    unfold QCow2.bn; omega
  obtain ⟨F1, F2, F3, F4, F5, F6, F7⟩ := cluster_arith q g offset j (by omega)
  obtain ⟨hl1lt, hl1eq⟩ := l1Table_some q _ _ hl1e
  have hoc : (offset + j) / q.clusterSize = offset / q.cs + (offset % q.cs + j) / q.cs := F1
  rw [hoc]
  generalize hc' : offset / q.cs + (offset % q.cs + j) / q.cs = c' at *
  have hl2off : q.l2Off c' = l1e &&& L1E_OFFSET_MASK := by
    unfold QCow2.l2Off; rw [F4, l1_offset_mask, hl1eq]
  have h1 : ¬ q.l1Size ≤ c' / q.l2n := by rw [F4]; omega
  have h2 : ¬ q.l2Off c' = 0 := by rw [hl2off]; exact hl2
  have hok : EntryOK q c' := hc.entries c' (by rw [← hoc]; exact lt_nClusters q _ hsz) (by omega) h2
  have hEq := l2Entry_eq q g (q.l2Off c') (offset / q.cs % q.l2Size + (offset % q.cs + j) / q.cs)
    (by have := hok.l2_in; rw [cs_eq]; exact this) F3
  refine ⟨h1, h2, hok, ?_⟩
  rw [← hl2off, hEq, ← F5]
  rfl

theorem step_ok (q : QCow2) (hc : Conformant q) (offset length : Nat) (hl : 0 < length)
    (hsz : offset + length ≤ q.size) : ∃ n run, q.step offset length = .ok (n, run) := by
  have g := geom q hc.hdr
  have hcs := cs_pos q
  obtain ⟨hb1, hb2, hb3⟩ := bn_bounds q g offset length hl
  unfold QCow2.step
  simp only []
  rw [hc.l1ok]
  simp only [bind, Except.bind]
  by_cases hidx : offset / 2 ^ (q.l2Bits + q.clusterBits) ≥ q.l1Table.size
  · rw [if_pos hidx]; exact ⟨_, _, rfl⟩
  · rw [if_neg hidx]
    have hlt : offset / 2 ^ (q.l2Bits + q.clusterBits) < q.l1Size := by rw [l1Table_size] at hidx; omega
    have hl1e := l1Table_get q _ hlt
    rw [hl1e]
    simp only []
    by_cases hz : q.l1At (offset / 2 ^ (q.l2Bits + q.clusterBits)) &&& L1E_OFFSET_MASK = 0
    · rw [if_pos hz]; exact ⟨_, _, rfl⟩
    · rw [if_neg hz]
      -- the first cluster
      obtain ⟨h1, h2, hok, hE⟩ := entry_fetch q hc offset length 0 _ hl1e hz (by omega) (by omega)
      have h00 : (offset % q.cs + 0) / q.cs = 0 := Nat.div_eq_of_lt (by have := Nat.mod_lt offset hcs; omega)
      rw [h00, Nat.add_zero, Nat.add_zero] at hE
      rw [hE]
      simp only []
      obtain ⟨t, hT, hle⟩ := type_ok q g (offset / q.clusterSize) (offset / 2 ^ q.scBits % q.scPer)
        (Nat.mod_lt _ (scPer_pos q)) (by simpa using h1) (by simpa using h2) (by simpa using hok)
      rw [hT]
      simp only []
      -- every cluster the counting loop may look at
      have hloop : ∀ i, 0 ≤ i → i < 0 + (q.bn offset length + (q.cs - 1)) / q.cs →
          ∃ e bm t n, q.l2Entry (q.l1At (offset / 2 ^ (q.l2Bits + q.clusterBits)) &&& L1E_OFFSET_MASK)
              (offset / q.cs % q.l2Size + i) = .ok (e, bm) ∧
            q.subclusterRangeType e bm (if i = 0 then offset / 2 ^ q.scBits % q.scPer else 0) = .ok (t, n) := by
        intro i _ hi
        rw [Nat.zero_add] at hi
        have hics : i * q.cs < q.bn offset length := by
          have := (Nat.lt_div_iff_mul_lt hcs).mp hi
          omega
        have hmod := Nat.mod_lt offset hcs
        by_cases hi0 : i = 0
        · subst hi0
          rw [if_pos rfl, Nat.add_zero, hE]
          obtain ⟨n, hn⟩ := rangeType_ok q _ _ _ t hT hle
          exact ⟨_, _, t, n, rfl, hn⟩
        · rw [if_neg hi0]
          have hge : q.cs ≤ i * q.cs := Nat.le_mul_of_pos_left _ (by omega)
          have hx : offset % q.cs + (i * q.cs - offset % q.cs) = i * q.cs := by omega
          obtain ⟨h1', h2', hok', hE'⟩ := entry_fetch q hc offset length (i * q.cs - offset % q.cs) _ hl1e hz
            (by omega) (by omega)
          rw [hx, Nat.mul_div_cancel _ hcs] at hE'
          obtain ⟨t', hT', hle'⟩ := type_ok q g _ 0 (scPer_pos q) h1' h2' hok'
          obtain ⟨n, hn⟩ := rangeType_ok q _ _ _ t' hT' hle'
          exact ⟨_, _, t', n, hE', hn⟩
      obtain ⟨cnt, hcnt⟩ := countLoop_ok q _ _ _ _ 0 ⟨0, 0, 0, false⟩ hloop
      unfold QCow2.bn at hcnt
      rw [hcnt]
      exact ⟨_, _, rfl⟩


/-! ### the read theorem -/

/-- one iteration on a conformant image: it succeeds, makes progress, and its run reads as the specification -/
theorem step_correct (q : QCow2) (hc : Conformant q) (b : File) (hb : BackingIs q.backing b)
    (offset length : Nat) (hl : 0 < length) (hsz : offset + length ≤ q.size) :
    ∃ n run, q.step offset length = .ok (n, run) ∧ 1 ≤ n ∧ n ≤ length ∧
      q.runData run = .ok (slice (q.guest b) offset n) := by
  have g := geom q hc.hdr
  obtain ⟨n, run, hs⟩ := step_ok q hc offset length hl hsz
  obtain ⟨hn1, hn2, _, _⟩ := step_progress q g offset length n run hl hs
  refine ⟨n, run, hs, hn1, hn2, ?_⟩
  cases step_info q g offset length n run hl hs with
  | unalloc l1 hl1 hidx hrun hn =>
    rw [hc.l1ok] at hl1
    injection hl1 with hl1
    subst hl1 hrun
    exact run_unalloc q hc b hb offset length n hl hidx hn
  | mapped l1 l1e e bm t cnt hl1 hl1e hl2 hE hT hrun hcnt hcomp hgood hn =>
    rw [hc.l1ok] at hl1
    injection hl1 with hl1
    subst hl1 hrun
    exact run_mapped q hc b hb offset length n l1e e bm t cnt hl hsz hl1e hl2 hE hcomp hgood hn hn1

theorem yield_exec_correct (q : QCow2) (hc : Conformant q) (b : File) (hb : BackingIs q.backing b) :
    ∀ fuel offset length, length ≤ fuel → offset + length ≤ q.size →
      ∃ runs, q.yieldRuns fuel offset length = .ok runs ∧ q.execRuns runs = .ok (slice (q.guest b) offset length) := by
  intro fuel
  induction fuel with
  | zero =>
    intro offset length h _
    have : length = 0 := by omega
    subst this
    exact ⟨[], by simp [QCow2.yieldRuns], by simp [QCow2.execRuns]⟩
  | succ fuel ih =>
    intro offset length hf hsz
    rw [yieldRuns_succ]
    by_cases hl : length = 0
    · subst hl
      exact ⟨[], by simp, by simp [QCow2.execRuns]⟩
    · rw [if_neg hl]
      obtain ⟨n, run, hs, hn1, hn2, hrun⟩ := step_correct q hc b hb offset length (by omega) hsz
      obtain ⟨rest, hy, hx⟩ := ih (offset + n) (length - n) (by omega) (by omega)
      rw [hs]
      simp only [bind, Except.bind]
      have hn0 : ¬ n = 0 := by omega
      rw [if_neg hn0, hy]
      refine ⟨run :: rest, rfl, ?_⟩
      simp only [QCow2.execRuns, bind, Except.bind, hrun, hx]
      congr 1
      have : length = n + (length - n) := by omega
      conv => rhs; rw [this, slice_append]

/-- **qcow2_read_correct** -/
theorem read_correct (q : QCow2) (hc : Conformant q) (b : File) (hb : BackingIs q.backing b)
    (off len : Nat) (h : off + len ≤ q.size) : q.read off len = .ok (slice (q.guest b) off len) := by
  obtain ⟨runs, hy, hx⟩ := yield_exec_correct q hc b hb len off len (Nat.le_refl _) h
  unfold QCow2.read
  rw [hy]
  exact hx


/-! ### the Boolean checker is sound -/

theorem hdrOkb_sound (q : QCow2) (h : q.hdrOkb = true) : HdrOK q := by
  unfold QCow2.hdrOkb at h
  simp only [Bool.and_eq_true, Bool.or_eq_true, decide_eq_true_eq, Bool.not_eq_true'] at h
  obtain ⟨⟨h1, h2⟩, h3⟩ := h
  refine ⟨h1, h2, fun hs => ?_⟩
  rcases h3 with h3 | h3
  · rw [hs] at h3; cases h3
  · exact h3

theorem entryOkb_sound (q : QCow2) (c : Nat) (h : q.entryOkb c = true) : EntryOK q c := by
  unfold QCow2.entryOkb at h
  simp only [Bool.and_eq_true, decide_eq_true_eq] at h
  obtain ⟨hin, hrest⟩ := h
  by_cases h62 : (q.entryAt c).testBit 62 = true
  · rw [if_pos h62] at hrest
    simp only [Bool.and_eq_true, decide_eq_true_eq] at hrest
    have hf : ∀ {P : Prop}, (q.entryAt c).testBit 62 = false → P := fun h => by rw [h62] at h; cases h
    exact ⟨hin, fun _ => hrest, fun h => hf h, fun h => hf h, fun h => hf h, fun h => hf h, fun h => hf h⟩
  · rw [if_neg h62] at hrest
    simp only [Bool.and_eq_true, Bool.or_eq_true, Bool.not_eq_true', decide_eq_true_eq, Bool.and_eq_false_iff,
      decide_eq_false_iff_not] at hrest
    obtain ⟨hoff0, hsub⟩ := hrest
    have hoff0' : hostOff (q.entryAt c) = 0 → (q.entryAt c).testBit 63 = true → q.hasDataFile = true := by
      intro ho h63
      rcases hoff0 with (h | h) | h
      · exact absurd ho h
      · rw [h63] at h; cases h
      · exact h
    cases hs : q.sub with
    | false =>
      rw [hs] at hsub
      simp only [Bool.false_eq_true, if_false, Bool.or_eq_true, Bool.and_eq_true, decide_eq_true_eq, Bool.not_eq_true'] at hsub
      have hf : ∀ {P : Prop}, q.sub = true → P := fun h => by rw [hs] at h; cases h
      refine ⟨hin, fun h => absurd h h62, fun _ => hoff0', ?_, (fun _ h => hf h), (fun _ h => hf h), (fun _ h => hf h)⟩
      intro _ _ hz hna
      rcases hsub with (h | h) | h
      · rw [hz] at h; cases h
      · exact absurd h hna
      · exact h
    | true =>
      rw [hs] at hsub
      simp only [if_true, Bool.and_eq_true, List.all_eq_true, List.mem_range, Bool.not_eq_true', Bool.and_eq_false_iff,
        Bool.or_eq_true, decide_eq_true_eq, decide_eq_false_iff_not, List.any_eq_true, Bool.not_eq_false'] at hsub
      obtain ⟨⟨hd, hu⟩, hi⟩ := hsub
      have hf : ∀ {P : Prop}, q.sub = false → P := fun h => by rw [hs] at h; cases h
      refine ⟨hin, fun h => absurd h h62, fun _ => hoff0', (fun _ h => hf h), ?_, ?_, ?_⟩
      · intro _ _ i hi32 ⟨ha, hz⟩
        rcases hd i hi32 with h | h
        · rw [ha] at h; cases h
        · rw [hz] at h; cases h
      · intro _ _ ho h63 i hi32
        rcases hu with (h | h) | h
        · exact absurd ho h
        · rw [h63] at h; cases h
        · exact h i hi32
      · intro _ _ ⟨i, hi32, ha⟩
        rcases hi with h | h
        · have hany : ((List.range 32).any fun i => (q.bitmapAt c).testBit i) = true :=
            List.any_eq_true.mpr ⟨i, List.mem_range.mpr hi32, ha⟩
          rw [hany] at h; cases h
        · exact h

theorem conformantb_sound (q : QCow2) (h : q.conformantb = true) : Conformant q := by
  unfold QCow2.conformantb at h
  simp only [Bool.and_eq_true, decide_eq_true_eq, List.all_eq_true, List.mem_range, Bool.or_eq_true,
    Bool.not_eq_true', decide_eq_false_iff_not] at h
  obtain ⟨⟨h1, h2⟩, h3⟩ := h
  refine ⟨hdrOkb_sound q h1, h2, fun c hc hl1 hl2 => ?_⟩
  rcases h3 c hc with (h | h) | h
  · exact absurd hl1 h
  · exact absurd h hl2
  · exact entryOkb_sound q c h


/-! ### the range evaluator of the driver computes `guest` -/

theorem guestVia_eq (q : QCow2) (b : File) (o : Nat) :
    q.guestVia b (q.cview (o / q.clusterSize)) o = q.guest b o := by
  unfold QCow2.guestVia QCow2.cview QCow2.guest
  simp only []
  by_cases h1 : q.l1Size ≤ o / q.clusterSize / q.l2n
  · simp only [if_pos h1, if_true]
  · rw [if_neg h1, if_neg h1]
    by_cases h2 : q.l2Off (o / q.clusterSize) = 0
    · simp only [if_pos h2, if_true]
    · rw [if_neg h2, if_neg h2]
      simp only [Bool.true_eq_false, if_false]
      by_cases h62 : (q.entryAt (o / q.clusterSize)).testBit 62 = true
      · simp only [h62, if_true]
        cases q.decomp (q.entryAt (o / q.clusterSize)) with
        | error e => rfl
        | ok d =>
          simp only [Array.getD, List.getD_eq_getElem?_getD, List.size_toArray, List.getElem_toArray]
          split
          · rename_i h; simp only [Array.getInternal_eq_getElem, List.getElem_toArray, List.getElem?_eq_getElem h, Option.getD_some]
          · rename_i h; rw [List.getElem?_eq_none (by omega)]; rfl
      · simp only [h62, if_false, Bool.false_eq_true]

end Hv.Qcow2
