/-
  C17 — Hyper-V VMCX/VMRS: the decoded tree equals the stored key/value tree.
-/
import HvProofs.HyperV
import HvProofs.HyperVTree
import HvProofs.HyperVLoad
namespace Hv.C17
open Hv Hv.HyperV Hv.Extracted.hyperv

/-! extracted layouts / constants = the VMCX/VMRS ("HyperVStorage" v0x400) format -/
theorem header_layout_spec :
    HyperVStorageHeader.size = 46 ∧ HyperVStorageHeader.signature = ⟨0, 4, false, 0, 32⟩ ∧
    HyperVStorageHeader.sequence_number = ⟨8, 2, false, 0, 16⟩ ∧ HyperVStorageHeader.version = ⟨10, 4, false, 0, 32⟩ ∧
    HyperVStorageHeader.replay_log_offset = ⟨26, 8, false, 0, 64⟩ := by decide
theorem replay_log_layout_spec :
    HyperVStorageReplayLog.size = 34 ∧ HyperVStorageReplayLog.signature = ⟨0, 4, false, 0, 32⟩ ∧
    HyperVStorageReplayLog.num_entries = ⟨8, 4, false, 0, 32⟩ ∧ HyperVStorageReplayLogEntry.size = 28 := by decide
theorem object_table_layout_spec :
    HyperVStorageObjectTable.size = 8 ∧ HyperVStorageObjectTable.signature = ⟨0, 4, false, 0, 32⟩ ∧
    HyperVStorageObjectTable.num_entries = ⟨4, 4, false, 0, 32⟩ ∧
    HyperVStorageObjectTableEntry.size = 18 ∧ HyperVStorageObjectTableEntry.type = ⟨0, 1, false, 0, 8⟩ ∧
    HyperVStorageObjectTableEntry.offset = ⟨5, 8, false, 0, 64⟩ ∧ HyperVStorageObjectTableEntry.size_field = ⟨13, 4, false, 0, 32⟩ ∧
    HyperVStorageObjectTableEntry.allocated = ⟨17, 1, false, 0, 8⟩ := by decide
theorem key_table_layout_spec :
    HyperVStorageKeyTable.size = 10 ∧ HyperVStorageKeyTable.signature = ⟨0, 2, false, 0, 16⟩ ∧
    HyperVStorageKeyTable.index = ⟨2, 2, false, 0, 16⟩ ∧ HyperVStorageKeyTable.sequence_number = ⟨4, 2, false, 0, 16⟩ := by decide
theorem key_entry_layout_spec :
    HyperVStorageKeyTableEntryHeader.size = 21 ∧ HyperVStorageKeyTableEntryHeader.type = ⟨0, 2, false, 0, 16⟩ ∧
    HyperVStorageKeyTableEntryHeader.size_field = ⟨2, 4, false, 0, 32⟩ ∧
    HyperVStorageKeyTableEntryHeader.parent_table_idx = ⟨6, 2, false, 0, 16⟩ ∧
    HyperVStorageKeyTableEntryHeader.parent_offset = ⟨8, 4, false, 0, 32⟩ ∧
    HyperVStorageKeyTableEntryHeader.data_offset = ⟨20, 1, false, 0, 8⟩ := by decide
theorem signatures_spec :
    SIGNATURE_STORAGE_HEADER = 0x01282014 ∧ SIGNATURE_REPLAY_LOG_HEADER = 0x01110003 ∧
    SIGNATURE_OBJECT_TABLE_HEADER = 0x01110001 ∧ SIGNATURE_KEY_TABLE_HEADER = 0x0002 ∧
    FIRST_HEADER_OFFSET = 0 ∧ SECOND_HEADER_OFFSET = 0x1000 ∧ OBJECT_TABLE_OFFSET = 0x2000 := by decide
theorem object_entry_types_spec :
    ObjectEntryType_names = ["Unknown0", "ObjectTable", "KeyTable", "File", "Free", "Unknown5Header", "ReplayLog", "ChangeTrackingBuffer"] ∧
    ObjectEntryType_values = [0, 1, 2, 3, 4, 5, 6, 7] := by decide
theorem key_data_types_spec :
    KeyDataType_names = ["Free", "Unknown", "Int", "UInt", "Double", "String", "Array", "Bool", "Node"] ∧
    KeyDataType_values = [1, 2, 3, 4, 5, 6, 7, 8, 9] ∧ FLAG_FileObjectPointer = 1 := by decide
theorem literals_spec :
    init_ints = [0x400, 0, 0] ∧ flags_ints = [0xFF00, 8] ∧ type_ints = [0xFF] ∧ parent_ints = [0] ∧ pointer_ints = [12] ∧
    pointer_formats = ["<IQ"] ∧ key_ints = [1] ∧ key_formats = ["utf-8"] ∧
    value_ints = [8, 0, 8, 0, 8, 0, 4, 0, 4, 4, 4, 0, 0] ∧
    value_formats = ["<q", "<Q", "<d", "<I", "utf-16-le", "<I"] ∧ keytable_init_ints = [0] := by decide


/-! ### (1) values -/

/-- **value_roundtrip**: for every value of the six leaf types inside its type's range — signed 64-bit integers,
    unsigned 64-bit integers, doubles (as 64-bit patterns), strings (as well-formed UTF-16 code-unit lists), byte arrays,
    booleans — decoding the stored bytes (the value's encoding followed by *any* slack bytes in the entry) with the
    stored type returns exactly that value, type included. -/
theorem value_roundtrip (v : Value) (hv : v.inRange) (slack : Bytes) :
    decodeValue v.typ false (encodeValue v ++ slack) = .ok v :=
  decodeValue_encodeValue v hv slack

/-- **unsigned_is_not_signed**: the bytes of an unsigned value with the top bit set decode to that value under
    `KeyDataType.UInt` and to a *different, negative* number under `KeyDataType.Int` — the type decides. -/
theorem unsigned_is_not_signed (v : Nat) (h1 : 2 ^ 63 ≤ v) (h2 : v < 2 ^ 64) (slack : Bytes) :
    decodeValue tUInt false (leBytes 8 v ++ slack) = .ok (.uint v) ∧
    decodeValue tInt false (leBytes 8 v ++ slack) = .ok (.int ((v : Int) - (2 ^ 64 : Nat))) ∧
    ((v : Int) - (2 ^ 64 : Nat)) < 0 := by
  refine ⟨decodeValue_encodeValue (.uint v) h2 slack, ?_, by omega⟩
  have h := unpack_unsigned_as_signed v h1 h2 slack
  simp only [decodeValue, tInt_eq, fmtInt_eq, nInt_eq, if_true, h, Except.map]

/-- **bool_any_nonzero**: a boolean is stored as a 32-bit word; every non-zero word is `True`. -/
theorem bool_any_nonzero (raw : Nat) (h : raw < 2 ^ 32) (slack : Bytes) :
    decodeValue tBool false (leBytes 4 raw ++ slack) = .ok (.bool (decide (raw ≠ 0))) :=
  decodeValue_bool_raw raw h slack

/-- **file_object_value**: a string or byte array held in a separate file object — the entry carries the flag bit and
    a 12-byte (size, offset) pointer, the object table lists a File object at that offset (of at least … any size:
    the read is clamped to it), the bytes at the offset are the value without a length prefix — decodes to the value. -/
theorem file_object_value (f : File) (fos : List (Nat × Nat)) (v : Value) (hs : (∃ us, v = .str us) ∨ (∃ b, v = .bytes b))
    (hv : v.inRange) (pidx poff ck ins : Nat) (key slack : Bytes) (off n o osz : Nat)
    (hn : n < 2 ^ 32) (ho : o < 2 ^ 63) (hl : fos.lookup o = some osz)
    (hr : f.read o (min n osz) = encodeFoValue v) :
    valueOf f fos ((SEntry.keyed (v.typ + 256) pidx poff ck ins key (leBytes 4 n ++ leBytes 8 o ++ slack)).parsed off) = .ok v := by
  apply valueOf_keyed_fo f fos v pidx poff ck ins key slack off n o osz hn ho hl
  rw [hr]
  rcases hs with ⟨us, rfl⟩ | ⟨b, rfl⟩
  · exact decodeValue_fo_str us hv.1 hv.2.1
  · exact decodeValue_fo_bytes b

/-! ### (2) entry framing -/

/-- **entry_walk**: for every list of stored entries — nodes, values, free entries of any size anywhere in between,
    any flags, any parent references, any checksums — the entry loop over the concatenation of their encodings
    (followed by anything) returns every entry at its offset with its header fields and body; the loop ends exactly
    at the declared table size. -/
theorem entry_walk (ss : List SEntry) (hs : ∀ s ∈ ss, s.ok) (tail : Bytes) (fuel off : Nat) (hf : ss.length ≤ fuel) :
    walkEntries fuel (encodeEntries ss ++ tail) off (off + totalSize ss) = .ok (parsedFrom ss off) :=
  walkEntries_encode ss hs tail fuel off hf

/-- **entry_walk_zero_terminated**: the same entries closed by an all-zero header (size 0) inside a larger table. -/
theorem entry_walk_zero_terminated (ss : List SEntry) (hs : ∀ s ∈ ss, s.ok) (tail : Bytes) (size fuel off : Nat)
    (hf : ss.length < fuel) (hsz : off + totalSize ss < size) :
    walkEntries fuel (encodeEntries ss ++ (zeros EH ++ tail)) off size = .ok (parsedFrom ss off) :=
  walkEntries_encode_zero ss hs tail size fuel off hf hsz

/-- **free_entries_ignored**: linking a table's entries is linking its non-free entries — free entries (which keep
    their place in the offset lookup) contribute no key, no value and no child. -/
theorem free_entries_ignored (kts : List (Nat × List KeyTable)) (idx : Nat) (es : List Entry) :
    linkEntries kts idx es = linkEntries kts idx (es.filter (fun e => e.kind ≠ tFree)) :=
  linkEntries_skip_free kts idx es

/-! ### (3) which header, which table -/

/-- **active_header_max_seq**: the header used is one of the two and no header has a larger sequence number
    (a tie goes to the second header). -/
theorem active_header_max_seq (h1 h2 : Header) :
    (chooseHeader h1 h2 = h1 ∨ chooseHeader h1 h2 = h2) ∧ h1.seq ≤ (chooseHeader h1 h2).seq ∧ h2.seq ≤ (chooseHeader h1 h2).seq ∧
    (h1.seq = h2.seq → chooseHeader h1 h2 = h2) := by
  refine ⟨(chooseHeader_spec h1 h2).1, (chooseHeader_spec h1 h2).2.1, (chooseHeader_spec h1 h2).2.2, ?_⟩
  intro h; simp [chooseHeader, h]

/-- **active_table_max_seq**: for every list of key tables met while walking the object tables, in any order, the
    table used for an index (for linking *and* for parent lookups) is one of the registered tables of that index and
    none of them has a larger sequence number. -/
theorem active_table_max_seq (ts : List KeyTable) (idx : Nat) (t : KeyTable) (h : activeTable (registerAll ts) idx = some t) :
    t ∈ ts ∧ t.index = idx ∧ ∀ u ∈ ts, u.index = idx → u.seq ≤ t.seq := by
  unfold activeTable at h
  split at h
  · rename_i t' rest hl
    cases h
    obtain ⟨_, hsorted, hmem⟩ := ((RegInv_registerAll ts) idx).1 _ hl
    have ht := (hmem t).1 (by simp)
    refine ⟨ht.1, ht.2, ?_⟩
    intro u hu hidx
    have hu' := (hmem u).2 ⟨hu, hidx⟩
    simp only [List.mem_cons] at hu'
    rcases hu' with rfl | hu'
    · exact Nat.le_refl _
    · exact (List.pairwise_cons.1 hsorted).1 u hu'
  · cases h

/-- **active_table_exists**: an index for which some table was registered has an active table. -/
theorem active_table_exists (ts : List KeyTable) (u : KeyTable) (hu : u ∈ ts) : ∃ t, activeTable (registerAll ts) u.index = some t := by
  have inv := (RegInv_registerAll ts) u.index
  cases hl : (registerAll ts).lookup u.index with
  | none => exact absurd rfl (inv.2 hl u hu)
  | some l =>
    obtain ⟨hne, _, _⟩ := inv.1 l hl
    cases l with
    | nil => exact absurd rfl hne
    | cons t r => exact ⟨t, by simp [activeTable, hl]⟩

/-! ### (4) from bytes to records -/

/-- **tree_decode_partial**: for every one-table layout — any index and sequence number, any list of stored entries
    (nodes, values with slack, free entries in between) — the table parses to its header fields and to *all* entries
    at their offsets; and every stored value entry yields exactly its key, its parent reference (table index, offset)
    and its typed value.  So the list of (offset, parent, key, typed value) records the tree is assembled from equals
    the stored one.
    Missing for the full `tree_decode` (`Encodes layout tree bytes → asDict bytes = tree`): the assembly of the
    records into the nested tree through `childrenOf` / `treeOf` (children of X = the records whose parent reference
    is X's (index, offset)) for arbitrary layouts over several tables, and the file-level plumbing (headers, object
    tables) — these are covered by `active_*`, `object_walk_terminates`, the kernel-evaluated example below and the
    correspondence with the real code on generated files. -/
theorem tree_decode_partial (index seq ck : Nat) (ss : List SEntry) (hi : index < 2 ^ 16) (hq : seq < 2 ^ 16) (hs : ∀ s ∈ ss, s.ok) :
    parseKeyTable (encodeTable index seq ck ss) (KTH + totalSize ss) = .ok { index, seq, entries := parsedFrom ss KTH } ∧
    ∀ (f : File) (fos : List (Nat × Nat)) (v : Value) (pidx poff ck' ins : Nat) (key slack : Bytes) (off : Nat),
      v.inRange → validUtf8 key = true →
      let e := (SEntry.keyed v.typ pidx poff ck' ins key (encodeValue v ++ slack)).parsed off
      keyOf e = .ok key ∧ valueOf f fos e = .ok v ∧ e.parentIdx = pidx ∧ e.parentOff = poff ∧ e.offset = off ∧ e.kind = v.typ := by
  refine ⟨parseKeyTable_encode index seq ck ss hi hq hs, ?_⟩
  intro f fos v pidx poff ck' ins key slack off hv hk
  exact ⟨keyOf_keyed _ _ _ _ _ key _ off hk, valueOf_keyed f fos v hv pidx poff ck' ins key slack off, rfl, rfl, rfl,
    (kind_of_typ v _ rfl).1⟩

/-- **table_zero_terminated**: the same for a table closed by a zero header inside a larger declared size. -/
theorem table_zero_terminated (index seq ck size : Nat) (ss : List SEntry) (tail : Bytes) (hi : index < 2 ^ 16) (hq : seq < 2 ^ 16)
    (hs : ∀ s ∈ ss, s.ok) (hsz : KTH + totalSize ss < size) :
    parseKeyTable (encodeTable index seq ck ss ++ (zeros EH ++ tail)) size = .ok { index, seq, entries := parsedFrom ss KTH } :=
  parseKeyTable_encode_zero index seq ck size ss tail hi hq hs hsz

/-! ### (5) termination -/

/-- **object_walk_terminates** (also a C11 obligation): for every file, `HyperVFile.__init__` up to the linking phase —
    headers, replay log, the object-table walk with its once-per-offset rule, every key table's entry loop — returns
    or raises; the model's fuel (`size + 1` tables: loaded tables have distinct offsets inside the file) never runs out. -/
theorem object_walk_terminates (f : File) : load f ≠ .error .nonTermination := load_terminates f

/-- **entry_loop_terminates**: the entry loop of a key table ends for every buffer and every declared size. -/
theorem entry_loop_terminates (raw : Bytes) (size : Nat) : parseKeyTable raw size ≠ .error .nonTermination :=
  parseKeyTable_terminates raw size

/-! ### (6) the tree assembly: fuel, stale tables, `tree_decode` -/

/-- **tree_fuel_suffices**: for *every* list of links in which an entry reference (table index, offset) names one link —
    arbitrary parent references, cycles, self-parents, orphans included — and every link `l` that is `d` parent steps
    below the root, `treeOf` with fuel `fuel ≥ #links − d` never reports exhausted fuel: root paths cannot repeat a link
    (depth is a function of the link, pigeonhole), cycles are unreachable from the root. -/
theorem tree_fuel_suffices (f : File) (fos : List (Nat × Nat)) (links : List Link) (hu : UniqueRefs links)
    (fuel d : Nat) (l : Link) (ha : Anc links d l) (hf : links.length ≤ fuel + d) :
    treeOf f fos links fuel l ≠ .error .nonTermination :=
  treeOf_fuel f fos links hu fuel d l ha hf

/-- **links_have_unique_refs**: the links of every file that opens satisfy that hypothesis (one registry entry per
    table index; strictly increasing entry offsets inside a table). -/
theorem links_have_unique_refs (f : File) (L : Loaded) (h : openFile f = .ok L) : UniqueRefs L.links :=
  (openFile_spec f).2 L h

/-- **tree_assembly_terminates** (also a C11 obligation): for every file — any bytes, any parent references —
    `as_dict()` and the typed walk of the model return or raise; the fuel `#links + 1` of `treeOf` is never exhausted,
    nor is any other fuel of the model (headers, object tables, entry loops, linking). -/
theorem tree_assembly_terminates (f : File) : asDict f ≠ .error .nonTermination ∧ typedTree f ≠ .error .nonTermination :=
  asDict_terminates' f

/-- **stale_tables_ignored**: whatever other tables were registered for an index — before or after, any number — as long
    as they carry smaller sequence numbers, the table in use for that index (linking *and* parent lookups) is `t`. -/
theorem stale_tables_ignored (ts act : List KeyTable) (h : ActiveOf ts act) (t : KeyTable) (ht : t ∈ act) :
    activeTable (registerAll ts) t.index = some t :=
  activeTable_of_act ts act h t ht

/-- **stored_value_encodes**: a stored value entry (key ‖ NUL ‖ encoded value ‖ slack) is an `EncT` leaf with its key. -/
theorem stored_value_encodes (f : File) (fos : List (Nat × Nat)) (all : List (Nat × Entry)) (i : Nat) (v : Value) (hv : v.inRange)
    (pidx poff ck ins : Nat) (key slack : Bytes) (off : Nat) (hk : validUtf8 key = true) :
    let e := (SEntry.keyed v.typ pidx poff ck ins key (encodeValue v ++ slack)).parsed off
    EncT f fos all (.leaf v) (i, e) ∧ keyOf e = .ok key := by
  intro e
  have hkind := (kind_of_typ v e rfl).1
  refine ⟨?_, keyOf_keyed _ _ _ _ _ key _ off hk⟩
  simp only [EncT]
  refine ⟨?_, valueOf_keyed f fos v hv pidx poff ck ins key slack off⟩
  rw [hkind]
  cases v <;> simp only [Value.typ] <;> decide

/-- **tree_decode_loaded**: for *any* registry the object-table walk produced (`load f = ok reg`): if every linkable
    entry of the active tables has a resolvable parent and a valid key and the root-level entries store the children
    `cs` (`EncT`, recursively: any nesting depth, children of a node found by their parent reference in any table,
    values inline or in file objects), then the typed walk returns `node cs`, and so does `as_dict()` when the root
    children are nodes. Proved by (mutual) induction on the tree. -/
theorem tree_decode_loaded (f : File) (reg : Reg) (hload : load f = .ok reg) (hne : ∀ p ∈ reg.keyTables, p.2 ≠ [])
    (cs : List (Bytes × Tree)) (hlink : Linkable reg.keyTables (allEntries reg.keyTables)) (hnd : (cs.map Prod.fst).Nodup)
    (henc : EncT.EncL f reg.fileObjects (allEntries reg.keyTables) cs ((allEntries reg.keyTables).filter (fun x => pref x.2 = none))) :
    typedTree f = .ok (.node cs) ∧ ((∀ kt ∈ cs, ∃ cs', kt.2 = .node cs') → asDict f = .ok (.node cs)) :=
  Hv.HyperV.tree_decode_loaded f reg hload hne cs hlink hnd henc

/-- **tree_decode_partial_registry** — `Encodes lay cs f → decode f = ok (node cs)` for layouts with any number of key
    tables, entries distributed over them, parents referenced by (table index, offset) through the table *in use* for
    that index, any number of stale competitors with lower sequence numbers registered before or after, free entries,
    unreachable (orphan / cyclic) entries, inline and file-object values.
    Full statement aimed at (DESIGN A.4): `Encodes` over the *bytes* of the file. What is proved: `Encodes` whose first
    clause is stated on the model's object-table walk — "`load f` registers exactly the tables `lay.tables` in this order
    and the File objects `lay.fos`" — instead of on header / object-table bytes. Missing: the lemma
    `bytes of headers + object tables ⇒ load f = ok ⟨registerAll tables, fos⟩` (the per-table and per-entry byte level
    is `tree_decode_partial`, `entry_walk`, `stored_value_encodes`, `file_object_value`; the walk itself is covered by
    `object_walk_terminates`, the kernel-evaluated example and the correspondence incl. second object tables). -/
theorem tree_decode_partial_registry (lay : Layout) (cs : List (Bytes × Tree)) (f : File) (h : Encodes lay cs f) :
    typedTree f = .ok (.node cs) ∧ ((∀ kt ∈ cs, ∃ cs', kt.2 = .node cs') → asDict f = .ok (.node cs)) :=
  tree_decode_encodes lay cs f h

/-! non-vacuity of `Encodes` on the example file below (second header active, stale copy of table 1 registered *after*
    the active one, file object): the first clause (what `load` registers), `ActiveOf`, and the shape of the linkable
    entries (1 root entry, 5 children of (1, 10) spread over two tables); the decoded tree itself is `exCheck`. -/
example : (match load exFile with
    | .ok reg => decide (reg.keyTables = registerAll exTs) && decide (reg.fileObjects = [(0x7000, 0x1000)])
    | .error _ => false) = true := by decide +kernel
example : exAct.map KeyTable.index = firstIdx (exTs.map KeyTable.index) ∧
    ∀ t ∈ exAct, t ∈ exTs ∧ ∀ u ∈ exTs, u.index = t.index → u = t ∨ u.seq < t.seq := by decide +kernel
example : (actEntries exAct).length = 6 ∧ ((actEntries exAct).filter (fun x => pref x.2 = none)).length = 1 ∧
    ((actEntries exAct).filter (fun x => pref x.2 = some (1, 10))).length = 5 := by decide +kernel

/-! non-vacuity: a concrete file written with the specification-side encoders — second header active (higher sequence
    number), an object table listing the active table of index 1 (sequence 5) *before* a stale copy (sequence 1, same
    offsets, different content), an unallocated entry, a self-referencing object-table entry, a File object; a free
    entry inside the table; children in another table; a string held in the file object; a UInt with the top bit set.
    `as_dict` of the model is the stored tree. -/
example : exCheck = true := by decide +kernel
example : (exT1 ++ exT1old ++ exT2).all (fun s => decide (s.typ < 2 ^ 16 ∧ s.pidx < 2 ^ 16 ∧ s.poff < 2 ^ 32 ∧ s.doff < 2 ^ 8 ∧ s.size < 2 ^ 32))
    = true := by decide
example : (Value.uint (2 ^ 64 - 1)).inRange ∧ (Value.int (-5)).inRange ∧ (Value.str [104, 105]).inRange :=
  ⟨by simp [Value.inRange], by simp [Value.inRange], by simp [Value.inRange, validUnits, isHigh, isLow]⟩

/-! ### (7) from the bytes of a written file: the object-table walk, and the file-level round trip -/

/-- **load_registers_exactly** — the lemma "layout bytes ⇒ `load` registers exactly these tables": for every well-formed
    physical description `d` (`Phys.WF`, decidable: two file headers of which the one with the larger sequence number — the
    second on a tie — carries the signature, version 0x400 and the offset of a replay log; any number of object tables, the
    first at 0x2000, whose *allocated* ObjectTable / KeyTable / ReplayLog entries point at an object table / a key-table
    region of exactly the entry's size / a replay log of the description, while File, Free, unknown-type and unallocated
    entries hold anything; key tables with any stored entries, ending exactly or with a zero terminator followed by
    anything; blobs; all regions disjoint and inside the file), `HyperVFile.__init__` up to the linking phase succeeds
    on the bytes `d.file` the writer lays out, and its registry is `registerAll d.regTables` — the key tables met by the
    abstract breadth-first walk over the description (each object table once per offset, in first-in first-out order;
    unallocated entries skipped; stale copies included, in walk order) — with exactly the File objects `d.regFos`. -/
theorem load_registers_exactly (d : Phys) (h : d.WF) :
    ∃ reg, load d.file = .ok reg ∧ reg.keyTables = registerAll d.regTables ∧ reg.fileObjects = d.regFos :=
  load_encode d h

/-- **hyperv_file_roundtrip** — `as_dict()` of the written file is the described tree: for every well-formed description `d`
    (`Desc.WF`, decidable: a well-formed physical layout; among the key tables the walk registers every index has a
    table with a strictly largest sequence number; every non-free entry of those tables has parent index 0 or names an
    entry of a table in use, and a valid UTF-8 key; the entries with parent index 0 store the root children `d.cs` —
    recursively: a Node's children are exactly the entries, in any table in use, whose parent reference is its (table
    index, offset); values inline or in File objects) whose root children are Nodes, the model of
    `HyperVFile(fh).as_dict()` on the bytes returns `d.tree`. Composed from `load_registers_exactly` and
    `tree_decode_partial_registry`. -/
theorem hyperv_file_roundtrip (d : Desc) (h : d.WF) (hn : d.rootsAreNodes = true) : asDict d.file = .ok d.tree :=
  (tree_decode_encodes _ d.cs d.file (desc_encodes d h)).2 (rootsAreNodes_spec d hn)

/-- **hyperv_file_roundtrip_typed**: the typed walk (`.type` / `.value` / `.children` from `HyperVFile.root` down) returns
    the described tree also when leaf values sit directly below the root. -/
theorem hyperv_file_roundtrip_typed (d : Desc) (h : d.WF) : typedTree d.file = .ok d.tree :=
  (tree_decode_encodes _ d.cs d.file (desc_encodes d h)).1

/-! non-vacuity: `exDesc` — two object tables (the second reached through the first, a self-reference ignored), second header
    active, a counted replay-log entry, a stale copy of table 1 registered after the active one and once more unallocated,
    a zero-terminated table with a tail, a string in a File object, free entries — is well formed; so `as_dict()` of
    the bytes the writer lays out is its tree. -/
example : exDesc.WF := by decide +kernel
example : exDesc.phys.regTables.map (fun t => (t.index, t.seq)) = [(1, 5), (2, 9), (1, 1)] ∧ exDesc.phys.regFos = [(0x7000, 0x1000)] := by
  decide +kernel
example : asDict exDesc.file = .ok exDesc.tree := hyperv_file_roundtrip exDesc (by decide +kernel) (by decide +kernel)

end Hv.C17
