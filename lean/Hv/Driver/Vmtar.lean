import Hv.Driver.Core
import Hv.Vmtar
import Hv.VmtarEnc
namespace Hv.Driver
open Hv

def fmtMember (f : File) (m : Vmtar.Member) : String :=
  let h := m.hdr
  let body := match Vmtar.extract f m with
    | some b => s!"{b.length}:{(crc32 b).toNat}"
    | none => "-"
  let typ := if Vmtar.isReg h.typ then "file" else if h.typ = Vmtar.tDIR then "dir" else if h.typ = Vmtar.tSYM then "sym" else s!"t{h.typ.toNat}"
  ",".intercalate [hexOf m.name, typ, toString h.size, body, toString h.mode, toString h.uid, toString h.gid, toString h.mtime,
    hexOf h.uname, hexOf h.gname, hexOf m.linkname, toString m.offset, toString m.offsetData,
    (if h.isVisor then "1" else "0"), toString h.vTextPgs, toString h.vFixUpPgs]

/-- `<namehex>,<d|f>,<-|off>,<datahex>,<mode>,<uid>,<gid>,<mtime>` (empty hex strings are written `-`) -/
def parseSpec (t : String) : Option Vmtar.MemberSpec :=
  let hx (h : String) : Option Bytes := if h == "-" then some [] else (parseHex h).map (·.toList)
  match t.splitOn "," with
  | [n, k, v, d, mo, u, g, mt] => do
    let name ← hx n
    let data ← hx d
    let visor ← (if v == "-" then some none else v.toNat?.map some)
    some { name, isDir := k == "d", visor, data, mode := ← mo.toNat?, uid := ← u.toNat?, gid := ← g.toNat?, mtime := ← mt.toNat? }
  | _ => none

/-- the writer of the round-trip theorem, run: `ok <wf> <rt> <hex of the archive>`; `rt` = the instance of
    `vmtar_members_roundtrip` on this input, evaluated (listing = expected, extraction = stored bytes) -/
def vmtarEnc (size seed : Nat) (ms : List Vmtar.MemberSpec) : String :=
  let L : Vmtar.Layout := ⟨size, fun i => UInt8.ofNat ((i * 131 + seed) % 251)⟩
  let f := Vmtar.encode ms L
  let wf := Vmtar.wfb ms L
  let rt := decide (Vmtar.list f true = .ok (Vmtar.expected 0 ms)) &&
    decide ((Vmtar.expected 0 ms).map (Vmtar.extract f) = ms.map Vmtar.MemberSpec.stored)
  s!"ok {if wf then 1 else 0} {if rt then 1 else 0} {hexOf (f.read 0 f.size)}"

def vmtarCmd (st : St) : List String → String
  | "vmtar.enc" :: size :: seed :: specs =>
    match size.toNat?, seed.toNat?, specs.mapM parseSpec with
    | some sz, some sd, some ms => if sz > 1048576 then "bad-size" else vmtarEnc sz sd ms
    | _, _, _ => "bad-cmd"
  | ["vmtar.list", id, aware] =>
    match st.file? id with
    | none => "bad-file"
    | some f =>
      match Vmtar.list f (aware == "1") with
      | .ok ms => s!"ok {ms.length} " ++ "|".intercalate (ms.map (fmtMember f))
      | .readError => "err read"
      | .unsupported => "unsupported"
      | .nonTermination => "nonterm"
  | _ => "bad-cmd"

end Hv.Driver
