"""C08 — a disk stream behaves as an immutable byte array under any access history.
Random operation histories on every stream class (image generators of C03..C06, later C01/C02/C10),
several stream buffer sizes, images that overflow the internal caches."""
from __future__ import annotations

import importlib
import random

import core
from core import Built

PROPERTY = "C08"
CLASSES = ["c05", "c04", "c06", "c03", "c02", "c01", "c01x", "c01v", "c06h", "c03d"]   # format modules providing open_impl/stream_prefix/truth_reader
# c06h = split Parallels disks (StorageStream over 2..5 storages, HDD(path).open()): storages of a few sectors up to several stream
#        buffers, boundaries unrelated to the buffer size; every storage boundary gets a directed group of reads that begin inside the
#        storage in front of it and run across it (readoffset / seek+read / seek+peek+read / seek+readinto, cycling), next to
#        short reads right behind it
# c03d = differencing VHDX chains (depth 2..3, opened by path) with partially-present blocks in the top layer and in the layer
#        below; buffer sizes that are sector multiples but no multiple of eight sectors (512, 1536, 2560, 7680 ...; 4 KiB sectors:
#        4096, 12288, 20480), so that back-end requests start inside a byte of the sector bitmap; read_sectors(sector, count) at start
#        sectors that are no multiple of eight
# c01x = QCOW2 with extended L2 entries whose sub-cluster bitmaps are partially written clusters (gen_qcow2 "holes"), dense maps,
#        histories directed at the cluster boundaries (short reads next to long reads spanning a boundary)
# c01v = QCOW2 with internal snapshots, several streams over one file handle (the active image, snapshots[j].open(), a snapshot
#        opened twice), one interleaved history; the views share host clusters / compressed blobs and hold the same guest
#        cluster with different content (compressed in several views)
MODULE = {"c01x": "c01", "c01v": "c01", "c06h": "c06", "c03d": "c03"}
PER_QUICK = {"c01x": 14, "c01v": 24, "c06h": 30, "c03d": 24}
PER_THOROUGH = {"c01x": 200, "c01v": 300, "c06h": 300, "c03d": 240}
HDD_ALIGNS = [8192, 512, 1536, 4096, 65536, 8192, 2560, 1 << 20, 8192, 16384]
VHDX_DIFF_ALIGNS = {512: [1536, 512, 2560, 8192, 7680, 4096, 3584, 65536, 1536, 512, 66048, 1 << 20], 4096: [4096, 12288, 8192, 20480, 65536, 4096]}
RULE = ("for every stream class: generated image (the class's own generator) × stream buffer size in {512, 1536, 4096, 8192, "
        "65536, 1 MiB} (sector multiples) × a random history of 12..60 operations (quick) drawn from seek SET/CUR/END incl. negative "
        "and past-the-end, read n (0, small, large, past the end, -1), readinto, readall, peek, readoffset, tell and read_sectors "
        "where the class has it; outputs compared op by op with the immutable-array specification evaluated on construction truth "
        "and with the Lean stream model. QCOW2 additionally: extended-L2 images of partially written clusters with histories "
        "directed at cluster boundaries (a short read before / after the boundary next to long reads spanning it, offsets chosen "
        "relative to the buffer size), and images with 1..3 internal snapshots read through 2..4 streams over the same file handle "
        "(active image, snapshot views incl. one snapshot opened twice) in one interleaved history with probes of the same guest "
        "cluster through every stream; the model answers each stream's sub-history (snapshot_view_independent / "
        "active_view_independent: the views do not interact). Split Parallels disks (c06h: 2..5 storages through HDD(path).open(), storages "
        "from a few sectors to several stream buffers, buffer sizes 512 .. 1 MiB incl. 1536 / 2560): every storage boundary gets a group of "
        "reads that begin inside the storage in front of it and run across it, as readoffset / seek+read / seek+peek+read / seek+readinto in "
        "turn, next to short reads right behind the boundary. Differencing VHDX chains (c03d: depth 2..3 opened by path, partially-present "
        "blocks with explicit bitmaps in the top layer and the one below): buffer sizes that are no multiple of eight sectors and "
        "read_sectors at start sectors that are no multiple of eight, counts around the bitmap byte size. Non-trivial = model WF and the history contains a seek, a peek and a "
        "read crossing a buffer boundary; distinct (recipe, history) hash.")
ASSUMPTIONS = ["dissect.util.stream.AlignedStream is an external dependency: transcribed in Hv/Stream.lean and tied by this correspondence",
               "functools.lru_cache / cached_property are semantically transparent because the underlying file is immutable (C09)"]
TIMEOUT_CASE = 40.0

_mods = {}


def mod(name):
    name = MODULE.get(name, name)
    if name not in _mods:
        _mods[name] = importlib.import_module(name)
    return _mods[name]


def gen_edge_reads(rng, size, align, points, unit, form=None):
    """reads cut differently around an allocation-unit boundary B: the bytes right after B on their own (short read), as the
    end of a read that starts in the unit before B, and inside one long request spanning B. The start distances are chosen
    relative to the buffer size so that the spanning part is served from the alignment buffer (d < align), by a multi-buffer
    backend request that begins before B (d > align) or by both."""
    qs = []
    B = rng.choice(points)
    d = min(B, rng.choice([1, align // 2, align, align + 1, 2 * align, 3 * align + 5, unit - 1, unit, unit + rng.randrange(1, unit + 1)]))
    n = d + rng.choice([1, align - 1, align, align + 1, 2 * align + 3, unit, unit + align, 2 * unit + 1])
    n = min(n, 3 << 20)
    short = ["O", B, rng.choice([1, 16, 512, align])]
    forms = [[["O", B - d, n]], [["s", B - d, 0], ["r", n]], [["s", B - d, 0], ["p", n], ["r", rng.choice([1, d, d + 1])]],
             [["s", B - d, 0], ["ri", n]]]
    long_ = rng.choice(forms)
    if form is not None:
        long_ = forms[form % 4]
    pre = [["O", max(0, B - rng.choice([1, 7, align])), rng.choice([1, 7])]] if rng.random() < 0.5 else []
    order = rng.choice([0, 1, 2])
    qs += (pre + [short] + long_) if order == 0 else (pre + long_ + [short]) if order == 1 else ([short] + pre + long_ + [short])
    return [q for q in qs if q[1] <= size + 1 or q[0] not in ("O", "s")]


def gen_history(rng, size, align, ss, has_sectors, n, points=None, unit=None, every_point=None, extra=()):
    """every_point = k: one directed group per point (at most 12), the long read of the j-th group in form (k + j) % 4;
    extra: further directed operations (lists of ops kept together) placed between the random ones"""
    qs = []
    maxr = min(size + 10, 300000)
    groups = [gen_edge_reads(rng, size, align, points, unit) for _ in range(rng.choice([3, 5, 8]))] if points else []
    if points and every_point is not None:
        groups += [gen_edge_reads(rng, size, align, [B], unit, form=every_point + j) for j, B in enumerate(points[:12])]
    groups += [list(g) for g in extra]
    # "interrupted sequential read": read one buffer, go somewhere else for a small read, come back to exactly where the
    # first read stopped (state kept across calls — remembered file positions, shared handles — shows up here)
    for _ in range(rng.choice([0, 2, 4, 6])):
        if size > 4 * align:
            o1 = rng.randrange(size - 2 * align) // align * align           # buffer-aligned: the backend request is [o1, o1 + k·align)
            k = rng.choice([1, 1, 2])
            n1 = rng.choice([1, 100, align // 2, k * align])
            back = o1 + ((n1 + align - 1) // align) * align                  # exactly where that backend request stopped
            o2 = rng.randrange(size)
            qs += [["s", o1, 0], ["r", n1], ["s", o2, 0], ["r", rng.choice([1, 10, 512])], ["s", back, 0], ["r", rng.choice([100, align, align + 7])]]
            if has_sectors and rng.random() < 0.5:
                c = max(1, align // ss)
                qs += [["S", o1 // ss, c], ["S", o2 // ss, 1], ["S", o1 // ss + c, c]]
    front = len(qs)
    for _ in range(n):
        k = rng.choice(["s0", "s0", "s1", "s2", "r", "r", "r", "ri", "p", "p", "O", "t", "ra"] + (["S", "S"] if has_sectors else []))
        if k == "s0":
            qs.append(["s", rng.choice([0, rng.randrange(size + 1), size, size + rng.randrange(1, 5000), rng.randrange(size + 1) // align * align,
                                       max(0, rng.randrange(size + 1) // align * align - 1), -1 if rng.random() < 0.05 else rng.randrange(size + 1)]), 0])
        elif k == "s1":
            qs.append(["s", rng.choice([-1, 1, -align, align, -rng.randrange(1, 100000), rng.randrange(1, 100000)]), 1])
        elif k == "s2":
            qs.append(["s", rng.choice([0, -1, -rng.randrange(1, min(size, 100000) + 1), -size, -size - 5, 7]), 2])
        elif k in ("r", "ri", "p"):
            n_ = rng.choice([0, 1, 2, rng.randrange(1, 600), align - 1, align, align + 1, 2 * align + 3, rng.randrange(1, maxr + 1), size + 100])
            if k == "r" and rng.random() < 0.08:
                n_ = rng.choice([-1, -1, -2]) if size <= (4 << 20) else -2
            qs.append([k, min(n_, 3 << 20) if n_ > 0 else n_])
        elif k == "O":
            qs.append(["O", rng.randrange(size + 2), rng.randrange(0, maxr + 1)])
        elif k == "ra":
            if size <= (4 << 20) and rng.random() < 0.3:
                qs.append(["ra"])
            else:
                qs.append(["t"])
        elif k == "t":
            qs.append(["t"])
        elif k == "S":
            nsec = size // ss
            if nsec:
                s0 = rng.randrange(nsec)
                qs.append(["S", s0, rng.randrange(1, min(nsec - s0, 300) + 1)])
    for g in groups:                                    # the directed groups go anywhere between the random operations
        at = rng.randrange(front, len(qs) + 1)
        qs[at:at] = g
    return qs


def is_error_op(q):
    return (q[0] == "s" and q[2] == 0 and q[1] < 0) or (q[0] in ("r", "ri", "p") and q[1] < -1) or (q[0] in ("o", "O") and q[1] < 0)


def qcow2_points(t, maps):
    """cluster boundaries next to the clusters present in the given maps (0 = active, j+1 = snapshot j), a few sub-cluster
    boundaries for extended L2 entries"""
    cs, pts = t.cs, set()
    for k in maps:
        for c in t.keys[k]:
            pts |= {c * cs, (c + 1) * cs}
            if t.ext and c % 3 == 0:
                pts.add(c * cs + (1 + c % 31) * (cs // 32))
    return sorted(p for p in pts if 0 < p < t.size) or [min(cs, t.size - 1) or 1]


def gen_view_history(rng, t, streams, align, n):
    """one interleaved history over several streams of one image: [["v", stream index, op …]]. Every stream gets its own
    random history (positions are per stream); the merge keeps each stream's order and switches stream every 1..4 operations;
    cross-view probes read the same (offset, length) of a guest cluster through every stream, in varying order, twice."""
    size, cs = t.size, t.cs
    per = []
    for sidx, view in enumerate(streams):
        h = gen_history(rng, size, align, 512, False, n, points=qcow2_points(t, [view]) if rng.random() < 0.7 else None, unit=cs)
        per.append([q for q in h if not is_error_op(q)])
    merged, idx = [], [0] * len(streams)
    while any(idx[s] < len(per[s]) for s in range(len(streams))):
        s_ = rng.choice([s for s in range(len(streams)) if idx[s] < len(per[s])])
        k = rng.randrange(1, 5)
        merged += [["v", s_] + q for q in per[s_][idx[s_]: idx[s_] + k]]
        idx[s_] += k
    views = sorted(set(streams))
    common = [c for c in sorted(set().union(*[set(t.keys[v]) for v in views])) if sum(1 for v in views if c in t.ent[v]) >= 2 and c * cs < size]
    for _ in range(rng.choice([4, 6, 10])):
        c = rng.choice(common) if common and rng.random() < 0.9 else rng.randrange(-(-size // cs))
        off = c * cs + rng.choice([0, 0, 1, rng.randrange(cs), cs - 1])
        ln = rng.choice([1, 17, 512, cs, cs + 1, align, rng.randrange(1, 2 * cs + 2)])
        order = list(range(len(streams)))
        rng.shuffle(order)
        probe = [["v", s_, "O", min(off, size - 1), ln] for s_ in order + order[: rng.choice([0, 1, len(order)])]]
        at = rng.randrange(len(merged) + 1)
        merged[at:at] = probe
    return merged


def generate(seed, tier):
    rng = random.Random(f"C08/{seed}/{tier}")
    per = 40 if tier == "quick" else 500
    cases = []
    for cls in CLASSES:
        m = mod(cls)
        crng = random.Random(f"C08/{seed}/{tier}/{cls}")
        for i in range((PER_QUICK if tier == "quick" else PER_THOROUGH).get(cls, per)):
            draw_nops = lambda: crng.randrange(12, 60) if tier == "quick" else crng.randrange(20, 400)   # noqa: E731
            if cls == "c01x":
                gq = m.gen_qcow2
                r = gq.gen_recipe(crng, "quick", nsnaps=0, ext=True, dense=True, sub_patterns=gq.SUB_PATTERNS_HOLES,
                                  comp=crng.random() < 0.5, datafile=crng.choice([None, None, None, "arb"]), depth=1)
                case = {"id": f"{cls}-{i}", "cls": cls, "recipe": r, "align": crng.choice([512, 1536, 4096, 8192, 8192, 65536, 1 << 20])}
                t = m.truth_of(case)
                case["queries"] = gen_history(crng, t.size, case["align"], 512, False, draw_nops() // 2, points=qcow2_points(t, [0]), unit=t.cs)
                cases.append(case)
                continue
            if cls == "c01v":
                gq = m.gen_qcow2
                r = gq.gen_recipe(crng, "quick", nsnaps=crng.choice([1, 2, 2, 3]), snap_cow=0.85, dense=True, datafile=None, depth=1,
                                  kinds=["c", "c", "c", "n", "s", "z"], **({"cluster_bits": crng.choice([9, 9, 10, 12])} if i % 3 == 0 else {}))
                case = {"id": f"{cls}-{i}", "cls": cls, "recipe": r, "align": crng.choice([512, 1536, 4096, 8192, 8192, 65536, 1 << 20])}
                t = m.truth_of(case)
                ns = len(r["snaps"])
                # stream 0 = the active image object; the others are snapshots[view - 1].open(), opened at their first operation
                streams = [0] + crng.sample(range(1, ns + 1), min(ns, crng.choice([1, 2, 2])))
                if crng.random() < 0.3:
                    streams.append(crng.choice(streams[1:]))              # the same snapshot opened twice: two streams, one view
                if crng.random() < 0.15:
                    streams = streams[1:]                                  # snapshot views only
                case["streams"] = streams
                case["queries"] = gen_view_history(crng, t, streams, case["align"], max(6, draw_nops() // len(streams)))
                cases.append(case)
                continue
            if cls == "c06h":
                import gen_hdd
                r = gen_hdd.gen_recipe(crng, tier, max_depth=2 if i % 6 == 5 else 1, nst=[2, 3, 4, 5, 2, 3][i % 6], disorder=0.7, mult=[1, 1, 4, 16, 32][i % 5])
                case = {"id": f"{cls}-{i}", "cls": cls, "fam": "hdd", "recipe": r, "align": HDD_ALIGNS[i % len(HDD_ALIGNS)]}
                size, _, _ = m.truth_reader(case)
                bounds = sorted(st["start"] * 512 for st in r["storages"] if st["start"] > 0)
                unit = min((st["end"] - st["start"]) * 512 for st in r["storages"])
                case["queries"] = gen_history(crng, size, case["align"], 512, False, draw_nops() // 2, points=bounds, unit=unit, every_point=i)
                cases.append(case)
                continue
            if cls == "c03d":
                gv = m.gen_vhdx
                ss = 4096 if i % 4 == 3 else 512
                r = gv.gen_diff_recipe(crng, tier, depth=2 + (i % 3 == 1), ss=ss, shape=i)
                al = VHDX_DIFF_ALIGNS[ss]
                case = {"id": f"{cls}-{i}", "cls": cls, "recipe": r, "align": al[(i // 4 if ss == 4096 else i - i // 4) % len(al)]}
                size, _, _ = m.truth_reader(case)
                top = r["layers"][-1]
                pts = sorted({b * l["bs"] for l in r["layers"] for b, st in enumerate(l["blocks"]) if st == 7 and 0 < b * l["bs"] < size} |
                             {b * l["bs"] + ss * sum(k for _, k in l["bitmaps"][str(b)][:j]) for l in r["layers"][1:] for b, st in enumerate(l["blocks"]) if st == 7
                              for j in (1, 2, 5) if 0 < b * l["bs"] + ss * sum(k for _, k in l["bitmaps"][str(b)][:j]) < size})
                sq = gv.gen_sector_queries(crng, r, 10)
                case["queries"] = gen_history(crng, size, case["align"], ss, True, draw_nops() // 2, points=pts or None, unit=8 * ss,
                                              extra=[sq[j:j + 2] for j in range(0, len(sq), 2)])
                cases.append(case)
                continue
            if cls == "c03":
                r = m.gen_vhdx.gen_recipe(crng, tier, depth=1, big=(i % 10 == 3))
                ss = r["layers"][-1]["ss"]
            elif cls == "c02":
                r = m.gen_vmdk.gen_extent(crng, tier, huge=False)
                if r["kind"] == "flat":
                    r["extra"] = 0
                ss = 512
            elif cls == "c04":
                if i % 3 == 1:      # many large blocks, many of them sparse: room for state kept between backend requests to go stale
                    while True:
                        r = m.gen_recipe(crng, tier, bs=crng.choice([65536, 1 << 19]), nb=crng.choice([40, 120]))
                        if r["kind"] == "dynamic":
                            break
                else:
                    r = m.gen_recipe(crng, tier, big=(i % 10 == 3))
                ss = 512
            elif cls == "c01":
                if i % 4 == 1:      # external data file with arbitrary placement and enough clusters for multi-cluster requests
                    cb = crng.choice([9, 10, 12])
                    r = m.gen_qcow2.gen_recipe(crng, "quick", nsnaps=0, version=3, ext=False, datafile="arb", cluster_bits=cb,
                                               size=crng.randrange(40, 200) << cb)
                else:
                    r = m.gen_qcow2.gen_recipe(crng, "quick", nsnaps=0, many_l2=(i % 6 == 2))
                ss = 512
            else:
                r = m.gen_recipe(crng, tier, big=(i % 15 == 3)) if cls != "c06" else m.gen_recipe(crng, tier)
                ss = 512
            aligns = [512, 1536, 4096, 8192, 8192, 65536, 1 << 20] if ss == 512 else [4096, 8192, 8192, 12288, 65536, 1 << 20]
            align = crng.choice(aligns)
            case = {"id": f"{cls}-{i}", "cls": cls, "recipe": r, "align": align}
            size, _, ss2 = m.truth_reader(case)
            case["queries"] = gen_history(crng, size, align, ss2, cls in ("c03", "c02"), draw_nops())
            cases.append(case)
    return cases


def group_by_env(cases):
    by = {}
    for c in cases:
        by.setdefault(c.get("align", 8192), []).append(c)
    return [({"DISSECT_STREAM_BUFFER_SIZE": a}, cs) for a, cs in sorted(by.items())]


def split_streams(case):
    """per-stream sub-histories of a multi-view history, and the stream index of every operation"""
    per = [[] for _ in case["streams"]]
    order = []
    for q in case["queries"]:
        per[q[1]].append(q[2:])
        order.append(q[1])
    return per, order


def merge_streams(order, answers):
    """per-stream answer lists -> one list in history order; ends at the first error (every stream stops at its first error, and
    so does the whole history) or where a stream has no answer"""
    it = [0] * len(answers)
    out = []
    for s in order:
        if answers[s] is None or it[s] >= len(answers[s]):
            break
        out.append(answers[s][it[s]])
        it[s] += 1
        if out[-1] == "E":
            break
    return out


def build(case):
    m = mod(case["cls"])
    b = m.build(dict(case, queries=[]))
    if case["cls"] == "c01v":
        t = m.truth_of(case)
        per, order = split_streams(case)
        b.truth = merge_streams(order, [core.truth_ops(t.size, t.read if v == 0 else t.snapshot_reader(v - 1), per[s])
                                        for s, v in enumerate(case["streams"])])
        qs = [q[2:] for q in case["queries"]]
        cs = t.cs
        views = sorted(set(case["streams"]))
        # guest clusters that are compressed in two of the views read, with different content / through the same blob
        cdiff = sum(1 for c in t.ent[views[0]] if sum(1 for v in views if c in t.ent[v] and t.ent[v][c][0][0] == "c") >= 2
                    and len({t.ent[v][c][1] for v in views if c in t.ent[v] and t.ent[v][c][0][0] == "c"}) >= 2)
        cshared = sum(1 for v in views[1:] for c, e in t.ent[v].items() if e[0][0] == "c" and views[0] == 0 and t.ent[0].get(c) == e)
        b.info["branches"] = b.info["branches"] + [f"streams{len(case['streams'])}", f"views{len(views)}"] + \
            (["same_cluster_compressed_differently"] if cdiff else []) + (["shared_compressed_blob"] if cshared else []) + \
            (["snapshot_twice"] if len(views) < len(case["streams"]) else [])
        b.info["multi"] = len(views) >= 2
    else:
        size, reader, ss = m.truth_reader(case)
        b.truth = core.truth_ops(size, reader, case["queries"], sector_size=ss)
        qs = case["queries"]
    a = case["align"]
    b.info["has_seek"] = any(q[0] == "s" for q in qs)
    b.info["has_peek"] = any(q[0] == "p" for q in qs)
    b.info["big_read"] = any(q[0] in ("r", "ri", "p", "O") and q[-1] > a for q in qs)
    extra = [x for x in b.info.get("branches", []) if case["cls"] in ("c01x", "c01v") and (x in ("ext", "std") or x.startswith(("streams", "views", "same_", "shared_", "snapshot_")))]
    b.info["branches"] = [case["cls"], f"align{a}"] + sorted({q[0] for q in qs}) + extra
    return b


def impl_run(case, built):
    m = mod(case["cls"])
    s = m.open_impl(case, built)
    if s.align != case["align"]:
        raise RuntimeError(f"stream align {s.align} != case align {case['align']}")
    if case["cls"] == "c01v":
        # all streams work on the file handle(s) of `s`; a snapshot view is opened when its stream is first used
        objs = {k: s for k, v in enumerate(case["streams"]) if v == 0}
        answers, errors = [], {}
        for i, q in enumerate(case["queries"]):
            k = q[1]
            try:
                if k not in objs:
                    objs[k] = s.snapshots[case["streams"][k] - 1].open()
            except Exception as e:  # noqa
                answers.append("E")
                errors[str(i)] = f"open: {type(e).__name__}: {e}"[:300]
                break
            r = core.impl_ops(objs[k], [q[2:]])
            answers += r["answers"]
            if r["errors"]:
                errors[str(i)] = list(r["errors"].values())[0]
                break
        return {"answers": answers, "errors": errors}
    return core.impl_ops_sec(s, case["queries"])


def model_lines(case, built):
    m = mod(case["cls"])
    if case["cls"] == "c01v":
        # one model run per stream on that stream's sub-history: by `snapshot_view_independent` / `active_view_independent`
        # (HvProps/C08.lean) nothing a view does is visible in another, so the answer to the interleaved history is the
        # interleaving of these answers; then the hypotheses of those theorems for every view in use
        toks, a = built.info["tokens"], case["align"]
        tk = f"{len(toks)} " + " ".join(toks)
        per, _ = split_streams(case)
        lines = core.file_lines(built.files)
        for k, v in enumerate(case["streams"]):
            ops = " ".join(core.op_tokens(per[k]))
            lines.append(f"qcow2.stream {a} {tk} {ops}" if v == 0 else f"qcow2.snap {a} {v - 1} {tk} {ops}")
        for v in sorted(set(case["streams"])):
            lines.append(f"qcow2.open {a} " + " ".join(toks) if v == 0 else f"qcow2.snapwf {a} {v - 1} " + " ".join(toks))
        return lines
    ops = " ".join(core.op_tokens(case["queries"]))
    lines = core.file_lines(built.files) + [m.open_line(case, built), m.stream_prefix(case, built) + " " + ops]
    if case["cls"] in ("c01", "c01x") and m.spec_line_wanted(built.info["tokens"]):
        # QCOW2: the same history answered from the pointwise specification `guest` (an instance of
        # `qcow2_stream_refines_array` on this image, buffer size and history)
        toks = built.info["tokens"]
        lines.append(f"qcow2.spec {case['align']} {len(toks)} " + " ".join(toks) + " " + ops)
    return lines


def model_parse(case, built, out):
    """wf: the model's well-formedness flag of the class. QCOW2 (`qcow2.open <align> …`): every contributing layer satisfies
    `conformantToB q (roundUp size align)` — tables well-formed up to the end of the last stream buffer, the hypothesis of
    `qcow2_stream_refines_array` / `qcow2_backendOK` for this buffer size (Hv/Qcow2Stream.lean, `qcowWf` in the driver)."""
    if case["cls"] == "c01v":
        ns = len(case["streams"])
        _, order = split_streams(case)
        per = [core.parse_stream_answer(l) for l in out[:ns]] if len(out) >= ns else None
        wfl = out[ns:]
        wf = bool(per) and len(wfl) == len(set(case["streams"])) and all(l.startswith("ok") and "wf=1" in l for l in wfl)
        return {"answers": merge_streams(order, per) if per and all(p is not None for p in per) else None, "wf": wf, "open": wfl}
    wf = ("wf=1" in out[0]) if out and out[0].startswith("ok") else None
    answers = core.parse_stream_answer(out[1]) if len(out) > 1 else None
    rec = {"answers": answers, "wf": wf, "open": out[0] if out else None}
    if case["cls"] in ("c01", "c01x") and len(out) > 2 and wf:
        spec = core.parse_stream_answer(out[2])
        rec["spec_eq_model"] = (spec == answers)
        if spec != answers:
            rec["spec"] = spec
    return rec


def nontrivial(case, built, model):
    i = built.info
    return bool(model.get("wf")) and i["has_seek"] and i["has_peek"] and i["big_read"] and i.get("multi", True)


def search(seed, broken, budget):
    return generate(seed + 1000, "quick")
