"""C20 — vmtar. Independent archive writer (gen_vmtar), the real `vmtar.open` (and `tarfile.open` for plain
archives), the Lean model of VisorTarInfo + the inherited tarfile iteration, compared member by member."""
from __future__ import annotations

import io
import random
import zlib

import core
import gen_vmtar
from core import Built

PROPERTY = "C20"
RULE = ("seeded archive generator (independent writer): visor / mixed / plain archives, 0..200 members, files / directories / "
        "symlinks / empty files, data areas in header, reversed, shuffled or size order with gaps (zero or garbage), alignment "
        "1..4096, members aliasing other members' bytes, ustar prefix names, GNU long names, four number encodings (incl. GNU "
        "base-256), gzip-wrapped archives, data offsets at and beyond 2^31 (sparse 4 GiB files); directed in every run: visor headers "
        "whose byte 264 behind the 7-byte magic is blank / '0' / 0x01 / 0xFF / ... instead of NUL (visor and mixed archives, plain and "
        "gzip), standard members whose magic field is a near miss of the visor magic, data-area members whose content is itself a tar archive at a "
        "block-aligned position and archives followed by a second tar archive (the listing ends at the end-of-archive marker); plus archives WRITTEN BY THE "
        "LEAN WRITER of theorem vmtar_members_roundtrip (Hv/VmtarEnc.encode, run by the driver on generated member specs and "
        "layouts inside the theorem's WF: shuffled data areas with gaps, inline members, directories, empty files, extreme "
        "mode/uid/gid/mtime) and read back by the real vmtar.open. Every member's listing fields and "
        "the CRC of its extracted bytes (extracted twice, second time in reverse order) are compared: real code vs Lean model "
        "vs construction truth; plain archives are additionally compared with tarfile.open. Non-trivial = at least two members "
        "and at least one non-empty visor file placed in a data area (or, for plain archives, one non-empty file).")
ASSUMPTIONS = ["CPython tarfile (3.12) is transcribed in Hv/Vmtar.lean: modelled, not verified",
               "names are compared as UTF-8 bytes (surrogateescape), pax / old-GNU-sparse members are outside the model",
               "a visor prefix field of 151 bytes without terminating NUL (edge 'prefix151') is compared model-vs-implementation only"]
TIMEOUT_CASE = 60.0


def _hex(s: str) -> str:
    return s.encode("utf-8", "surrogateescape").hex()


def canon_member(d: dict, visor_fields: bool) -> str:
    body = "-"
    if d["type"] == "file":
        body = f"{d['size'] if d.get('xlen') is None else d['xlen']}:{d['crc32']}"
    f = [_hex(d["name"]), d["type"], str(d["size"]), body, str(d["mode"]), str(d["uid"]), str(d["gid"]), str(d["mtime"]),
         _hex(d["uname"]), _hex(d["gname"]), _hex(d["linkname"]), str(d["hdr"]), str(d["offset_data"])]
    if visor_fields:
        v = bool(d.get("is_visor"))
        f += ["1" if v else "0", str(d["text_pgs"]) if v else "-", str(d["fixup_pgs"]) if v else "-"]
    return ",".join(f)


def _pad512(n: int) -> int:
    return (512 - n % 512) % 512


def gen_enc_spec(rng) -> dict:
    """Input of the Lean writer `Hv.VmtarEnc.encode` (theorem vmtar_members_roundtrip): member specs + layout.
    Data areas are placed behind the end-of-archive blocks in shuffled order with random gaps (sometimes none)."""
    n = rng.choice([1, 2, 2, 3, 4, 5, 6, 8])
    alphabet = list(range(1, 256))
    ms = []
    for _ in range(n):
        kind = rng.choice(["visor", "visor", "visor", "ustar", "ustar", "visor0", "dir", "vdir"])
        ln = rng.choice([1, 2, 5, 17, 99, 100, rng.randint(1, 100)])
        name = bytes(rng.choice(alphabet) if rng.random() < 0.2 else rng.choice(b"abcxyz019._-/") for _ in range(ln))
        is_dir = kind in ("dir", "vdir")
        if is_dir and rng.random() < 0.7:
            name = name[:99] + b"/"
        size = 0 if is_dir else rng.choice([0, 1, 3, 511, 512, 513, 1024, rng.randint(0, 1500)])
        data = bytes(rng.getrandbits(8) for _ in range(size))
        ms.append({"name": name.hex(), "dir": is_dir, "kind": kind, "data": data.hex(),
                   "mode": rng.choice([0o644, 0o755, 0, 0o7777777, rng.randrange(8 ** 7)]),
                   "uid": rng.choice([0, 1000, 8 ** 7 - 1]), "gid": rng.choice([0, 100, rng.randrange(8 ** 7)]),
                   "mtime": rng.choice([0, 1700000000, 8 ** 11 - 1]), "visor": None})
    hdr = 0
    for m in ms:
        inline = m["kind"] in ("ustar", "dir", "visor0", "vdir")
        ln = len(m["data"]) // 2
        hdr += 512 + ((ln + _pad512(ln)) if inline else 0)
        if m["kind"] in ("visor0", "vdir"):
            m["visor"] = 0
    pos = hdr + 1024
    area = [m for m in ms if m["kind"] == "visor"]
    rng.shuffle(area)
    for m in area:
        pos += rng.choice([0, 0, 1, 7, 512, rng.randint(0, 700)])
        m["visor"] = pos
        pos += len(m["data"]) // 2
    size = pos + rng.choice([0, 0, 3, 512])
    return {"members": ms, "size": size, "seed": rng.randrange(251)}


def _enc_line(e: dict) -> str:
    toks = []
    for m in e["members"]:
        toks.append(",".join([m["name"] or "-", "d" if m["dir"] else "f", "-" if m["visor"] is None else str(m["visor"]),
                              m["data"] or "-", str(m["mode"]), str(m["uid"]), str(m["gid"]), str(m["mtime"])]))
    return f"vmtar.enc {e['size']} {e['seed']} " + " ".join(toks)


def gen_enc_cases(rng, n: int) -> list[dict]:
    """archives written by the Lean writer of the round-trip theorem (one driver batch); read back by the real vmtar.open"""
    specs = [gen_enc_spec(rng) for _ in range(n)]
    out = core.run_model([(f"e{i}", [_enc_line(e)]) for i, e in enumerate(specs)])
    cases = []
    for i, e in enumerate(specs):
        ans = out.get(f"e{i}") or []
        parts = ans[0].split(" ") if ans else []
        if len(parts) != 4 or parts[0] != "ok":
            continue                      # driver not built / refused: the writer cases are simply absent
        cases.append({"id": f"e{i}", "recipe": {"enc": e, "wf": parts[1] == "1", "rt": parts[2] == "1", "hex": parts[3]},
                      "queries": ["list"]})
    return cases


def generate(seed, tier):
    rng = random.Random(f"C20/{seed}/{tier}")
    n = 260 if tier == "quick" else 3000
    cases = []
    for i in range(n):
        r = gen_vmtar.gen_recipe(rng, tier)
        cases.append({"id": f"g{i}", "recipe": r, "queries": ["list"]})
    # directed, in every run: visor headers whose byte 264 (behind the 7-byte magic) is not NUL, standard members whose magic field
    # is close to the visor magic; plain and gzip-wrapped (gen_vmtar.directed_recipes)
    for i, r in enumerate(gen_vmtar.directed_recipes(seed, tier)):
        cases.append({"id": f"d{i}", "recipe": r, "queries": ["list"]})
    cases += gen_enc_cases(random.Random(f"C20enc/{seed}/{tier}"), 40 if tier == "quick" else 300)
    return cases


def py_encode(e: dict) -> bytes:
    """the archive of a writer case, written here from the member specs alone (classic tar arithmetic, hard-coded visor
    positions): the bytes the real code gets never depend on the Lean writer or on extracted constants"""
    hs = bytearray()
    for m in e["members"]:
        name, body = bytes.fromhex(m["name"]), bytes.fromhex(m["data"])
        h = bytearray(512)
        h[0:len(name[:100])] = name[:100]
        h[100:108] = b"%07o\0" % m["mode"]
        h[108:116] = b"%07o\0" % m["uid"]
        h[116:124] = b"%07o\0" % m["gid"]
        h[124:136] = b"%011o\0" % len(body)
        h[136:148] = b"%011o\0" % m["mtime"]
        h[156] = 0x35 if m["dir"] else 0x30
        h[257:265] = b"ustar\x0000" if m["visor"] is None else b"visor  \0"
        h[496:500] = (m["visor"] or 0).to_bytes(4, "little")
        h[148:156] = b" " * 8
        h[148:156] = b"%06o\0 " % sum(h)
        hs += h
        if m["visor"] in (None, 0):
            hs += body + bytes(_pad512(len(body)))
    hs += bytes(1024)
    out = bytearray((i * 131 + e["seed"]) % 251 for i in range(e["size"]))
    out[:len(hs)] = hs
    out = out[:e["size"]]
    for m in reversed(e["members"]):                 # the first member whose data area covers a byte decides
        if m["visor"]:
            body = bytes.fromhex(m["data"])
            for k, b in enumerate(body):
                if m["visor"] + k >= len(hs) and m["visor"] + k < len(out):
                    out[m["visor"] + k] = b
    return bytes(out)


def build_enc(case):
    """truth for a writer case, from the member specs alone (independent of the Lean `expected`); the bytes come from
    `py_encode`; the Lean writer's bytes (`hex`) are only compared with them (`enc_same`)"""
    from sparse import Image
    r = case["recipe"]
    e = r["enc"]
    data = py_encode(e)
    lean_same = data == bytes.fromhex(r["hex"])
    truth, pos = [], 0
    for m in e["members"]:
        name = bytes.fromhex(m["name"])
        body = bytes.fromhex(m["data"])
        inline = m["visor"] in (None, 0)
        is_visor = m["visor"] is not None
        d = {"name": (name.rstrip(b"/") if m["dir"] else name).decode("utf-8", "surrogateescape"),
             "type": "dir" if m["dir"] else "file", "size": len(body), "mode": m["mode"], "uid": m["uid"], "gid": m["gid"],
             "mtime": m["mtime"], "uname": "", "gname": "", "linkname": "", "hdr": pos,
             "offset_data": pos + 512 if inline else m["visor"], "crc32": zlib.crc32(body) & 0xFFFFFFFF, "xlen": None,
             "is_visor": is_visor, "text_pgs": 0, "fixup_pgs": 0}
        truth.append(canon_member(d, True))
        pos += 512 + ((len(body) + _pad512(len(body))) if inline else 0)
    ms = e["members"]
    branches = sorted({"enc-writer"} | {"enc-" + m["kind"] for m in ms})
    nt = len(ms) >= 2 and any(m["kind"] == "visor" and m["data"] for m in ms)
    im = Image(len(data))
    im.put_hex(0, data)
    bl = Built({"a": im}, ["N%d" % len(ms)] + truth,
               {"branches": branches, "in_scope": True, "compare_model_out_of_scope": True, "nontrivial": nt, "plain": False,
                "gz": False, "enc": True, "enc_wf": bool(r["wf"]), "enc_rt": bool(r["rt"]), "enc_same": lean_same})
    bl.data = data
    return bl


def build(case):
    r = case["recipe"]
    if "enc" in r:
        return build_enc(case)
    b = gen_vmtar.build(r)
    ms = b["members"]
    for t, m in zip(ms, r["members"]):
        t["xlen"] = None
    truth = ["N%d" % len(ms)] + [canon_member(t, True) for t in ms]
    if b["plain"]:
        truth += ["N%d" % len(ms)] + [canon_member(t, False) for t in ms]
    rm = r["members"]
    branches = sorted({("visor" if m["visor"] else "std") + "-" + m["type"] for m in rm}
                      | {"place-" + m["place"] for m in rm}
                      | ({"long"} if any(m["long"] for m in rm) else set())
                      | ({"prefix"} if any(m["pre"] and not m["long"] for m in rm) else set())
                      | ({"gz"} if b["gz"] else set()) | ({"huge"} if r["huge"] else set())
                      | ({"plain"} if b["plain"] else set())
                      | ({"visor-byte264-" + ("nul" if not m.get("b264") else "nonnul") for m in rm if m["visor"]})
                      | ({"near-visor-magic"} if any(m["magic"].startswith("raw:") for m in rm) else set())
                      | ({"tar-content"} if any(m.get("tar") for m in rm) else set()) | ({"tail-tar"} if r.get("tailtar") else set()))
    nt = len(rm) >= 2 and (any(m["visor"] and m["type"] == "file" and m["size"] > 0 and m["place"] in ("area", "alias") for m in rm)
                           or (b["plain"] and any(m["type"] == "file" and m["size"] > 0 for m in rm)))
    info = {"branches": branches, "in_scope": "prefix151" not in b["edges"], "compare_model_out_of_scope": True,
            "nontrivial": nt, "plain": b["plain"], "gz": b["gz"]}
    bl = Built({"a": b["image"]}, truth, info)
    bl.data = b["data"]
    return bl


def _list(opener, src, visor_fields):
    import hashlib  # noqa
    fo = io.BytesIO(src) if isinstance(src, (bytes, bytearray)) else src.open()
    tf = opener(fileobj=fo, mode="r")
    infos = tf.getmembers()
    out = []
    for ti in infos:
        typ = "file" if ti.isreg() else "dir" if ti.isdir() else "sym" if ti.issym() else "t%d" % ti.type[0]
        d = {"name": ti.name, "type": typ, "size": ti.size, "mode": ti.mode, "uid": ti.uid, "gid": ti.gid, "mtime": ti.mtime,
             "uname": ti.uname, "gname": ti.gname, "linkname": ti.linkname, "hdr": ti.offset, "offset_data": ti.offset_data,
             "crc32": None, "xlen": None}
        if visor_fields:
            d.update(is_visor=ti.is_visor, text_pgs=ti.textPgs, fixup_pgs=ti.fixUpPgs)
        if ti.isreg():
            data = tf.extractfile(ti).read()
            d["crc32"], d["xlen"] = zlib.crc32(data) & 0xFFFFFFFF, len(data)
        out.append(d)
    for ti, d in zip(reversed(infos), reversed(out)):       # extraction must not depend on order / earlier extractions
        if ti.isreg():
            data = tf.extractfile(ti).read()
            if (zlib.crc32(data) & 0xFFFFFFFF, len(data)) != (d["crc32"], d["xlen"]):
                d["crc32"] = "unstable"
    return ["N%d" % len(out)] + [canon_member(d, visor_fields) for d in out]


def impl_run(case, built):
    import tarfile

    from dissect.hypervisor.util import vmtar
    src = built.data if built.data is not None else built.files["a"]
    answers, errors = [], {}
    try:
        answers += _list(vmtar.open, src, True)
    except Exception as e:  # noqa
        answers.append("E")
        errors["0"] = f"{type(e).__name__}: {e}"[:300]
    if built.info["plain"]:
        try:
            answers += _list(tarfile.open, src, False)
        except Exception as e:  # noqa
            answers.append("E")
            errors["plain"] = f"{type(e).__name__}: {e}"[:300]
    return {"answers": answers, "errors": errors}


def model_lines(case, built):
    lines = core.file_lines(built.files) + ["vmtar.list a 1"]
    if built.info["plain"]:
        lines.append("vmtar.list a 0")
    return lines


def _parse_list(line, visor_fields):
    if line is None:
        return None
    if line.startswith("err"):
        return ["E"]
    if not line.startswith("ok "):
        return ["?" + line[:40]]
    parts = line.split(" ", 2)
    n = int(parts[1])
    ms = parts[2].split("|") if len(parts) > 2 and parts[2] else []
    out = ["N%d" % n]
    for m in ms:
        f = m.split(",")
        if f[13] == "0":
            f[14] = f[15] = "-"
        out.append(",".join(f if visor_fields else f[:13]))
    return out


def model_parse(case, built, out):
    if not out:
        return {"answers": None, "wf": None}
    ans = _parse_list(out[0], True)
    if built.info["plain"] and len(out) > 1:
        ans = ans + _parse_list(out[1], False)
    unsupported = any(l.startswith("unsupported") for l in out)
    if built.info.get("enc"):
        # a case inside the hypotheses of vmtar_members_roundtrip: the evaluated instance of the theorem must hold
        if built.info["enc_wf"] and not built.info["enc_rt"]:
            ans = (ans or []) + ["ROUNDTRIP-INSTANCE-FAILED"]
        if not built.info.get("enc_same", True):    # the Lean writer and the Python writer disagree: a broken tie, never a verdict
            ans = (ans or []) + ["WRITER-MISMATCH"]
        return {"answers": ans, "wf": built.info["enc_wf"] and built.info["enc_rt"], "raw": [l[:200] for l in out]}
    return {"answers": None if unsupported else ans, "wf": (not unsupported) and built.info["in_scope"], "raw": [l[:200] for l in out]}


def nontrivial(case, built, model):
    return built.info["nontrivial"]


def search(seed, broken, budget):
    rng = random.Random(f"C20/search/{seed}")
    return [{"id": f"s{i}", "recipe": gen_vmtar.gen_recipe(rng, "thorough"), "queries": ["list"]} for i in range(min(budget, 1500))]


def shrink(case):
    """drop members while the implementation still disagrees with construction truth"""
    r = case["recipe"]
    if "enc" in r:
        return case                  # writer cases are small (≤ 8 members) and carry their bytes; reported as they are

    def failing(rec):
        c = dict(case, recipe=rec)
        try:
            b = build(c)
            res = core.run_impl(__name__, [c], timeout_case=TIMEOUT_CASE, nproc=1).get(c["id"], {})
            return bool(res.get("fatal")) or res.get("answers") != b.truth
        except Exception:
            return False
    changed = True
    rounds = 0
    while changed and len(r["members"]) > 1 and rounds < 40:
        changed = False
        rounds += 1
        for i in reversed(range(len(r["members"]))):
            ms = r["members"]
            if any(m.get("alias", [None])[0] is not None and m["alias"][0] >= i for m in ms if m.get("place") == "alias"):
                continue
            keep = [j for j in range(len(ms)) if j != i]
            remap = {j: k for k, j in enumerate(keep)}
            area = [remap[j] for j in r["area"] if j != i]
            gaps = [g for j, g in zip(r["area"], r["gaps"]) if j != i]
            r2 = dict(r, members=[ms[j] for j in keep], area=area, gaps=gaps)
            if failing(r2):
                r = r2
                changed = True
                break
    return dict(case, recipe=r)
