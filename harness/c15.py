"""C15 — encrypted VMX: unlock round-trips and is authenticated.

Independent sealer (gen_vmx: pycryptodome + hashlib, truth by construction), the real `VMX.parse(text).unlock_with_phrase(p)`
and the Lean model of the unlock path (Hv/Vmx.lean) over *abstract primitives*: the model receives PBKDF2 / HMAC / AES-CBC /
base64 / int() / UTF-8 / .vmx-dictionary evaluations as a finite table computed here with the real libraries for exactly
the calls it makes (fixed point: the driver answers `need <call>` until the table is complete; a call that cannot be
served is a protocol error, never a verdict).

A case = one or two encrypted .vmx files + a history of unlock attempts executed one after the other in ONE process
(fresh `VMX.parse` per attempt).  Answer per attempt: `ok`/`E` + digest of the sorted visible configuration after it."""
from __future__ import annotations

import base64
import hashlib
import hmac as _hmac
import json
import random

import core
import gen_vmx
from core import Built

PROPERTY = "C15"
RULE = ("seeded generator over the independent sealer gen_vmx: every cipher x MAC x KDF combination (18) in equal shares, rounds 1..50000 "
        "(mostly < 60 in the quick tier), salts 0..64 bytes, hidden configurations 0..60 lines with every length residue mod 16 and last "
        "bytes equal to the PKCS#7 pad length ('\\n' with len%16==6, '\\t'/7, '\\r'/3, 0x10/0, 0x0f/1, 0x01/15 ...), 1..4 locator pairs in any "
        "position incl. earlier pairs for another passphrase carrying the SAME phrase id with other salt/rounds/cipher/KDF, three "
        "percent-encoding styles, shuffled crypto-dict members; per file: the correct passphrase, the other pairs' passphrases, two wrong "
        "passphrases, single-byte alterations (one per region: IV / ciphertext / MAC / salt) of wrapped key, data and salt; two files with "
        "the same phrase id + passphrase but different parameters unlocked alternately in one process. Compared per attempt: ok/E and "
        "the sorted visible configuration after the attempt — real code vs Lean model vs construction truth. Alterations that reach "
        "only PKCS#7 padding are generated as separate single-attempt cases (kind-padonly). Directed family kind-padvalid (wrong keys that "
        "look right): key safes with 2..4 pairs for different passphrases in which a pair pads validly (PKCS#7) under the key its "
        "locator derives from ANOTHER pair's passphrase — the earlier pair under the later passphrase, the later under the earlier, every "
        "earlier pair under the last, a middle pair — or under a foreign passphrase, and configuration blobs that pad validly under "
        "the data key of a pair with another key; the colliding salt / IV is found by a deterministic search (gen_vmx."
        "force_pad_collision), the victim pair runs through all 18 cipher x MAC x KDF combinations; every pair's passphrase is tried. "
        "Directed family kind-encoding (64 per quick run): the plain-text envelope carries .encoding absent / UTF-8 / utf-8 / windows-1252 / "
        "Shift_JIS / GBK / ISO-8859-1 / an unknown name / windows-932 / Big5 / EUC-KR / cp1252 / latin1 / US-ASCII / UTF-16 / windows-1251 "
        "while the encrypted configuration (UTF-8 by construction, with or without a .encoding = UTF-8 line of its own) holds values "
        "and keys outside ASCII: Latin-1 letters whose UTF-8 form has the bytes 0x81/0x8d/0x8f/0x90/0x9d, euro sign, Greek, Cyrillic, "
        "Hebrew, CJK, Hangul, emoji; correct / wrong passphrases and again on the same object.")
ASSUMPTIONS = ["primitives are modelled, not verified: PBKDF2, HMAC, AES-CBC (pycryptodome), base64.b64decode, int(), bytes.decode() and the .vmx "
               "dictionary syntax are parameters of the Lean model, supplied as a per-attempt table computed with the real libraries",
               "text is modelled as UTF-8 bytes; percent-decoded sequences that are not valid UTF-8 are outside the generator",
               "alterations that reach only PKCS#7 padding (accepted before the repair 8052c1c of finding D26) are ordinary in-scope attempts "
               "with truth E: an IV byte over a pad byte breaks the padding, a garbled all-padding block is valid again with chance 2^-128"]
TIMEOUT_CASE = 120.0

# (tail, len % 16): the last plaintext byte equals the pad length 16 - len % 16 (second element None = leave the length alone)
PAD_EQUAL = [("\n", 6), ("\n\n", 6), ("\t", 7), ("\t\t\t", 7), ("\r\n", 6), ("\r", 3), ("\n\x0b", 5), ("\n \x0c", 4), ("\n#\x10", 0), ("\n#\x10\x10", 0),
             ("\n#\x0f", 1), ("\n#\x0e", 2), ("\n#\x08", 8), ("\n#\x07", 9), ("\n#\x05", 11), ("\n#\x04", 12), ("\n#\x03", 13),
             ("\n#\x02", 14), ("\n#\x02\x02", 14), ("\n#\x01", 15), ("\n#\x01\x01", 15)]


# --------------------------------------------------------------------------- canonical answers

def canon(status: str, attr: dict) -> str:
    items = sorted((str(k), str(v)) for k, v in attr.items())
    h = hashlib.sha256(json.dumps(items, ensure_ascii=True).encode()).hexdigest()[:12]
    return f"{status}:{len(items)}:{h}"


# --------------------------------------------------------------------------- generation

def _tampers(b, rng, per_field=1):
    """-> (in-scope tamper queries, padding-only tamper queries); one per region of every field"""
    ins, pads = [], []
    m = b["mac_size"]
    for f in gen_vmx.FIELDS:
        n = len(gen_vmx.field_bytes(b, f))
        if n == 0:
            continue
        regions = [(0, n)] if f == "salt" else [(0, 16), (16, n - m), (n - m, n)]
        for lo, hi in regions:
            for _ in range(per_field):
                pos = rng.randrange(lo, hi)
                xor = rng.choice([1, 0x80, rng.randrange(1, 256), 1 << rng.randrange(8)])
                (pads if gen_vmx.padding_only(b, f, pos) else ins).append(["tamper", f, pos, xor])
        if f != "salt" and rng.random() < 0.5:                  # the very last / first byte of a region
            pos = rng.choice([0, 15, 16, n - m - 1, n - m, n - 1])
            (pads if gen_vmx.padding_only(b, f, pos) else ins).append(["tamper", f, pos, rng.choice([1, 0x10, 0xFF])])
    return ins, pads


def _file_queries(fi, b, rng, tampers=True):
    qs = [[fi, "good"]]
    for w in gen_vmx.wrong_phrases(b, rng, 2):
        qs.append([fi, "wrong", w])
    for j in range(len(b["alt"])):
        qs.append([fi, "alt", j])
    pads = []
    if tampers:
        ins, pads = _tampers(b, rng)
        qs += [[fi] + t for t in ins]
        pads = [[fi] + t for t in pads]
    qs.append([fi, "good"])
    return qs, pads


def _tune(r, rng, i):
    """quick-tier shaping of a gen_vmx recipe: length residues, pad-equal tails"""
    x = i % 4
    if x == 0:
        r["tail"], r["len_mod16"] = rng.choice(PAD_EQUAL)
        r["final_nl"] = True
    elif x == 1:
        r["len_mod16"] = (i // 4) % 16
    return r


def _same_id(r, rng):
    """an earlier pair for ANOTHER passphrase with the SAME phrase id, different salt / rounds / cipher / KDF"""
    taken = {p["passphrase"] for p in r["pairs"]}
    main = r["pairs"][r["pos"]]
    while len(r["pairs"]) < 2 or r["pos"] == 0:
        combo = rng.choice(gen_vmx.COMBOS)
        extra = gen_vmx._gen_pair(rng, combo, False, taken, key_hex=main["key"] if rng.random() < 0.5 else None)
        r["pairs"].insert(0, extra)
        r["pos"] += 1
    for p in r["pairs"]:
        p["phrase_id"] = main["phrase_id"]
    return r


def _seq_variant(r, rng):
    """a second file: same phrase id and passphrase, some of salt / rounds / cipher / KDF changed"""
    r2 = json.loads(json.dumps(r))
    m = r2["pairs"][r2["pos"]]
    what = rng.choice(["salt", "rounds", "cipher", "kdf", "all"])
    if what in ("salt", "all"):
        m["salt"] = rng.randbytes(rng.choice([8, 16, 16, 32])).hex()
    if what in ("rounds", "all"):
        m["rounds"] = m["rounds"] + rng.choice([1, 7, 100])
    if what in ("cipher", "all"):
        m["cipher"] = rng.choice([c for c in gen_vmx.CIPHERS if c != m["cipher"]])
    if what in ("kdf", "all"):
        m["kdf"] = rng.choice([k for k in gen_vmx.KDFS if k != m["kdf"]])
    m["iv"] = rng.randbytes(16).hex()
    r2["data_iv"] = rng.randbytes(16).hex()
    if rng.random() < 0.5:                      # another data key as well
        kc = rng.choice(list(gen_vmx.CIPHERS))
        m["key_cipher"], m["key"] = kc, rng.randbytes(gen_vmx.CIPHERS[kc]).hex()
        for p in r2["pairs"]:
            if p is not m and rng.random() < 0.5:
                p["key_cipher"], p["key"] = m["key_cipher"], m["key"]
    r2["hidden"] = gen_vmx._gen_items(rng, rng.randint(1, 6))
    return r2, what


PADVALID_SHAPES = ["earlier-under-later", "later-under-earlier", "earlier-under-later-iv", "all-earlier-under-last", "middle",
                   "foreign-phrase", "data-under-other-key", "both-ways"]


def _padvalid_recipe(rng, combo, shape, tag):
    """a key safe in which a pair (combination `combo`) pads validly under a wrong key; -> (recipe, extra wrong passphrases)"""
    def small(p):                                   # the salt search derives two keys per candidate: keep that cheap
        if p["rounds"] > 60:
            p["rounds"] = rng.randint(1, 60)

    def setcombo(p):
        p["cipher"], p["mac"], p["kdf"] = combo

    n = {"all-earlier-under-last": rng.choice([3, 4]), "middle": rng.choice([3, 4]), "foreign-phrase": rng.choice([1, 2, 3])}.get(shape, rng.choice([2, 2, 3]))
    r = gen_vmx.gen_recipe(rng, "quick", npairs=n, pos=rng.randrange(n))
    pairs, main, extra = r["pairs"], r["pairs"][r["pos"]], []
    if rng.random() < 0.5:                          # the pairs carry the same key under the same MAC: every passphrase opens the file
        for p in pairs:
            p["key"], p["key_cipher"], p["mac"] = main["key"], main["key_cipher"], main["mac"]
    vary = "iv" if shape.endswith("-iv") or rng.random() < 0.25 else "salt"
    forcings = []
    if shape in ("earlier-under-later", "earlier-under-later-iv"):
        u = rng.randrange(1, n)
        forcings = [(rng.randrange(0, u), u)]
        if rng.random() < 0.7:                      # the pair that has to be reached is the one the configuration is sealed for
            r["pos"] = u
    elif shape == "later-under-earlier":
        u = rng.randrange(0, n - 1)
        forcings = [(rng.randrange(u + 1, n), u)]
    elif shape == "all-earlier-under-last":
        forcings = [(v, n - 1) for v in range(n - 1)]
        r["pos"] = n - 1 if rng.random() < 0.7 else r["pos"]
    elif shape == "middle":
        v = rng.randrange(1, n - 1)
        forcings = [(v, rng.choice([j for j in range(n) if j != v]))]
    elif shape == "both-ways":
        forcings = [(0, n - 1), (n - 1, 0)]
    elif shape == "foreign-phrase":
        w = gen_vmx._gen_phrase(rng, {p["passphrase"] for p in pairs})
        forcings = [(rng.randrange(n), {"phrase": w})]
        extra = [w]
    main = pairs[r["pos"]]
    if shape == "data-under-other-key":
        # a pair with ANOTHER data key (same MAC, so that the reader cuts the blob where the sealer did): its passphrase opens the
        # pair, the configuration then pads validly under the key found there
        v = rng.choice([j for j in range(n) if j != r["pos"]])
        kc = rng.choice(list(gen_vmx.CIPHERS))
        setcombo(main)
        pairs[v]["key_cipher"], pairs[v]["key"], pairs[v]["mac"] = kc, rng.randbytes(gen_vmx.CIPHERS[kc]).hex(), main["mac"]
        for p in pairs:
            if p["key"] == main["key"]:
                p["mac"] = main["mac"]
        gen_vmx.force_pad_collision(r, "data", v, "iv", tag=tag)
        return r, extra
    for v, u in forcings:
        keep = pairs[v]["mac"]
        setcombo(pairs[v])
        if pairs[v]["key"] == main["key"] and keep == main["mac"]:       # keep "every passphrase opens the file" when it was set up
            for p in pairs:
                if p["key"] == main["key"]:
                    p["mac"] = pairs[v]["mac"]
        if vary == "salt":
            small(pairs[v])
        gen_vmx.force_pad_collision(r, v, u, vary, tag=tag)
    return r, extra


def _padvalid_cases(seed, tier, tag, n):
    rng = random.Random(f"C15/padvalid/{tag}/{seed}/{tier}")
    cases = []
    for i in range(n):
        combo = gen_vmx.COMBOS[i % len(gen_vmx.COMBOS)]
        shape = PADVALID_SHAPES[(i // len(gen_vmx.COMBOS) + i) % len(PADVALID_SHAPES)]
        r, extra = _padvalid_recipe(rng, combo, shape, f"{tag}/{seed}/{tier}/{i}")
        b = gen_vmx.build(r)
        qs, _ = _file_queries(0, b, rng, tampers=False)
        qs = qs[:1] + [[0, "wrong", w] for w in extra] + qs[1:]
        cases.append({"id": f"{tag}v{i}", "recipe": {"kind": "padvalid", "shape": shape, "files": [r]}, "queries": qs})
    return cases


# --------------------------------------------------------------------------- directed: the envelope names another code page
#
# The plain-text dictionary around the encrypted one carries `.encoding = "<code page of the host>"`; the encrypted
# configuration is UTF-8 whatever the envelope says (that is what the sealer encrypts: truth by construction) and holds
# characters outside ASCII. Unlocking must give exactly that configuration back.

ENC_OUTER = [None, "UTF-8", "utf-8", "windows-1252", "Shift_JIS", "GBK", "ISO-8859-1", "x-no-such-codepage", "windows-932", "Big5",
             "EUC-KR", "cp1252", "latin1", "US-ASCII", "UTF-16", "windows-1251"]
ENC_INNER = ["none", "first:UTF-8", "none", "last:utf-8"]
# U+00C1 U+00CD U+00CF U+00D0 U+00DD are C3 81 / C3 8D / C3 8F / C3 90 / C3 9D in UTF-8: second bytes no Windows-1252 character has
ENC_VALUES = ["\u00c1\u00cd\u00cf\u00d0\u00dd", "B\u00fcro-VM \u20ac \u6771\u4eac", "na\u00efve caf\u00e9", "\u65e5\u672c\u8a9e\u30c7\u30a3\u30b9\u30af.vmdk",
              "\U0001F4BE vm \U0001F511", "\u00d0", "\u03a9\u03bc\u03ad\u03b3\u03b1", "\u041f\u0440\u0438\u0432\u0435\u0442 \u043c\u0438\u0440", "\ud55c\uad6d\uc5b4 VM",
              "\u00dd\u00c1", "C:\\VMs\\M\u00fcller\\\u00c4\u00d6\u00dc\u00df.vmdk", "\u4e2d\u6587\u78c1\u76d8 \u00cf", "\u00e9", "\u0160koda \u017dlu\u0165ou\u010dk\u00fd",
              "x\u00a0y\u00ad\u00ff", "\u05e9\u05dc\u05d5\u05dd"]
ENC_KEYS = ["displayName", "annotation", "scsi0:0.fileName", "guestinfo.owner", "sata0:1.fileName", "Schl\u00fcssel", "nvram", "\u540d\u524d"]


def _encoding_cases(seed, tier, tag, n):
    rng = random.Random(f"C15/encoding/{tag}/{seed}/{tier}")
    cases = []
    for i in range(n):
        combo = gen_vmx.COMBOS[(i * 5 + 2) % len(gen_vmx.COMBOS)]
        outer = ENC_OUTER[i % len(ENC_OUTER)]
        inner = ENC_INNER[(i // len(ENC_OUTER)) % len(ENC_INNER)]
        r = gen_vmx.gen_recipe(rng, "quick", combo=combo)
        for p in r["pairs"]:
            p["rounds"] = min(p["rounds"], 60)
        vis = [it for it in r["visible"] if it.get("k", "").lower() != ".encoding"]
        if outer is not None:
            vis.insert(0 if i % 3 else rng.randint(0, len(vis)), {"k": ".encoding" if i % 5 else ".Encoding", "v": outer})
        r["visible"] = vis
        r["enc_at"] = sorted(rng.randint(0, len(vis)) for _ in range(2))
        hid = [it for it in gen_vmx._gen_items(rng, rng.randint(0, 5)) if it.get("k", "").lower() != ".encoding"]
        for j in range(2 + i % 3):
            hid.insert(rng.randint(0, len(hid)), {"k": ENC_KEYS[(i + 3 * j) % len(ENC_KEYS)] + ("" if j == 0 else str(j)),
                                                  "v": ENC_VALUES[(i // 2 + 5 * j) % len(ENC_VALUES)] if j else ENC_VALUES[i % len(ENC_VALUES)]})
        if i % 2 == 0:                                          # bytes 0x81 / 0x8d / 0x8f / 0x90 / 0x9d after a lead byte
            hid.insert(rng.randint(0, len(hid)), {"k": "guestinfo.note", "v": ENC_VALUES[0][i // 2 % 5:] + " " + ENC_VALUES[(i // 2) % 5 * 4 % len(ENC_VALUES)]})
        if inner != "none":
            where, name = inner.split(":")
            hid.insert(0 if where == "first" else len(hid), {"k": ".encoding", "v": name})
        r["hidden"] = hid
        b = gen_vmx.build(r)
        qs, _ = _file_queries(0, b, rng, tampers=(i % 8 == 0))
        qs += [[0, "again-good"], [0, "again-wrong", b["passphrase"] + "\u00e9"], [0, "again-good"]] if i % 4 == 1 else []
        cases.append({"id": f"{tag}e{i}", "recipe": {"kind": "encoding", "outer": outer or "absent", "inner": inner, "files": [r]}, "queries": qs})
    return cases


def _cases(seed, tier, tag, n_gen, n_same, n_seq):
    rng = random.Random(f"C15/{tag}/{seed}/{tier}")
    cases, padcases = [], []
    for i in range(n_gen):
        combo = gen_vmx.COMBOS[i % len(gen_vmx.COMBOS)]
        r = _tune(gen_vmx.gen_recipe(rng, tier, combo=combo), rng, i // len(gen_vmx.COMBOS) + i)
        b = gen_vmx.build(r)
        qs, pads = _file_queries(0, b, rng)
        if i % 3 == 0:
            # a history on ONE VMX object: after a successful unlock another passphrase must still be refused (and leave the
            # configuration as it is), the right one must still work
            known = {b["passphrase"]} | {p_ for p_, _ in b["alt"]}
            w = [x for x in (b["passphrase"] + "x", "", "zz", b["passphrase"][:-1]) if x not in known]
            qs = qs + [[0, "good"], [0, "again-wrong", w[0]], [0, "again-wrong", w[1 % len(w)]], [0, "again-good"], [0, "again-wrong", w[-1]]]
        cases.append({"id": f"{tag}g{i}", "recipe": {"kind": "gen", "files": [r]}, "queries": qs})
        for k, q in enumerate(pads[:2]):
            padcases.append({"id": f"{tag}g{i}.pad{k}", "recipe": {"kind": "padonly", "files": [r]}, "queries": [q]})
    for i in range(n_same):
        combo = gen_vmx.COMBOS[(i * 5 + 3) % len(gen_vmx.COMBOS)]
        r = _same_id(_tune(gen_vmx.gen_recipe(rng, "quick", combo=combo), rng, i), rng)
        b = gen_vmx.build(r)
        qs, _ = _file_queries(0, b, rng, tampers=(i % 3 == 0))
        cases.append({"id": f"{tag}i{i}", "recipe": {"kind": "sameid", "files": [r]}, "queries": qs})
    for i in range(n_seq):
        combo = gen_vmx.COMBOS[(i * 7 + 1) % len(gen_vmx.COMBOS)]
        r = gen_vmx.gen_recipe(rng, "quick", combo=combo)
        r2, what = _seq_variant(r, rng)
        qs = [[0, "good"], [1, "good"], [0, "good"], [1, "wrong", gen_vmx.build(r2)["passphrase"] + "x"], [1, "good"]]
        cases.append({"id": f"{tag}s{i}", "recipe": {"kind": "seq", "files": [r, r2], "changed": what}, "queries": qs})
    # alterations that reach nothing but PKCS#7 padding (what a reader that checks only the last pad byte accepts): own cases
    rng.shuffle(padcases)
    return cases + padcases[:max(12, len(padcases) // 3)]


def generate(seed, tier):
    if tier == "quick":
        cases = _cases(seed, tier, "", 180, 36, 24) + _padvalid_cases(seed, tier, "", 72) + _encoding_cases(seed, tier, "", 64)
    else:
        cases = _cases(seed, tier, "", 1800, 300, 200) + _padvalid_cases(seed, tier, "", 720) + _encoding_cases(seed, tier, "", 640)
    prefetch(cases)
    return cases


def search(seed, broken, budget):
    cases = _cases(seed, "thorough", "x", min(budget // 4, 400), 60, 40) + _padvalid_cases(seed, "thorough", "x", 144) + _encoding_cases(seed, "thorough", "x", 64)
    prefetch(cases)
    return cases


# --------------------------------------------------------------------------- build (deterministic; also runs inside workers)

def _attempt(files, q):
    """-> (text, passphrase, expected status, expected attr after, tag)"""
    b = files[q[0]]
    kind = q[1]
    text = b["text"]
    if kind == "good":
        return text, b["passphrase"], "ok", b["expected"], "good"
    if kind == "again-good":
        return text, b["passphrase"], "ok", b["expected"], "again-good"
    if kind == "again-wrong":
        return text, q[2], "E", None, "again-wrong"          # attr stays what the previous attempt left
    if kind == "wrong":
        return text, q[2], "E", b["visible"], "wrong"
    if kind == "alt":
        p, want = b["alt"][q[2]]
        return (text, p, "ok", b["expected"], "alt-ok") if want == "ok" else (text, p, "E", b["visible"], "alt-err")
    if kind == "tamper":
        info = {}
        t, _ = gen_vmx.tamper(b, None, q[2], pos=q[3], xor=q[4], info=info)
        return t, b["passphrase"], "E", gen_vmx.parse_dictionary(t), f"tamper-{q[2]}-{info['region']}" + ("-padonly" if info["padding_only"] else "")
    raise ValueError(f"bad query {q}")


def build(case):
    r = case["recipe"]
    files = [gen_vmx.build(fr) for fr in r["files"]]
    truth, attempts, br = [], [], set()
    padonly = False
    prev_after = None
    for q in case["queries"]:
        text, pw, st, after, tag = _attempt(files, q)
        reuse = tag.startswith("again-")
        before = prev_after if reuse else None
        if after is None:
            after = prev_after
        truth.append(canon(st, after))
        attempts.append((text, pw, reuse, before))
        prev_after = after
        br.add(tag)
        padonly |= tag.endswith("-padonly")
    for fr, b in zip(r["files"], files):
        br.add("/".join(b["combo"]))
        br.add("len%%16=%d" % (b["plain_len"] % 16))
        pt = b["hidden_text"].encode("utf-8")
        if pt and pt[-1] == 16 - len(pt) % 16:
            br.add("last-byte=pad-length")
        elif pt and pt[-1] <= 16:
            br.add("last-byte<=16")
        br.add("pairs=%d" % len(fr["pairs"]))
        br.add("esc=%s/%s" % (fr["esc"]["outer"], fr["esc"]["inner"]))
        m = fr["pairs"][fr["pos"]]
        br.add("salt=%s" % ("0" if not m["salt"] else "1-15" if len(m["salt"]) < 32 else "16" if len(m["salt"]) == 32 else "17-64"))
        br.add("rounds=%s" % ("1" if m["rounds"] == 1 else "<=60" if m["rounds"] <= 60 else "<=5000" if m["rounds"] <= 5000 else ">5000"))
        br.add("cfg=%s" % ("0" if not pt else "<256" if len(pt) < 256 else "<1024" if len(pt) < 1024 else ">=1024"))
        if fr["pos"] > 0:
            br.add("main-pair-not-first")
        for v, u in b["padvalid"]:
            if v == "data":
                br.add("padvalid:data-under-other-key")
            elif isinstance(u, dict):
                br.add("padvalid:pair-under-foreign-phrase")
            else:
                br.add("padvalid:%s-under-%s" % (("earlier", "later") if v < u else ("later", "earlier")))
                vp = fr["pairs"][v]
                br.add("padvalid:victim=%s/%s/%s" % (vp["cipher"], vp["mac"], vp["kdf"]))
                if v < u == fr["pos"]:
                    br.add("padvalid:before-the-pair-that-opens")
    br.add("kind-" + r["kind"])
    if r.get("shape"):
        br.add("shape-" + r["shape"])
    if r["kind"] == "encoding":
        br.add("enc-outer=" + r["outer"])
        br.add("enc-inner=" + r["inner"])
        if any(ord(c) > 127 for b in files for v in b["hidden"].values() for c in v):
            br.add("enc-hidden-non-ascii")
    info = {"branches": sorted(br), "in_scope": True, "compare_model_out_of_scope": True, "tamper_padding_only": padonly,
            "nontrivial": any(t.startswith("ok") for t in truth) and any(t.startswith("E") for t in truth)
            and any(b["hidden"] for b in files)}
    bl = Built({}, truth, info)
    bl.attempts = attempts
    return bl


# --------------------------------------------------------------------------- the real code

def impl_run(case, built):
    from dissect.hypervisor.descriptor.vmx import VMX
    answers, errors = [], {}
    vmx = None
    for i, (text, pw, reuse, _) in enumerate(built.attempts):
        if not (reuse and vmx is not None):
            vmx = VMX.parse(text)
        try:
            vmx.unlock_with_phrase(pw)
            st = "ok"
        except Exception as e:  # noqa: BLE001
            st = "E"
            errors[str(i)] = f"{type(e).__name__}: {e}"[:200]
        answers.append(canon(st, vmx.attr))
    return {"answers": answers, "errors": errors}


# --------------------------------------------------------------------------- primitive oracle (real libraries)

_ORACLE: dict[str, str] = {}


def _ok(*vals: bytes) -> str:
    return ":".join(["o"] + [v.hex() for v in vals])


def oracle(req: str) -> str:
    """req = name:hexarg:hexarg… -> o:hex… | v (ValueError family) | x (any other exception)"""
    if req in _ORACLE:
        return _ORACLE[req]
    name, *hexargs = req.split(":")
    a = [bytes.fromhex(h) for h in hexargs]
    try:
        if name == "b64":
            res = _ok(base64.b64decode(a[0].decode("utf-8", "replace")))
        elif name == "int":
            res = _ok(str(int(a[0].decode("utf-8", "replace"))).encode())
        elif name == "utf8":
            try:
                a[0].decode("utf-8")
                res = _ok(b"\x01")
            except UnicodeDecodeError:
                res = _ok(b"\x00")
        elif name == "pbkdf2":
            rounds = int(a[3])
            if rounds > 5_000_000:
                raise RuntimeError("oracle refuses to run PBKDF2 with %d rounds" % rounds)
            res = _ok(hashlib.pbkdf2_hmac(a[0].decode(), a[1], a[2], rounds, int(a[4])))
        elif name == "hmac":
            res = _ok(_hmac.digest(a[1], a[2], a[0].decode()))
        elif name == "cbc":
            from Crypto.Cipher import AES
            res = _ok(AES.new(a[0], AES.MODE_CBC, iv=a[1]).decrypt(a[2]))
        elif name == "dict":
            d = gen_vmx.parse_dictionary(a[0].decode("utf-8"))
            res = _ok(*[x.encode("utf-8") for kv in d.items() for x in kv])
        else:
            raise RuntimeError(f"oracle: unknown primitive {name}")
    except RuntimeError:
        raise
    except ValueError:
        res = "v"
    except Exception:  # noqa: BLE001
        res = "x"
    _ORACLE[req] = res
    return res


# --------------------------------------------------------------------------- model side

_TABLES: dict[tuple, dict] = {}      # (P token, A token) -> {request: result}


def _tokens(text: str, pw: str, reuse=False, before=None):
    attr = before if (reuse and before is not None) else gen_vmx.parse_dictionary(text)   # what VMX.parse(text).attr must be (independent parser)
    a = ",".join(k.encode("utf-8").hex() + ":" + v.encode("utf-8").hex() for k, v in attr.items())
    return "P" + pw.encode("utf-8").hex(), "A" + a


def _line(p, a, table: dict) -> str:
    return f"vmx.unlock {p} {a} T" + ";".join(f"{k}={v}" for k, v in table.items())


def resolve(keys: list) -> None:
    """complete the primitive tables of the given (P, A) attempts: run the driver, serve every `need`, repeat"""
    todo = [k for k in dict.fromkeys(keys) if k not in _TABLES]
    tables = {k: {} for k in todo}
    for _ in range(400):
        if not todo:
            break
        n = max(1, min(core.NPROC, len(todo)))
        chunks = [todo[i::n] for i in range(n)]
        out = core.run_model([(f"r{j}", [_line(p, a, tables[(p, a)]) for p, a in ch]) for j, ch in enumerate(chunks)])
        nxt = []
        for j, ch in enumerate(chunks):
            lines = out.get(f"r{j}") or []
            for k, l in zip(ch, lines + [None] * (len(ch) - len(lines))):
                if l is not None and l.startswith("need "):
                    req = l[5:].strip()
                    if req.startswith("malformed") or req in tables[k]:
                        tables[k]["!protocol"] = req
                        continue
                    tables[k][req] = oracle(req)
                    nxt.append(k)
        todo = nxt
    for k, t in tables.items():
        _TABLES[k] = t


def prefetch(cases):
    keys = []
    for c in cases:
        try:
            b = build(c)
        except Exception:  # noqa: BLE001
            continue
        keys += [_tokens(*a) for a in b.attempts]
    resolve(keys)


def model_lines(case, built):
    keys = [_tokens(*a) for a in built.attempts]
    if any(k not in _TABLES for k in keys):
        resolve(keys)
    return [_line(p, a, {r: v for r, v in _TABLES[(p, a)].items() if not r.startswith("!")}) for p, a in keys]


def _parse_attr(tok: str) -> dict:
    if tok == "-":
        return {}
    d = {}
    for kv in tok.split(","):
        k, v = kv.split(":")
        d[bytes.fromhex(k).decode("utf-8", "surrogateescape")] = bytes.fromhex(v).decode("utf-8", "surrogateescape")
    return d


def model_parse(case, built, out):
    if not out or len(out) != len(built.attempts):
        return {"answers": None, "wf": None, "raw": [l[:120] for l in (out or [])]}
    answers, bad = [], False
    for l in out:
        parts = l.split()
        if parts and parts[0] == "ok" and len(parts) == 2:
            answers.append(canon("ok", _parse_attr(parts[1])))
        elif parts and parts[0] == "err" and len(parts) == 3:
            answers.append(canon("E", _parse_attr(parts[2])))
        else:                                   # need / unsupported / nonterm / bad-*: protocol, never an answer
            answers.append("?" + l[:60])
            bad = True
    return {"answers": None if bad else answers, "wf": (not bad) and built.info["in_scope"], "raw": [l[:80] for l in out][:4]}


def nontrivial(case, built, model):
    return built.info["nontrivial"]


def shrink(case):
    """keep the first failing attempt and the attempts before it on the same file set (state may matter), then try it alone"""
    def failing(c):
        try:
            b = build(c)
            res = core.run_impl(__name__, [c], timeout_case=TIMEOUT_CASE, nproc=1).get(c["id"], {})
            return bool(res.get("fatal")) or res.get("answers") != b.truth
        except Exception:  # noqa: BLE001
            return False
    qs = case["queries"]
    for i in range(len(qs)):
        c1 = dict(case, queries=[qs[i]], id=case["id"] + f".q{i}")
        if failing(c1):
            return c1
    for k in range(2, len(qs)):
        c2 = dict(case, queries=qs[:k], id=case["id"] + f".p{k}")
        if failing(c2):
            return c2
    return case
