/-
  C06 — Parallels HDS/HDD: every byte range reads as the guest-visible content.
-/
import HvProofs.Hds
namespace Hv.C06
open Hv Hv.Hds

/-! extracted values = Parallels format documentation (QEMU docs/interop/parallels.txt) -/
theorem SECTOR_SIZE_spec : Extracted.hdd.SECTOR_SIZE = 512 := by decide
theorem signatures_spec :
    Extracted.hdd.SIGNATURE_STRUCTURED_DISK_V1 = "WithoutFreeSpace".toList.map (fun c => UInt8.ofNat c.toNat) ∧
    Extracted.hdd.SIGNATURE_STRUCTURED_DISK_V2 = "WithouFreSpacExt".toList.map (fun c => UInt8.ofNat c.toNat) := by
  decide
theorem header_layout_spec :
    Extracted.hdd.pvd_header.size = 64 ∧
    Extracted.hdd.pvd_header.m_Sig = (0, 16) ∧
    Extracted.hdd.pvd_header.m_Sectors = ⟨28, 4, false, 0, 32⟩ ∧
    Extracted.hdd.pvd_header.m_Size = ⟨32, 4, false, 0, 32⟩ ∧
    Extracted.hdd.pvd_header.m_SizeInSectors_v1 = ⟨36, 4, false, 0, 32⟩ ∧
    Extracted.hdd.pvd_header.m_SizeInSectors_v2 = ⟨36, 8, false, 0, 64⟩ ∧
    Extracted.hdd.uint32_size = 4 := by decide

/-- **hds_bat_units**: the file offset computed for an allocated cluster is
    `entry · multiplier · 512 + offset-in-cluster` — entries count sectors when the
    multiplier is 1 (v1) and clusters when it is `m_Sectors` (v2). -/
theorem hds_bat_units (v : Hds) (off e : Nat) (h : v.bat[off / v.clusterSize]? = some e) (he : e ≠ 0) :
    v.readOffset off = .ok (e * v.mult * 512 + off % v.clusterSize) := by
  unfold Hds.readOffset
  rw [h]; simp [he]; rfl

/-- **hds_read_correct**: for every well-formed image (any cluster size, any BAT, any
    placement — including an allocated cluster whose file offset equals the length of the
    sparse run before it) `_read` returns the guest bytes of the request; `Lr` is the
    request length clamped to the disk (the loop may continue to the end of the last cluster). -/
theorem hds_read_correct (v : Hds) (pc : Nat → UInt8) (hwf : WF v) (hp : ParentOK v pc) (off len : Nat) :
    ∃ Lr, min len (v.size - off) ≤ Lr ∧ Lr ≤ len ∧ v.read off len = .ok (slice (v.guest pc) off Lr) :=
  read_spec v pc hwf hp off len

theorem hds_reads_as (v : Hds) (pc : Nat → UInt8) (hwf : WF v) (hp : ParentOK v pc) :
    ReadsAs v.read ⟨v.size, v.guest pc⟩ := by
  intro off len h
  obtain ⟨Lr, h1, h2, h3⟩ := read_spec v pc hwf hp off len
  simp only at h
  have : Lr = len := by omega
  rw [h3, this]

/-- **hds_backendOK** / **hds_stream_correct**: contract of the buffered layer and the
    resulting behaviour of the opened stream for any history and any buffer size. -/
theorem hds_backendOK (v : Hds) (pc : Nat → UInt8) (hwf : WF v) (hp : ParentOK v pc) (align : Nat) :
    BackendOK v.size align v.read (v.guest pc) := backendOK v pc hwf hp align

theorem hds_stream_correct (v : Hds) (pc : Nat → UInt8) (hwf : WF v) (hp : ParentOK v pc)
    (align : Nat) (ha : 0 < align) (ops : List Op) :
    AS.run v.read (AS.init v.size align) ops = Spec.run (v.guest pc) ⟨v.size, 0⟩ ops :=
  AS.run_refines ops _ (AS.init_inv _ _ ha) (backendOK v pc hwf hp align)

theorem hds_wfb_sound (v : Hds) (h : v.wfb = true) : WF v := wfb_sound v h

/-- **hds_read_terminates** (C11 obligation): arbitrary header/BAT contents -/
theorem hds_read_terminates (v : Hds) (off len : Nat) :
    v.iterRuns len off len none ≠ .error .nonTermination :=
  iterRuns_progress v _ _ _ _ (Nat.le_refl _)

/-! non-vacuity — the numeric coincidence the property names: cluster 0 sparse, cluster 1
    allocated at file offset = cluster size (v2 BAT entry 1). The two-cluster read returns
    zeros followed by the stored data, not zeros twice. -/
def exFile : File := ⟨2048, fun i => UInt8.ofNat (i % 251 + 1)⟩
def exHds : Hds := { fh := exFile, size := 1024, clusterSize := 512, mult := 1, bat := #[0, 1], parent := none }
example : WF exHds := wfb_sound exHds (by decide)
example : (exHds.read 510 4) = .ok [0, 0, UInt8.ofNat (512 % 251 + 1), UInt8.ofNat (513 % 251 + 1)] := by decide

end Hv.C06
