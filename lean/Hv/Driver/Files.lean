/-
  Hv.Driver.Files — sparse files for the driver (same three segment kinds as
  harness/sparse.py), CRC-32 and the answer encoding.
-/
import Hv.Prim.Bytes
import Std.Data.HashMap
namespace Hv.Driver
open Hv

inductive SegKind where
  | hex (b : ByteArray)
  | fill (b : UInt8)
  | pat (seed : Nat)

structure Seg where
  off : Nat
  n : Nat
  kind : SegKind

instance : Inhabited Seg := ⟨⟨0, 0, .fill 0⟩⟩

def patByte (seed p : Nat) : UInt8 :=
  UInt8.ofNat ((seed + p + 7 * (p / 256) + 13 * (p / 65536) + 29 * (p / 16777216)) % 256)

def Seg.byte (s : Seg) (p : Nat) : UInt8 :=
  match s.kind with
  | .hex b => b.get! (p - s.off)
  | .fill b => b
  | .pat seed => patByte seed p

/-- index of the last segment with `off ≤ p` (segments sorted by `off`) -/
partial def findSeg (segs : Array Seg) (p : Nat) (lo hi : Nat) : Option Nat :=
  if lo ≥ hi then (if lo = 0 then none else some (lo - 1))
  else
    let mid := (lo + hi) / 2
    if segs[mid]!.off ≤ p then findSeg segs p (mid + 1) hi else findSeg segs p lo mid

def mkFile (size : Nat) (segs : Array Seg) : File :=
  let sorted := segs.qsort (fun a b => a.off < b.off)
  { size := size
    byte := fun p =>
      match findSeg sorted p 0 sorted.size with
      | none => 0
      | some i =>
        let s : Seg := sorted[i]!
        if p < s.off + s.n then s.byte p else 0 }

/-! CRC-32 (IEEE), bitwise. -/
def crcStep (c : UInt32) (b : UInt8) : UInt32 := Id.run do
  let mut x := c ^^^ b.toUInt32
  for _ in [0:8] do
    x := if x &&& 1 == 1 then (x >>> 1) ^^^ 0xEDB88320 else x >>> 1
  return x

def crc32 (bs : Bytes) : UInt32 :=
  (bs.foldl crcStep 0xFFFFFFFF) ^^^ 0xFFFFFFFF

def hexDigit (n : Nat) : Char :=
  if n < 10 then Char.ofNat (48 + n) else Char.ofNat (87 + n)

def hexByte (b : UInt8) : String :=
  String.ofList [hexDigit (b.toNat / 16), hexDigit (b.toNat % 16)]

def hexOf (bs : Bytes) : String :=
  String.ofList (bs.foldr (fun b acc => hexDigit (b.toNat / 16) :: hexDigit (b.toNat % 16) :: acc) [])

/-- answer for a byte result: `ok <len> <crc32> <hex of the first ≤ 4096 bytes>` -/
def fmtBytes (bs : Bytes) : String :=
  s!"ok {bs.length} {(crc32 bs).toNat} {hexOf (bs.take 4096)}"

def fmtRes (r : Except Err Bytes) : String :=
  match r with
  | .ok b => fmtBytes b
  | .error e => s!"err {e}"

def hexVal (c : Char) : Option Nat :=
  if '0' ≤ c ∧ c ≤ '9' then some (c.toNat - 48)
  else if 'a' ≤ c ∧ c ≤ 'f' then some (c.toNat - 87)
  else if 'A' ≤ c ∧ c ≤ 'F' then some (c.toNat - 55)
  else none

def parseHex (s : String) : Option ByteArray := Id.run do
  let cs := s.toList.toArray
  if cs.size % 2 ≠ 0 then return none
  let mut out := ByteArray.emptyWithCapacity (cs.size / 2)
  for i in [0:cs.size / 2] do
    match hexVal cs[2*i]!, hexVal cs[2*i+1]! with
    | some a, some b => out := out.push (UInt8.ofNat (a * 16 + b))
    | _, _ => return none
  return some out

def parseInt (s : String) : Option Int :=
  if s.startsWith "-" then ((s.drop 1).toString).toNat?.map (fun n => - (n : Int)) else s.toNat?.map (fun n => (n : Int))

end Hv.Driver
