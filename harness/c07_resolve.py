"""C07 — parent / chain *resolution* layouts (families rx = VHDX parent locator, rh = Parallels .hdd directory, rq = QCOW2 backing
name): the implementation runs on a real temp directory and every `open` it performs under that directory is recorded with an audit
hook; the model (`resolve.*` driver commands, lean/Hv/Resolve.lean) gets the same layout as a list of entries and answers with the
paths it opens. Answers: ["R:<hex path>,<hex path>…", <stream answers>…] or ["E"]."""
from __future__ import annotations

import copy
import os
import sys
import uuid

import core
import gen_hdd
import gen_qcow2
import gen_vhdx
from core import Built
from sparse import Image

LINKAGE = ["parent_linkage", "{00000000-0000-0000-0000-000000000001}"]

# ------------------------------------------------------------------------------------------ recording what the code opens

_REC = {"on": False, "root": None, "log": []}
_HOOKED = False


def _hook(event, args):
    if event == "open" and _REC["on"]:
        p = args[0]
        if isinstance(p, bytes):
            p = p.decode("utf-8", "surrogateescape")
        if isinstance(p, str) and p.startswith(_REC["root"]):
            _REC["log"].append(p)


class record_opens:
    """context manager: the paths under `root` handed to open() while active (attempts included)"""

    def __init__(self, root):
        self.root = root

    def __enter__(self):
        global _HOOKED
        if not _HOOKED:
            sys.addaudithook(_hook)
            _HOOKED = True
        _REC.update(on=True, root=self.root, log=[])
        return _REC["log"]

    def __exit__(self, *a):
        _REC["on"] = False
        return False


def hexs(s):
    return s.encode().hex() or "-"


def rtok(paths):
    return "R:" + ",".join(hexs(p) for p in paths)


def subst(x, T):
    """placeholders: {T} = the temp directory, {W} = the same in Windows spelling without the leading separator"""
    if isinstance(x, str):
        return x.replace("{T}", T).replace("{W}", T.lstrip("/").replace("/", "\\"))
    if isinstance(x, list):
        return [subst(y, T) for y in x]
    if isinstance(x, dict):
        return {k: subst(v, T) for k, v in x.items()}
    return x


def layout_entries(layout, T, ids):
    """driver tokens for a layout [[relpath, "dir" | file key], …]; parents of every entry are directories"""
    dirs, files = set(), []
    for rel, kind in layout:
        parts = rel.split("/")
        for i in range(1, len(parts) + (1 if kind == "dir" else 0)):
            dirs.add("/".join(parts[:i]))
        if kind != "dir":
            files.append((rel, kind))
    tp = T.strip("/").split("/")
    out = ["D:" + hexs("/" + "/".join(tp[:i])) for i in range(1, len(tp) + 1)]
    out += ["D:" + hexs(T + "/" + d) for d in sorted(dirs)]
    out += [f"F:{hexs(T + '/' + rel)}:{ids[k]}" for rel, k in files]
    return out


def materialise(layout, T, images):
    for rel, kind in layout:
        p = os.path.join(T, rel)
        if kind == "dir":
            os.makedirs(p, exist_ok=True)
        else:
            os.makedirs(os.path.dirname(p), exist_ok=True)
            images[kind].write_to(p)


# ------------------------------------------------------------------------------------------ rx: VHDX parent locator

RX_KINDS = ["rel_same", "rel_sibling", "rel_sub", "rel_fwd", "rel_rooted", "abs_second", "abs_third_in_table", "dotdot_missing_dir",
            "abs_drive", "none", "only_volume", "case", "cycle", "deep",
            # what the code does when an earlier candidate is unusable although a later one is right (out of the property's scope:
            # compared with the model only)
            "no_rel_key", "stale_rel", "rel_dir", "rel_garbage", "rel_empty", "dup_key_last_bad", "dup_key_last_good"]


def gen_rx(rng, tier, kind):
    depth = 3 if kind == "deep" else rng.choice([2, 2, 3])
    r = gen_vhdx.gen_recipe(rng, "quick", depth=depth)
    top = depth - 1
    nm = lambda k: f"l{k}.vhdx"
    place = {top: f"d{top}"}
    layout = []
    pn = nm(top - 1)
    pdir = f"d{top - 1}"
    ent = [LINKAGE]
    expect = "ok"
    via = None                 # the path string the code builds for the parent; {D} = directory string of the child as opened
    good_abs = ["absolute_win32_path", "{W}\\" + pdir + "\\" + pn]
    if kind == "rel_same":
        pdir = place[top]
        ent += [["relative_path", ".\\" + pn]]
        via = "{D}/" + pn
    elif kind in ("rel_sibling", "deep"):
        ent += [["relative_path", "..\\" + pdir + "\\" + pn], ["absolute_win32_path", "C:\\gone\\" + pn]]
        via = "{D}/../" + pdir + "/" + pn
    elif kind == "rel_sub":
        pdir = place[top] + "/sub"
        ent += [["relative_path", "sub\\" + pn]]
        via = "{D}/sub/" + pn
    elif kind == "rel_fwd":
        ent += [["relative_path", "../" + pdir + "/./" + pn]]
        via = "{D}/../" + pdir + "/" + pn
    elif kind == "rel_rooted":
        ent += [["relative_path", "\\{W}\\" + pdir + "\\" + pn]]
        via = "{T}/" + pdir + "/" + pn
    elif kind == "abs_second":
        ent += [["relative_path", ".\\" + pn], good_abs]                         # not in the child's directory
        via = "{T}/" + pdir + "/" + pn
    elif kind == "abs_third_in_table":
        ent += [["volume_path", "\\\\?\\Volume{11111111-2222-3333-4444-555555555555}\\" + pdir + "\\" + pn], ["relative_path", "..\\elsewhere\\" + pn], good_abs]
        via = "{T}/" + pdir + "/" + pn
    elif kind == "dotdot_missing_dir":
        # lexically this is ../<pdir>/<pn>, but the kernel refuses to walk through a directory that does not exist
        ent += [["relative_path", "nodir\\..\\..\\" + pdir + "\\" + pn], good_abs]
        via = "{T}/" + pdir + "/" + pn
    elif kind == "abs_drive":
        ent += [["relative_path", ".\\" + pn], ["absolute_win32_path", "C:\\{W}\\" + pdir + "\\" + pn]]
        expect = "E"
    elif kind == "none":
        ent += [["relative_path", ".\\" + pn], ["absolute_win32_path", "{W}\\gone\\" + pn]]
        expect = "E"
    elif kind == "only_volume":
        ent += [["relative_path", ".\\" + pn], ["volume_path", "{W}\\" + pdir + "\\" + pn]]
        expect = "E"
    elif kind == "case":
        ent += [["relative_path", "..\\" + pdir + "\\" + pn.upper()], ["absolute_win32_path", "{W}\\" + pdir.upper() + "\\" + pn]]
        expect = "E"
    elif kind == "cycle":
        ent += [["relative_path", ".\\" + nm(top)]]
        expect = "E"
    elif kind == "no_rel_key":
        ent += [good_abs]
        expect = "oos"
    elif kind == "stale_rel":
        layout.append([place[top] + "/" + pn, "stale"])
        ent += [["relative_path", ".\\" + pn], good_abs]
        expect = "oos"
    elif kind == "rel_dir":
        layout.append([place[top] + "/" + pn, "dir"])
        ent += [["relative_path", ".\\" + pn], good_abs]
        expect = "oos"
    elif kind == "rel_garbage":
        layout.append([place[top] + "/" + pn, "garbage"])
        ent += [["relative_path", ".\\" + pn], good_abs]
        expect = "oos"
    elif kind == "rel_empty":
        ent += [["relative_path", ""], good_abs]
        expect = "oos"
    elif kind == "dup_key_last_bad":
        ent += [["relative_path", "..\\" + pdir + "\\" + pn], ["relative_path", ".\\gone-" + pn]]
        expect = "oos"
    elif kind == "dup_key_last_good":
        ent += [["relative_path", ".\\gone-" + pn], ["relative_path", "..\\" + pdir + "\\" + pn]]
        expect = "oos"
    else:
        raise ValueError(kind)
    place[top - 1] = pdir
    vias = {top: via}
    ents = {top: ent}
    for k in range(top - 1, 0, -1):          # lower links: a sibling directory, relative to the directory of *that* parent
        place[k - 1] = f"d{k - 1}"
        rel = os.path.relpath(place[k - 1], place[k])
        ents[k] = [LINKAGE, ["relative_path", rel.replace("/", "\\") + "\\" + nm(k - 1)]]
        vias[k] = "{D}/" + rel + "/" + nm(k - 1)
    for k in range(depth):
        layout.append([place[k] + "/" + nm(k), f"l{k}"])
        if k:
            r["layers"][k]["loc_entries"] = ents[k]
    layout.append(["d_unrelated", "dir"])
    stale_seed = rng.randrange(1 << 30)
    return {"vhdx": r, "layout": layout, "start": place[top] + "/" + nm(top), "expect": expect, "vias": {str(k): v for k, v in vias.items()},
            "kind": kind, "stale_seed": stale_seed}


def rx_truth(case, T):
    R = case["recipe"]
    r = subst(copy.deepcopy(R["vhdx"]), T)
    t = gen_vhdx.Truth(r, absdir=T)
    images = {f"l{k}": im for k, (_, im, _) in enumerate(t.layers)}
    kinds = {k for _, k in R["layout"]}
    if "stale" in kinds:
        # a valid image of the same geometry as the real parent and other content
        import random
        l = copy.deepcopy(r["layers"][len(r["layers"]) - 2])
        rr = random.Random(R["stale_seed"])
        l2 = gen_vhdx.gen_layer(rr, l["size"], l["bs"], l["ss"], False, "quick", (l["seed"] + 101) % 256)
        l2["blocks"] = [6 for _ in l2["blocks"]]
        l2["phys"] = {str(b): b for b in range(len(l2["blocks"]))}
        l2["bitmaps"] = {}
        im, _ = gen_vhdx.build_layer(l2)
        images["stale"] = im
    if "garbage" in kinds:
        g = Image()
        g.put_pat(0, 70000, 7)
        images["garbage"] = g.finish(70000)
    return t, images


def rx_expected_paths(R, T):
    depth = len(R["vhdx"]["layers"])
    p = T + "/" + R["start"]
    out = [p]
    for k in range(depth - 1, 0, -1):
        p = R["vias"][str(k)].replace("{D}", os.path.dirname(p)).replace("{T}", T)
        out.append(p)
    return out


def rx_build(case, T):
    R = case["recipe"]
    t, images = rx_truth(case, T)
    exp = R["expect"]
    if exp == "ok":
        truth = [rtok(rx_expected_paths(R, T))] + core.truth_ops(t.size, t.read, case["queries"])
    elif exp == "E":
        truth = ["E"]
    else:
        truth = None
    depth = len(R["vhdx"]["layers"])
    b = Built(images, truth, {"branches": ["rx", "rx_" + R["kind"], f"depth{depth}"], "crosses": True, "depth": depth, "in_scope": exp != "oos",
                              "compare_model_out_of_scope": True, "missing": exp == "E"})
    b.t = t
    return b


def rx_impl(case, built, T):
    from pathlib import Path
    from dissect.hypervisor.disk.vhdx import VHDX
    R = case["recipe"]
    materialise(R["layout"], T, built.files)
    with record_opens(T) as log:
        try:
            v = VHDX(Path(T) / R["start"])
        except BaseException as e:  # noqa  (RecursionError is an Exception; keep the net wide)
            if isinstance(e, (KeyboardInterrupt, SystemExit)) or type(e).__name__ == "_Timeout":
                raise
            return {"answers": ["E"], "errors": {"0": f"{type(e).__name__}: {e}"[:300]}}
        opened = list(log)
    res = core.impl_ops(v, case["queries"])
    return {"answers": [rtok(opened)] + res["answers"], "errors": res["errors"]}


def rx_model_lines(case, built, T):
    R = case["recipe"]
    ids = {k: k for k in built.files}
    ents = layout_entries(R["layout"], T, ids)
    toks = " ".join(core.op_tokens(case["queries"]))
    head = f"64 {case['align']} - {hexs(T + '/' + R['start'])} {len(ents)} " + " ".join(ents) + " " + toks
    return core.file_lines(built.files) + ["resolve.vhdx s " + head, "resolve.vhdx c " + head]


def _unhex_paths(tok):
    return "R:" + tok


def rx_model_parse(case, built, out):
    if not out:
        return {"answers": None, "wf": None}
    a = out[0].split()
    if a[:1] == ["err"]:
        return {"answers": ["E"], "wf": False}
    if a[:1] != ["ok"] or len(a) < 2:
        return {"answers": None, "wf": None}
    ans = ["R:" + a[1]] + a[2:]
    chk = out[1].split() if len(out) > 1 else []
    wf = None
    if len(chk) >= 4 and chk[0] == "ok":
        wf = chk[1] == "wf=1"
        marks = chk[4:]
        if chk[3] != a[1]:
            return {"answers": ["RESOLVE-MISMATCH"], "wf": wf}
        if wf and (any(m != "=" for m in marks) or len(marks) != len(ans) - 1):
            # inside the hypotheses of resolved_chain_reads_as_overlay the model must equal the overlay of the resolved files
            return {"answers": ["SPEC-MISMATCH"] + marks, "wf": wf, "spec_checked": len(marks)}
        return {"answers": ans, "wf": wf, "spec_checked": len(marks) if wf else 0}
    return {"answers": ans, "wf": wf}


# ------------------------------------------------------------------------------------------ rh: Parallels .hdd directory

RH_KINDS = ["rel", "rel_sub", "rel_up", "abs_exist", "abs_c1", "abs_c2", "abs_c3", "abs_c1_over_c2", "abs_c2_over_c3", "mixed", "via_file",
            "explicit_guid", "abs_none", "rel_none", "no_descriptor", "missing_parent_guid", "missing_requested_guid", "cycle", "self_parent",
            "dup_shot",
            # an unresolvable ancestor at a chosen depth (gen_hdd.break_ancestor): the opened snapshot's parent, its grand-parent, the root's
            # parent reference of a chain of >= 3; the ancestor's <Shot> deleted; the same below an explicitly requested snapshot
            "missing_parent_top", "missing_grandparent", "missing_root_parent", "deleted_parent_shot", "deleted_root_shot", "explicit_guid_missing_parent"]
RH_MIN_DEPTH = {"explicit_guid": 2, "cycle": 2, "missing_parent_guid": 2, "missing_grandparent": 2, "missing_root_parent": 3, "deleted_parent_shot": 2,
                "deleted_root_shot": 3, "explicit_guid_missing_parent": 3}
ROOT = "vm.pvm/disk.hdd"


def _place(mode, name):
    """(text of <File>, where the file is (relative to T), extra decoy placement or None, path string opened ({T}-template))"""
    if mode == "rel":
        return name, f"{ROOT}/{name}", None, "{T}/" + f"{ROOT}/{name}"
    if mode == "rel_sub":
        return f"sub/./{name}", f"{ROOT}/sub/{name}", None, "{T}/" + f"{ROOT}/sub/{name}"
    if mode == "rel_up":
        return f"../other.hdd/{name}", f"vm.pvm/other.hdd/{name}", None, "{T}/" + f"{ROOT}/../other.hdd/{name}"
    if mode == "abs_exist":
        return "{T}/" + f"elsewhere/{name}", f"elsewhere/{name}", f"{ROOT}/{name}", "{T}/" + f"elsewhere/{name}"
    if mode == "abs_c1":
        return f"/orig/o.pvm/o.hdd/{name}", f"{ROOT}/{name}", None, "{T}/" + f"{ROOT}/{name}"
    if mode == "abs_c2":
        return f"/orig/o.pvm/other.hdd/{name}", f"vm.pvm/other.hdd/{name}", None, "{T}/" + f"vm.pvm/other.hdd/{name}"
    if mode == "abs_c3":
        return f"/orig/lnk.pvm/lnk.hdd/{name}", f"lnk.pvm/lnk.hdd/{name}", None, "{T}/" + f"lnk.pvm/lnk.hdd/{name}"
    if mode == "abs_c1_over_c2":
        return f"/orig/o.pvm/other.hdd/{name}", f"{ROOT}/{name}", f"vm.pvm/other.hdd/{name}", "{T}/" + f"{ROOT}/{name}"
    if mode == "abs_c2_over_c3":
        return f"/orig/lnk.pvm/lnk.hdd/{name}", f"vm.pvm/lnk.hdd/{name}", f"lnk.pvm/lnk.hdd/{name}", "{T}/" + f"vm.pvm/lnk.hdd/{name}"
    if mode == "abs_none":
        return f"/orig/o.pvm/o.hdd/{name}", None, None, None
    if mode == "rel_none":
        return f"gone/{name}", None, None, None
    raise ValueError(mode)


def gen_rh(rng, tier, kind):
    need = RH_MIN_DEPTH.get(kind, 1)
    r = gen_hdd.gen_recipe(rng, "quick", max_depth=max(3, need + 1), min_depth=need)
    r["abs_paths"] = False
    chain = list(r["chain"])
    modes = ["rel", "rel_sub", "rel_up", "abs_exist", "abs_c1", "abs_c2", "abs_c3", "abs_c1_over_c2", "abs_c2_over_c3"]
    expect = "ok"
    start = ROOT
    guid = None
    pick = (lambda: kind) if kind in modes else (lambda: rng.choice(modes)) if kind == "mixed" else (lambda: rng.choice(["rel", "abs_c1"]))
    mode = {}
    for s in r["storages"]:
        for im in s["images"]:
            mode[im["file"]] = pick() if im["guid"] in chain else "rel"
    if kind in ("abs_none", "rel_none"):
        s = rng.choice(r["storages"])
        im = rng.choice([i for i in s["images"] if i["guid"] in chain])
        mode[im["file"]] = kind
        expect = "E"
    elif kind == "via_file":
        start = ROOT + "/" + rng.choice(["DiskDescriptor.xml", r["storages"][0]["images"][0]["file"]])
        if mode[r["storages"][0]["images"][0]["file"]] != "rel":
            start = ROOT + "/DiskDescriptor.xml"
    elif kind == "explicit_guid":
        j = rng.randrange(1, len(chain))
        guid = chain[j]
        chain = chain[j:]
    elif kind == "no_descriptor":
        expect = "E"
    elif kind == "missing_parent_guid":
        j = rng.randrange(len(chain))
        for sh in r["shots"]:
            if sh[0] == chain[j]:
                sh[1] = gen_hdd.guid(rng)
        expect = "E"
    elif kind in ("missing_parent_top", "missing_grandparent", "missing_root_parent"):
        gen_hdd.break_ancestor(r, rng, {"missing_parent_top": 0, "missing_grandparent": 1, "missing_root_parent": len(chain) - 1}[kind])
        expect = "E"
    elif kind in ("deleted_parent_shot", "deleted_root_shot"):
        gen_hdd.break_ancestor(r, rng, 1 if kind == "deleted_parent_shot" else len(chain) - 1, "deleted_shot")
        expect = "E"
    elif kind == "explicit_guid_missing_parent":
        j = rng.randrange(1, len(chain) - 1)                 # open(chain[j]): healthy above, broken somewhere below the requested snapshot
        guid = chain[j]
        gen_hdd.break_ancestor(r, rng, rng.randrange(j, len(chain)))
        chain = chain[j:]
        expect = "E"
    elif kind == "missing_requested_guid":
        guid = gen_hdd.guid(rng)
        expect = "E"
    elif kind == "cycle":
        for sh in r["shots"]:
            if sh[0] == chain[-1]:
                sh[1] = chain[0]
        expect = "E"
    elif kind == "self_parent":
        for sh in r["shots"]:
            if sh[0] == chain[-1]:
                sh[1] = chain[-1]
        expect = "E"
    elif kind == "dup_shot":
        # a second <Shot> with the GUID of a chain element and another parent, later in the list: find_shot takes the first
        r["shots"].append([chain[0], gen_hdd.guid(rng)])
        expect = "oos"
    return {"hdd": r, "mode": mode, "kind": kind, "expect": expect, "start": start, "guid": guid, "use_chain": chain}


def rh_xml(r, mode, T):
    out = ['<?xml version="1.0" encoding="UTF-8"?>', '<Parallels_disk_image Version="1.0">',
           " <Disk_Parameters><Disk_size>%d</Disk_size><Cylinders>1</Cylinders><Heads>16</Heads><Sectors>63</Sectors></Disk_Parameters>" % r["storages"][-1]["end"], " <StorageData>"]
    for i in r["xml_order"]:
        s = r["storages"][i]
        out.append(f"  <Storage><Start>{s['start']}</Start><End>{s['end']}</End><Blocksize>2048</Blocksize>")
        for im in s["images"]:
            f = subst(_place(mode[im["file"]], im["file"])[0], T)
            out.append(f"   <Image><GUID>{im['guid']}</GUID><Type>{im['type']}</Type><File>{f}</File></Image>")
        out.append("  </Storage>")
    out.append(" </StorageData>")
    out.append(" <Snapshots>")
    if r["top_explicit"]:
        out.append(f"  <TopGUID>{r['top']}</TopGUID>")
    for g, p in r["shots"]:
        out.append(f"  <Shot><GUID>{g}</GUID><ParentGUID>{p}</ParentGUID></Shot>")
    out.append(" </Snapshots>")
    out.append("</Parallels_disk_image>")
    return "\n".join(out) + "\n"


def gint(g):
    return uuid.UUID(g).int


def rh_parts(case, T):
    R = case["recipe"]
    r = copy.deepcopy(R["hdd"])
    full = gen_hdd.Truth(r)                       # all files
    r2 = copy.deepcopy(r)
    r2["chain"] = list(R["use_chain"])
    t = gen_hdd.Truth(r2)                         # the layers of the requested snapshot
    ids = {name: f"f{k}" for k, name in enumerate(full.files)}
    images = {ids[n]: im for n, im in full.files.items()}
    decoy = Image()
    decoy.put_pat(0, 4096, 99)
    images["decoy"] = decoy.finish(4096)
    xml = rh_xml(r, R["mode"], T)
    xi = Image()
    xi.put_hex(0, xml.encode())
    images["xml"] = xi.finish(len(xml.encode()))
    layout = [[ROOT, "dir"], ["vm.pvm/other.hdd", "dir"], ["lnk.pvm/lnk.hdd", "dir"], ["elsewhere", "dir"]]
    if R["kind"] != "no_descriptor":
        layout.append([ROOT + "/DiskDescriptor.xml", "xml"])
    for name in full.files:
        _, where, dec, _ = _place(R["mode"][name], name)
        if where:
            layout.append([where, ids[name]])
        if dec:
            layout.append([dec, "decoy"])
    # expected opens: storages in XML order, chain root first
    exp = []
    for i in r["xml_order"]:
        s = r["storages"][i]
        by = {im["guid"]: im for im in s["images"]}
        for g in reversed(R["use_chain"]):
            o = _place(R["mode"][by[g]["file"]], by[g]["file"])[3]
            exp.append(subst(o, T) if o else None)
    return r, t, full, ids, images, layout, exp


def rh_rtok(chain, paths):
    return "R:" + ",".join(str(gint(g)) for g in chain) + ":" + ",".join(hexs(p) for p in paths)


def rh_build(case, T):
    R = case["recipe"]
    r, t, full, ids, images, layout, exp = rh_parts(case, T)
    e = R["expect"]
    if e == "ok":
        truth = [rh_rtok(R["use_chain"], exp)] + core.truth_ops(t.size, t.read, case["queries"])
    elif e == "E":
        truth = ["E"]
    else:
        truth = None
    toks = []
    for tok in t.storage_tokens():
        a, en, kind, names = tok.split(":", 3)
        names = "+".join(("raw=" + ids[n[4:]]) if n.startswith("raw=") else ids[n] for n in names.split("+"))
        toks.append(f"{a}:{en}:{kind}:{names}")
    depth = len(R["use_chain"])
    b = Built(images, truth, {"branches": ["rh", "rh_" + R["kind"], f"depth{depth}"], "crosses": True, "depth": max(depth, 2), "in_scope": e != "oos",
                              "compare_model_out_of_scope": True, "missing": e == "E", "tokens": toks, "layout": layout})
    b.t = t
    b.r = r
    return b


def rh_impl(case, built, T):
    from pathlib import Path
    from dissect.hypervisor.disk.hdd import HDD
    R = case["recipe"]
    materialise(built.info["layout"], T, built.files)
    with record_opens(T) as log:
        try:
            h = HDD(Path(T) / R["start"])
            s = h.open(R["guid"])
        except Exception as e:  # noqa
            return {"answers": ["E"], "errors": {"0": f"{type(e).__name__}: {e}"[:300]}}
        opened = [p for p in log if not p.endswith("DiskDescriptor.xml")]
    from uuid import UUID
    g = UUID(R["guid"]) if R["guid"] else (h.descriptor.snapshots.top_guid or UUID(gen_hdd.DEFAULT_TOP))
    chain = ["{" + str(x) + "}" for x in h.descriptor.get_snapshot_chain(g)]
    res = core.impl_ops(s, case["queries"])
    return {"answers": [rh_rtok(chain, opened)] + res["answers"], "errors": res["errors"]}


def rh_model_lines(case, built, T):
    R = case["recipe"]
    r = built.r
    ids = {k: k for k in built.files}
    ents = layout_entries(built.info["layout"], T, ids)
    shots = [f"{gint(g)}>{gint(p)}" for g, p in r["shots"]]
    sts = []
    for i in r["xml_order"]:
        s = r["storages"][i]
        imgs = ";".join(f"{gint(im['guid'])},{hexs(im['type'])},{hexs(subst(_place(R['mode'][im['file']], im['file'])[0], T))}" for im in s["images"])
        sts.append(f"{s['start']}:{s['end']}:{imgs}")
    line = " ".join(["resolve.hdd", hexs(T + "/" + R["start"]), "0", str(gint(gen_hdd.DEFAULT_TOP)), str(gint(R["guid"])) if R["guid"] else "-",
                     str(gint(r["top"])) if r["top_explicit"] else "-", str(case["align"]), str(len(shots))] + shots + [str(len(sts))] + sts + ents)
    lines = core.file_lines(built.files) + [line]
    if R["expect"] != "E":
        st = built.info["tokens"]
        lines.append(f"hdd.stream {case['align']} {len(st)} " + " ".join(st) + " " + " ".join(core.op_tokens(case["queries"])))
    return lines


def rh_model_parse(case, built, out):
    if not out:
        return {"answers": None, "wf": None}
    a = out[0].split()
    if a[:1] == ["err"]:
        return {"answers": ["E"], "wf": False}
    if a[:1] != ["ok"] or len(a) < 3:
        return {"answers": None, "wf": None}
    rest = core.parse_stream_answer(out[1]) if len(out) > 1 else None
    if rest is None:
        return {"answers": None, "wf": None}
    return {"answers": ["R:" + a[1] + ":" + a[2]] + rest, "wf": True}


# ------------------------------------------------------------------------------------------ rq: QCOW2 backing name

RQ_KINDS = ["name_rel_none", "name_abs_none", "name_rel_allow", "name_abs_allow", "name_rel_other_handle", "name_abs_other_handle"]


def gen_rq(rng, tier, kind):
    while True:
        r = gen_qcow2.gen_recipe(rng, "quick", backing="raw", nsnaps=0)
        # the generator sized the header extensions for its own name: only replace a name that is at least as long as ours
        # (the files of this family are written to a real directory: a raw backing image is materialised in full, so no huge disks)
        if r.get("backing") and r["backing"]["kind"] == "raw" and len(r["backing_name"].encode()) >= 40 and r["size"] <= 64 << 20 \
                and r["backing"].get("size", 0) <= 64 << 20:
            break
    r["backing_name"] = "base.img" if "_rel_" in kind else "{T}/base.img"
    return {"qcow2": r, "kind": kind, "decoy_seed": (r["backing"]["seed"] + 77) % 256}


def rq_parts(case, T):
    R = case["recipe"]
    r = subst(copy.deepcopy(R["qcow2"]), T)
    named = gen_qcow2.Truth(r)                                   # over the file the name designates
    r2 = copy.deepcopy(r)
    r2["backing"]["seed"] = R["decoy_seed"]
    other = gen_qcow2.Truth(r2)                                  # over the handle the caller passes instead
    return r, named, other


def rq_build(case, T):
    import c01
    R = case["recipe"]
    r, named, other = rq_parts(case, T)
    kind = R["kind"]
    files = dict(other.files)
    files["named"] = named.files["backing"]
    if kind.endswith("_none"):
        truth = ["E"]
    elif kind.endswith("_allow"):
        truth = None                                             # the opt-out: zeros below (qcow2_no_backing_zeros); model vs code only
    else:
        truth = ["R:"] + core.truth_ops(other.size, other.read, case["queries"])
    b = Built(files, truth, {"branches": ["rq", "rq_" + kind], "crosses": True, "depth": 2, "in_scope": truth is not None, "compare_model_out_of_scope": True,
                             "missing": kind.endswith("_none"), "tokens": c01.tokens(other)})
    b.t = other
    return b


def rq_impl(case, built, T):
    from dissect.hypervisor.disk import qcow2 as Q
    R = case["recipe"]
    kind = R["kind"]
    os.makedirs(T, exist_ok=True)
    built.files["named"].write_to(os.path.join(T, "base.img"))   # what the name in the header designates exists, next to the image
    t = built.t
    cwd = os.getcwd()
    os.chdir(T)
    try:
        with record_opens(T) as log:
            fh = t.files["img"].open(name=os.path.join(T, "top.qcow2"))
            df = t.files["data"].open() if "data" in t.files else None
            try:
                if kind.endswith("_none"):
                    q = Q.QCow2(fh, data_file=df, backing_file=None)
                elif kind.endswith("_allow"):
                    q = Q.QCow2(fh, data_file=df, backing_file=Q.ALLOW_NO_BACKING_FILE)
                else:
                    q = Q.QCow2(fh, data_file=df, backing_file=t.files["backing"].open())
            except Exception as e:  # noqa
                return {"answers": ["E"], "errors": {"0": f"{type(e).__name__}: {e}"[:300]}}
            res = core.impl_ops(q, case["queries"])
            opened = list(log)
    finally:
        os.chdir(cwd)
    return {"answers": [rtok(opened)] + res["answers"], "errors": res["errors"]}


def rq_model_lines(case, built, T):
    kind = case["recipe"]["kind"]
    tk = list(built.info["tokens"])
    files = {k: v for k, v in built.files.items() if k != "named"}
    toks = " ".join(core.op_tokens(case["queries"]))
    if kind.endswith("_none"):
        tk = [tk[-1].rsplit(":", 1)[0] + ":x"]
    elif kind.endswith("_allow"):
        tk = [tk[-1].rsplit(":", 1)[0] + ":n"]
    return core.file_lines(files) + [f"qcow2.stream {case['align']} {len(tk)} " + " ".join(tk) + " " + toks]


def rq_model_parse(case, built, out):
    ans = core.parse_stream_answer(out[0]) if out else None
    if ans is None:
        return {"answers": None, "wf": None}
    if ans == ["E"]:
        return {"answers": ans, "wf": False}
    # the model has no operation that opens a name: its list of opened paths is empty by construction (qcow2_backing_resolution)
    return {"answers": ["R:"] + ans, "wf": True}


# ------------------------------------------------------------------------------------------ dispatch

def generate(rng, tier):
    cases = []
    reps = 1 if tier == "quick" else 8
    for rep in range(reps):
        for k in RX_KINDS:
            R = gen_rx(rng, tier, k)
            cases.append({"id": f"rx{rep}_{k}", "fam": "rx", "recipe": R, "align": rng.choice([8192, 8192, 4096, 65536]),
                          "queries": gen_vhdx.gen_queries(rng, R["vhdx"], 4)})
        for k in RH_KINDS:
            R = gen_rh(rng, tier, k)
            r2 = copy.deepcopy(R["hdd"])
            r2["chain"] = list(R["use_chain"])
            cases.append({"id": f"rh{rep}_{k}", "fam": "rh", "recipe": R, "align": rng.choice([8192, 8192, 512, 65536]),
                          "queries": gen_hdd.gen_queries(rng, gen_hdd.Truth(r2), 4)})
        for k in RQ_KINDS:
            R = gen_rq(rng, tier, k)
            t = gen_qcow2.Truth(subst(copy.deepcopy(R["qcow2"]), "/tmp/hvc07-0000000000000000"))
            cases.append({"id": f"rq{rep}_{k}", "fam": "rq", "recipe": R, "align": rng.choice([8192, 8192, 512, 65536]),
                          "queries": gen_qcow2.gen_queries(rng, t, 4, 0)})
    return cases


BUILD = {"rx": rx_build, "rh": rh_build, "rq": rq_build}
IMPL = {"rx": rx_impl, "rh": rh_impl, "rq": rq_impl}
LINES = {"rx": rx_model_lines, "rh": rh_model_lines, "rq": rq_model_lines}
PARSE = {"rx": rx_model_parse, "rh": rh_model_parse, "rq": rq_model_parse}
