/-
  Footprint theorems for VMDK sparse extents (C13, I/O clause): `SparseDisk.read_sectors` — `_lookup_grain`, the run
  coalescer `get_runs` and the run reader — depends on the extent file only through its size and the bytes named by
  `Hv.Footprint.vmdk`: one grain-table entry per grain touched and the requested sectors of the allocated grains.
-/
import Hv.Footprint
import HvProofs.Footprint
import HvProofs.Vmdk
namespace Hv.Footprint
open Hv Hv.Vmdk Hv.Extracted.vmdk

section vmdk

theorem vmdk_tableOffset_fh (v : Sparse) (f' : File) (e : Nat) :
    ({ v with fh := f' } : Sparse).tableOffset e = v.tableOffset e := rfl

/-- `_lookup_grain(g)` looks only at the entry of grain `g` in the grain table its directory entry names -/
theorem vmdk_lookupGrain_congr (v : Sparse) (f' : File) (g : Nat) (hs : v.fh.size = f'.size)
    (h : ∀ off, vmdkTable v g = some off → ∀ p, off + (g % v.gtSize) * v.entryWidth ≤ p →
      p < off + (g % v.gtSize) * v.entryWidth + v.entryWidth → v.fh.byte p = f'.byte p) :
    ({ v with fh := f' } : Sparse).lookupGrain g = v.lookupGrain g := by
  unfold Sparse.lookupGrain
  show (if v.gtSize = 0 then _ else _) = _
  by_cases hz : v.gtSize = 0
  · simp only [hz, if_true]
  · simp only [hz, if_false]
    cases hgd : v.gd[g / v.gtSize]? with
    | none => rfl
    | some e =>
      simp only [vmdk_tableOffset_fh]
      cases hto : v.tableOffset e with
      | none => rfl
      | some off =>
        simp only [bind, Except.bind]
        have hw : ({ v with fh := f' } : Sparse).entryWidth = v.entryWidth := rfl
        rw [hw, ← hs]
        by_cases hfit : off + v.gtSize * v.entryWidth > v.fh.size
        · simp only [hfit, if_true, throw, throwThe, MonadExceptOf.throw]
        · simp only [hfit, if_false]
          have htab : vmdkTable v g = some off := by
            simp only [vmdkTable, hz, if_false, hgd, hto, hfit]
          have hsl : slice f'.byte (off + g % v.gtSize * v.entryWidth) v.entryWidth
              = slice v.fh.byte (off + g % v.gtSize * v.entryWidth) v.entryWidth := by
            apply slice_congr
            intro i hi
            exact (h off htab _ (by omega) (by omega)).symm
          rw [hsl]
          rfl

theorem vmdk_newCur_fh (v : Sparse) (f' : File) (gs rs go n : Nat) :
    ({ v with fh := f' } : Sparse).newCur gs rs go n = v.newCur gs rs go n := rfl

/-- `get_runs` depends on the file only through the lookups of the grains the request touches -/
theorem vmdk_getRunsLoop_congr (v : Sparse) (f' : File) (s0 c0 : Nat)
    (hlk : ∀ g ∈ unitsTouched v.grainSize s0 c0, ({ v with fh := f' } : Sparse).lookupGrain g = v.lookupGrain g) :
    ∀ fuel rs rc cur, s0 ≤ rs → rs + rc = s0 + c0 →
      ({ v with fh := f' } : Sparse).getRunsLoop fuel rs rc cur = v.getRunsLoop fuel rs rc cur := by
  intro fuel
  induction fuel with
  | zero => intro rs rc cur _ _; rfl
  | succ fuel ih =>
    intro rs rc cur h0 he
    unfold Sparse.getRunsLoop
    by_cases hz : rc = 0
    · simp only [hz, if_true]
    · simp only [hz, if_false]
      show (if v.grainSize = 0 then _ else _) = _
      by_cases hg : v.grainSize = 0
      · simp only [hg, if_true]
      · simp only [hg, if_false]
        have hmem : rs / v.grainSize ∈ unitsTouched v.grainSize s0 c0 := mem_unitsTouched _ _ _ _ h0 (by omega)
        rw [hlk _ hmem]
        have hmod := Nat.mod_lt rs (by omega : 0 < v.grainSize)
        cases hl : v.lookupGrain (rs / v.grainSize) with
        | error e => rfl
        | ok gs =>
          simp only [bind, Except.bind, vmdk_newCur_fh]
          rw [ih _ _ _ (by omega) (by omega)]
          cases cur with
          | none => rfl
          | some c =>
            simp only
            rw [ih _ _ _ (by omega) (by omega), ih _ _ _ (by omega) (by omega)]

/-- a successful lookup that names a grain went through a table inside the file -/
theorem vmdk_lookup_table (v : Sparse) (g gs : Nat) (h : v.lookupGrain g = .ok gs) (hgs : gs ≠ 0) :
    ∃ off, vmdkTable v g = some off := by
  unfold Sparse.lookupGrain at h
  unfold vmdkTable
  by_cases hz : v.gtSize = 0
  · simp [hz] at h
  · simp only [hz, if_false] at h ⊢
    cases hgd : v.gd[g / v.gtSize]? with
    | none => simp [hgd] at h
    | some e =>
      simp only [hgd] at h ⊢
      cases hto : v.tableOffset e with
      | none => simp only [hto, Except.ok.injEq] at h; exact absurd h.symm hgs
      | some off =>
        simp only [hto, bind, Except.bind] at h ⊢
        by_cases hfit : off + v.gtSize * v.entryWidth > v.fh.size
        · simp [hfit, throw, throwThe, MonadExceptOf.throw] at h
        · simp only [hfit, if_false]
          exact ⟨off, rfl⟩

/-- the sectors of a chunk inside an allocated grain are a footprint entry -/
theorem vmdk_chunk_mem (v : Sparse) (s0 c0 rs rc gs : Nat) (hpos : 0 < v.grainSize) (h0 : s0 ≤ rs)
    (he : rs + rc = s0 + c0) (hrc : 0 < rc) (hb : rs = s0 ∨ rs % v.grainSize = 0)
    (hl : v.lookupGrain (rs / v.grainSize) = .ok gs) (hgs : 1 < gs) :
    ((gs + rs % v.grainSize) * S, min rc (v.grainSize - rs % v.grainSize) * S)
      ∈ (unitsTouched v.grainSize s0 c0).flatMap (vmdkUnit v s0 c0) := by
  rw [List.mem_flatMap]
  refine ⟨rs / v.grainSize, mem_unitsTouched _ _ _ _ h0 (by omega), ?_⟩
  obtain ⟨off, hoff⟩ := vmdk_lookup_table v _ gs hl (by omega)
  have hpart := partIn_chunk v.grainSize s0 c0 rs rc hpos h0 he hb
  have hne : ¬ (gs = 0 ∨ gs = 1) := by omega
  simp only [vmdkUnit, hoff, vmdkData, hl, hne, if_false, hpart, List.mem_cons, or_true, List.not_mem_nil, or_false]

/-- the pending run of `get_runs`: an allocated run's sectors are covered and, while the request goes on, the run
    ends on the grain boundary `next` -/
def vmdkCurOK (P : Nat → Prop) (rc : Nat) : Option Cur → Prop
  | none => True
  | some c => 1 < c.type →
      (∀ p, (c.type + c.offset) * 512 ≤ p → p < (c.type + c.offset + c.count) * 512 → P p) ∧
      (rc = 0 ∨ c.next = c.type + c.offset + c.count)

theorem vmdk_newCur_type (v : Sparse) (gs rs go n : Nat) : (v.newCur gs rs go n).type = gs := by
  unfold Sparse.newCur
  by_cases g0 : gs = 0
  · simp [g0]
  · by_cases g1 : gs = 1
    · simp [g1]
    · simp [g0, g1]

theorem vmdk_newCur_big (v : Sparse) (gs rs go n : Nat) (h : 1 < gs) :
    v.newCur gs rs go n = ⟨gs, go, n, 0, gs + v.grainSize⟩ := by
  unfold Sparse.newCur
  have g0 : ¬ gs = 0 := by omega
  have g1 : ¬ gs = 1 := by omega
  simp only [g0, g1, if_false]

set_option maxRecDepth 4096 in
/-- every allocated run `get_runs` produces is covered by the footprint -/
theorem vmdk_getRuns_covered (v : Sparse) (s0 c0 : Nat) (P : Nat → Prop)
    (hP : ∀ r ∈ (unitsTouched v.grainSize s0 c0).flatMap (vmdkUnit v s0 c0), ∀ p, r.1 ≤ p → p < r.1 + r.2 → P p) :
    ∀ fuel rs rc cur runs, s0 ≤ rs → rs + rc = s0 + c0 → (rc = 0 ∨ rs = s0 ∨ rs % v.grainSize = 0) →
      (cur ≠ none → rc = 0 ∨ rs % v.grainSize = 0) → vmdkCurOK P rc cur →
      v.getRunsLoop fuel rs rc cur = .ok runs →
      ∀ r ∈ runs, 1 < r.type → ∀ p, (r.type + r.offset) * 512 ≤ p → p < (r.type + r.offset + r.count) * 512 → P p := by
  have hflush : ∀ rc cur, vmdkCurOK P rc cur →
      ∀ r ∈ flush cur, 1 < r.type → ∀ p, (r.type + r.offset) * 512 ≤ p → p < (r.type + r.offset + r.count) * 512 → P p := by
    intro rc cur hc r hr
    cases cur with
    | none => simp [flush] at hr
    | some c =>
      simp only [flush, List.mem_singleton] at hr
      subst hr
      intro ht
      exact (hc ht).1
  intro fuel
  induction fuel with
  | zero =>
    intro rs rc cur runs _ _ _ _ hcur h
    unfold Sparse.getRunsLoop at h
    by_cases hz : rc = 0
    · simp only [hz, if_true, Except.ok.injEq] at h
      subst h
      exact hflush rc cur hcur
    · simp [hz] at h
  | succ fuel ih =>
    intro rs rc cur runs h0 he hb hcb hcur h
    unfold Sparse.getRunsLoop at h
    by_cases hz : rc = 0
    · simp only [hz, if_true, Except.ok.injEq] at h
      subst h
      exact hflush rc cur hcur
    · simp only [hz, if_false] at h
      by_cases hg : v.grainSize = 0
      · simp [hg] at h
      · simp only [hg, if_false] at h
        have hpos : 0 < v.grainSize := by omega
        have hmod := Nat.mod_lt rs hpos
        have hb' : rs = s0 ∨ rs % v.grainSize = 0 := by omega
        cases hl : v.lookupGrain (rs / v.grainSize) with
        | error e => simp [hl, bind, Except.bind] at h
        | ok gs =>
          simp only [hl, bind, Except.bind] at h
          generalize hn : min rc (v.grainSize - rs % v.grainSize) = n at h
          have hn1 : 1 ≤ n := by omega
          have hnext : rc - n = 0 ∨ rs + n = s0 ∨ (rs + n) % v.grainSize = 0 := by
            by_cases hrest : rc - n = 0
            · exact Or.inl hrest
            · have hfull : rs % v.grainSize + n = v.grainSize := by omega
              exact Or.inr (Or.inr (next_block rs v.grainSize n hpos hfull).2)
          have hnext' : ∀ c : Option Cur, c ≠ none → rc - n = 0 ∨ (rs + n) % v.grainSize = 0 := by
            intro _ _
            by_cases hrest : rc - n = 0
            · exact Or.inl hrest
            · have hfull : rs % v.grainSize + n = v.grainSize := by omega
              exact Or.inr (next_block rs v.grainSize n hpos hfull).2
          -- the chunk of an allocated grain is covered
          have hchunk : 1 < gs → ∀ p, (gs + rs % v.grainSize) * 512 ≤ p → p < (gs + rs % v.grainSize + n) * 512 → P p := by
            intro hgs p h1 h2
            have hm := vmdk_chunk_mem v s0 c0 rs rc gs hpos h0 he (by omega) hb' hl hgs
            rw [hn] at hm
            apply hP _ hm p
            · show (gs + rs % v.grainSize) * 512 ≤ p
              exact h1
            · show p < (gs + rs % v.grainSize) * 512 + n * 512
              rw [← Nat.add_mul]; exact h2
          -- a fresh run
          have hnew : vmdkCurOK P (rc - n) (some (v.newCur gs rs (rs % v.grainSize) n)) := by
            show 1 < (v.newCur gs rs (rs % v.grainSize) n).type → _
            rw [vmdk_newCur_type]
            intro hgs
            rw [vmdk_newCur_big v gs rs _ n hgs]
            refine ⟨hchunk hgs, ?_⟩
            by_cases hrest : rc - n = 0
            · exact Or.inl hrest
            · right
              show gs + v.grainSize = gs + rs % v.grainSize + n
              omega
          cases cur with
          | none =>
            simp only at h
            exact ih _ _ _ runs (by omega) (by omega) hnext (hnext' _) hnew h
          | some c =>
            simp only at h
            have hal : rs % v.grainSize = 0 := by
              have := hcb (by simp)
              omega
            by_cases hm1 : (c.type = 0 ∧ gs = 0) ∨ (c.type = 1 ∧ gs = 1)
            · simp only [hm1, if_true] at h
              refine ih _ _ _ runs (by omega) (by omega) hnext (hnext' _) ?_ h
              simp only [vmdkCurOK]
              intro hh; omega
            · simp only [hm1, if_false] at h
              by_cases hm2 : c.type > 1 ∧ gs = c.next
              · simp only [hm2, and_self, if_true] at h
                refine ih _ _ _ runs (by omega) (by omega) hnext (hnext' _) ?_ h
                simp only [vmdkCurOK]
                intro hh
                obtain ⟨hc1, hc2⟩ := hcur hm2.1
                have hnx : c.next = c.type + c.offset + c.count := by omega
                have hgs : 1 < gs := by omega
                refine ⟨?_, ?_⟩
                · intro p h1 h2
                  by_cases hp : p < (c.type + c.offset + c.count) * 512
                  · exact hc1 p h1 hp
                  · have e1 : gs + rs % v.grainSize = c.type + c.offset + c.count := by rw [hal, hm2.2, hnx]; rfl
                    apply hchunk hgs p
                    · rw [e1]; exact Nat.le_of_not_lt hp
                    · rw [e1, Nat.add_assoc]; exact h2
                · by_cases hrest : rc - n = 0
                  · exact Or.inl hrest
                  · right; omega
              · simp only [hm2, if_false] at h
                cases hrest : v.getRunsLoop fuel (rs + n) (rc - n) (some (v.newCur gs rs (rs % v.grainSize) n)) with
                | error e => simp [hrest] at h
                | ok rest =>
                  simp only [hrest, Except.ok.injEq] at h
                  subst h
                  intro r hr
                  rcases List.mem_cons.1 hr with hr | hr
                  · subst hr
                    intro ht
                    exact (hcur ht).1
                  · exact ih _ _ _ rest (by omega) (by omega) hnext (hnext' _) hnew hrest r hr

theorem vmdk_execRuns_congr (v : Sparse) (f' : File) (hs : v.fh.size = f'.size)
    (hunc : v.flags &&& SPARSEFLAG_COMPRESSED = 0) :
    ∀ runs, (∀ r ∈ runs, 1 < r.type → ∀ p, (r.type + r.offset) * 512 ≤ p → p < (r.type + r.offset + r.count) * 512 →
        v.fh.byte p = f'.byte p) →
      v.execRuns runs = ({ v with fh := f' } : Sparse).execRuns runs := by
  intro runs
  induction runs with
  | nil => intro _; rfl
  | cons r rest ih =>
    intro h
    unfold Sparse.execRuns
    have hd : v.runData r = ({ v with fh := f' } : Sparse).runData r := by
      unfold Sparse.runData
      by_cases h0 : r.type = 0
      · simp only [h0, if_true]
      · simp only [h0, if_false]
        by_cases h1 : r.type = 1
        · simp only [h1, if_true]
        · simp only [h1, if_false, hunc, if_true]
          congr 1
          apply File.read_congr _ _ _ _ hs
          intro p hp1 hp2
          apply h r (List.mem_cons_self ..) (by omega) p
          · exact hp1
          · have : (r.type + r.offset + r.count) * 512 = (r.type + r.offset) * S + r.count * S := by
              rw [S_eq]; omega
            omega
    rw [hd, ih (fun r' hr' => h r' (List.mem_cons_of_mem _ hr'))]

/-- **read_footprint (VMDK sparse extent, uncompressed)**: `read_sectors` — grain lookups, run coalescing and the run
    reads — depends on the extent file only through its size and the bytes of the footprint -/
theorem vmdk_read_footprint (v : Sparse) (f' : File) (sector count : Nat)
    (hunc : v.flags &&& SPARSEFLAG_COMPRESSED = 0) (hag : AgreeOn (vmdk v sector count) v.fh f') :
    v.readSectors sector count = ({ v with fh := f' } : Sparse).readSectors sector count := by
  unfold Sparse.readSectors Sparse.getRuns
  by_cases hc : count = 0
  · simp only [hc, if_true]; rfl
  · simp only [hc, if_false]
    have hso : ({ v with fh := f' } : Sparse).sectorOffset = v.sectorOffset := rfl
    rw [hso]
    have hlk : ∀ g ∈ unitsTouched v.grainSize (sector - v.sectorOffset) count,
        ({ v with fh := f' } : Sparse).lookupGrain g = v.lookupGrain g := by
      intro g hg
      apply vmdk_lookupGrain_congr v f' g hag.1
      intro off hoff
      apply hag.2 (off + (g % v.gtSize) * v.entryWidth, v.entryWidth)
      unfold vmdk
      rw [List.mem_flatMap]
      refine ⟨g, hg, ?_⟩
      simp only [vmdkUnit, hoff, List.mem_cons, true_or]
    rw [vmdk_getRunsLoop_congr v f' _ _ hlk count _ count none (Nat.le_refl _) rfl]
    cases hr : v.getRunsLoop count (sector - v.sectorOffset) count none with
    | error e => rfl
    | ok runs =>
      simp only [bind, Except.bind]
      apply vmdk_execRuns_congr v f' hag.1 hunc
      exact vmdk_getRuns_covered v _ _ (fun p => v.fh.byte p = f'.byte p) hag.2 count _ count none runs
        (Nat.le_refl _) rfl (Or.inr (Or.inl rfl)) (fun h => absurd rfl h) trivial hr

/-! size bound and placement -/

theorem vmdk_entryWidth_le (v : Sparse) : v.entryWidth ≤ 8 := by
  unfold Sparse.entryWidth; split <;> omega

theorem vmdkData_total (v : Sparse) (sector count g : Nat) :
    total (vmdkData v sector count g) ≤ (partIn v.grainSize sector count g).2 * S := by
  unfold vmdkData
  split
  · split
    · simp [total]
    · simp [total]
  · simp [total]

theorem vmdkUnit_total (v : Sparse) (sector count g : Nat) :
    total (vmdkUnit v sector count g) ≤ (partIn v.grainSize sector count g).2 * S + 8 := by
  unfold vmdkUnit
  split
  · simp [total]
  · rw [total_cons]
    have := vmdkData_total v sector count g
    have := vmdk_entryWidth_le v
    simp only
    omega

set_option maxRecDepth 4096 in
/-- **footprint_size_bound (VMDK)**: the requested sectors plus one grain-table entry (≤ 8 bytes) per grain touched -/
theorem vmdk_footprint_size_bound (v : Sparse) (sector count : Nat) :
    total (vmdk v sector count) ≤ count * 512 + 8 * (count / v.grainSize + 2) := by
  unfold vmdk
  generalize sector - v.sectorOffset = s
  have h1 := total_flatMap_le (unitsTouched v.grainSize s count) (vmdkUnit v s count)
    (fun i => (partIn v.grainSize s count i).2 * S) 8 (vmdkUnit_total v s count)
  rw [sum_map_mul] at h1
  have h2 := sum_parts_le v.grainSize s count
  have h3 := unitsTouched_length v.grainSize s count
  have h4 : ((unitsTouched v.grainSize s count).map (fun i => (partIn v.grainSize s count i).2)).sum * S ≤ count * S :=
    Nat.mul_le_mul_right _ h2
  have h5 : 8 * (unitsTouched v.grainSize s count).length ≤ 8 * (count / v.grainSize + 2) := Nat.mul_le_mul_left _ h3
  rw [S_eq] at h1 h4
  generalize total _ = T at h1 ⊢
  generalize ((unitsTouched v.grainSize s count).map (fun i => (partIn v.grainSize s count i).2)).sum = Sg at h1 h4
  generalize (unitsTouched v.grainSize s count).length = L at h1 h5
  generalize count / v.grainSize = D at h5 ⊢
  clear h2 h3
  omega

/-- **footprint_inside_request_units (VMDK)**: every range is the table entry of a grain the request touches (inside the
    grain table the directory names for it) or lies inside the grain that this entry names -/
theorem vmdk_footprint_inside (v : Sparse) (sector count : Nat) (hgs : 0 < v.grainSize) (r : Nat × Nat)
    (hr : r ∈ vmdk v sector count) :
    ∃ g off, (sector - v.sectorOffset) / v.grainSize ≤ g ∧ g ≤ (sector - v.sectorOffset + count - 1) / v.grainSize ∧
      vmdkTable v g = some off ∧
      (r = (off + (g % v.gtSize) * v.entryWidth, v.entryWidth) ∨
        ∃ gsec, v.lookupGrain g = .ok gsec ∧ 1 < gsec ∧ gsec * 512 ≤ r.1 ∧ r.1 + r.2 ≤ (gsec + v.grainSize) * 512) := by
  unfold vmdk at hr
  simp only [List.mem_flatMap] at hr
  obtain ⟨g, hg, hrg⟩ := hr
  obtain ⟨_, hlo, hhi⟩ := unitsTouched_bounds _ _ _ _ hg
  unfold vmdkUnit at hrg
  cases htab : vmdkTable v g with
  | none => simp [htab] at hrg
  | some off =>
    simp only [htab, List.mem_cons] at hrg
    refine ⟨g, off, hlo, hhi, htab, ?_⟩
    rcases hrg with hrg | hrg
    · exact Or.inl hrg
    · right
      unfold vmdkData at hrg
      cases hl : v.lookupGrain g with
      | error e => simp [hl] at hrg
      | ok gsec =>
        simp only [hl] at hrg
        by_cases h01 : gsec = 0 ∨ gsec = 1
        · simp [h01] at hrg
        · simp only [h01, if_false, List.mem_singleton] at hrg
          have hin := partIn_inside v.grainSize (sector - v.sectorOffset) count g hgs hlo
          generalize partIn v.grainSize (sector - v.sectorOffset) count g = pp at *
          subst hrg
          refine ⟨gsec, rfl, by omega, ?_, ?_⟩
          · show gsec * 512 ≤ (gsec + pp.1) * S
            rw [S_eq]; omega
          · show (gsec + pp.1) * S + pp.2 * S ≤ _
            rw [S_eq]; omega

/-- the narrow footprint is contained in what the real code transfers (whole tables) -/
theorem vmdk_sub_vmdkIO (v : Sparse) (sector count : Nat) (hgt : 0 < v.gtSize) (r : Nat × Nat) (hr : r ∈ vmdk v sector count) :
    ∃ r' ∈ vmdkIO v sector count, r'.1 ≤ r.1 ∧ r.1 + r.2 ≤ r'.1 + r'.2 := by
  unfold vmdk at hr
  simp only [List.mem_flatMap] at hr
  obtain ⟨g, hg, hrg⟩ := hr
  unfold vmdkUnit at hrg
  cases htab : vmdkTable v g with
  | none => simp [htab] at hrg
  | some off =>
    simp only [htab, List.mem_cons] at hrg
    have hmem : ∀ x, x ∈ vmdkUnitIO v (sector - v.sectorOffset) count g → x ∈ vmdkIO v sector count := by
      intro x hx
      unfold vmdkIO
      rw [List.mem_flatMap]
      exact ⟨g, hg, hx⟩
    rcases hrg with hrg | hrg
    · refine ⟨(off, v.gtSize * v.entryWidth), hmem _ (by simp [vmdkUnitIO, htab]), ?_⟩
      subst hrg
      have hm := Nat.mod_lt g hgt
      have : (g % v.gtSize + 1) * v.entryWidth ≤ v.gtSize * v.entryWidth := Nat.mul_le_mul_right _ hm
      rw [Nat.add_mul, Nat.one_mul] at this
      simp only
      omega
    · exact ⟨r, hmem _ (by simp [vmdkUnitIO, htab, hrg]), Nat.le_refl _, Nat.le_refl _⟩

end vmdk

/-! objects for the non-vacuity examples of `HvProps/C13.lean`: a hosted sparse extent with 2 grains of 8 sectors whose
    grain table sits at sector 2^31 (byte 2^40) and whose second grain sits at sector 0xC0000000 (byte 1.5 · 2^40) -/
def exVmdkFile (g : Nat → UInt8) : File :=
  ⟨2 ^ 42, fun p => if p = 2 ^ 40 + 7 then 0xC0 else if 2 ^ 40 ≤ p ∧ p < 2 ^ 40 + 8 then 0
    else if 1649267442176 ≤ p ∧ p < 1649267443200 then UInt8.ofNat p else g p⟩
def exVmdk : Sparse :=
  { fh := exVmdkFile (fun p => UInt8.ofNat p), kind := .hosted, flags := 0, capacity := 16, grainSize := 8, gtSize := 512,
    gd := #[2 ^ 31], grainTablesOffset := 0, grainsOffset := 0, sectorOffset := 0, parent := none,
    inflate := fun _ _ => .error .other }

end Hv.Footprint
