import Hv.Driver.Core
import Hv.Driver.Vdi
import Hv.Driver.Vhd
import Hv.Driver.Hds
import Hv.Driver.Vhdx
import Hv.Driver.Vmdk
import Hv.Driver.Qcow2
import Hv.Driver.Vmtar
import Hv.Driver.Misc
import Hv.Driver.HyperV
import Hv.Driver.Vmx
import Hv.Driver.Meta
import Hv.Driver.Envelope
import Hv.Driver.Configs
import Hv.Driver.Resolve
open Hv Hv.Driver

def dispatch (st : St) (toks : List String) : String :=
  match toks with
  | [] => "bad-cmd"
  | cmd :: _ =>
    if cmd.startsWith "vdi." then vdiCmd st toks
    else if cmd.startsWith "vhd." then vhdCmd st toks
    else if cmd.startsWith "hds." then hdsCmd st toks
    else if cmd.startsWith "hdd." then hddCmd st toks
    else if cmd.startsWith "vhdx." then vhdxCmd st toks
    else if cmd.startsWith "vmdk.desc." || cmd.startsWith "desc." then vmdkDescCmd st toks
    else if cmd.startsWith "vmdk." then vmdkCmd st toks
    else if cmd.startsWith "qcow2." then qcow2Cmd st toks
    else if cmd.startsWith "vmtar." then vmtarCmd st toks
    else if cmd.startsWith "fx." || cmd.startsWith "xml." then miscCmd st toks
    else if cmd.startsWith "hyperv." then hypervCmd st toks
    else if cmd.startsWith "vmx." then vmxCmd st toks
    else if cmd.startsWith "meta." then metaCmd st toks
    else if cmd.startsWith "env." then envelopeCmd st toks
    else if cmd.startsWith "cfg." then configsCmd st toks
    else if cmd.startsWith "resolve." then resolveCmd st toks
    else "bad-cmd"

partial def loop (h : IO.FS.Stream) (out : IO.FS.Stream) (st : St) : IO Unit := do
  let line ← h.getLine
  if line.isEmpty then return ()
  let toks := (line.trimAscii.toString.splitOn " ").filter (· ≠ "")
  match toks with
  | [] => loop h out st
  | ["clear"] => loop h out {}
  | ["file", id, sz] =>
    match sz.toNat? with
    | some n => loop h out { st with raw := st.raw.insert id (n, #[]), built := st.built.erase id }
    | none => out.putStrLn "bad-file"; loop h out st
  | ["seg", id, off, "hex", hx] =>
    match st.raw[id]?, off.toNat?, parseHex hx with
    | some (sz, segs), some o, some b =>
      loop h out { st with raw := st.raw.insert id (sz, segs.push ⟨o, b.size, .hex b⟩) }
    | _, _, _ => out.putStrLn "bad-seg"; loop h out st
  | ["seg", id, off, "fill", b, n] =>
    match st.raw[id]?, off.toNat?, b.toNat?, n.toNat? with
    | some (sz, segs), some o, some bv, some nv =>
      loop h out { st with raw := st.raw.insert id (sz, segs.push ⟨o, nv, .fill (UInt8.ofNat bv)⟩) }
    | _, _, _, _ => out.putStrLn "bad-seg"; loop h out st
  | ["seg", id, off, "pat", sd, n] =>
    match st.raw[id]?, off.toNat?, sd.toNat?, n.toNat? with
    | some (sz, segs), some o, some sv, some nv =>
      loop h out { st with raw := st.raw.insert id (sz, segs.push ⟨o, nv, .pat sv⟩) }
    | _, _, _, _ => out.putStrLn "bad-seg"; loop h out st
  | ["build"] => loop h out st.build
  | _ =>
    out.putStrLn (dispatch st toks)
    loop h out st

def main : IO Unit := do
  let stdin ← IO.getStdin
  let stdout ← IO.getStdout
  loop stdin stdout {}
