"""C16 — ESXi envelope + keystore. Independent writer (gen_envelope: envelopes + keystores built with pycryptodome /
hashlib, truth by construction), the real `Envelope` / `KeyStore` / `envelope-decrypt` tool, and the Lean model over
*abstract crypto*: the model's SHA-256 / PBKDF2 / AES-GCM are a finite table that this harness computes with the real
libraries for exactly the calls the model makes (the driver answers `need <call>` for a missing entry; that is a
protocol message, never a verdict)."""
from __future__ import annotations

import base64
import copy
import functools
import hashlib
import io
import os
import random
import struct
import subprocess
import zlib

import core
import gen_envelope as G
from core import Built
from sparse import Image

PROPERTY = "C16"
RULE = ("seeded envelope generator (independent writer, pycryptodome): payload lengths 0..3*4096+k incl. block-aligned payloads "
        "with padding 0, paddings 0/1/4095/random, attribute sets of all 12 types in any order (flags, unicode names, full "
        "header block), IV lengths 1..64, AAD present/absent, 8 keystores x many text spellings. Per envelope: parsed "
        "attributes + re-serialised header + tag, keystore id/key, decrypt (verify on/off), the CLI run in a temp dir, wrong "
        "key, AAD presence flipped, single-byte alterations of attribute bytes / ciphertext / tag / AAD (must all fail). "
        "Companion cases (model tie only): alterations of discarded header bytes, terminator, fixed header, footer fields and "
        "gate variants. Keystore sequences parsed in ONE process (same keyId/data1, different data2, repeats) and mangled "
        "keystore texts (base64 / url-quoting / nesting edge cases). On every run: same-object histories (one Envelope object "
        "decrypted 2-4 times: right key twice, after a wrong-AAD / wrong-key refusal, around decrypts of tampered copies, with the caller "
        "moving the shared handle in between; verify on and off) and envelopes whose encrypted data crosses the 4 / 8 MiB decrypt chunk "
        "(payload + padding + footer block ending exactly at / just before / just behind the boundary, paddings 0, 1, 17, 4095; API and CLI; "
        "real code vs construction only). Answers D<len>:<crc32> | E | K<id>:<key>.")
ASSUMPTIONS = ["hashlib SHA-256 / PBKDF2-HMAC-SHA256 and pycryptodome AES-GCM are parameters of the model (a finite table computed by the "
               "harness with the same libraries for exactly the model's calls); GCM's own authenticity is the library's",
               "modelled, not verified: cstruct reads/writes, CPython float32<->double conversion, str.strip/split/partition, "
               "urllib.parse.unquote, binascii.a2b_base64 (non-strict), UTF-8 validity, pycryptodome verify() = equality with the 16-byte tag",
               "alterations of bytes the parser discards (header pad, the two reserved bytes per attribute) are compared model-vs-code only",
               "a Float attribute holding a float32 signalling NaN is a known finding (header is re-serialised with the quiet bit set)"]
TIMEOUT_CASE = 120.0
CIPHER = b"AES-256-GCM"
DRV = core.LEAN / ".lake/build/bin/hvdrv"


def _crc(b: bytes) -> str:
    return f"D{len(b)}:{zlib.crc32(b) & 0xFFFFFFFF}"


def _hx(b: bytes) -> str:
    return b.hex() if b else "-"


@functools.lru_cache(maxsize=None)
def _pbkdf2(pw: bytes, salt: bytes, rounds: int) -> bytes:
    return hashlib.pbkdf2_hmac("sha256", pw, salt, rounds)


# ------------------------------------------------------------------------------------------------ generation
_FORCED = [(0, 0), (4096, 0), (8192, 0), (12288, 0), (1, 4095), (4095, 1), (4097, 4095), (3 * 4096 + 5, 0), (512, 0), (3584, 512)]


def _all_types_attrs(rng, reverse):
    ex = []
    for t in range(1, 13):
        ex.append({"name": f"t{t}." + G._gen_text(rng, 4, 0.2), "type": t, "flag": rng.choice([0, 1, 0x80, 0xFF]), "value": G._gen_value(rng, t)})
        if t == 9:
            ex[-1]["value"] &= ~0x7F800000 & 0xFFFFFFFF          # keep this one a finite number (sNaN is a separate known finding)
    return list(reversed(ex)) if reverse else ex


def _env_recipe(rng, tier, i):
    r = G.gen_recipe(rng, "quick" if tier == "quick" else tier)
    if r["plen"] > 64 * 1024:
        r["plen"] = 3 * 4096 + 17          # the model keeps whole files as lists: large payloads are not sent to it
    if i < len(_FORCED):
        r["plen"], r["padding"] = _FORCED[i]
    if i in (3, 4):
        req = [a for a in r["attrs"] if "req" in a]
        ex = _all_types_attrs(rng, i == 4)
        k = rng.randrange(len(req) + 1)
        r["attrs"] = req[:k] + ex + req[k:]
    if i in (5, 6, 7):                       # attribute area filled to the last byte of the header block (slack 0, 1, 2)
        r["attrs"] = [a for a in r["attrs"] if a.get("name") != "fill"]
        used = len(G._attr_spans(G._resolve(r))[0])
        n = G.BLOCK - G.HDR - 4 - (i - 5) - used - (4 + 5 + 8)
        if n >= 0:
            r["attrs"].insert(rng.randrange(len(r["attrs"]) + 1), {"name": "fill", "type": G.T_BYTES, "flag": 0, "value": rng.randbytes(n).hex()})
    if i % 2 == 0 and i < 10:
        r["aad"] = rng.randbytes(rng.choice([1, 16, 33])).hex()
    elif i < 10:
        r["aad"] = None
    return r


def _ks_text(kid: bytes, d1: bytes, d2: bytes, style: int) -> str:
    b = lambda x: base64.b64encode(x).decode()
    q = (lambda s: s.replace("=", "%3d")) if style % 2 == 0 else (lambda s: s.replace("=", "%3D").replace("+", "%2b").replace("/", "%2F"))
    ced = f"keyId={q(b(kid))}:data1={q(b(d1))}:data2={q(b(d2))}:version=1"
    if style % 3 == 0:
        return f'.encoding = "UTF-8"\nmode = "NONE"\nConfigEncData = "{ced}"\nincludeKeyCache = "FALSE"\n'
    if style % 3 == 1:
        return f'mode = NONE\r\n# a comment\r\nConfigEncData = {ced}\r\n'
    return f'ConfigEncData="{ced}"\n\n  mode="NONE"  '


def _ksseq_recipe(rng):
    """several keystores for ONE process: same keyId and data1, different data2 (the PBKDF2 salt) — and repeats"""
    kid, d1 = rng.randbytes(16), rng.randbytes(rng.choice([16, 32]))
    salts = [rng.randbytes(16) for _ in range(2)]
    plan = [(kid, d1, salts[0]), (kid, d1, salts[1]), (kid, d1, salts[0])]
    if rng.random() < 0.5:
        plan.append((kid, rng.randbytes(len(d1)), salts[1]))              # same keyId and data2, other data1
    if rng.random() < 0.5:
        plan.append((rng.randbytes(16), d1, salts[1]))                    # other keyId, same data
    plan.append((kid, d1, salts[1]))
    return {"seq": [[a.hex(), b.hex(), c.hex(), rng.randrange(6)] for a, b, c in plan]}


_FUZZ_B64 = ["QUJD", "QUJD=", "QUI=", "QUI", "Q", "QQ==", "QQ==QUJD", "QQ=", "Q=Q=", "QU-JD", "=QUJD", "QUJD====", "Q===", "QQ=x=", "",
             "QU JD", "QUJDé", "QUJD%", "%51UJD", "%51%55%4a%44", "QUJD%3", "QUJD%zz", "%c3%a9QUJD", "QUJD%3d%3d", "QUJD%3D", "Q%55JD", "%%35%31UJD"]


def _ksfuzz_recipe(rng, i):
    kid = base64.b64encode(rng.randbytes(16)).decode()
    d1 = base64.b64encode(rng.randbytes(16)).decode()
    d2 = base64.b64encode(rng.randbytes(16)).decode()
    f = {"keyId": kid, "data1": d1, "data2": d2, "version": "1"}
    lines = None
    k = i % 14
    if k == 0:
        f[rng.choice(["data1", "data2"])] = rng.choice(_FUZZ_B64)
    elif k == 1:
        f["keyId"] = rng.choice(_FUZZ_B64 + [base64.b64encode(rng.randbytes(n)).decode() for n in (0, 15, 17)])
    elif k == 2:
        del f[rng.choice(["keyId", "data1", "data2"])]
    elif k == 3:
        w = rng.choice(["data1", "data2"])
        s = list(f[w])
        p = rng.randrange(len(s) + 1)
        s.insert(p, rng.choice(["=", " ", "\t", "-", "_", "%", "%3", "%4", "é", "%41", ".", "==", "\r"]))
        f[w] = "".join(s)
    elif k == 4:
        w = rng.choice(["data1", "data2"])
        f[w] = f[w].rstrip("=") if rng.random() < 0.5 else f[w][:rng.randrange(len(f[w]))]
    ced = ":".join(f"{n}={v}" for n, v in f.items())
    if k == 5:
        ced += ":data2=" + base64.b64encode(rng.randbytes(8)).decode()            # duplicate field: the later one wins
    elif k == 6:
        ced = ced.replace("=", " = ", 2).replace(":", " :", 1) + ":" + rng.choice(["", "x", "=", "=x", "data1"])
    mode = "NONE"
    if k == 7:
        mode = rng.choice(["none", "", "TPM", " NONE ", "\tNONE", "NONE\t", '"NONE"', "NONE=1"])
    body = [f'mode = "{mode}"', f'ConfigEncData = "{ced}"']
    if k == 8:
        body = rng.choice([[body[1]], [body[0]], [f'mode.x = "1"', body[1]], [body[0], 'ConfigEncData.x = "1"'],
                           [f'mode = "NONE"', f'mode.sub = "x"', body[1]], [f'a = "1"', f'a.b = "2"'] + body,
                           [f'a.b = "2"', f'a = "1"'] + body, [f'a.b.c = "2"', f'a.b = "1"', f'a.b.c = "3"'] + body])
    elif k == 9:
        body = [rng.choice([".mode = x", "= y", "novalue", "a..b = 1", ".=", "x.=1", "mode", "#mode = TPM", " # c", " mode = TPM "])] + body
        rng.shuffle(body)
    elif k == 10:
        body = [f'mode =\t"NONE"' if rng.random() < 0.5 else f'mode = NONE', body[1]]
    elif k == 11:
        body = [body[0] + "\r" + body[1]] if rng.random() < 0.5 else [body[0] + "\x0c", body[1] + "\x1c"]
    elif k == 12:
        body = [f'mode = "TPM"'] + body if rng.random() < 0.5 else body + [f'mode = "TPM"']
    eol = rng.choice(["\n", "\n", "\r\n"])
    return {"text": eol.join(body) + rng.choice(["", eol])}


# same-object histories: every template is a list of steps on Envelope OBJECTS that live for the whole history
#   g = right key + right associated data on the intact envelope (object "a")      -> the payload, every time
#   a = wrong associated data (presence flipped / one byte altered), k = wrong key   -> refused
#   t = a decrypt on the object of a copy with one ciphertext byte altered, T = one tag byte altered -> refused
#   s = the caller moves the shared file handle of object "a" (no answer), then g
HIST_TEMPLATES = ["gg", "ggg", "ag", "kg", "akg", "gag", "gkg", "tg", "gtg", "gTtg", "ttg", "sg", "gsg", "asg"]
MIB = 1024 * 1024
CHUNK = 4 * MIB          # the envelope's decrypt chunk (a fact of the format reader, only used to place the directed sizes)


def _no_snan(r):
    for a in r["attrs"]:
        if a.get("type") == 9:
            a["value"] &= ~0x7F800000 & 0xFFFFFFFF      # finite (a signalling NaN is the separate known finding D27)
    return r


def _hist_cases(rng, tier):
    """directed: every quick run holds every history template, with and without associated data, verify on and off"""
    out = []
    n = 8 if tier == "quick" else 48
    for i in range(n):
        r = _no_snan(_env_recipe(rng, tier, 20 + i))     # 20+: no forced size / attribute layout (random recipe)
        r["plen"], r["padding"] = [(0, 0), (1, 4095), (4096, 0), (5000, 17), (3 * 4096 + 5, 1), (8192, 0), (4095, 1), (100, 0)][i % 8]
        r["aad"] = rng.randbytes(rng.choice([1, 16, 33])).hex() if i % 2 == 0 else None
        qs = [f"hist:{t}" for t in HIST_TEMPLATES] + [f"hist_nv:{t}" for t in ("gg", "kg", "gsg")]
        out.append({"id": f"h{i}", "kind": "env", "recipe": r, "tseed": rng.randrange(1 << 30), "queries": qs})
    return out


def _chunk_sizes(k):
    """(payload length, padding) around the k-th decrypt-chunk boundary, one per class of the last chunk's length
    L = (payload + padding + 4096) mod CHUNK: 0 | inside the crypto footer | inside the footer block | exactly the footer
    block (padding ends the previous chunk) | inside the padding | beyond"""
    e = k * CHUNK
    return [(e - 1, 1), (e - 17, 17), (e - 4095, 4095), (e, 0), (e + 1, 4095), (e - 4096 - 17, 17), (e - 4096, 0),
            (e - 4096 + 5, 17), (e - 4096 + 999, 1), (e - 3995, 4095), (e - 2, 1), (e - 4094, 4095), (e - 4096 + 1, 0), (e - 1, 0)]


def _chunk_cases(rng, tier):
    """directed: envelopes whose encrypted data crosses the 4 MiB / 8 MiB decrypt-chunk boundary (real code vs truth only;
    the model keeps whole files as lists and is not sent these)"""
    sizes1, sizes2 = _chunk_sizes(1), _chunk_sizes(2)
    if tier == "quick":                                  # 4-8 MiB of AES-GCM each: a fixed handful + a seed-dependent rotation
        k = rng.randrange(len(sizes1))
        pick = sizes1[:5] + [sizes1[5 + k % 9], sizes2[0], sizes2[1 + k % 13]]
    else:
        pick = sizes1 + sizes2 + _chunk_sizes(3)[:4]
    out = []
    for i, (plen, padding) in enumerate(pick):
        r = _no_snan(G.gen_recipe(rng, "quick"))
        r["plen"], r["padding"], r["fill"] = plen, padding, "rand"
        r["aad"] = None if i % 2 == 0 else rng.randbytes(16).hex()      # even ones also go through the CLI (which has no AAD)
        qs = ["dec", "cli"] if i % 2 == 0 else ["dec", "dec_nv", "hist:gg"]
        out.append({"id": f"c{i}", "kind": "env", "big": True, "recipe": r, "tseed": i, "queries": qs + ["t:cipher"]})
    return out


def generate(seed, tier):
    rng = random.Random(f"C16/{seed}/{tier}")
    n_env = 60 if tier == "quick" else 600
    cases = []
    for i in range(n_env):
        r = _env_recipe(rng, tier, i)
        ts = rng.randrange(1 << 30)
        cases.append({"id": f"g{i}", "kind": "env", "recipe": r, "tseed": ts, "queries": ["attrs", "ks", "dec", "dec_nv", "cli", "wrongkey", "wrongkey_nv", "aadflip",
                                                                                          "t:attr", "t:attr", "t:cipher", "t:tag", "t:aad", "t:tagsize", "t:tagsize+tag"]})
        if i % 2 == 0 or tier != "quick":
            cases.append({"id": f"x{i}", "kind": "info", "recipe": r, "tseed": ts ^ 0x5A5A,
                          "queries": ["t:term", "t:hdr_pad", "t:hdr_fixed", "t:footer_other", "gate", "gate"]})
    cases += _hist_cases(rng, tier)
    cases += _chunk_cases(rng, tier)
    if tier != "quick":
        for i, plen in enumerate([4 * 1024 * 1024 - 4096, 4 * 1024 * 1024, 4 * 1024 * 1024 + 1, 8 * 1024 * 1024 + 17]):
            r = G.gen_recipe(rng, "quick")           # crosses the 4 MiB decrypt chunk: real code vs truth only (not sent to the model)
            r["plen"], r["padding"] = plen, (-plen) % G.BLOCK
            cases.append({"id": f"big{i}", "kind": "env", "big": True, "recipe": r, "tseed": i, "queries": ["dec", "dec_nv", "cli", "t:cipher", "t:tag"]})
    for i in range(8 if tier == "quick" else 40):
        r = _ksseq_recipe(rng)
        cases.append({"id": f"k{i}", "kind": "ksseq", "recipe": r, "queries": ["ks"] * len(r["seq"])})
    for i in range(6 if tier == "quick" else 40):
        rs = [_ksfuzz_recipe(rng, i * 14 + j) for j in range(14)]
        cases.append({"id": f"f{i}", "kind": "ksfuzz", "recipe": {"texts": [x["text"] for x in rs]}, "queries": ["ks"] * len(rs)})
    return cases


# ------------------------------------------------------------------------------------------------ build
def _attr_canon(name: bytes, typ: int, flag: int, val) -> str:
    if typ in (1, 2, 3, 4, 5, 6, 7, 8):
        v = f"i{val}"
    elif typ == 9:
        v = f"f{val}"
    elif typ == 10:
        v = f"d{val}"
    elif typ == 11:
        v = "s" + _hx(val)
    else:
        v = "b" + _hx(val)
    return f"{_hx(name)}:{typ}:{flag}:{v}"


def _truth_attr(a: dict) -> str:
    t, v = a["type"], a["value"]
    if t == 11:
        v = v.encode()
    elif t == 12:
        v = bytes.fromhex(v)
    return _attr_canon(a["name"].encode(), t, a["flag"], v)


_GATES = ["magic", "version", "aead_version", "tag_size", "no_iv", "no_keyhash", "no_cipher", "no_keyinfo", "cipher_name", "iv_string", "iv_empty",
          "short_file", "one_block", "keyhash_string", "dup_attr", "unknown_type", "bad_utf8_name", "huge_bytes_len", "truncated_attr", "key16"]


def _gate_variant(b: dict, recipe: dict, rng: random.Random):
    """a structurally different envelope derived from a valid one (model tie only) -> (what, envelope bytes)"""
    env = bytearray(b["envelope"])
    what = rng.choice(_GATES)
    attrs = copy.deepcopy(b["attrs"])

    def rebuild(attrs, raw_tail=b""):
        body, _ = G._attr_spans(attrs)
        body += raw_tail
        if G.HDR + len(body) > G.BLOCK:
            return None
        hdr = bytearray(G.BLOCK)
        hdr[0:512] = env[0:512]
        hdr[512:512 + len(body)] = body
        return bytes(hdr) + bytes(env[G.BLOCK:])
    out = None
    if what == "magic":
        env[rng.randrange(21)] ^= 1 << rng.randrange(8)
    elif what == "version":
        struct.pack_into("<I", env, 508, rng.choice([0, 1, 3, 0x102, 1 << 31]))
    elif what == "aead_version":
        struct.pack_into("<I", env, len(env) - 4, rng.choice([0, 2, 0x101]))
    elif what == "tag_size":
        struct.pack_into("<I", env, len(env) - 8, rng.choice([0, 8, 15, 17, 32, 4056, 4057, 1 << 31]))
    elif what in ("no_iv", "no_keyhash", "no_cipher", "no_keyinfo"):
        nm = {"no_iv": "vmware.iv", "no_keyhash": "vmware.keyHash", "no_cipher": "vmware.cipherName", "no_keyinfo": "vmware.keyInfo"}[what]
        out = rebuild([a for a in attrs if a["name"] != nm])
    elif what == "cipher_name":
        for a in attrs:
            if a["name"] == "vmware.cipherName":
                a["value"] = rng.choice(["AES-128-GCM", "aes-256-gcm", "", "AES-256-GCM "])
        out = rebuild(attrs)
    elif what in ("iv_string", "iv_empty", "keyhash_string"):
        for a in attrs:
            if a["name"] == "vmware.iv" and what == "iv_string":
                a["type"], a["value"] = 11, "abcdefghijkl"
            if a["name"] == "vmware.iv" and what == "iv_empty":
                a["value"] = ""
            if a["name"] == "vmware.keyHash" and what == "keyhash_string":
                a["type"], a["value"] = 11, "x" * 32
        out = rebuild(attrs)
    elif what == "short_file":
        out = bytes(env[:rng.choice([0, 100, 511, 512, 600, 4095])])
    elif what == "one_block":
        out = bytes(env[:G.BLOCK]) if rng.random() < 0.5 else bytes(env[:G.BLOCK]) + bytes(env[-G.BLOCK:])[:rng.choice([1, 4095])]
    elif what == "dup_attr":
        a = copy.deepcopy(rng.choice(attrs))
        a["flag"] ^= 1
        attrs.insert(rng.randrange(len(attrs) + 1), a)
        out = rebuild(attrs)
    elif what == "unknown_type":
        out = rebuild(attrs, bytes([rng.choice([13, 14, 0x7F, 0xFF]), 0, 0, 0]) + b"zz\0" + b"\1\2\3\4")
    elif what == "bad_utf8_name":
        out = rebuild(attrs, bytes([1, 0, 0, 0]) + rng.choice([b"\xff", b"\xc0\x80", b"\xed\xa0\x80", b"\xf4\x90\x80\x80", b"\xe2\x82", b"\xc3\xa9"]) + b"\0\7")
    elif what == "huge_bytes_len":
        out = rebuild(attrs, bytes([12, 0, 0, 0]) + b"big\0" + struct.pack("<Q", rng.choice([1 << 63, (1 << 64) - 1, (1 << 63) - 1, 5000, 3])) + b"xy")
    elif what == "truncated_attr":
        body, _ = G._attr_spans(attrs)
        room = G.BLOCK - G.HDR - len(body)
        tail = rng.choice([bytes([3, 0, 0, 0]) + b"n\0" + b"\1\2", bytes([11, 0, 0, 0]) + b"n\0abc", bytes([4, 1]), bytes([12, 0, 0, 0]) + b"n\0\3\0\0"])
        if room > len(tail):
            hdr = bytearray(env[:G.BLOCK])
            hdr[G.BLOCK - len(tail):G.BLOCK] = tail          # an attribute cut off by the end of the block
            out = bytes(hdr) + bytes(env[G.BLOCK:])
    elif what == "key16":
        what = "magic"
        env[0] ^= 0x20
    return what, (out if out is not None else bytes(env))


def _image(b: bytes) -> Image:
    im = Image(len(b))
    im.put_hex(0, b)
    return im.finish(len(b))


def build(case):
    bl = _build(case)
    _REG[case["id"]] = bl
    _TABLES.pop(case["id"], None)
    return bl


def _build(case):
    kind = case["kind"]
    if kind == "ksseq":
        texts, truth = [], []
        for kid, d1, d2, style in case["recipe"]["seq"]:
            kid, d1, d2 = bytes.fromhex(kid), bytes.fromhex(d1), bytes.fromhex(d2)
            texts.append(_ks_text(kid, d1, d2, style))
            truth.append(f"K{kid.hex()}:{_pbkdf2(d1 + G.SALT, d2, 100000).hex()}")
        bl = Built({}, truth, {"branches": ["keystore-sequence"], "in_scope": True, "nontrivial": True})
        bl.plan = [("ks", t) for t in texts]
        return bl
    if kind == "ksfuzz":
        bl = Built({}, None, {"branches": ["keystore-fuzz"], "in_scope": False, "compare_model_out_of_scope": True, "nontrivial": True})
        bl.plan = [("ks", t) for t in case["recipe"]["texts"]]
        return bl
    r = case["recipe"]
    b = G.build(r)
    rng = random.Random(case["tseed"])
    env, key, aad, payload = b["envelope"], b["key"], b["aad"] or b"", b["payload"]
    files = {"a": _image(env)}
    plan, truth, branches = [], [], set()
    nfile = [0]

    def variant(data: bytes) -> str:
        fid = f"t{nfile[0]}"
        nfile[0] += 1
        files[fid] = _image(data)
        return fid
    for q in case["queries"]:
        if q == "attrs":
            plan.append(("attrs", "a"))
            hdr = env[:G.BLOCK]
            tag = env[len(env) - G.BLOCK + 32:len(env) - G.BLOCK + 48]
            truth += [f"H{len(hdr)}:{zlib.crc32(hdr) & 0xFFFFFFFF}", "T" + tag.hex(), f"N{len(b['attrs'])}"] + [_truth_attr(a) for a in b["attrs"]]
        elif q == "ks":
            plan.append(("ks", b["keystore_text"]))
            truth.append(f"K{b['key_id'].replace('-', '')}:{key.hex()}")
        elif q in ("dec", "dec_nv"):
            plan.append(("dec", "a", key, aad, q == "dec"))
            truth.append(_crc(payload))
        elif q == "cli":
            plan.append(("cli", "a", b["keystore_text"]))
            truth.append(_crc(payload) if not aad else "E")          # the tool cannot pass associated data
        elif q in ("wrongkey", "wrongkey_nv"):          # without verification only the key-hash gate stands between a wrong key and garbage
            wk = G.pool_key((r["ks"] + 1 + rng.randrange(len(G.KEYSTORE_POOL) - 1)) % len(G.KEYSTORE_POOL))
            plan.append(("dec", "a", wk, aad, q == "wrongkey"))
            truth.append("E")
        elif q == "aadflip":
            plan.append(("dec", "a", key, b"" if aad else bytes([rng.randrange(256)]), True))
            truth.append("E")
        elif q.startswith("hist"):
            # one history on long-lived Envelope objects; expected answers by construction: an intact envelope with the right
            # key and associated data decrypts to the payload whatever was tried on the object before
            head, tpl = q.split(":")
            verify = head == "hist"
            steps, tfid = [], {}
            wk = G.pool_key((r["ks"] + 1 + rng.randrange(len(G.KEYSTORE_POOL) - 1)) % len(G.KEYSTORE_POOL))
            move = None
            for ch in tpl:
                if ch == "s":
                    move = rng.choice([0, 1, G.BLOCK, len(env) - 1, len(env), rng.randrange(len(env) + 1)])
                    continue
                if ch == "g":
                    steps.append(["a", key, aad, move])
                    truth.append(_crc(payload))
                elif ch == "k":
                    steps.append(["a", wk, aad, move])
                    truth.append("E")
                elif ch == "a":
                    bad = (aad[:-1] + bytes([aad[-1] ^ (1 << rng.randrange(8))]) if rng.random() < 0.5 else b"") if aad else bytes([rng.randrange(1, 256)])
                    steps.append(["a", key, bad, move])
                    truth.append("E")
                else:
                    if ch not in tfid:
                        alt, _ = G.tamper(b, rng, "cipher" if ch == "t" else "tag")
                        tfid[ch] = variant(alt)
                    steps.append([tfid[ch], key, aad, move])
                    truth.append("E" if verify else None)
                move = None
            if not verify:                          # without verification an altered copy yields garbage: no expectation, keep intact ones only
                keep = [i for i, st in enumerate(steps) if st[0] == "a"]
                base = len(truth) - len(steps)
                truth[base:] = [truth[base + i] for i in keep]
                steps = [steps[i] for i in keep]
            plan.append(("hist", verify, steps))
            branches.add("history-" + tpl + ("" if verify else "-noverify"))
        elif q in ("t:tagsize", "t:tagsize+tag"):
            # the tag-size field of the AEAD footer says how much of the tag is used: shrinking it (and then altering a tag byte
            # beyond the new size) alters the authentication tag as consumed -> must be refused
            env = bytearray(b["envelope"])
            k = rng.choice([4, 8, 12, 15, rng.randrange(4, 16)])
            struct.pack_into("<I", env, len(env) - 8, k)
            if q.endswith("+tag"):
                fo = len(env) - G.BLOCK
                env[fo + 32 + rng.randrange(k, 16)] ^= rng.randrange(1, 256)
            plan.append(("dec", variant(bytes(env)), key, aad, True))
            truth.append("E")
            branches.add("tamper-" + q[2:])
        elif q.startswith("t:"):
            region = q[2:]
            alt, pos = G.tamper(b, rng, region)
            if alt is None:                                           # no AAD to alter: alter its presence
                plan.append(("dec", "a", key, bytes([rng.randrange(1, 256)]), True))
            elif region == "aad":
                plan.append(("dec", "a", key, alt, True))
            else:
                plan.append(("dec", variant(alt), key, aad, True))
            truth.append("E")
            branches.add("tamper-" + region)
        elif q == "gate":
            what, data = _gate_variant(b, r, rng)
            fid = variant(data)
            plan.append(("attrs", fid))
            plan.append(("dec", fid, key, aad, True))
            branches.add("gate-" + what)
    types = sorted({a["type"] for a in b["attrs"]})
    branches |= {f"type-{t}" for t in types} | {"aad" if aad else "no-aad", "padding-0" if r["padding"] == 0 else "padding>0",
                                               "payload-aligned" if r["plen"] % G.BLOCK == 0 else "payload-unaligned",
                                               "payload-empty" if r["plen"] == 0 else "payload-nonempty", f"iv-{len(r['iv']) // 2}"}
    snan = G.has_snan(r)
    if snan:
        branches.add("f32-sNaN-attribute(known finding D27)")
    # a float32 signalling NaN in a Float attribute is the known finding D27 (the real code quiets it when re-serialising the
    # header, so the untampered envelope fails its MAC). Default: such envelopes are compared model-vs-code only (the model
    # has the same conversion); VERIF_C16_SNAN=1 keeps them verdict-bearing (then known_findings.json D27 absorbs them).
    in_scope = kind == "env" and (not snan or os.environ.get("VERIF_C16_SNAN", "1") == "1")
    info = {"branches": sorted(branches), "in_scope": in_scope, "compare_model_out_of_scope": True, "has_f32_snan": snan,
            "nontrivial": True, "plen": r["plen"], "padding": r["padding"]}
    bl = Built(files, truth if kind == "env" else None, info)
    bl.plan = plan
    bl.big = bool(case.get("big"))
    bl.seed = {"key": key, "iv": bytes.fromhex(r["iv"])}
    return bl


# ------------------------------------------------------------------------------------------------ real code
def _impl_attrs(data: bytes):
    from dissect.hypervisor.util import envelope as E
    e = E.Envelope(io.BytesIO(data))
    h = E._pack_envelope_header(e)
    out = [f"H{len(h)}:{zlib.crc32(h) & 0xFFFFFFFF}", "T" + _hx(bytes(e.digest)), f"N{len(e.attributes)}"]
    for name, a in e.attributes.items():
        t, v = int(a.type), a.value
        if t == 9:
            v = struct.unpack("<I", struct.pack("<f", v))[0]
        elif t == 10:
            v = struct.unpack("<Q", struct.pack("<d", v))[0]
        elif t == 11:
            v = v.encode()
        elif t == 12:
            v = bytes(v)
        out.append(_attr_canon(name.encode(), t, int(a.flag), v))
    return out


def impl_run(case, built):
    from dissect.hypervisor.util.envelope import Envelope, KeyStore
    answers, errors = [], {}
    for i, step in enumerate(built.plan):
        try:
            if step[0] == "attrs":
                answers += _impl_attrs(built.files[step[1]].read_at(0, built.files[step[1]].size))
            elif step[0] == "ks":
                ks = KeyStore.from_text(step[1])
                answers.append(f"K{ks.id.replace('-', '')}:{ks.key.hex()}")
            elif step[0] == "dec":
                _, fid, key, aad, verify = step
                data = built.files[fid].read_at(0, built.files[fid].size)
                answers.append(_crc(Envelope(io.BytesIO(data), verify=verify).decrypt(key, aad if aad else None)))
            elif step[0] == "hist":
                objs, fhs = {}, {}
                for j, (fid, key, aad, move) in enumerate(step[2]):
                    try:
                        if fid not in objs:
                            fhs[fid] = io.BytesIO(built.files[fid].read_at(0, built.files[fid].size))
                            objs[fid] = Envelope(fhs[fid], verify=step[1])
                        if move is not None:
                            fhs[fid].seek(move)
                        answers.append(_crc(objs[fid].decrypt(key, aad if aad else None)))
                    except Exception as e:  # noqa
                        answers.append("E")
                        errors[f"{i}.{j}"] = f"{type(e).__name__}: {e}"[:300]
            elif step[0] == "cli":
                data = built.files[step[1]].read_at(0, built.files[step[1]].size)
                r = G.impl_cli(data, step[2])
                if r[0] == "ok":
                    answers.append(_crc(r[1]))
                else:
                    answers.append("E")
                    errors[str(i)] = r[1]
        except Exception as e:  # noqa
            answers.append("E")
            errors[str(i)] = f"{type(e).__name__}: {e}"[:300]
    return {"answers": answers, "errors": errors}


# ------------------------------------------------------------------------------------------------ model
class _Table:
    """the finite crypto table: every entry is computed here with hashlib / pycryptodome on exactly the given inputs"""

    def __init__(self):
        self.entries: dict[tuple, bytes] = {}

    @staticmethod
    def _f(b: bytes) -> bytes:
        return struct.pack("<I", len(b)) + b

    def sha256(self, m: bytes):
        k = ("sha256", m)
        if k not in self.entries:
            self.entries[k] = b"\x01" + self._f(m) + self._f(hashlib.sha256(m).digest())

    def pbkdf2(self, pw: bytes, salt: bytes, rounds: int):
        k = ("pbkdf2", pw, salt, rounds)
        if k not in self.entries:
            self.entries[k] = b"\x02" + self._f(pw) + self._f(salt) + self._f(struct.pack("<Q", rounds)) + self._f(_pbkdf2(pw, salt, rounds))

    def gcm(self, key: bytes, iv: bytes, aad: bytes, ct: bytes):
        k = ("gcm", key, iv, aad, ct)
        if k in self.entries:
            return
        from Crypto.Cipher import AES
        c = AES.new(key, AES.MODE_GCM, nonce=iv)
        if aad:
            c.update(aad)
        pt = c.decrypt(ct)
        c2 = AES.new(key, AES.MODE_GCM, nonce=iv)          # the tag `verify` compares with: the one of (aad, ct)
        if aad:
            c2.update(aad)
        ct2, tag = c2.encrypt_and_digest(pt)
        assert ct2 == ct
        self.entries[k] = b"\x03" + self._f(key) + self._f(iv) + self._f(aad) + self._f(ct) + self._f(pt) + self._f(tag)

    def need(self, line: str):
        p = line.split()
        arg = lambda s: b"" if s == "-" else bytes.fromhex(s)
        if p[1] == "sha256":
            self.sha256(arg(p[2]))
        elif p[1] == "pbkdf2":
            self.pbkdf2(arg(p[2]), arg(p[3]), int(p[4]))
        elif p[1] == "gcm":
            self.gcm(arg(p[2]), arg(p[3]), arg(p[4]), arg(p[5]))
        else:
            raise RuntimeError("bad need line " + line[:80])

    def image(self) -> Image:
        return _image(b"".join(self.entries.values()))


def _flat(plan):
    """the model is a function of (file, key, aad): a history is the list of its single decrypts"""
    out = []
    for step in plan:
        if step[0] == "hist":
            out += [("dec", fid, key, aad, step[1]) for fid, key, aad, _ in step[2]]
        else:
            out.append(step)
    return out


def _commands(built) -> list[str]:
    out = []
    for step in _flat(built.plan):
        if step[0] == "attrs":
            out.append(f"env.attrs {step[1]}")
        elif step[0] == "ks":
            out.append(f"env.keystore T {_hx(step[1].encode())}")
        elif step[0] == "dec":
            _, fid, key, aad, verify = step
            out.append(f"env.decrypt {fid} T {_hx(key)} {_hx(aad)} {1 if verify else 0}")
        elif step[0] == "cli":
            out.append(f"env.cli {step[1]} T {_hx(step[2].encode())}")
    return out


_REG: dict[str, object] = {}        # case id -> Built (filled by build() in the main process)
_TABLES: dict[str, _Table] = {}


def _seed_table(built) -> _Table:
    """round 0: the calls a well-formed envelope leads to, computed from the generator's recipe and the stored bytes
    (never from the code under test): SHA-256 of cipher name + key, GCM over the *stored* header block + AAD."""
    table = _Table()
    if getattr(built, "seed", None):
        key, iv = built.seed["key"], built.seed["iv"]
        for step in _flat(built.plan):
            if step[0] == "dec":
                data = built.files[step[1]].read_at(0, built.files[step[1]].size)
                table.sha256(CIPHER + step[2])
                if step[2] == key and len(data) >= 3 * G.BLOCK and iv:
                    table.gcm(key, iv, data[:G.BLOCK] + step[3], data[G.BLOCK:len(data) - G.BLOCK])
    return table


def _prepass(ids: list[str]):
    """grow the crypto tables until the model asks for nothing more (all registered cases at once, in parallel)"""
    ids = [i for i in ids if not getattr(_REG[i], "big", False)]
    cmds = {i: _commands(_REG[i]) for i in ids}
    pending = {i: list(range(len(cmds[i]))) for i in ids}
    for i in ids:
        _TABLES[i] = _seed_table(_REG[i])
    for _ in range(8):
        batch = []
        for i, idx in pending.items():
            used = {cmds[i][k].split()[1] for k in idx if not cmds[i][k].startswith("env.keystore")}
            files = {k: v for k, v in _REG[i].files.items() if k in used}
            files["T"] = _TABLES[i].image()
            batch.append((i, core.file_lines(files) + [cmds[i][k] for k in idx]))
        outs = core.run_model(batch)
        nxt = {}
        for i, idx in pending.items():
            out = outs.get(i) or []
            again = []
            for k, o in zip(idx, out):
                if o.startswith("need "):
                    _TABLES[i].need(o)
                    again.append(k)
            if again and len(out) == len(idx):
                nxt[i] = again
        pending = nxt
        if not pending:
            break


def model_lines(case, built):
    """definition lines + commands; the crypto table was grown by `_prepass` (the driver answers `need <call>` for a
    call that is not in the table; the harness computes it with the real library and asks again)"""
    cid = case["id"]
    if case.get("big"):
        return []
    _REG[cid] = built
    if cid not in _TABLES:
        if DRV.exists():
            _prepass([i for i in _REG if i not in _TABLES])
        else:
            _TABLES[cid] = _seed_table(built)
    files = dict(built.files)
    files["T"] = _TABLES[cid].image()
    return core.file_lines(files) + _commands(built)


def model_parse(case, built, out):
    if case.get("big"):
        return {"answers": None, "wf": None}
    plan = _flat(built.plan)
    if not out or len(out) != len(plan):
        return {"answers": None, "wf": None, "raw": [l[:100] for l in (out or [])]}
    ans = []
    for step, l in zip(plan, out):
        if step[0] == "attrs":
            if l.startswith("ok "):
                p = l.split(" ", 4)
                ans += [p[1], p[2], p[3]] + (p[4].split("|") if len(p) > 4 and p[4] else [])
            elif l.startswith("E"):
                ans.append("E")
            else:
                ans.append("?" + l[:60])
        elif l.startswith("E"):
            ans.append("E")
        elif l.startswith("D") or l.startswith("K"):
            ans.append(l.strip())
        else:
            ans.append("?" + l[:60])           # `need …` left over / bad-args: a protocol error, shown as a model difference
    return {"answers": ans, "wf": built.info.get("in_scope", False), "raw": [l[:120] for l in out]}


def nontrivial(case, built, model):
    return built.info["nontrivial"]


def search(seed, broken, budget):
    rng = random.Random(f"C16/search/{seed}")
    cases = []
    for i in range(min(budget // 10, 120)):
        r = _env_recipe(rng, "quick", i % 20)
        cases.append({"id": f"s{i}", "kind": "env", "recipe": r, "tseed": rng.randrange(1 << 30),
                      "queries": ["attrs", "ks", "dec", "dec_nv", "cli", "wrongkey", "wrongkey_nv", "aadflip", "t:attr", "t:cipher", "t:tag", "t:aad"]})
    for i in range(10):
        r = _ksseq_recipe(rng)
        cases.append({"id": f"sk{i}", "kind": "ksseq", "recipe": r, "queries": ["ks"] * len(r["seq"])})
    return cases
