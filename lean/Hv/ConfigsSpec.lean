/-
  Hv.ConfigsSpec — a pointwise specification of `OVF.disks` over the element tree and its well-formedness
  predicate (property C18, theorem `ovf_disks_exact`).  Nothing here goes through the model's dictionaries or the
  XPath interpreter: the specification names the elements of an OVF envelope directly (children by tag) and
  resolves an identifier by looking for *the* element carrying it — `File` ids and `Disk` ids are two independent
  id spaces.  All strings are written out here (they are not taken from the extraction); that they agree with the
  extracted ones is part of the proof.
-/
import Hv.Prim.XPath
namespace Hv.ConfigsSpec
open Hv.XPath

/-! tags and attribute names in Clark notation (`ovf` = http://schemas.dmtf.org/ovf/envelope/1,
    `rasd` = …/CIM_ResourceAllocationSettingData) -/
def tReferences : Str := "{http://schemas.dmtf.org/ovf/envelope/1}References".toList
def tFile : Str := "{http://schemas.dmtf.org/ovf/envelope/1}File".toList
def tDiskSection : Str := "{http://schemas.dmtf.org/ovf/envelope/1}DiskSection".toList
def tDisk : Str := "{http://schemas.dmtf.org/ovf/envelope/1}Disk".toList
def tVirtualSystem : Str := "{http://schemas.dmtf.org/ovf/envelope/1}VirtualSystem".toList
def tVirtualHardwareSection : Str := "{http://schemas.dmtf.org/ovf/envelope/1}VirtualHardwareSection".toList
def tItem : Str := "{http://schemas.dmtf.org/ovf/envelope/1}Item".toList
def tResourceType : Str := "{http://schemas.dmtf.org/wbem/wscim/1/cim-schema/2/CIM_ResourceAllocationSettingData}ResourceType".toList
def tHostResource : Str := "{http://schemas.dmtf.org/wbem/wscim/1/cim-schema/2/CIM_ResourceAllocationSettingData}HostResource".toList

/-- children of `e` with the given tag, document order -/
def kids (tag : Str) (e : Xml) : List Xml := e.children.filter (fun c => c.tag = tag)

/-- `Envelope/References/File` -/
def fileEls (root : Xml) : List Xml := (kids tReferences root).flatMap (kids tFile)
/-- `Envelope/DiskSection/Disk` -/
def diskEls (root : Xml) : List Xml := (kids tDiskSection root).flatMap (kids tDisk)
/-- `Envelope/VirtualSystem/VirtualHardwareSection/Item` -/
def itemEls (root : Xml) : List Xml :=
  ((kids tVirtualSystem root).flatMap (kids tVirtualHardwareSection)).flatMap (kids tItem)

/-- a hard-disk item: some `rasd:ResourceType` child whose text is `17` (CD-ROM 15/16, floppy 14, controllers 5/6/20 … are not) -/
def isDiskItem (it : Xml) : Bool := (kids tResourceType it).any (fun c => c.itertext = "17".toList)

def driveItems (root : Xml) : List Xml := (itemEls root).filter isDiskItem

/-- `some rest` iff `s = p ++ rest` -/
def dropPrefix? : Str → Str → Option Str
  | [], s => some s
  | _ :: _, [] => none
  | a :: p, b :: s => if a = b then dropPrefix? p s else none

/-- the target of a `rasd:HostResource` text: `[ovf:]/disk/<id>` ↦ `(true, id)`, `[ovf:]/file/<id>` ↦ `(false, id)` -/
def hostTarget (x : Str) : Option (Bool × Str) :=
  let y := (dropPrefix? "ovf:".toList x).getD x
  match dropPrefix? "/disk/".toList y with
  | some id => some (true, id)
  | none =>
    match dropPrefix? "/file/".toList y with
    | some id => some (false, id)
    | none => none

/-- the text of the first `rasd:HostResource` child -/
def hostText (it : Xml) : Option Str :=
  match kids tHostResource it with
  | [] => none
  | r :: _ => r.text

def idAttr : Str := "{http://schemas.dmtf.org/ovf/envelope/1}id".toList
def hrefAttr : Str := "{http://schemas.dmtf.org/ovf/envelope/1}href".toList
def diskIdAttr : Str := "{http://schemas.dmtf.org/ovf/envelope/1}diskId".toList
def fileRefAttr : Str := "{http://schemas.dmtf.org/ovf/envelope/1}fileRef".toList

/-- the href of *the* `File` whose `ovf:id` is `id` -/
def fileHref (fs : List Xml) (id : Str) : Option Str :=
  match fs.find? (fun f => f.get idAttr = some id) with
  | some f => f.get hrefAttr
  | none => none

/-- the `ovf:fileRef` of *the* `Disk` whose `ovf:diskId` is `id` -/
def diskFileRef (ds : List Xml) (id : Str) : Option Str :=
  match ds.find? (fun d => d.get diskIdAttr = some id) with
  | some d => d.get fileRefAttr
  | none => none

/-- the backing file of one hard-disk item: item → disk → file → href, or item → file → href -/
def itemHref (fs ds : List Xml) (it : Xml) : Option Str :=
  match hostText it with
  | none => none
  | some x =>
    match hostTarget x with
    | none => none
    | some (true, id) =>
      match diskFileRef ds id with
      | none => none
      | some ref => fileHref fs ref
    | some (false, id) => fileHref fs id

/-- **the specification**: the backing files of the hard-disk items, in document order -/
def ovfSpec (root : Xml) : List Str := (driveItems root).filterMap (itemHref (fileEls root) (diskEls root))

def nodupb {α : Type} [DecidableEq α] : List α → Bool
  | [] => true
  | a :: t => !t.contains a && nodupb t

def hasId (attr : Str) (l : List Xml) (id : Str) : Bool := l.any (fun e => e.get attr = some id)

/-- a well-formed envelope: every `File` has `ovf:id` and `ovf:href`, the ids are pairwise distinct; every `Disk` has
    `ovf:diskId` and an `ovf:fileRef` naming a `File`, the disk ids are pairwise distinct (they may coincide with
    file ids); every hard-disk item has a `HostResource` of one of the two forms whose identifier contains no `/`
    and names a `Disk` resp. a `File`. -/
def ovfWfb (root : Xml) : Bool :=
  let fs := fileEls root
  let ds := diskEls root
  fs.all (fun f => (f.get idAttr).isSome && (f.get hrefAttr).isSome)
  && nodupb (fs.map (fun f => f.get idAttr))
  && ds.all (fun d => (d.get diskIdAttr).isSome &&
      (match d.get fileRefAttr with | some r => hasId idAttr fs r | none => false))
  && nodupb (ds.map (fun d => d.get diskIdAttr))
  && (driveItems root).all (fun it =>
      match hostText it with
      | none => false
      | some x =>
        match hostTarget x with
        | none => false
        | some (true, id) => !id.contains '/' && hasId diskIdAttr ds id
        | some (false, id) => !id.contains '/' && hasId idAttr fs id)

end Hv.ConfigsSpec
