#!/bin/sh
# seed_intake.sh Cxx : import the mutants an independent agent left in /tmp/mut/Cxx/_mut, confirm each in a scratch
# worktree (applies, suite green, demo fails with / passes without), run the property's quick check against each.
cd /verif
P=$1
before=$(ls seeded | grep "^$P-" | wc -l)
/venv/bin/python harness/seedtool.py import /tmp/mut/$P
for d in $(ls seeded | grep "^$P-" | sort -t- -k2 -n | tail -n +$((before+1))); do
  /venv/bin/python harness/seedtool.py confirm $d | python3 -c "import sys,json; r=json.loads(sys.stdin.read().strip().splitlines()[-1]); print('$d', 'confirmed' if r.get('confirmed') else 'NOT-CONFIRMED', r.get('suite'), 'clean', r.get('demo_clean'), 'mut', r.get('demo_mutated'))"
  VERIF_SCRATCH=1 /venv/bin/python harness/seedtool.py run $d $P 2>&1 | tail -1
done
