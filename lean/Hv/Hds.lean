/-
  Hv.Hds — model of dissect/hypervisor/disk/hdd.py: HDS (Parallels expanding image):
  header, BAT, `_iter_runs` (sentinel-0 coalescer), `_read`; pointwise specification.
-/
import Hv.Prim.Layout
import Hv.Extracted
namespace Hv.Hds
open Hv Hv.Extracted.hdd

abbrev Reader := Nat → Nat → Except Err Bytes

structure Hds where
  fh : File
  size : Nat            -- bytes: size_in_sectors * 512
  clusterSize : Nat     -- m_Sectors * 512
  mult : Nat            -- _bat_multiplier (1 for v1, m_Sectors for v2)
  bat : Array Nat
  parent : Option Reader    -- parent.seek(off); parent.read(n)

def decodeU32s : Bytes → List Nat
  | a :: b :: c :: d :: rest => leNat [a, b, c, d] :: decodeU32s rest
  | _ => []

/-- `HDS.__init__` + the cached `bat` property -/
def «open» (fh : File) (parent : Option Reader) : Except Err Hds := do
  let hs := pvd_header.size
  let sig ← fh.chars 0 hs pvd_header.m_Sig.1 pvd_header.m_Sig.2
  let v1 := sig = SIGNATURE_STRUCTURED_DISK_V1
  let v2 := sig = SIGNATURE_STRUCTURED_DISK_V2
  if ¬ v1 ∧ ¬ v2 then throw .format
  let sectors ← fh.field 0 hs pvd_header.m_Sectors
  let n ← fh.field 0 hs pvd_header.m_Size
  let sz ← if v1 then fh.field 0 hs pvd_header.m_SizeInSectors_v1 else fh.field 0 hs pvd_header.m_SizeInSectors_v2
  let mult := if v1 then 1 else sectors
  -- c_hdd.uint32[m_Size](fh) at offset len(pvd_header): EOFError when short
  let raw ← fh.readExact hs (uint32_size * n)
  .ok { fh, size := sz * SECTOR_SIZE, clusterSize := sectors * SECTOR_SIZE, mult,
        bat := (decodeU32s raw).toArray, parent }

/-- file offset of the data for guest offset `off` (0 = sparse sentinel) -/
def Hds.readOffset (v : Hds) (off : Nat) : Except Err Nat :=
  match v.bat[off / v.clusterSize]? with
  | none => .error .index
  | some e => .ok (if e = 0 then 0 else e * v.mult * SECTOR_SIZE + off % v.clusterSize)

def flush : Option (Nat × Nat) → List (Nat × Nat)
  | none => []
  | some r => [r]

/-- `_iter_runs`: the list of `(run_offset, run_size)`; `run_offset = 0` is the sparse sentinel -/
def Hds.iterRuns (v : Hds) : Nat → Nat → Nat → Option (Nat × Nat) → Except Err (List (Nat × Nat))
  | 0, offset, length, cur =>
    if offset < v.size ∧ length > 0 then .error .nonTermination else .ok (flush cur)
  | fuel+1, offset, length, cur =>
    if offset < v.size ∧ length > 0 then
      if v.clusterSize = 0 then .error .other else do
      let readSize := min (v.clusterSize - offset % v.clusterSize) length
      let ro ← v.readOffset offset
      match cur with
      | none => v.iterRuns fuel (offset + readSize) (length - readSize) (some (ro, readSize))
      | some (runOff, runSize) =>
        if (runOff ≠ 0 ∧ ro = runOff + runSize) ∨ (runOff = 0 ∧ ro = 0) then
          v.iterRuns fuel (offset + readSize) (length - readSize) (some (runOff, runSize + readSize))
        else do
          let rest ← v.iterRuns fuel (offset + readSize) (length - readSize) (some (ro, readSize))
          .ok ((runOff, runSize) :: rest)
    else .ok (flush cur)

/-- data of one run at guest offset `off` -/
def Hds.runData (v : Hds) (off : Nat) (r : Nat × Nat) : Except Err Bytes :=
  if r.1 = 0 then
    match v.parent with
    | some p => p off r.2
    | none => .ok (zeros r.2)
  else .ok (v.fh.read r.1 r.2)

/-- the `for` loop of `_read` -/
def Hds.execRuns (v : Hds) : Nat → List (Nat × Nat) → Except Err Bytes
  | _, [] => .ok []
  | off, r :: rest => do
    let d ← v.runData off r
    let t ← v.execRuns (off + r.2) rest
    .ok (d ++ t)

/-- `HDS._read` -/
def Hds.read (v : Hds) (offset length : Nat) : Except Err Bytes := do
  let runs ← v.iterRuns length offset length none
  v.execRuns offset runs

/-! ### Specification (Parallels expanding image format, docs/interop/parallels.txt) -/

def Hds.guest (v : Hds) (pc : Nat → UInt8) (o : Nat) : UInt8 :=
  match v.bat[o / v.clusterSize]? with
  | none => 0
  | some e =>
    if e = 0 then (if v.parent.isSome then pc o else 0)
    else v.fh.byte (e * v.mult * 512 + o % v.clusterSize)

structure WF (v : Hds) : Prop where
  cs_pos : 0 < v.clusterSize
  mult_pos : 0 < v.mult
  covers : v.size ≤ v.bat.size * v.clusterSize
  entries : ∀ i (h : i < v.bat.size), v.bat[i] = 0 ∨ v.bat[i] * v.mult * 512 + v.clusterSize ≤ v.fh.size

def Hds.wfb (v : Hds) : Bool :=
  decide (0 < v.clusterSize) && decide (0 < v.mult) && decide (v.size ≤ v.bat.size * v.clusterSize) &&
  v.bat.toList.all (fun e => e == 0 || decide (e * v.mult * 512 + v.clusterSize ≤ v.fh.size))

end Hv.Hds
