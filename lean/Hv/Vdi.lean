/-
  Hv.Vdi — model of dissect/hypervisor/disk/vdi.py (VDI.__init__, VDI._read) and the
  pointwise specification of the guest-visible content.
-/
import Hv.Prim.Layout
import Hv.Extracted
namespace Hv.Vdi
open Hv Hv.Extracted.vdi

abbrev Reader := Nat → Nat → Except Err Bytes

structure Vdi where
  fh : File
  dataOffset : Nat
  blockSize : Nat
  sectorSize : Nat
  size : Nat                         -- header.DiskSize
  map : Array Int                    -- array('i') of the block map
  parent : Option Reader             -- parent VDI's `_read`

/-- decode `array('i').frombytes`: 4-byte little-endian signed entries -/
def decodeMap : Bytes → List Int
  | a :: b :: c :: d :: rest => toSigned 32 (leNat [a, b, c, d]) :: decodeMap rest
  | _ => []

/-- `VDI.__init__` -/
def «open» (fh : File) (parent : Option Reader) : Except Err Vdi := do
  let S := HeaderDescriptor.size
  let sig ← fh.field 0 S HeaderDescriptor.Signature
  if sig ≠ VDI_SIGNATURE then throw .format
  let blocksOffset ← fh.field 0 S HeaderDescriptor.BlocksOffset
  let n ← fh.field 0 S HeaderDescriptor.BlocksInHDD
  let mapbuf := fh.read blocksOffset (4 * n)
  -- array.frombytes: ValueError unless a multiple of the item size
  if mapbuf.length % 4 ≠ 0 then throw .value
  let dataOffset ← fh.field 0 S HeaderDescriptor.DataOffset
  let blockSize ← fh.field 0 S HeaderDescriptor.BlockSize
  let sectorSize ← fh.field 0 S HeaderDescriptor.SectorSize
  let size ← fh.field 0 S HeaderDescriptor.DiskSize
  .ok { fh, dataOffset, blockSize, sectorSize, size, map := (decodeMap mapbuf).toArray, parent }

/-- one iteration's data: dispatch on the block map entry -/
def chunk (v : Vdi) (block : Int) (blockOff off readLen : Nat) : Except Err Bytes :=
  if block = UNALLOCATED then
    match v.parent with
    | some p => p off readLen
    | none => .ok (zeros readLen)
  else if block = SPARSE then .ok (zeros readLen)
  else
    -- fh.seek(data_offset + block * block_size + block_offset): negative -> ValueError
    if (v.dataOffset : Int) + block * (v.blockSize : Int) + (blockOff : Int) < 0 then .error .value
    else .ok (v.fh.read ((v.dataOffset : Int) + block * (v.blockSize : Int) + (blockOff : Int)).toNat readLen)

/-- the `while length > 0` loop of `_read`; state = (block_idx, block_offset, offset, length) -/
def readLoop (v : Vdi) : Nat → Nat → Nat → Nat → Nat → Except Err Bytes
  | 0, _, _, _, len => if len = 0 then .ok [] else .error .nonTermination
  | fuel+1, blockIdx, blockOff, off, len =>
    if len = 0 then .ok [] else do
    let readLen := min len (v.blockSize - blockOff)
    let block ← match v.map[blockIdx]? with | some b => .ok b | none => .error .index
    let c ← chunk v block blockOff off readLen
    let rest ← readLoop v fuel (blockIdx + 1) 0 (off + readLen) (len - readLen)
    .ok (c ++ rest)

/-- `VDI._read` -/
def read (v : Vdi) (offset length : Nat) : Except Err Bytes :=
  let length := min length (v.size - offset)
  if v.blockSize = 0 then .error .other   -- divmod: ZeroDivisionError
  else readLoop v length (offset / v.blockSize) (offset % v.blockSize) offset length

/-! ### Specification (VDI header documentation): one guest byte at a time -/

/-- guest byte at offset `o`; `pc` is the parent's guest content (zeros when there is none) -/
def guest (v : Vdi) (pc : Nat → UInt8) (o : Nat) : UInt8 :=
  match v.map[o / v.blockSize]? with
  | none => 0
  | some b =>
    if b = -1 then (if v.parent.isSome then pc o else 0)
    else if b = -2 then 0
    else v.fh.byte (v.dataOffset + b.toNat * v.blockSize + o % v.blockSize)

/-- well-formed image: positive block size, the map covers the disk, every entry is
    unallocated (-1), zero (-2) or names a block that lies inside the file. -/
structure WF (v : Vdi) : Prop where
  bs_pos : 0 < v.blockSize
  covers : v.size ≤ v.map.size * v.blockSize
  entries : ∀ i (h : i < v.map.size), v.map[i] = -1 ∨ v.map[i] = -2 ∨
      (0 ≤ v.map[i] ∧ v.dataOffset + ((v.map[i]).toNat + 1) * v.blockSize ≤ v.fh.size)

end Hv.Vdi

namespace Hv.Vdi
/-- executable version of `WF` (soundness: `HvProofs.Vdi.wfb_sound`) -/
def wfb (v : Vdi) : Bool :=
  decide (0 < v.blockSize) && decide (v.size ≤ v.map.size * v.blockSize) &&
  v.map.all (fun b => b == -1 || b == -2 ||
    (decide (0 ≤ b) && decide (v.dataOffset + (b.toNat + 1) * v.blockSize ≤ v.fh.size)))
end Hv.Vdi
