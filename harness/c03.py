"""C03 — VHDX reads (non-differencing). Writer: gen_vhdx.py."""
from __future__ import annotations

import random

import core
import gen_vhdx
from core import Built

PROPERTY = "C03"
RULE = ("seeded generator (gen_vhdx): block size 1..256 MiB, logical sector 512/4096, virtual size not a block multiple, BAT "
        "states 0/1/2/3/6, block placement identity/reversed/shuffled/holes, disks with more blocks than the chunk ratio "
        "(interleaved sector-bitmap entries, some filled with garbage), metadata item order, optional unknown metadata item, region "
        "order, either header active; requests: block-edge±1/±sector, mid-block, mid-block→next block, tail, random. Non-trivial = "
        "model WF, ≥ 2 different block states or permuted placement, and a request crossing a block boundary or > chunk-ratio blocks; "
        "distinct recipe hash.")
ASSUMPTIONS = ["dissect.util AlignedStream as transcribed", "cstruct bit-field order (re-probed each run)", "lru_cache transparency (file immutable)",
               "UUID(bytes_le=..) equality = byte equality"]
TIMEOUT_CASE = 30.0


def generate(seed, tier):
    rng = random.Random(f"C03/{seed}/{tier}")
    n = 160 if tier == "quick" else 2000
    cases = []
    for i in range(n):
        r = gen_vhdx.gen_recipe(rng, tier, depth=1, big=(i % 12 == 5))
        ss = r["layers"][-1]["ss"]
        align = rng.choice([8192] * 5 + [4096, 65536, 1 << 20] + ([512, 1536] if ss == 512 else [12288]))
        cases.append({"id": f"g{i}", "recipe": r, "align": align, "queries": gen_vhdx.gen_queries(rng, r, 8 if tier == "quick" else 14)})
    # --- geometry edges that random recipes do not reach
    MB = 1 << 20
    for k, (bs, ss, nb, shape) in enumerate([
            (MB, 512, 1030, "many"), (MB, 512, 520, "many"),            # more BAT entries than a 512-entry page, consecutive placement
            (32 * MB, 512, 130056, "fill"), (MB, 512, 131041, "fill"),  # BAT exactly fills its 1 MiB region (entry 131072 is the last)
            (MB, 4096, 131068, "fill")][: (5 if tier != "quick" else 4)]):
        l = gen_vhdx.gen_layer(rng, nb * bs, bs, ss, False, tier, rng.randrange(256))
        if shape == "many":
            l["blocks"] = [6] * nb
            l["phys"] = {str(b): b for b in range(nb)}
            marks = [b for b in range(512, nb, 512)] + [nb - 1]
        else:
            ratio = (2 ** 23 * ss) // bs
            keep = sorted({0, 1, ratio - 1, ratio, ratio + 1, nb // 2, nb - 2, nb - 1} & set(range(nb)))
            l["blocks"] = [0] * nb
            for b in keep:
                l["blocks"][b] = 6
            l["phys"] = {str(b): i for i, b in enumerate(keep)}
            marks = keep
        l["bitmaps"], l["extra_bat"], l["stale_adjacent"] = {}, 0, False
        qs = []
        for b in marks:
            qs += [["o", max(0, b * bs - 8192), 16384], ["o", b * bs, 4096], ["o", max(0, b * bs - 3 * 8192), 5 * 8192]]
        cases.append({"id": f"edge{k}", "recipe": {"layers": [l]}, "align": 8192, "queries": qs[:18]})
    return cases


def group_by_env(cases):
    by = {}
    for c in cases:
        by.setdefault(c.get("align", 8192), []).append(c)
    return [({"DISSECT_STREAM_BUFFER_SIZE": a}, cs) for a, cs in sorted(by.items())]


def build(case):
    r = case["recipe"]
    t = gen_vhdx.Truth(r)
    files = {f"l{k}": im for k, (_, im, _) in enumerate(t.layers)}
    truth = core.truth_ops(t.size, t.read, case["queries"])
    top = r["layers"][-1]
    bs = top["bs"]
    ratio = (2 ** 23 * top["ss"]) // bs
    phys = [top["phys"][k] for k in sorted(top["phys"], key=int)]
    branches = sorted({f"st{s}" for s in top["blocks"]}) + (["permuted"] if phys != sorted(phys) or phys != list(range(len(phys))) else []) + \
        ([">ratio"] if len(top["blocks"]) > ratio else []) + [f"ss{top['ss']}"] + (["sbgarbage"] if top["sb_slot_garbage"] and len(top["blocks"]) > ratio else [])
    crosses = any(q[2] > 0 and q[1] < t.size and q[1] // bs != (min(q[1] + q[2], t.size) - 1) // bs for q in case["queries"])
    return Built(files, truth, {"branches": branches, "crosses": crosses, "in_scope": True})


def impl_run(case, built):
    from dissect.hypervisor.disk.vhdx import VHDX
    v = VHDX(built.files["l0"].open())
    if v.align != case["align"]:
        raise RuntimeError(f"stream align {v.align} != case align {case['align']}")
    return core.impl_ops(v, case["queries"])


def model_lines(case, built):
    ids = sorted(built.files)
    return core.file_lines(built.files) + ["vhdx.open " + " ".join(ids),
                                           f"vhdx.stream {case['align']} {len(ids)} " + " ".join(ids) + " " + " ".join(core.op_tokens(case["queries"]))]


def model_parse(case, built, out):
    wf = ("wf=1" in out[0]) if out and out[0].startswith("ok") else None
    return {"answers": core.parse_stream_answer(out[1]) if len(out) > 1 else None, "wf": wf, "open": out[0] if out else None}


def nontrivial(case, built, model):
    b = built.info["branches"]
    return bool(model.get("wf")) and (built.info["crosses"] or ">ratio" in b) and (len([x for x in b if x.startswith("st")]) >= 2 or "permuted" in b)


def search(seed, broken, budget):
    rng = random.Random(f"C03/search/{seed}")
    cases = []
    for i in range(min(budget, 600)):
        r = gen_vhdx.gen_recipe(rng, "quick", depth=1, big=(i % 4 == 0))
        cases.append({"id": f"s{i}", "recipe": r, "align": rng.choice([8192, 4096, 65536]), "queries": gen_vhdx.gen_queries(rng, r, 10)})
    return cases


# ---- adapters used by C08 / C13
def open_impl(case, built):
    from dissect.hypervisor.disk.vhdx import VHDX
    return VHDX(built.files["l0"].open())


def stream_prefix(case, built):
    ids = sorted(built.files)
    return f"vhdx.stream {case['align']} {len(ids)} " + " ".join(ids)


def open_line(case, built):
    return "vhdx.open " + " ".join(sorted(built.files))


def truth_reader(case):
    t = gen_vhdx.Truth(case["recipe"])
    return t.size, t.read, case["recipe"]["layers"][-1]["ss"]
