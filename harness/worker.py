#!/venv/bin/python
"""Runs the REAL code (dissect.hypervisor from /repo) on cases read from stdin (JSON lines).
usage: worker.py <module> <timeout_s>; one JSON result per case on stdout."""
import importlib
import json
import resource
import signal
import sys
import traceback


class _Timeout(BaseException):
    pass


def _alarm(signum, frame):
    raise _Timeout()


def main():
    modname, tc = sys.argv[1], float(sys.argv[2])
    try:
        resource.setrlimit(resource.RLIMIT_AS, (3 << 30, 3 << 30))
    except Exception:
        pass
    mod = importlib.import_module(modname)
    signal.signal(signal.SIGALRM, _alarm)
    for line in sys.stdin:
        line = line.strip()
        if not line:
            continue
        case = json.loads(line)
        res = {"id": case["id"], "answers": []}
        try:
            built = mod.build(case)
            signal.setitimer(signal.ITIMER_REAL, tc)
            try:
                r = mod.impl_run(case, built)
            finally:
                signal.setitimer(signal.ITIMER_REAL, 0)
            if isinstance(r, dict):
                res.update(r)
            else:
                res["answers"] = r
        except _Timeout:
            res["fatal"] = f"no result within {tc}s (timeout)"
            res["hang"] = True
        except MemoryError:
            res["fatal"] = "MemoryError (address-space limit)"
            res["oom"] = True
        except BaseException as e:  # noqa
            res["fatal"] = f"{type(e).__name__}: {e}"
            res["trace"] = traceback.format_exc()[-1500:]
        sys.stdout.write(json.dumps(res) + "\n")
        sys.stdout.flush()


if __name__ == "__main__":
    main()
