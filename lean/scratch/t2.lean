import HvProofs.VmdkDesc
open Hv Hv.Regex Hv.VmdkDesc
#print search
#print search.go
#check @List.isPrefixOf_cons₂
#check @List.takeWhile_append
#check @List.dropWhile_eq_nil_iff
#check @List.takeWhile_append_dropWhile
#check @Char.toNat_inj
#check @List.findSome?_cons
#check @Char.ext
