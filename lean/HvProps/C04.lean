/-
  C04 — VHD: every byte range reads as the guest-visible content.
-/
import HvProofs.Vhd
namespace Hv.C04
open Hv Hv.Vhd

/-! extracted values = Virtual Hard Disk Image Format Specification 1.0 -/
theorem SECTOR_SIZE_spec : Extracted.vhd.SECTOR_SIZE = 512 := by decide
theorem BAT_ENTRY_spec : Extracted.vhd.BAT_ENTRY_FORMAT = ">I" ∧ Extracted.vhd.BAT_ENTRY_SIZE = 4 := by decide
theorem footer_layout_spec :
    Extracted.vhd.footer.size = 511 ∧
    Extracted.vhd.footer.features = ⟨8, 4, true, 0, 32⟩ ∧
    Extracted.vhd.footer.data_offset = ⟨16, 8, true, 0, 64⟩ ∧
    Extracted.vhd.footer.current_size = ⟨48, 8, true, 0, 64⟩ := by decide
theorem dynamic_header_layout_spec :
    Extracted.vhd.dynamic_header.size = 1024 ∧
    Extracted.vhd.dynamic_header.table_offset = ⟨16, 8, true, 0, 64⟩ ∧
    Extracted.vhd.dynamic_header.max_table_entries = ⟨28, 4, true, 0, 32⟩ ∧
    Extracted.vhd.dynamic_header.block_size = ⟨32, 4, true, 0, 32⟩ := by decide

/-- **bitmap_sectors_formula**: for every block size that is a multiple of 8 sectors the
    sector-bitmap size the code skips equals the specification's (one bit per sector,
    padded to a sector). -/
theorem bitmap_sectors_formula (v : Vhd) (h : v.blockSize % (8 * 512) = 0) :
    v.bitmapSectors = v.bitmapSectorsSpec :=
  bitmapSectors_eq_spec v h

/-- **vhd_read_correct** (fixed and dynamic): at every sector-aligned offset `_read`
    succeeds and its first `min len (size-off)` bytes are the guest bytes; in-range
    sector-multiple requests are returned exactly. Any block size (multiple of 4 KiB), any
    BAT contents and placement, sizes that are not a multiple of the block size. -/
theorem vhd_read_correct (v : Vhd) (hwf : WF v) (off len : Nat) (ho : off % 512 = 0) :
    ∃ b, v.read off len = .ok b ∧
      b.take (min len (v.size - off)) = slice v.guest off (min len (v.size - off)) ∧
      (len % 512 = 0 → off + len ≤ v.size → b = slice v.guest off len) :=
  read_prefix v hwf off len ho

/-- **vhd_backendOK**: the contract of the buffered layer, for every buffer size that is a
    multiple of the sector size. -/
theorem vhd_backendOK (v : Vhd) (hwf : WF v) (align : Nat) (ha : align % 512 = 0) :
    BackendOK v.size align v.read v.guest :=
  backendOK v hwf align ha

/-- **vhd_stream_correct**: the opened VHD stream equals the guest-content array under any
    history of operations and any sector-multiple buffer size. -/
theorem vhd_stream_correct (v : Vhd) (hwf : WF v) (align : Nat) (ha : align % 512 = 0)
    (hpos : 0 < align) (ops : List Op) :
    AS.run v.read (AS.init v.size align) ops = Spec.run v.guest ⟨v.size, 0⟩ ops :=
  AS.run_refines ops _ (AS.init_inv _ _ hpos) (vhd_backendOK v hwf align ha)

/-- the executable well-formedness test used by the driver is sound -/
theorem vhd_wfb_sound (v : Vhd) (h : v.wfb = true) : WF v := wfb_sound v h

/-- **vhd_read_terminates** (C11 obligation): for arbitrary footer/header/BAT contents -/
theorem vhd_read_terminates (v : Vhd) (off len : Nat) : v.read off len ≠ .error .nonTermination :=
  read_terminates v off len

/-- footer selection: with feature bit 1 set the 512-byte position is used, otherwise the
    legacy 511-byte footer -/
theorem footer511 (fh : File) (h : 512 ≤ fh.size) :
    footerPos fh = .ok (fh.size - 512) ∨ footerPos fh = .ok (fh.size - 511) := by
  unfold footerPos
  have : ¬ fh.size < 512 := by omega
  simp only [this, if_false, bind, Except.bind, pure, Except.pure]
  have hf : fh.size - 512 + Extracted.vhd.footer.size ≤ fh.size := by
    have : Extracted.vhd.footer.size = 511 := rfl
    omega
  unfold File.field
  simp only [hf, if_true]
  split <;> simp

/-! non-vacuity: a tiny dynamic disk (4 KiB blocks: block 0 unallocated, block 1 allocated)
    satisfies the executable `WF` test. -/
def exFile : File := ⟨16384, fun i =>
  -- BAT at 0: [0xFFFFFFFF, 0x00000004]; data elsewhere = low byte of the offset
  if i < 4 then 0xFF else if i = 7 then 4 else if i < 8 then 0 else UInt8.ofNat i⟩
def exVhd : Vhd := { fh := exFile, kind := .dynamic, size := 8192, tableOffset := 0, maxEntries := 2, blockSize := 4096 }
example : WF exVhd := wfb_sound exVhd (by decide)

end Hv.C04
