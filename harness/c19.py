"""C19 — XML descriptors are parsed without entity expansion or external fetches.

Hostile and benign documents (gen_configs.hostile_cases) at all four XML entry points, each in several *prolog
variants* (comments / processing instructions with tag-like text before the DOCTYPE, leading byte-order mark,
whitespace, bytes vs text input), under an audit hook (file opens outside the case, sockets) and the time / memory
watchdog. The event stream of each document (expat, cut at the first entity event) goes to the Lean model of the
hardened parser; only refuse-vs-parse (and, for parsed documents, the extracted content vs construction truth) is
compared."""
from __future__ import annotations

import io
import json
import random
import re

import core
import gen_configs
from core import Built

PROPERTY = "C19"
RULE = ("every entry point (OVF, VBox, PVS, Parallels DiskDescriptor.xml) x every DTD kind of gen_configs.dtd_kinds (billion laughs "
        "depth 1..8, quadratic blow-up, external general / parameter entities with file: and http: URIs, unparsed NDATA entities, "
        "declared-but-unused entities, external DTD subsets, DOCTYPEs without entities, benign) x prolog variants (plain, comment or "
        "PI with tag-like text before the DOCTYPE, UTF-8 BOM, leading newlines after the declaration, str vs bytes input); "
        "expected: refuse (raise, no foreign open / connect, within the watchdog) iff the document declares or references an "
        "entity; otherwise parse to the generator's content. Plus, per entry point, documents without DOCTYPE in six spelling styles "
        "(gen_configs.Enc: decimal / hex character references with leading zeros, numeric & and <, predefined entities, CDATA sections "
        "incl. split ]]>, mixed with comments / PIs carrying & and DOCTYPE / ENTITY look-alikes inside character data) over media names "
        "that contain & < > quotes ]]> CR/LF/TAB non-ASCII and reference-looking text: must parse to the logical strings. "
        "On every run, per entry point: documents without DOCTYPE grown to the 1 MiB boundary (+-1, +4096) and to 1.5-3 MiB by a comment in "
        "the prolog / character data in the free-text element / a comment before the root's end tag / a comment behind the root (must parse "
        "to the writer's content), and nested-entity documents (depth 5..8) whose reference is an attribute or the first text of the root "
        "element. Every document expected to be refused is handled under tracemalloc (after a warm-up): the peak must stay below "
        "512 KiB + 24 bytes per character of the document (work before refusal), else the answer is WORK:... instead of E. "
        "Non-trivial = the document carries a DOCTYPE or uses a non-literal spelling or is one of the large ones; distinct (entry, kind, variant).")
ASSUMPTIONS = ["memory is observed with tracemalloc (Python allocator domains; pyexpat and _elementtree allocate through PyObject_Malloc)",
               "expat and defusedxml internals are trusted (the model is the decision logic over the event stream; the runtime shows "
               "the library honours it)", "the event stream given to the model is produced by pyexpat on the harness side and cut at "
               "the first entity event", "for parsed documents the content answer of the model is the construction truth (content is C18's model)"]
TIMEOUT_CASE = 20.0

VARIANTS = ["plain", "comment_tag", "comment_doctype_word", "pi_tag", "bom", "newlines", "bytes", "bom_bytes", "comment_tag_bytes",
            "utf16le_bytes", "utf16be_bytes"]


def apply_variant(xml: str, variant: str):
    """-> (document as str or bytes, handed to the entry point)"""
    junk = {"comment_tag": "<!-- <Envelope> <VirtualBox> <a b='c'> -->\n",
            "comment_doctype_word": "<!-- no <!DOCTYPE here, really -->\n",
            "pi_tag": "<?app <Envelope attr='1'> ?>\n",
            "newlines": "\n\n  \n"}
    v = variant.replace("_bytes", "") if variant.endswith("_bytes") and variant != "bytes" else variant
    if v in junk:
        m = re.match(r"<\?xml[^>]*\?>\s*", xml)
        at = m.end() if m else 0
        if v == "newlines" and not m:
            at = 0          # whitespace before the root / DOCTYPE without a declaration is fine
        xml = xml[:at] + junk[v] + xml[at:]
    if v in ("bom",):
        xml = "﻿" + xml
    if variant in ("utf16le_bytes", "utf16be_bytes"):
        # a binary handle whose content is UTF-16 with a byte order mark (the declaration must not name another encoding)
        xml = re.sub(r"^(<\?xml[^>]*?)\s+encoding=(\"[^\"]*\"|'[^']*')", r"\1", xml)
        return (b"\xff\xfe" + xml.encode("utf-16-le")) if variant == "utf16le_bytes" else (b"\xfe\xff" + xml.encode("utf-16-be"))
    if variant in ("bytes", "bom_bytes", "comment_tag_bytes"):
        data = xml.encode("utf-8")
        return data
    return xml


# --------------------------------------------------------------------------- directed: large documents without entity declarations

MIB = 1 << 20
LARGE_AT = ("prolog", "slot", "tail", "epilog")
LARGE_BOUNDARY = (MIB, MIB + 1, MIB - 1, MIB + 4096, MIB + 17)
LARGE_BIG = (2 * MIB + 17, 3 * MIB, MIB + MIB // 2, 2 * MIB)
_FILL = "snapshot 2024-01-01T00:00:00Z state=saved cpu=2 ram=4096 <b> & | "


def _filler(n: int, comment: bool) -> str:
    """exactly n characters of harmless markup: a comment (n >= 7) or escaped character data"""
    if comment:
        body = (_FILL.replace("&", "and") * (n // len(_FILL) + 1))[: n - 7]
        return "<!--" + (body[:-1] + "." if body.endswith("-") else body) + "-->"
    units = ["snapshot 2024-01-01T00:00:00Z ", "state=saved ", "&lt;b&gt; ", "&amp; ", "cpu=2 ram=4096 | "]
    block = "".join(units)
    out = [block] * (n // len(block))
    rest = n - len(block) * len(out)
    for u in units:
        if len(u) <= rest:
            out.append(u)
            rest -= len(u)
    return "".join(out) + "." * rest


def _root_span(xml: str):
    """(offset of the root start tag, offset just behind its '>') - quote aware"""
    i = 0
    while True:
        i = xml.index("<", i)
        if xml.startswith("<?", i):
            i = xml.index("?>", i) + 2
        elif xml.startswith("<!--", i):
            i = xml.index("-->", i) + 3
        elif xml.startswith("<!DOCTYPE", i):
            j = i
            depth, q = 0, None
            while True:
                c = xml[j]
                if q:
                    q = None if c == q else q
                elif c in "\"'":
                    q = c
                elif c == "[":
                    depth += 1
                elif c == "]":
                    depth -= 1
                elif c == ">" and depth == 0:
                    break
                j += 1
            i = j + 1
        else:
            break
    j, q = i, None
    while True:
        c = xml[j]
        if q:
            q = None if c == q else q
        elif c in "\"'":
            q = c
        elif c == ">":
            return i, j + 1
        j += 1


def enlarge(xml: str, at: str, target: int, as_bytes: bool) -> str:
    """the same document grown to exactly `target` characters (bytes when handed over as UTF-8 bytes) by harmless markup at
    `at`: a comment between the XML declaration and the root, character data in the free-text slot (marker @@SLOT@@), a
    comment in front of the root's end tag, a comment behind the root element"""
    size = (lambda t: len(t.encode("utf-8"))) if as_bytes else len
    need = target - (size(xml) - (len("@@SLOT@@")))
    if need < 16:
        raise ValueError("document already larger than the target")
    if at == "slot":
        return xml.replace("@@SLOT@@", _filler(need, False))
    xml = xml.replace("@@SLOT@@", "")
    if at == "prolog":
        a, _ = _root_span(xml)
        return xml[:a] + _filler(need, True) + xml[a:]
    if at == "tail":
        a = xml.rindex("</")
        return xml[:a] + _filler(need, True) + xml[a:]
    if at == "epilog":
        return xml.rstrip("\n") + _filler(need, True) + ("\n" if xml.endswith("\n") else "")
    raise ValueError(at)


def large_cases(rng, tier):
    """every run: per entry point and per place of growth one document at the 1 MiB boundary and one of 1.5-3 MiB, none with
    a DOCTYPE: all must parse to the writer's content"""
    out = []
    k = rng.randrange(20)
    for ei, entry in enumerate(gen_configs.ENTRIES):
        for ai, at in enumerate(LARGE_AT):
            sizes = [LARGE_BOUNDARY[(k + ei + ai) % len(LARGE_BOUNDARY)], LARGE_BIG[(k + ei + ai) % len(LARGE_BIG)]]
            if tier != "quick":
                sizes = list(LARGE_BOUNDARY) + list(LARGE_BIG)
            for si, target in enumerate(sizes):
                v = "plain" if entry == "hdd_descriptor" or (ei + ai + si) % 2 == 0 else "bytes"
                out.append({"id": f"large-{entry}-{at}-{target}-{v}", "recipe": {"entry": entry, "kind": "large", "seed": rng.getrandbits(32), "benign": False,
                                                                                 "variant": v, "at": at, "target": target}, "queries": ["parse"]})
    return out


# --------------------------------------------------------------------------- directed: entity references at the very start of the document

EARLY_AT = ("root_attr", "root_text")


def early_ref(xml: str, at: str, ref: str) -> str:
    """the hostile document with one more reference to its entity: in an attribute of the root element / as the first
    character data of the root element"""
    a, b = _root_span(xml)
    if at == "root_attr":
        m = re.match(r"<[^\s/>]+", xml[a:])
        return xml[:a + m.end()] + f' zzref="{ref}"' + xml[a + m.end():]
    return xml[:b] + ref + xml[b:]


def early_cases(rng, tier):
    """every run: every entry point x nested-entity documents (depth 5..8) whose reference sits at the start of the root"""
    out = []
    for entry in gen_configs.ENTRIES:
        for d in (5, 6, 7, 8):
            for at in EARLY_AT:
                for v in (["plain", "bytes"] if entry != "hdd_descriptor" else ["plain"]):
                    out.append({"id": f"early-{entry}-{d}-{at}-{v}", "recipe": {"entry": entry, "kind": f"billion_laughs_{d}", "seed": rng.getrandbits(32),
                                                                             "benign": False, "variant": v, "ref_at": at}, "queries": ["parse"]})
    return out


def events_of(doc) -> list[str]:
    """expat event letters, cut after the first entity event (no expansion ever happens here)"""
    import pyexpat
    ev: list[str] = []

    class Stop(Exception):
        pass
    p = pyexpat.ParserCreate()
    p.ordered_attributes = True

    def stop(letter):
        def h(*a):
            ev.append(letter)
            raise Stop()
        return h
    p.StartDoctypeDeclHandler = lambda *a: ev.append("D")
    p.EntityDeclHandler = stop("E")
    p.UnparsedEntityDeclHandler = stop("U")
    p.ExternalEntityRefHandler = stop("X")
    p.NotationDeclHandler = lambda *a: ev.append("N")
    p.StartElementHandler = lambda *a: ev.append("s") if len(ev) < 400 else None
    p.EndElementHandler = lambda *a: ev.append("e") if len(ev) < 400 else None
    p.CommentHandler = lambda *a: ev.append("c") if len(ev) < 400 else None
    p.ProcessingInstructionHandler = lambda *a: ev.append("p") if len(ev) < 400 else None
    try:
        if isinstance(doc, str):
            doc = doc.lstrip("﻿").encode("utf-8")
            doc = re.sub(rb"^(<\?xml[^>]*?)\s+encoding=(\"[^\"]*\"|'[^']*')", rb"\1", doc)
        p.Parse(doc, True)
    except Stop:
        pass
    except pyexpat.ExpatError:
        ev.append("!")          # not well-formed for expat: both parsers raise
    return ev


def generate(seed, tier):
    rng = random.Random(f"C19/{seed}/{tier}")
    cases = []
    rounds = 1 if tier == "quick" else 6
    for rd in range(rounds):
        hostile = gen_configs.hostile_cases(rng)
        benign = gen_configs.hostile_cases(rng, benign=True)
        for hc in hostile + benign[:: (3 if tier == "quick" else 1)]:
            vs = ["plain"] + rng.sample(VARIANTS[1:], 3 if tier == "quick" else 6)
            if hc["expect"] == "refuse" and hc["kind"].startswith(("billion_laughs_8", "billion_laughs_3", "ext_general_file", "ext_param_http", "declared_unused")):
                vs = list(VARIANTS)
            for v in vs:
                if hc["entry"] == "hdd_descriptor" and v.endswith("bytes") and v != "bom_bytes":
                    continue          # the descriptor is read from a path as text: one bytes variant (UTF-8 BOM) is enough
                cases.append({"id": f"{rd}-{hc['name']}-{v}-{len(cases)}", "recipe": {"entry": hc["entry"], "kind": hc["kind"], "seed": hc["seed"],
                                                                                   "benign": hc["kind"].startswith("stripped_"), "variant": v},
                              "queries": ["parse"]})
        # documents without any DOCTYPE whose values use the other spellings XML has for a string: decimal / hexadecimal character
        # references, predefined entities, CDATA sections (with & < ]] inside), comments and PIs with & and DOCTYPE-looking text in
        # the middle of character data; media names that contain & < > quotes ]]> non-ASCII and reference-looking text literally
        for hc in gen_configs.spelled_cases(rng, per=3 if tier == "quick" else 6):
            for v in ["plain"] + rng.sample(VARIANTS[1:], 2 if tier == "quick" else 5):
                if hc["entry"] == "hdd_descriptor" and v.endswith("bytes") and v != "bom_bytes":
                    continue
                cases.append({"id": f"{rd}-{hc['name']}-{v}-{len(cases)}", "recipe": {"entry": hc["entry"], "kind": hc["kind"], "seed": hc["seed"],
                                                                                   "benign": False, "variant": v, "slot": hc["slot"]},
                              "queries": ["parse"]})
    cases += large_cases(rng, tier)
    cases += early_cases(rng, tier)
    return cases


def _case_doc(case):
    r = case["recipe"]
    if r["kind"] == "large":
        xml, truth = gen_configs._body(r["entry"], r["seed"], "@@SLOT@@", None)
        return apply_variant(enlarge(xml, r["at"], r["target"], r["variant"] == "bytes"), r["variant"]), truth, "parse", False
    if r["kind"].startswith("spelled_"):
        xml, truth = gen_configs._body(r["entry"], r["seed"], r["slot"], None, enc_style=r["kind"][len("spelled_"):])
        return apply_variant(xml, r["variant"]), truth, "parse", False
    rng = random.Random(0)
    kinds = {k[0]: k for k in gen_configs.dtd_kinds(random.Random(r["seed"]))}
    kind = r["kind"][len("stripped_"):] if r["benign"] else r["kind"]
    _, doctype, slot, expect = kinds[kind]
    if r["benign"]:
        doctype, slot, expect = None, re.sub(r"&\w+;", "x", slot)[:64], "parse"
    xml, truth = gen_configs._body(r["entry"], r["seed"], slot, doctype)
    if r.get("ref_at"):
        xml = early_ref(xml, r["ref_at"], slot)
    return apply_variant(xml, r["variant"]), truth, expect, doctype is not None


def canon(v) -> str:
    return json.dumps(v, sort_keys=True, ensure_ascii=True)


def build(case):
    doc, truth, expect, has_dt = _case_doc(case)
    t = ["E"] if expect == "refuse" else ["P", canon(truth)]
    kind = case["recipe"]["kind"]
    spelled = kind.startswith("spelled_")
    b = Built({}, t, {"branches": [case["recipe"]["entry"], expect, "variant-" + case["recipe"]["variant"]] + (["doctype"] if has_dt else [])
                      + ([kind, case["recipe"]["entry"] + "/" + kind] if spelled else [])
                      + (["large-" + case["recipe"]["at"], "large-%s-1MiB" % ("over" if case["recipe"]["target"] > MIB else "upto")] if kind == "large" else [])
                      + (["entity-reference-at-" + case["recipe"]["ref_at"]] if case["recipe"].get("ref_at") else []),
                      "in_scope": True, "has_doctype": has_dt, "large": kind == "large", "spelled": spelled and ("&#" in str(doc) or "<![CDATA[" in str(doc) or isinstance(doc, bytes))})
    b.doc = doc
    return b


_AUDIT = {"on": False, "events": []}
_HOOKED = False


def _hook(name, args):
    if not _AUDIT["on"]:
        return
    if name == "open":
        p = str(args[0])
        if p == "/etc/passwd" or p.endswith((".dtd", ".gif", "/x", "/p.gif", "/y.dtd")):      # the URIs the hostile documents name
            _AUDIT["events"].append(f"open:{p}")
    elif name.startswith(("socket.connect", "socket.getaddrinfo", "urllib.Request", "http.client.connect", "ftplib.connect")):
        _AUDIT["events"].append(name)


def _enter(entry, doc):
    """hand the document to the entry point the way a user of the library does -> extracted content"""
    if entry == "hdd_descriptor":
        import tempfile
        from pathlib import Path

        from dissect.hypervisor.disk.hdd import Descriptor
        with tempfile.TemporaryDirectory(prefix="hvc19.") as d:
            p = Path(d) / "DiskDescriptor.xml"
            if isinstance(doc, bytes):
                p.write_bytes(doc)
            else:
                p.write_text(doc, encoding="utf-8")
            desc = Descriptor(p)
        top = desc.snapshots.top_guid
        return {"storages": [[s.start, s.end, [[str(i.guid), i.type, i.file] for i in s.images]] for s in desc.storage_data.storages],
                "top": str(top) if top is not None else None, "shots": [[str(s.guid), str(s.parent)] for s in desc.snapshots.shots]}
    fh = io.BytesIO(doc) if isinstance(doc, bytes) else io.StringIO(doc)
    if entry == "ovf":
        from dissect.hypervisor.descriptor.ovf import OVF
        return list(OVF(fh).disks())
    if entry == "vbox":
        from dissect.hypervisor.descriptor.vbox import VBox
        return list(VBox(fh).disks())
    from dissect.hypervisor.descriptor.pvs import PVS
    return list(PVS(fh).disks())


# Work before refusal. A document that declares entities has to be turned down without unfolding them: whatever the entry point
# allocates while handling it is bounded by a small multiple of the text it was given (copies of the text: the handle's read(),
# the UTF-8 encoding, the parser's buffer; 4 bytes per character at most) plus a constant for parser objects and the exception.
# The bound comes from the document's size alone; a nested-entity document of 2-3 KB that unfolds to megabytes is far beyond it.
WORK_CONST = 512 * 1024
WORK_PER_CHAR = 24
_WARM = set()


def work_bound(doc) -> int:
    return WORK_CONST + WORK_PER_CHAR * len(doc)


def _warm(entry):
    """imports, regex / XPath caches, first-use allocations: outside the measured window"""
    if entry in _WARM:
        return
    _WARM.add(entry)
    for dt in (None, '<!DOCTYPE %ROOT% [\n<!ENTITY w "w">\n]>'):
        try:
            _enter(entry, gen_configs._body(entry, 1, "x" if dt is None else "&w;", dt)[0])
        except Exception:  # noqa
            pass


def impl_run(case, built):
    global _HOOKED
    import sys
    import tracemalloc
    if not _HOOKED:
        sys.addaudithook(_hook)
        _HOOKED = True
    r = case["recipe"]
    doc = built.doc
    measure = built.truth == ["E"]
    peak = 0
    if measure:
        _warm(r["entry"])
    _AUDIT["events"] = []
    _AUDIT["on"] = True
    try:
        if measure:
            tracemalloc.start()
        try:
            res = _enter(r["entry"], doc)
            ans = ["P", canon(res)]
            err = {}
        except Exception as e:  # noqa
            ans, err = ["E"], {"0": f"{type(e).__name__}: {e}"[:200]}
        finally:
            if measure:
                peak = tracemalloc.get_traced_memory()[1]
                tracemalloc.stop()
    finally:
        _AUDIT["on"] = False
    if _AUDIT["events"]:
        ans = ["LEAK:" + ",".join(_AUDIT["events"][:3])]
    elif measure and peak > work_bound(doc):
        ans = [f"WORK:{peak}-bytes-allocated-for-a-{len(doc)}-character-document(bound {work_bound(doc)})"]
    return {"answers": ans, "errors": err, "peak": peak}


def model_lines(case, built):
    ev = events_of(built.doc)
    built.events = ev
    if "!" in ev:
        return ["xml.events"]
    return ["xml.events " + " ".join(ev)]


def model_parse(case, built, out):
    if not out:
        return {"answers": None, "wf": None}
    if "!" in getattr(built, "events", []):
        return {"answers": ["E"], "wf": False, "raw": "not well-formed"}
    if out[0].startswith("refused"):
        return {"answers": ["E"], "wf": True, "raw": out[0]}
    if out[0].startswith("parsed"):
        return {"answers": built.truth if built.truth[0] == "P" else ["P", "?"], "wf": True, "raw": out[0]}
    return {"answers": None, "wf": None, "raw": out[0]}


def nontrivial(case, built, model):
    return built.info["has_doctype"] or built.info.get("spelled", False) or built.info.get("large", False)


def search(seed, broken, budget):
    return generate(seed + 1000, "thorough")[: min(budget, 1500)]
