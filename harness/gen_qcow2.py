"""gen_qcow2 — independent QCOW2 (v2/v3) image writer for C01 / C07 / C14, written from QEMU docs/interop/qcow2.txt.

recipe (JSON-able dict) -> Truth: sparse Images + guest bytes / metadata known by construction.  Nothing from
dissect.hypervisor is imported except inside open_impl / impl_meta / selftest, which run the real code.

cluster states in recipe["clusters"] / recipe["snaps"][j]["clusters"] ({str(guest cluster index): state}, absent = unallocated):
  ["n"] normal   ["z"] zero flag, no host cluster (v3)   ["za"] zero flag + host cluster (v3)
  ["c", kind, seed] compressed (raw deflate, 4 KiB window; kind zero|pat|mix1|mix4|mix7|stored)
  ["s", alloc32, zero32, has_host] extended-L2 entry (sub-cluster i: zero bit -> zeros, alloc bit -> host data, else backing)
  ["="] (snapshot maps only) the L2 entry of the active image for this guest cluster, copied: both views reference the same
        host cluster / the same compressed blob, as after an internal snapshot whose cluster was not rewritten (absent in the
        active image = unallocated)
"""
from __future__ import annotations

import bisect
import json
import random
import struct
import sys
import zlib

from sparse import Image, pat_bytes

MAGIC = 0x514649FB
COPIED, COMPRESSED, ZERO, M32 = 1 << 63, 1 << 62, 1, 0xFFFFFFFF
X_END, X_BFMT, X_FEAT, X_BITMAPS, X_DATA = 0, 0xE2792ACA, 0x6803F857, 0x23852875, 0x44415441
CHARS = "abcdefghijklmnopqrstuvwxyzABCDEFGHIJKLMNOPQRSTUVWXYZ0123456789 -_./"


# ------------------------------------------------------------------------------------------------ recipe generation

def _gen_str(rng, maxlen, minlen=0):
    n = max(minlen, min(maxlen, rng.choice([0, 1, 2, 5, 8, 13, rng.randrange(maxlen + 1)])))
    s = "".join(rng.choice(CHARS) for _ in range(n))
    if n >= 4 and rng.random() < 0.15:                     # multi-byte UTF-8: stored sizes are byte counts
        s = s[: n - 4] + rng.choice(["é", "ßü", "雪"])
    return s


SUB_PATTERNS = ["alloc", "zplain", "zalloc", "alt", "alt2", "rand", "rand", "prefix", "suffix", "range", "bare"]
# "holes": a partially written cluster (some sub-clusters data, some written as zeros, in any order) whose sub-clusters up to one
# cluster edge were never touched: an unallocated run that reaches the end (or, mirrored, the start) of the cluster, next to
# zero-flagged and allocated sub-clusters whose lowest zero bit is not bit 0
SUB_PATTERNS_HOLES = ["holes", "holes", "holes", "alloc", "rand", "prefix", "zalloc"]


def _gen_bitmap(rng, pats=None):
    p = rng.choice(pats or SUB_PATTERNS)
    a = z = 0
    if p == "alloc":
        a = M32
    elif p in ("zplain", "zalloc"):
        z = M32
    elif p == "alt":
        a, z = rng.choice([(0x55555555, 0xAAAAAAAA), (0xAAAAAAAA, 0x55555555)])
    elif p == "alt2":
        a = rng.choice([0x55555555, 0xAAAAAAAA, 0x0F0F0F0F, 0xFFFF0000])
        z = rng.choice([0, ~a & M32 & rng.getrandbits(32)])
    elif p == "rand":
        for i in range(32):
            t = rng.randrange(3)
            a |= (t == 1) << i
            z |= (t == 2) << i
    elif p == "holes":
        k = rng.randrange(2, 32)                           # sub-clusters k..31 unallocated
        j = rng.randrange(1, k)                            # lowest zero bit
        for i in range(k):
            t = rng.choice([0, 1]) if i < j else (2 if i == j else rng.randrange(3))
            a |= (t == 1) << i
            z |= (t == 2) << i
        if rng.random() < 0.25:                            # mirrored: the unallocated run is at the start of the cluster
            a, z = (int(f"{v:032b}"[::-1], 2) for v in (a, z))
    elif p != "bare":
        i = rng.randrange(33)
        j = rng.randrange(i, 33)
        m = {"prefix": (1 << j) - 1, "suffix": M32 & ~((1 << i) - 1), "range": ((1 << j) - 1) & ~((1 << i) - 1)}[p]
        a, z = rng.choice([(m, 0), (0, m), (m, ~m & M32), (~m & M32, m)])
    host = 1 if a or p in ("zalloc", "bare") else (0 if p == "zplain" else rng.choice([0, 1]))
    return ["s", a, z, host]


def _gen_state(rng, k, cs, pats=None):
    if k == "c":
        return ["c", rng.choice(["zero", "pat", "pat", "mix1", "mix4", "mix7"] + (["stored"] if cs <= 16384 else [])), rng.randrange(1 << 16)]
    return _gen_bitmap(rng, pats) if k == "s" else [k]


def _gen_cow_map(rng, base, ncl, kinds, cs, pats=None):
    """the cluster map of a view that shares history with `base` (the active image): per guest cluster of `base` either the
    very same L2 entry (["="]: shared host cluster / shared compressed blob), the same kind of cluster with other content
    (rewritten after / before the snapshot: e.g. compressed in both views, different blobs), another kind, or nothing;
    plus a few clusters only this view has"""
    m = {}
    for i, s in base.items():
        t = rng.random()
        if t < 0.3:
            m[i] = ["="]
        elif t < 0.75:
            m[i] = _gen_state(rng, s[0] if s[0] in kinds else rng.choice(kinds), cs, pats)
        elif t < 0.9:
            m[i] = _gen_state(rng, rng.choice(kinds), cs, pats)
    for _ in range(rng.randrange(3)):
        m.setdefault(str(rng.randrange(ncl)), _gen_state(rng, rng.choice(kinds), cs, pats))
    return m


def _gen_map(rng, ncl, l2n, kinds, cs, dense=False, pats=None):
    if ncl <= 48:
        p = 0.9 if dense else rng.choice([0.3, 0.6, 0.9])
        idxs = {i for i in range(ncl) if rng.random() < p}
    else:
        nt = -(-ncl // l2n)
        idxs = {0, ncl - 1}
        for b in (range(1, nt) if dense else rng.sample(range(1, nt), min(nt - 1, 5))):
            idxs |= {b * l2n - 1, b * l2n} | ({b * l2n + 1, b * l2n - 2} if rng.random() < 0.3 else set())
        for _ in range(rng.randrange(1, 5)):
            s = rng.randrange(ncl)
            idxs |= set(range(s, s + rng.randrange(1, 7)))
        idxs = {i for i in idxs if 0 <= i < ncl and rng.random() < 0.85}
    return {str(i): _gen_state(rng, rng.choice(kinds), cs, pats) for i in sorted(idxs)}


def gen_recipe(rng, tier="quick", **kn):
    """knobs: cluster_bits version ext datafile hlen size depth(max files below this one) backing(none|raw|qcow2)
    nsnaps extras(allowed snapshot extra_data_size values) comp(bool) jumps(list of host base offsets)
    snap_small_l1(probability of a snapshot L1 shorter than the active one needs) many_l2(bool)
    sub_patterns(list of _gen_bitmap pattern names to draw extended-L2 bitmaps from, e.g. SUB_PATTERNS_HOLES) dense(bool: most clusters
    present) kinds(cluster kinds to draw from) snap_cow(probability that a snapshot's map is derived from the active one: _gen_cow_map)"""
    big = tier == "thorough" or rng.random() < 0.08
    ext = kn.get("ext", rng.random() < 0.3)
    cbs = [14, 14, 14, 15, 16] + ([17, 18, 20, 21] if big else []) if ext else [9, 9, 9, 10, 10, 11, 12, 12, 13, 14, 16] + ([15, 17, 18, 19, 20, 21] if big else [])
    fits = [c for c in cbs if kn.get("size", 0) >> (2 * c - 3 - (1 if ext else 0)) <= 2048]          # keep the L1 table of a given size small
    cb = kn["cluster_bits"] if "cluster_bits" in kn else rng.choice(fits or [21])
    ext = bool(ext and cb >= 14)
    version = 3 if ext else kn.get("version", rng.choice([2, 3, 3]))
    datafile = kn.get("datafile", rng.choice([None] * 4 + ["raw", "arb"])) if version == 3 else None
    hlen = 72 if version == 2 else kn.get("hlen", rng.choice([104, 112, 112, 120]))
    cs = 1 << cb
    l2n = cs // (16 if ext else 8)
    mode = "given"
    if "size" in kn:
        size = max(1, kn["size"])
    else:
        mode = rng.choice(["few", "few", "few", "tables", "tables", "exact"])
        if kn.get("many_l2", tier == "thorough" and cb <= 10 and rng.random() < 0.05):
            mode = "many"
        ncl = {"few": rng.choice([1, 2, 3, 5, 8, 13, 30]), "exact": rng.choice([1, 2, 3]) * l2n, "many": rng.randrange(130, 200) * l2n,
               "tables": rng.choice([1, 2, 3, 5]) * l2n + rng.choice([-1, 0, 1, 2, rng.randrange(l2n)])}[mode]
        size = max(1, ncl) * cs - (rng.randrange(1, cs) if mode != "exact" and rng.random() < 0.5 else 0)
    ncl = -(-size // cs)
    need = -(-ncl // l2n)
    l1_size = need + (0 if mode == "exact" else rng.choice([0, 0, 0, 1, 3]))
    comp = kn.get("comp", True) and not datafile
    kinds = (["s"] * 4 if ext else ["n"] * 3 + (["z", "za"] if version == 3 else [])) + (["c", "c"] if comp else [])
    if "kinds" in kn:
        kinds = [k for k in kn["kinds"] if k in kinds] or kinds
    pats = kn.get("sub_patterns")
    r = {"version": version, "hlen": hlen, "cluster_bits": cb, "ext": ext, "size": size, "l1_size": l1_size, "datafile": datafile,
         "seed": rng.randrange(256), "clusters": _gen_map(rng, ncl, l2n, kinds, cs, dense=(mode == "many" or kn.get("dense", False)), pats=pats),
         "dirty": rng.random() < 0.1, "lazy": rng.random() < 0.2}
    # internal snapshots
    snaps = []
    for _ in range(0 if datafile == "raw" else kn.get("nsnaps", rng.choice([0] * 5 + [1, 2, 3, 5]))):   # raw data file: no COW, no snapshots
        small = need > 1 and rng.random() < kn.get("snap_small_l1", 0.03)
        sl1 = rng.randrange(1, need) if small else need + rng.choice([0, 0, 2])
        share = [t for t in range(min(need, sl1)) if rng.random() < 0.3]
        if kn.get("snap_cow") and rng.random() < kn["snap_cow"]:
            share = share if need > 2 else []
            m = _gen_cow_map(rng, r["clusters"], ncl, kinds, cs, pats)
        else:
            m = _gen_map(rng, ncl, l2n, kinds, cs, pats=pats)
        snaps.append({"id": _gen_str(rng, 20, 1), "name": _gen_str(rng, rng.choice([30, 30, 300])), "l1_size": sl1, "share": share,
                      "extra": rng.choice(kn.get("extras") or ([0] if version == 2 else []) + [16, 24, 32]), "xvals": [rng.getrandbits(rng.choice([20, 40, 64])) for _ in range(4)],
                      "date": [rng.getrandbits(32), rng.randrange(10 ** 9)], "clock": rng.getrandbits(rng.choice([30, 64])), "vmstate": rng.getrandbits(32),
                      "clusters": {k: v for k, v in m.items() if int(k) // l2n not in share and int(k) // l2n < sl1}})
    r["snaps"] = snaps
    # backing
    depth = kn.get("depth", 3)
    bk = kn.get("backing", rng.choice(["none", "none", "raw", "raw", "raw", "qcow2", "qcow2"])) if depth > 0 else "none"
    r["backing"] = None
    if bk != "none":
        bsize = {"same": size, "shorter": max(1, size - rng.randrange(1, min(size, 3 * cs) + 1)), "half": max(1, size // 2),
                 "longer": size + rng.randrange(1, 3 * cs), "tiny": rng.randrange(1, cs + 1)}[rng.choice(["same", "same", "shorter", "shorter", "half", "longer", "tiny"])]
        if bk == "raw":
            r["backing"] = {"kind": "raw", "size": bsize, "seed": rng.randrange(256), "hole": rng.random() < 0.3}
        else:
            sub = {k: v for k, v in kn.items() if k in ("comp", "snap_small_l1", "extras")}
            r["backing"] = {"kind": "qcow2", "recipe": gen_recipe(rng, tier, size=bsize, depth=depth - 1, nsnaps=rng.choice([0, 0, 1]), **sub)}
        r["backing_name"] = _gen_str(rng, min(200, cs // 4), 1)
    # header extensions (the whole header area must fit into the first cluster)
    exts = []
    if r["backing"] and rng.random() < 0.7:
        exts.append([X_BFMT, rng.choice(["raw", "RAW"] if bk == "raw" else ["qcow2", "QCOW2", "Qcow2"]).encode().hex()])
    if version == 3 and rng.random() < 0.6:
        exts.append([X_FEAT, b"".join(bytes([rng.randrange(3), rng.randrange(64)]) + _gen_str(rng, 20, 1).encode()[:46].ljust(46, b"\0") for _ in range(rng.randrange(4))).hex()])
    if version == 3 and rng.random() < 0.2:
        exts.append([X_BITMAPS, struct.pack(">IIQQ", rng.randrange(1, 5), 0, rng.randrange(24, 4096), rng.randrange(1, 1 << 40) * cs).hex()])
    for _ in range(rng.choice([0, 0, 1, 2])):
        n = rng.choice([0, 1, 3, 7, 8, 9, 13, 24, rng.randrange(64)])
        exts.append([rng.choice([0x0537BE78, 0xDEADBEEF, 0x12345678, 1, 0xFFFFFFFF, rng.getrandbits(32) | 0x100]), rng.randbytes(n).hex()])
    rng.shuffle(exts)
    budget = cs - hlen - 8 - len(r.get("backing_name", "").encode()) - 16 - (8 + 24 if datafile else 0)
    while sum(8 + (len(e[1]) // 2 + 7 & ~7) for e in exts) > budget:
        exts.pop()
    if datafile:
        exts.insert(rng.randrange(len(exts) + 1), [X_DATA, _gen_str(rng, 20, 1).encode()[:20].hex()])
    r["exts"] = exts
    r["end_marker"] = rng.random() < 0.7
    r["junk_after_end"] = r["end_marker"] and rng.random() < 0.3
    r["bn_pos"] = rng.choice(["tight", "tight", "gap", "end"])
    # physical layout
    lim = 1 << (min(56, 70 - cb) if comp else 56)
    jumps = sorted(b for b in kn["jumps"] if 2 * b <= lim) if "jumps" in kn else None      # host offsets must stay below 2^56 (compressed: 2^(70-cluster_bits))
    if jumps is None:
        jumps = []
        if rng.random() < 0.3:
            jumps = sorted(rng.sample([b for b in (1 << 32, (1 << 36) + (1 << 33), 1 << 40, 1 << 47, 1 << 55) if 2 * b <= lim], rng.choice([1, 1, 2])))
    r["layout"] = {"style": rng.choice(["seq", "seq", "rev", "shuf", "shuf"]), "gap": rng.choice([0, 0, 0.2, 0.5]), "jumps": jumps,
                   "meta": rng.choice(["first", "last", "mixed", "mixed"]), "copied": rng.choice(["all", "none", "rand"]),
                   "trunc_tail": rng.random() < 0.5, "seed": rng.randrange(1 << 30)}
    return r


# ------------------------------------------------------------------------------------------------ construction + truth

def _cdata(cs, kind, seed):
    """(guest bytes of the cluster, raw-deflate stream). Big clusters only get a short incompressible prefix."""
    k = int(kind[3]) if kind.startswith("mix") else 0
    while True:
        n = min(cs * k // 8, 6144)
        raw = bytes(cs) if kind == "zero" else random.Random(seed).randbytes(n) + pat_bytes(seed, 0, cs - n)
        co = zlib.compressobj(0 if kind == "stored" else 9, zlib.DEFLATED, -12)
        comp = co.compress(raw) + co.flush()
        if kind == "stored" or len(comp) < cs or k == 0:
            return raw, comp
        k -= 1


def _place(g, items, start, cs, gap, jumps):
    """items [(key, n clusters)] in physical order -> {key: byte offset}, end offset"""
    jumps = list(jumps)
    at = sorted(g.randrange(len(items) + 1) for _ in jumps)
    cur, pos = start, {}
    for n, (key, ncl) in enumerate(items):
        while at and at[0] <= n:
            at.pop(0)
            cur = max(cur, jumps.pop(0) // cs + g.randrange(3))
        if g.random() < gap:
            cur += g.randrange(1, 4)
        pos[key] = cur * cs
        cur += ncl
    return pos, cur * cs


class Truth:
    def __init__(self, r):
        self.r = r
        self.cb, self.ext, self.size = r["cluster_bits"], r["ext"], r["size"]
        self.cs = 1 << self.cb
        self.esz = 16 if self.ext else 8
        self.l2n = self.cs // self.esz
        self.files = {}
        self.backing_truth = self.backing_img = None
        b = r.get("backing")
        if b and b["kind"] == "raw":
            im = Image()
            h0, h1 = (b["size"] // 3, b["size"] // 2) if b.get("hole") else (0, 0)
            im.put_pat(0, h0, b["seed"])
            im.put_pat(h1, b["size"] - h1, b["seed"])
            self.backing_img = self.files["backing"] = im.finish(b["size"])
        elif b:
            self.backing_truth = bt = Truth(b["recipe"])
            self.files["backing"] = bt.files["img"]
            self.files.update({"backing." + k: v for k, v in bt.files.items() if k != "img"})
        self._build()
        self.meta = self._meta()

    # -- image construction
    def _build(self):
        r, cs, l2n, esz = self.r, self.cs, self.l2n, self.esz
        lay = r["layout"]
        g = random.Random(lay["seed"])
        maps = [r] + r["snaps"]                                   # map 0 = active image, map j+1 = snapshot j
        ncl = -(-self.size // cs)
        need = -(-ncl // l2n)
        shares = [set()] + [set(s["share"]) for s in r["snaps"]]
        own = [{int(i): s for i, s in m["clusters"].items() if int(i) < ncl and int(i) // l2n < m["l1_size"] and int(i) // l2n not in shares[k]}
               for k, m in enumerate(maps)]
        img = Image()
        dat = Image() if r["datafile"] else img
        self.data_image = dat
        if r["datafile"]:
            self.files["data"] = dat
        hosted = [(k, i) for k, o in enumerate(own) for i, s in sorted(o.items()) if s[0] in ("n", "za") or (s[0] == "s" and s[3])]
        comps = [(k, i) for k, o in enumerate(own) for i, s in sorted(o.items()) if s[0] == "c"]
        # compressed clusters are packed byte-wise into groups that share host clusters
        mask = (1 << (self.cb - 8)) - 1
        groups, ditems = [], [(("d",) + ki, 1) for ki in hosted]
        while comps:
            grp = comps[: g.randrange(1, 5)]
            comps = comps[len(grp):]
            rel = g.choice([0, 0, 1, 511, 512, 513, g.randrange(cs)]) % cs
            blobs = []
            for k, i in grp:
                raw, comp = _cdata(cs, own[k][i][1], own[k][i][2])
                if ((rel + len(comp) - 1) >> 9) - (rel >> 9) > mask:
                    rel = (rel + 511) & ~511
                nb = ((rel + len(comp) - 1) >> 9) - (rel >> 9)
                assert nb <= mask, "compressed cluster does not fit the sector count field"
                blobs.append((k, i, rel, comp, raw, nb))
                rel += len(comp) + g.choice([0, 0, 1, 7, g.randrange(700)])
            groups.append(blobs)
            ditems.insert(g.randrange(len(ditems) + 1) if lay["style"] == "shuf" else len(ditems), (("cg", len(groups) - 1), -(-(blobs[-1][2] + len(blobs[-1][3])) // cs)))
        if lay["style"] == "rev":
            ditems.reverse()
        elif lay["style"] == "shuf":
            g.shuffle(ditems)
        used = [{i // l2n for i in o} for o in own]               # allocated L2 tables: the used ones + a few empty ones
        tables = [(k, t) for k, m in enumerate(maps) for t in range(m["l1_size"]) if t not in shares[k] and (t in used[k] or (t < need and g.random() < 0.15))]
        meta = [(("l1", k), -(-m["l1_size"] * 8 // cs)) for k, m in enumerate(maps)] + [(("l2",) + kt, 1) for kt in tables] + [(("rt",), 1)]
        stab = self._snapshot_table(None)
        if stab:
            meta.append((("st",), -(-len(stab) // cs)))
        g.shuffle(meta)
        if r["datafile"]:
            dkeys = [it for it in ditems if it[0][0] == "d"]
            dpos, dend = ({key: key[2] * cs for key, _ in dkeys}, 0) if r["datafile"] == "raw" else _place(g, dkeys, 0, cs, lay["gap"], lay["jumps"])
            ditems = [it for it in ditems if it[0][0] != "d"]
        if lay["meta"] == "first":
            items = meta + ditems
        elif lay["meta"] == "last":
            items = ditems + meta
        else:
            items = list(ditems)
            for it in meta:
                items.insert(g.randrange(len(items) + 1), it)
        pos, end = _place(g, items, 1, cs, lay["gap"], lay["jumps"])
        if r["datafile"]:
            pos.update(dpos)
        if items and items[-1][0][0] == "cg" and lay["trunc_tail"]:
            b = groups[items[-1][0][1]][-1]
            end = pos[items[-1][0]] + b[2] + len(b[3])           # file ends right after the last compressed byte

        def cp(force=False):
            return COPIED if force or lay["copied"] == "all" or (lay["copied"] == "rand" and g.random() < 0.5) else 0
        # data clusters + L2 entries
        ent = [dict() for _ in maps]                             # guest cluster -> (state, host offset | guest bytes)
        l2e = {}                                                 # file offset -> entry bytes
        cdesc = {}
        for gi, blobs in enumerate(groups):
            base, prev = pos[("cg", gi)], None
            for k, i, rel, comp, raw, nb in blobs:
                if prev is not None:
                    img.put_fill(prev, base + rel - prev, 0xA5)  # junk between compressed streams
                img.put_hex(base + rel, comp)
                prev = base + rel + len(comp)
                cdesc[(k, i)] = (COMPRESSED | (nb << (70 - self.cb)) | (base + rel), raw)
        raw_l2 = {}                                              # (map, guest cluster) -> L2 entry bytes as written
        for k, o in enumerate(own):
            for i, s in sorted(o.items()):
                if s[0] == "=":                                  # the active image's entry, refcount 2: COPIED clear
                    if (0, i) in raw_l2:
                        e0 = struct.unpack(">Q", raw_l2[(0, i)][:8])[0] & ~(0 if r["datafile"] else COPIED)  # (data-file offset 0 needs COPIED)
                        l2e[pos[("l2", k, i // l2n)] + (i % l2n) * esz] = struct.pack(">Q", e0) + raw_l2[(0, i)][8:]
                        ent[k][i] = ent[0][i]
                    continue
                host, hostbits = pos.get(("d", k, i)), 0
                if host is not None:
                    dat.put_pat(host, cs, r["seed"] + 31 * k + 7 * i)
                    hostbits = host | cp(force=bool(r["datafile"]) and host == 0)   # data-file offset 0 is only "allocated" with COPIED
                if s[0] == "c":
                    e, raw = cdesc[(k, i)]
                    ent[k][i] = (s, raw)
                else:
                    e = hostbits | (ZERO if s[0] in ("z", "za") else 0)
                    ent[k][i] = (s, host)
                bitmap = struct.pack(">Q", (s[1] | s[2] << 32) if s[0] == "s" else 0) if self.ext else b""
                raw_l2[(k, i)] = l2e[pos[("l2", k, i // l2n)] + (i % l2n) * esz] = struct.pack(">Q", e) + bitmap
        run_off, run = None, b""
        for off in sorted(l2e):                                  # adjacent entries become one hex segment; the rest of a table stays sparse zero
            if run_off is not None and run_off + len(run) == off:
                run += l2e[off]
            else:
                img.put_hex(run_off or 0, run)
                run_off, run = off, l2e[off]
        img.put_hex(run_off or 0, run)
        # L1 tables
        for k, m in enumerate(maps):
            for t in range(m["l1_size"]):
                owner = 0 if t in shares[k] else k
                off = pos.get(("l2", owner, t))
                if off:
                    img.put_hex(pos[("l1", k)] + 8 * t, struct.pack(">Q", off | (cp() if owner == k else 0)))
                    if owner != k:
                        ent[k].update({i: v for i, v in ent[0].items() if i // l2n == t})
        self.ent = ent
        self.keys = [sorted(e) for e in ent]
        img.put_pat(pos[("rt",)], cs, r["seed"] + 99)             # refcount table: contents irrelevant to a reader
        if stab:
            img.put_hex(pos[("st",)], self._snapshot_table(pos))
        self.pos = pos
        # header, extensions, backing file name
        h = bytearray(struct.pack(">IIQIIQIIQQIIQ", MAGIC, r["version"], 0, 0, self.cb, self.size, 0, r["l1_size"], pos[("l1", 0)], pos[("rt",)], 1,
                                  len(r["snaps"]), pos.get(("st",), 0)))
        if r["version"] == 3:
            incompat = (1 if r["dirty"] else 0) | (4 if r["datafile"] else 0) | (16 if self.ext else 0)
            autoclear = (2 if r["datafile"] == "raw" else 0) | (1 if any(e[0] == X_BITMAPS for e in r["exts"]) else 0)
            h += struct.pack(">QQQII", incompat, 1 if r["lazy"] else 0, autoclear, 4, r["hlen"])
            h += bytes(r["hlen"] - 104)                          # compression_type 0 (zlib) + padding / unknown zero fields
        for magic, hx in r["exts"]:
            d = bytes.fromhex(hx)
            h += struct.pack(">II", magic, len(d)) + d + bytes(-len(d) % 8)
        if r["end_marker"]:
            h += bytes(8)
        skip = min(24, cs - len(h))
        if r["backing"]:
            name, skip = r["backing_name"].encode(), 0
            if r["bn_pos"] != "tight" and len(h) + len(name) + 16 <= cs:
                room = cs - len(h) - len(name)
                skip = room if r["bn_pos"] == "end" else g.randrange(1, min(room, 64) + 1)
                if not r["end_marker"]:
                    skip &= ~7                                  # without an end marker the area up to the name is parsed as extensions
            struct.pack_into(">QI", h, 8, len(h) + skip, len(name))
            assert len(h) + skip + len(name) <= cs, "header area exceeds the first cluster"
            img.put_hex(len(h) + skip, name)
        if r["junk_after_end"]:
            img.put_fill(len(h), skip, 0x5A)                    # bytes after the end marker are not extensions
        img.put_hex(0, bytes(h))
        self.files["img"] = img.finish(max(end, cs))
        if r["datafile"]:
            dat.finish(max([self.size if r["datafile"] == "raw" else 0, dend] + [p + cs for key, p in dpos.items()]))

    def _snapshot_table(self, pos):
        out = b""
        for j, s in enumerate(self.r["snaps"]):
            sid, name = s["id"].encode(), s["name"].encode()
            extra = struct.pack(">QQQQ", *s["xvals"])[: s["extra"]]
            e = struct.pack(">QIHHIIQII", pos[("l1", j + 1)] if pos else 0, s["l1_size"], len(sid), len(name), s["date"][0], s["date"][1], s["clock"],
                            s["vmstate"], len(extra)) + extra + sid + name
            out += e + bytes(-len(e) % 8)
        return out

    def _meta(self):
        r = self.r
        ex = [[m, len(hx) // 2, hx] for m, hx in r["exts"]]
        first = lambda magic: next((bytes.fromhex(e[2]) for e in ex if e[0] == magic), None)
        bm = first(X_BITMAPS)
        snaps = []
        for j, s in enumerate(r["snaps"]):
            d = {"id": s["id"], "name": s["name"], "l1_size": s["l1_size"], "l1_table_offset": self.pos[("l1", j + 1)], "date_sec": s["date"][0],
                 "date_nsec": s["date"][1], "vm_clock_nsec": s["clock"], "vm_state_size": s["vmstate"], "extra_data_size": s["extra"]}
            for n, key in enumerate(["vm_state_size_large", "disk_size", "icount"]):
                d[key] = s["xvals"][n] if s["extra"] >= 8 * n + 8 else 0
            d["unknown_extra"] = struct.pack(">Q", s["xvals"][3]).hex() if s["extra"] > 24 else None
            snaps.append(d)
        return {"size": self.size, "cluster_size": self.cs, "version": r["version"], "l1_size": r["l1_size"],
                "backing_file": r.get("backing_name") if r["backing"] else None,
                "backing_format": first(X_BFMT).decode() if first(X_BFMT) is not None else None,
                "data_file": first(X_DATA).decode() if r["datafile"] else None,
                "feature_table": first(X_FEAT).hex() if first(X_FEAT) is not None else None,
                "bitmaps": list(struct.unpack(">IIQQ", bm)) if bm else None,
                "unknown": [e for e in ex if e[0] not in (X_BFMT, X_DATA, X_FEAT, X_BITMAPS)], "extensions": ex, "snapshots": snaps}

    # -- guest bytes by construction
    def _backing(self, off, n):
        if self.backing_img is not None:
            return self.backing_img.read_at(off, n).ljust(n, b"\0")
        if self.backing_truth is not None:
            return self.backing_truth.read(off, n).ljust(n, b"\0")
        return bytes(n)

    def _read_map(self, k, off, n):
        cs, ent, keys, out = self.cs, self.ent[k], self.keys[k], []
        end = min(off + n, self.size)
        while off < end:
            c, ino = divmod(off, cs)
            if c not in ent:
                j = bisect.bisect_right(keys, c)
                m = min(end, keys[j] * cs if j < len(keys) else end) - off
                out.append(self._backing(off, m))
                off += m
                continue
            s, loc = ent[c]
            m = min(cs - ino, end - off)
            if s[0] == "n":
                out.append(self.data_image.read_at(loc + ino, m))
            elif s[0] in ("z", "za"):
                out.append(bytes(m))
            elif s[0] == "c":
                out.append(loc[ino: ino + m])
            else:
                ss, p = cs // 32, ino
                while p < ino + m:
                    i = p // ss
                    q = min((i + 1) * ss, ino + m)
                    if s[2] >> i & 1:
                        out.append(bytes(q - p))
                    elif s[1] >> i & 1:
                        out.append(self.data_image.read_at(loc + p, q - p))
                    else:
                        out.append(self._backing(c * cs + p, q - p))
                    p = q
            off += m
        return b"".join(out)

    def read(self, off, n):
        return self._read_map(0, off, n)

    def snapshot_read(self, i, off, n):
        return self._read_map(i + 1, off, n)

    def snapshot_reader(self, i):
        return lambda off, n: self._read_map(i + 1, off, n)


def gen_queries(rng, t, n, k=0):
    """[["o", off, len]] (core.truth_ops / impl_ops format) around the interesting edges of map k (0 = active, j+1 = snapshot j)"""
    cs, size, keys = t.cs, t.size, t.keys[k]
    ncl = -(-size // cs)
    ss = cs // 32 if t.ext else cs
    span = t.l2n * cs
    qs = []
    for _ in range(n):
        kind = rng.choice(["edge", "edge", "sub", "l2", "multi", "tail", "full", "rand", "small"])
        c = (rng.choice(keys) + rng.choice([0, 0, 1])) if keys and rng.random() < 0.8 else rng.randrange(ncl + 1)
        if kind == "edge":
            off = c * cs + rng.choice([-1, 0, 1, -rng.randrange(1, cs + 1)])
            ln = rng.choice([1, 2, cs, cs + 1, 2 * cs, rng.randrange(1, 3 * cs + 2)])
        elif kind == "sub":
            off = c * cs + rng.randrange(33) * ss + rng.choice([-1, 0, 1])
            ln = rng.choice([1, 2, ss, ss + 1, 3 * ss - 1, rng.randrange(1, 2 * cs)])
        elif kind == "l2":
            off = rng.randrange(1, -(-size // span) + 1) * span - rng.choice([0, 1, cs, cs + 1, rng.randrange(1, 2 * cs)])
            ln = rng.randrange(1, 3 * cs + 2)
        elif kind == "tail":
            off = size - rng.randrange(1, min(size, 2 * cs) + 1)
            ln = size - off + rng.choice([0, 1, 100000])
        elif kind == "full" and size <= 4 << 20:
            off, ln = 0, size
        elif kind == "small":
            off, ln = rng.randrange(size), rng.randrange(16)
        elif kind == "rand":
            off, ln = rng.randrange(size + 3), rng.randrange(min(size, 100000) + 1)
        else:
            off, ln = c * cs + rng.choice([0, 0, rng.randrange(cs)]), rng.randrange(1, 8 * cs)
        qs.append(["o", max(0, off), min(ln, 5 << 20)])
    return qs


# ------------------------------------------------------------------------------------------------ directed structural mutations

OFFMASK = 0x00FFFFFFFFFFFE00           # host offset bits of L1 / standard L2 entries (qcow2.txt: bits 9..55)
M64 = (1 << 64) - 1


def struct_bases(rng, tier="quick"):
    """[(name, recipe)]: small images for struct_mutations whose cluster maps are written out explicitly, so that every kind of
    L2 entry exists in every run: extended-L2 entries (fully allocated, half data / half zero, all-zero with and without host cluster,
    partially allocated with untouched sub-clusters at both ends, bare host cluster, compressed, unallocated slots), standard entries
    (normal, zero, zero + host, compressed, unallocated), entries on both sides of an L2-table boundary, with / without backing file,
    internal snapshot (own and shared L2 tables), external data file. The random generator only fills in layout, names, seeds."""
    out = []

    def mk(name, clusters, tables=2, **kn):
        cb = kn["cluster_bits"]
        ext = kn.get("ext", False)
        l2n = (1 << cb) // (16 if ext else 8)
        m = dict(clusters)
        if tables > 1:                      # the same entries around the first L2-table boundary
            vals = list(clusters.values())
            for d in (-2, -1, 0, 1, 3):
                m[l2n + d] = vals[(d + 2) % len(vals)]
        ncl = max(m) + 2
        r = gen_recipe(rng, "quick", size=ncl * (1 << cb) - rng.choice([0, 1, 700]), depth=1, **kn)
        r["clusters"] = {str(i): v for i, v in sorted(m.items()) if not (v[0] == "c" and r["datafile"]) and not (v[0] in ("z", "za") and r["version"] == 2)}
        for sn in r["snaps"]:               # snapshot maps: a copy-on-write relative of the explicit map
            kinds = sorted({v[0] for v in r["clusters"].values()})
            sn["share"] = [tb for tb in sn["share"] if tb > 0]
            cm = _gen_cow_map(rng, r["clusters"], ncl, kinds, 1 << cb)
            sn["clusters"] = {k: v for k, v in cm.items() if int(k) // l2n not in sn["share"] and int(k) // l2n < sn["l1_size"]}
        r["layout"]["jumps"] = []
        out.append((name, r))
    S = lambda a, z, h: ["s", a, z, h]
    extmap = {0: S(M32, 0, 1), 1: S(0x0000FFFF, 0xFFFF0000, 1), 2: S(0, M32, 0), 3: S(0, M32, 1), 4: S(0x00FF00F0, 0, 1), 5: ["c", "pat", 7],
              7: S(0, 0, 1), 8: S(0x80000001, 0x00000100, 1), 9: S(0, 0x0000FF00, 0), 11: S(M32, 0, 1), 12: S(M32, 0, 1), 13: ["c", "mix4", 9],
              14: S(0xFFFF0000, 0x000000FF, 1)}
    stdmap = {0: ["n"], 1: ["n"], 2: ["z"], 3: ["za"], 4: ["c", "pat", 3], 6: ["n"], 7: ["c", "mix4", 5], 8: ["c", "zero", 1], 9: ["za"], 10: ["n"], 11: ["z"]}
    ecb = rng.choice([14, 14, 15, 16])
    mk("ext", extmap, cluster_bits=ecb, ext=True, version=3, datafile=None, backing="none", nsnaps=0)
    mk("ext-backing-snap", extmap, cluster_bits=14, ext=True, version=3, datafile=None, backing="raw", nsnaps=1)
    mk("ext-datafile", extmap, tables=1, cluster_bits=rng.choice([14, 15]), ext=True, version=3, datafile="arb", backing="none", nsnaps=0)
    mk("std3", stdmap, cluster_bits=rng.choice([9, 10, 12]), ext=False, version=3, datafile=None, backing="none", nsnaps=1)
    mk("std2-backing", stdmap, cluster_bits=rng.choice([9, 11, 16]), ext=False, version=2, datafile=None, backing="raw", nsnaps=0)
    mk("std3-datafile", stdmap, tables=1, cluster_bits=rng.choice([9, 12]), ext=False, version=3, datafile=rng.choice(["arb", "raw"]), backing="none", nsnaps=0)
    if tier != "quick":
        for i in range(6):
            e = i % 2 == 0
            mk(f"x{i}", extmap if e else stdmap, cluster_bits=rng.choice([14, 16, 17] if e else [9, 10, 13, 16]), ext=e, version=3 if e else rng.choice([2, 3]),
               datafile=rng.choice([None, None, "arb"]), backing=rng.choice(["none", "raw", "qcow2"]), nsnaps=rng.choice([0, 1, 2]))
    return out


def struct_mutations(recipe, max_entries=24):
    """Directed mutations of the table structure of the image Truth(recipe) writes: [label, [[offset in "img", bytes hex], ...],
    [[view (0 = active, j+1 = snapshot j), guest offset, length], ...] reads that reach the mutated entry]. Nothing is random.
      * every L1 entry of every L1 table (active + snapshots, unused slots too): 0, L2 offset := end of file / crossing the end / 2^55 /
        all offset bits / unaligned (bit 9 flipped; reserved low bits set) / the L1 table itself / the refcount table (arbitrary bytes
        as L2 entries) / another L2 table / the header cluster; COPIED toggled; all-ones
      * every used L2 entry and the unused slots next to them (standard and extended): host offset := 0 keeping flags and bitmap / end of
        file / crossing the end / 2^55 / all offset bits / unaligned / own L2 table; COPIED, ZERO, COMPRESSED toggled; whole word := 0 / 1 /
        COPIED / COMPRESSED alone / COMPRESSED with sector count max and 0, offset 0, own, end of file - 1, max / all-ones
      * extended: the bitmap word := 0 / all-ones / alloc all / zero all / alloc-without-zero single bits (0, 15, 31) / one alloc-and-zero
        overlap added to the old value / overlap only / swapped halves / alternating; the same alloc patterns together with host offset := 0
        (allocation bits on a cluster without host cluster: at the start, behind a zero run, behind an untouched run)
      * header: l1_size, l1_table_offset, refcount table offset / clusters, nb_snapshots, snapshots_offset, size, cluster_bits,
        backing file offset / size, version, crypt_method, incompatible feature bits (extended L2 / data file / compression toggled),
        header_length, compression_type: edge values
      * every snapshot table entry: l1_table_offset, l1_size, id / name / extra data sizes: edge values
    The expectation for every one of them is only "open + reads come back, within the memory bound" (C11)."""
    t = Truth(recipe)
    r, cs, l2n, esz, pos = t.r, t.cs, t.l2n, t.esz, t.pos
    img = t.files["img"]
    fsz = -(-img.size // cs) * cs
    dsz = -(-t.files["data"].size // cs) * cs if r["datafile"] else fsz
    nviews = 1 + min(len(r["snaps"]), 2)
    ss = cs // 32 if t.ext else cs
    maps = [r] + r["snaps"]
    out = []

    def q(v):
        return struct.pack(">Q", v & M64).hex()

    def reads_for(i):
        b = i * cs
        rd = [[b, cs], [max(0, b - 1), 2], [b + cs - 1, 2], [max(0, b - cs), 3 * cs], [b + 16 * ss if t.ext else b + cs // 2, ss + 1], [b + cs - ss, ss]]
        return [[v, o, n] for v in range(nviews) for o, n in rd]
    # ---- L1 tables
    l2offs = sorted({p for key, p in pos.items() if key[0] == "l2"})
    for k, m in enumerate(maps):
        base = pos[("l1", k)]
        for tb in range(m["l1_size"]):
            a = base + 8 * tb
            old = struct.unpack(">Q", img.read_at(a, 8).ljust(8, b"\0"))[0]
            oo = old & OFFMASK
            other = next((p for p in l2offs if p != oo), 0)
            vals = {"0": 0, "off=eof": fsz, "off=eof-512": fsz - 512, "off=2^55": 1 << 55, "off=max": OFFMASK, "unaligned": old ^ 0x200, "lowbits": old | 0x1FF,
                    "off=l1": base, "off=rt": pos[("rt",)], "off=other-l2": other, "off=hdr+512": 512, "copied^": old ^ COPIED, "copied-only": COPIED,
                    "ones": M64, "reserved": old | (0x7F << 56)}
            i0 = tb * l2n
            rd = [[v, o, n] for v in range(nviews) for o, n in ([i0 * cs, cs], [max(0, i0 * cs - 1), 2], [(i0 + l2n) * cs - cs, 2 * cs], [(i0 + 1) * cs, 3 * cs])]
            for name, v in vals.items():
                if v & M64 != old:
                    out.append([f"l1[{k}.{tb}]:{'used' if oo else 'free'}:{name}", [[a, q(v)]], rd])
    # ---- L2 tables
    for key in sorted(k_ for k_ in pos if k_[0] == "l2"):
        _, k, tb = key
        base = pos[key]
        raw = img.read_at(base, cs).ljust(cs, b"\0")
        used = [j for j in range(l2n) if any(raw[j * esz: (j + 1) * esz])]
        slots = sorted(set(used) | {j + 1 for j in used if j + 1 < l2n} | {0, l2n - 1})
        if len(slots) > max_entries:
            slots = slots[: max_entries // 2] + slots[-(max_entries // 2):]
        shift = 70 - t.cb
        cmask = (1 << (t.cb - 8)) - 1
        for j in slots:
            a = base + j * esz
            old = struct.unpack(">Q", raw[j * esz: j * esz + 8])[0]
            bm = struct.unpack(">Q", raw[j * esz + 8: j * esz + 16])[0] if t.ext else 0
            comp = bool(old & COMPRESSED)
            # kind of the entry as written: standard n / z / za, compressed c, unused slot free, extended s + h(ost cluster) a(lloc bits) z(ero bits)
            kind = "free" if not (old or bm) else "c" if comp else "za" if old & ZERO and old & OFFMASK else "z" if old & ZERO else "n"
            if t.ext and kind not in ("free", "c"):
                kind = "s" + ("h" if old & (OFFMASK | COPIED) else "") + ("a" if bm & M32 else "") + ("z" if bm >> 32 else "")
            rd = reads_for(tb * l2n + j)
            lab = f"l2[{k}.{tb}.{j}]:{kind}:"
            fl = old & ~OFFMASK & M64
            coff = old & ((1 << shift) - 1)
            w = {"off=0": fl, "off=eof": fl | dsz, "off=eof-512": fl | ((dsz - 512) & OFFMASK), "off=eof-cs": fl | ((dsz - cs) & OFFMASK), "off=2^55": fl | 1 << 55,
                 "off=max": fl | OFFMASK, "unaligned": old ^ 0x200, "lowbits": old | 0x1FE, "off=own-l2": fl | base, "copied^": old ^ COPIED, "zero^": old ^ ZERO,
                 "compressed^": old ^ COMPRESSED, "0": 0, "1": 1, "copied-only": COPIED, "copied+zero": COPIED | ZERO, "c-only": COMPRESSED,
                 "c:nsec=max,off=0": COMPRESSED | cmask << shift, "c:nsec=max,off=own": COMPRESSED | cmask << shift | coff,
                 "c:nsec=0,off=own": COMPRESSED | coff, "c:nsec=max,off=eof-1": COMPRESSED | cmask << shift | (fsz - 1), "c:nsec=0,off=eof-1": COMPRESSED | (fsz - 1),
                 "c:nsec=0,off=eof": COMPRESSED | fsz, "c:off=max": COMPRESSED | ((1 << 62) - 1), "c:off=l2": COMPRESSED | (1 << shift) | base,
                 "ones": M64, "reserved": old | (0x3F << 56)}
            for name, v in w.items():
                if v & M64 != old:
                    out.append([lab + name, [[a, q(v)]], rd])
            if not t.ext:
                continue
            al, ze = bm & M32, bm >> 32
            lowa, lowz = al & -al, ze & -ze
            free = ~(al | ze) & M32
            bms = {"bm=0": 0, "bm=ones": M64, "bm=alloc-all": M32, "bm=zero-all": M32 << 32, "bm=alloc0": 1, "bm=alloc15": 1 << 15, "bm=alloc31": 1 << 31,
                   "bm+alloc-low-free": bm | (free & -free), "bm+alloc-high-free": bm | (1 << (free.bit_length() - 1) if free else 0),
                   "bm+overlap-on-alloc": bm | lowa << 32, "bm+overlap-on-zero": bm | lowz, "bm=overlap0": 1 | 1 << 32, "bm=overlap31": 1 << 31 | 1 << 63,
                   "bm=swapped": ze | al << 32, "bm=alt": 0x55555555 | 0xAAAAAAAA << 32, "bm=alt-overlap": 0x55555555 | 0xDAAAAAAA << 32,
                   "bm=zero-low,alloc-high": 0xFFFF0000 | 0x0000FFFF << 32, "bm=alloc-mid": 0x00FFFF00}
            for name, v in bms.items():
                if v != bm:
                    out.append([lab + name, [[a + 8, q(v)]], rd])
            # allocation bits on an entry without host cluster: both words at once
            nohost = {"bm=alloc0": 1, "bm=alloc31": 1 << 31, "bm=alloc-all": M32, "bm=alloc-behind-zero": 0x00010000 | 0x0000FFFF << 32,
                      "bm=alloc-behind-free": 0xFFFF0000, "bm=alloc-mid": 0x00FFFF00, "bm=alloc-last-behind-zero": 1 << 31 | 0x7FFFFFFF << 32,
                      "bm=overlap0": 1 | 1 << 32, "bm=ones": M64}
            for name, v in nohost.items():
                for f2, fname in ((0, "off=0,flags=0"), (COPIED, "off=0,copied")):
                    if not (old == f2 and bm == v):
                        out.append([f"l2[{k}.{tb}.{j}]:*:{fname},{name}", [[a, q(f2)], [a + 8, q(v)]], rd])   # kind *: both words are replaced
    # ---- header
    u32 = lambda v: struct.pack(">I", v & 0xFFFFFFFF).hex()
    hd = img.read_at(0, 112).ljust(112, b"\0")
    l1n, l1o, nsn, sno, size = r["l1_size"], pos[("l1", 0)], len(r["snaps"]), pos.get(("st",), 0), t.size
    whole = [[v, o, n] for v in range(nviews) for o, n in ([0, cs], [max(0, size - cs), 2 * cs], [l2n * cs - cs, 2 * cs])]
    H = []
    H += [("l1_size", 36, u32(v)) for v in sorted({0, 1, max(0, l1n - 1), l1n + 1, 1 << 16, (1 << 25) + 1, (1 << 32) - 1} - {l1n})]
    H += [("l1_table_offset", 40, q(v)) for v in sorted({0, fsz, fsz - 8, l1o + 1, l1o + 8, l1o + 512, 1 << 55, 1 << 63, M64, pos[("rt",)], sno} - {l1o})]
    H += [("refcount_table_offset", 48, q(v)) for v in (0, fsz, pos[("rt",)] + 1, 1 << 63, M64)]
    H += [("refcount_table_clusters", 56, u32(v)) for v in (0, 2, (1 << 32) - 1)]
    H += [("nb_snapshots", 60, u32(v)) for v in sorted({0, nsn + 1, 65537, (1 << 32) - 1} - {nsn})]
    H += [("snapshots_offset", 64, q(v)) for v in sorted({0, fsz, fsz - 8, sno + 1, sno + 8, 64, l1o, 1 << 63, M64} - {sno})]
    H += [("size", 24, q(v)) for v in sorted({0, 1, size + 1, size + cs, l2n * cs * (l1n + 1), 1 << 56, 1 << 63, M64} - {size})]
    H += [("cluster_bits", 20, u32(v)) for v in sorted({0, 8, 9, t.cb - 1, t.cb + 1, 13, 14, 21, 22, 31, 32, 63, 64, (1 << 32) - 1} - {t.cb})]
    H += [("backing_file_offset", 8, q(v)) for v in (0, 1, fsz, fsz - 1, 1 << 63, M64)]
    H += [("backing_file_size", 16, u32(v)) for v in (0, 1, 1023, 1024, 1 << 31, (1 << 32) - 1)]
    H += [("version", 4, u32(v)) for v in (0, 1, 2, 3, 4, (1 << 32) - 1) if v != r["version"]]
    H += [("crypt_method", 32, u32(v)) for v in (1, 2, (1 << 32) - 1)]
    if r["version"] == 3:
        inc = struct.unpack(">Q", hd[72:80])[0]
        H += [("incompatible_features", 72, q(v)) for v in (inc ^ 16, inc ^ 4, inc ^ 8, inc ^ 2, inc | 32, inc ^ 20, 0, M64)]
        H += [("header_length", 100, u32(v)) for v in sorted({0, 4, 72, 100, 103, 104, 105, 112, r["hlen"] + 8, cs - 8, cs, cs + 8, 1 << 31, (1 << 32) - 1} - {r["hlen"]})]
        H += [("refcount_order", 96, u32(v)) for v in (0, 6, 7, 64, (1 << 32) - 1)]
        if r["hlen"] > 104:
            H += [("compression_type", 104, "%02x" % v) for v in (1, 2, 0xFF)]
    else:
        H += [("v2:bytes72..", 72, q(v)) for v in (16, 4, M64)]      # a v2 header ends at 72: what follows must not matter
    for name, off, hx in H:
        out.append([f"hdr:{name}={hx}", [[off, hx]], whole])
    # ---- snapshot table
    at = pos.get(("st",), 0)
    for j, sn in enumerate(r["snaps"]):
        sid, name = sn["id"].encode(), sn["name"].encode()
        ln = 40 + sn["extra"] + len(sid) + len(name)
        so = pos[("l1", j + 1)]
        rd = [[j + 1, o, n] for o, n in ([0, cs], [max(0, size - cs), 2 * cs], [l2n * cs - cs, 2 * cs])] if j + 1 < nviews else whole
        S_ = [("l1_table_offset", 0, q(v)) for v in sorted({0, fsz, fsz - 8, so + 1, so + 512, l1o, at, 1 << 55, 1 << 63, M64} - {so})]
        S_ += [("l1_size", 8, u32(v)) for v in sorted({0, 1, sn["l1_size"] + 1, max(0, sn["l1_size"] - 1), (1 << 25) + 1, (1 << 32) - 1} - {sn["l1_size"]})]
        S_ += [("id_str_size", 12, "%04x" % v) for v in (0, 0xFFFF) if v != len(sid)]
        S_ += [("name_size", 14, "%04x" % v) for v in (0, 0xFFFF) if v != len(name)]
        S_ += [("extra_data_size", 36, u32(v)) for v in sorted({0, 1, 15, 17, 1024, 1 << 31, (1 << 32) - 1} - {sn["extra"]})]
        for fname, off, hx in S_:
            out.append([f"snap[{j}]:{fname}={hx}", [[at + off, hx]], rd])
        at += ln + (-ln % 8)
    return out


def struct_pick(rng, muts):
    """one mutation per class (table, kind of entry, mutation name) -- which entry of that kind gets it is the only thing drawn"""
    groups = {}
    for m in muts:
        head, _, rest = m[0].partition(":")
        groups.setdefault((head.split("[")[0], rest), []).append(m)
    return [rng.choice(g) for _, g in sorted(groups.items())]


# ------------------------------------------------------------------------------------------------ the real code

def open_impl(t):
    """the real QCow2 stream over the generated files (backing chains are opened recursively)"""
    from dissect.hypervisor.disk.qcow2 import QCow2
    backing = open_impl(t.backing_truth) if t.backing_truth else (t.backing_img.open() if t.backing_img is not None else None)
    return QCow2(t.files["img"].open(), data_file=t.files["data"].open() if "data" in t.files else None, backing_file=backing)


def impl_meta(q):
    """the metadata the real object exposes, in the shape of Truth.meta"""
    snaps = []
    for s in q.snapshots:
        d = {k: getattr(s.header, k) for k in ("l1_size", "l1_table_offset", "date_sec", "date_nsec", "vm_clock_nsec", "vm_state_size", "extra_data_size")}
        d.update({k: getattr(s.extra, k) for k in ("vm_state_size_large", "disk_size", "icount")})
        d.update(id=s.id_str, name=s.name, unknown_extra=s.unknown_extra.hex() if s.unknown_extra is not None else None)
        snaps.append(d)
    bh = q.bitmap_header
    return {"size": q.size, "cluster_size": q.cluster_size, "version": q.header.version, "l1_size": q.header.l1_size, "backing_file": q.auto_backing_file,
            "backing_format": q.backing_format, "data_file": q.image_data_file, "feature_table": q.feature_table.hex() if q.feature_table is not None else None,
            "bitmaps": [bh.nb_bitmaps, bh.reserved32, bh.bitmap_directory_size, bh.bitmap_directory_offset] if bh is not None else None,
            "unknown": [[e.magic, e.len, d.hex()] for e, d in q.unknown_extensions], "snapshots": snaps}


class _Watchdog(BaseException):
    pass


def check_case(r, rng, nq=10):
    """-> (list of mismatch descriptions, list of notes) for one recipe: metadata, active reads, snapshot reads"""
    bad, notes = [], []
    t = Truth(r)
    try:
        q = open_impl(t)
        im = impl_meta(q)
    except Exception as e:  # noqa
        return [f"open/meta raised {type(e).__name__}: {e}"], notes
    for k, v in im.items():
        if v != t.meta[k]:
            if k == "backing_format" and v is not None and t.meta[k] is not None and v.lower() == t.meta[k].lower():
                notes.append(f"backing_format case: stored {t.meta[k]!r} exposed {v!r}")
            else:
                bad.append(f"meta.{k}: stored {t.meta[k]!r} exposed {v!r}")
    streams = [(0, "active", lambda: q)] + [(j + 1, f"snapshot[{j}]", (lambda j=j: q.snapshots[j].open())) for j in range(len(r["snaps"]))]
    if im["snapshots"] != t.meta["snapshots"]:
        bad.append("snapshot reads skipped: the snapshot table was misparsed (bogus L1 offsets/sizes)")
        streams = streams[:1]
    for k, label, opener in streams:
        try:
            s = opener()
            for _, off, ln in gen_queries(rng, t, nq if k == 0 else 5, k):
                s.seek(off)
                got, want = s.read(ln), t._read_map(k, off, ln)
                if got != want:
                    d = next((i for i, (x, y) in enumerate(zip(got, want)) if x != y), min(len(got), len(want)))
                    bad.append(f"{label} read({off},{ln}): len got {len(got)} want {len(want)}, first difference at +{d} (guest offset {off + d})")
        except Exception as e:  # noqa
            bad.append(f"{label} raised {type(e).__name__}: {e}")
    return bad, notes


def selftest(n=300, seed=0, tier="quick", watchdog=30, **knobs):
    import signal
    import time
    rng = random.Random(f"qcow2/selftest/{seed}")
    t0, nbad, nnotes, feats, causes = time.time(), 0, 0, {}, {}

    def on_alarm(*a):
        raise _Watchdog(f"watchdog: case took more than {watchdog} s (hang?)")
    signal.signal(signal.SIGALRM, on_alarm)
    for i in range(n):
        r = gen_recipe(rng, tier, **knobs)
        signal.alarm(watchdog)
        try:
            bad, notes = check_case(r, rng)
        except _Watchdog as e:
            bad, notes = [str(e)], []
        finally:
            signal.alarm(0)
        st = {s[0] for m in [r] + r["snaps"] for s in m["clusters"].values()}
        for f in [f"v{r['version']}", f"cb{r['cluster_bits']}", "ext" if r["ext"] else "std", f"data:{r['datafile']}", f"backing:{(r['backing'] or {}).get('kind')}",
                  "snaps" if r["snaps"] else "nosnaps", "jumps" if r["layout"]["jumps"] else "nojumps"] + sorted("state:" + s for s in st):
            feats[f] = feats.get(f, 0) + 1
        nnotes += len(notes)
        if bad:
            nbad += 1
            cause = ("snapshot L1 shorter than the active L1" if any(x["l1_size"] < r["l1_size"] for x in r["snaps"]) else
                     "snapshot extra_data_size>24" if any(x["extra"] > 24 for x in r["snaps"]) else "other")
            causes[cause] = causes.get(cause, 0) + 1
            print(f"MISMATCH case {i}:")
            for b in bad:
                print("   ", b)
            print("    recipe:", json.dumps(r))
    print(f"gen_qcow2 selftest: {n} recipes, {nbad} with mismatches, {nnotes} notes (backing_format exposed upper-cased), {time.time() - t0:.1f}s")
    print("mismatching recipes by shape:", causes)
    print("coverage:", " ".join(f"{k}={v}" for k, v in sorted(feats.items())))
    return nbad


if __name__ == "__main__":
    if "/repo" not in sys.path:
        sys.path.append("/repo")
    a = sys.argv[1:]
    if a and a[0] == "selftest":
        kn = {x.split("=")[0]: json.loads(x.split("=", 1)[1]) for x in a[1:] if "=" in x}      # e.g. extras=[16,24] snap_small_l1=0 ext=true
        a = [x for x in a if "=" not in x]
        sys.exit(1 if selftest(int(a[1]) if len(a) > 1 else 300, int(a[2]) if len(a) > 2 else 0, a[3] if len(a) > 3 else "quick", **kn) else 0)
    print(json.dumps(gen_recipe(random.Random(int(a[0]) if a else 0))))
