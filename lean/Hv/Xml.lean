/-
  Hv.Xml — C19: the decision logic of the hardened XML parser (defusedxml.ElementTree.fromstring with its default
  flags, re-extracted on every run) over an expat-style event stream, and the predicate that decides whether the
  extracted XML entry points of dissect.hypervisor are all hardened.  Mathlib-free.

  Modelled, not verified: expat and defusedxml themselves (what they call on which event).
-/
import Hv.Prim.Bytes
import Hv.Extracted
namespace Hv.Xml
open Hv

/-- parser events in document order (the subset that matters for the decision; text is irrelevant) -/
inductive Ev where
  | doctype              -- <!DOCTYPE …>                      (StartDoctypeDeclHandler)
  | entityDecl           -- <!ENTITY …> general or parameter, internal or external (EntityDeclHandler)
  | unparsedEntityDecl   -- <!ENTITY … NDATA …>               (UnparsedEntityDeclHandler)
  | externalEntityRef    -- reference to an external entity   (ExternalEntityRefHandler)
  | notationDecl
  | startEl | endEl | text | comment | pi
  deriving Repr, DecidableEq, Inhabited

structure Flags where
  forbidDtd : Bool
  forbidEntities : Bool
  forbidExternal : Bool
  deriving Repr, DecidableEq

/-- the defaults of `defusedxml.ElementTree.fromstring`, as extracted from the installed library -/
def defaults : Flags :=
  ⟨Extracted.xml.fromstring_defaults.getD 0 0 ≠ 0, Extracted.xml.fromstring_defaults.getD 1 0 ≠ 0,
   Extracted.xml.fromstring_defaults.getD 2 1 ≠ 0⟩

/-- does the hardened parser raise on this event? (defusedxml: DTDForbidden / EntitiesForbidden / ExternalReferenceForbidden) -/
def Ev.forbidden (fl : Flags) : Ev → Bool
  | .doctype => fl.forbidDtd
  | .entityDecl => fl.forbidEntities
  | .unparsedEntityDecl => fl.forbidEntities
  | .externalEntityRef => fl.forbidExternal
  | _ => false

/-- an event that declares or references an entity -/
def Ev.isEntity : Ev → Bool
  | .entityDecl | .unparsedEntityDecl | .externalEntityRef => true
  | _ => false

inductive Res where
  | refused (consumed : Nat)     -- raised after consuming this many events; nothing later is looked at
  | parsed (events : Nat)
  deriving Repr, DecidableEq, Inhabited

/-- the hardened parser: consumes events until the first forbidden one -/
def hardenedFrom (fl : Flags) : Nat → List Ev → Res
  | n, [] => .parsed n
  | n, e :: es => if e.forbidden fl then .refused (n + 1) else hardenedFrom fl (n + 1) es

def hardened (fl : Flags) (evs : List Ev) : Res := hardenedFrom fl 0 evs

/-- the plain parser consumes everything (and would expand what the declarations define) -/
def plain (evs : List Ev) : Res := .parsed evs.length

/-! ### the extracted entry-point tables -/

abbrev Entry := String × String × String × String × String × Bool     -- file, function, callee, resolved, keywords, under TYPE_CHECKING
abbrev Import := String × String × String × Bool                      -- file, module, name, under TYPE_CHECKING

def Entry.ok (e : Entry) : Bool :=
  e.2.2.2.1 = "defusedxml.ElementTree.fromstring" && e.2.2.2.2.1 = ""

def Import.ok (i : Import) : Bool :=
  i.2.1 = "defusedxml" || ("defusedxml.".toList).isPrefixOf i.2.1.toList || i.2.2.2

/-- the files that are expected to parse XML, each exactly once -/
def expectedFiles : List String := ["descriptor/ovf.py", "descriptor/pvs.py", "descriptor/vbox.py", "disk/hdd.py"]

end Hv.Xml
