import Hv.Vdi
import HvProofs.Basic
namespace Hv.Vdi
open Hv

theorem readLoop_zero (v : Vdi) (fuel a b c : Nat) : readLoop v fuel a b c 0 = .ok [] := by
  cases fuel <;> simp [readLoop]

/-- the parent (if any) reads as the content `pc` on the child's range -/
def ParentOK (v : Vdi) (pc : Nat → UInt8) : Prop :=
  ∀ p, v.parent = some p → ∀ off len, off + len ≤ v.size → p off len = .ok (slice pc off len)

theorem readLoop_correct (v : Vdi) (pc : Nat → UInt8) (hwf : WF v) (hp : ParentOK v pc) :
    ∀ fuel off len, len ≤ fuel → off + len ≤ v.size →
      readLoop v fuel (off / v.blockSize) (off % v.blockSize) off len
        = .ok (slice (guest v pc) off len) := by
  intro fuel
  induction fuel with
  | zero =>
    intro off len h _
    have : len = 0 := by omega
    subst this; simp [readLoop]
  | succ fuel ih =>
    intro off len hf hb
    unfold readLoop
    by_cases hl : len = 0
    · subst hl; simp
    · simp only [hl, if_false]
      have hbs := hwf.bs_pos
      have hmod : off % v.blockSize < v.blockSize := Nat.mod_lt _ hbs
      generalize hn : min len (v.blockSize - off % v.blockSize) = n
      have hn1 : 1 ≤ n := by omega
      have hn2 : n ≤ len := by omega
      have hn3 : off % v.blockSize + n ≤ v.blockSize := by omega
      have hlt : off / v.blockSize < v.map.size := by
        have := hwf.covers
        apply Nat.div_lt_of_lt_mul
        rw [Nat.mul_comm]; omega
      have hget : v.map[off / v.blockSize]? = some v.map[off / v.blockSize] := by
        simp [hlt]
      rw [hget]
      simp only [bind, Except.bind]
      -- the chunk equals the guest slice
      have hblk := fun i (hi : i < n) => block_arith off v.blockSize n i hbs hn3 hi
      have hchunk : chunk v v.map[off / v.blockSize] (off % v.blockSize) off n
            = Except.ok (slice (guest v pc) off n) := by
        unfold chunk
        rcases hwf.entries _ hlt with he | he | ⟨he0, hein⟩
        · -- unallocated
          have : v.map[off / v.blockSize] = Hv.Extracted.vdi.UNALLOCATED := by rw [he]; rfl
          simp only [this, if_true]
          cases hpar : v.parent with
          | none =>
            simp only
            congr 1
            apply zeros_eq_slice
            intro i hi
            simp [guest, (hblk i hi).1, hget, he, hpar]
          | some p =>
            simp only
            rw [hp p hpar off n (by omega)]
            congr 1
            apply slice_congr
            intro i hi
            simp [guest, (hblk i hi).1, hget, he, hpar]
        · have h1 : ¬ v.map[off / v.blockSize] = Hv.Extracted.vdi.UNALLOCATED := by
            rw [he]; decide
          have h2 : v.map[off / v.blockSize] = Hv.Extracted.vdi.SPARSE := by rw [he]; rfl
          rw [if_neg h1, if_pos h2]
          congr 1
          apply zeros_eq_slice
          intro i hi
          simp [guest, (hblk i hi).1, hget, he]
        · have h1 : ¬ v.map[off / v.blockSize] = Hv.Extracted.vdi.UNALLOCATED := by
            intro h; rw [h] at he0; revert he0; decide
          have h2 : ¬ v.map[off / v.blockSize] = Hv.Extracted.vdi.SPARSE := by
            intro h; rw [h] at he0; revert he0; decide
          rw [if_neg h1, if_neg h2]
          generalize hb' : v.map[off / v.blockSize] = b at *
          obtain ⟨k, rfl⟩ := Int.eq_ofNat_of_zero_le he0
          simp only [Int.toNat_natCast] at hein
          have hc : (v.dataOffset : Int) + (k : Int) * (v.blockSize : Int)
              + ((off % v.blockSize : Nat) : Int)
              = ((v.dataOffset + k * v.blockSize + off % v.blockSize : Nat) : Int) := by
            simp [Int.natCast_add, Int.natCast_mul]
          simp only [hc]
          have hpos : ¬ (((v.dataOffset + k * v.blockSize + off % v.blockSize : Nat) : Int) < 0) := by
            omega
          simp only [hpos, if_false, Int.toNat_natCast]
          rw [File.read_eq_slice]
          · congr 1
            apply slice_shift
            intro i hi
            have hne1 : ¬ ((k : Int) = -1) := by omega
            have hne2 : ¬ ((k : Int) = -2) := by omega
            simp [guest, (hblk i hi).1, (hblk i hi).2, hget, hb', hne1, hne2, Nat.add_assoc]
          · rw [Nat.add_mul] at hein; omega
      rw [hchunk]
      simp only
      -- the rest
      by_cases hrest : len - n = 0
      · rw [hrest, readLoop_zero]
        have : len = n := by omega
        subst this; simp
      · have hfull : off % v.blockSize + n = v.blockSize := by omega
        obtain ⟨e1, e2⟩ := next_block off v.blockSize n hbs hfull
        have := ih (off + n) (len - n) (by omega) (by omega)
        rw [e1, e2] at this
        rw [this]
        have hsplit : len = n + (len - n) := by omega
        conv => rhs; rw [hsplit, slice_append]

end Hv.Vdi

namespace Hv.Vdi
open Hv

/-- `_read` for any request: exactly the guest bytes, clamped to the disk size -/
theorem read_correct (v : Vdi) (pc : Nat → UInt8) (hwf : WF v) (hp : ParentOK v pc) (off len : Nat) :
    read v off len = .ok (slice (guest v pc) off (min len (v.size - off))) := by
  unfold read
  have hbs := hwf.bs_pos
  have : ¬ v.blockSize = 0 := by omega
  simp only [this, if_false]
  by_cases h : off ≤ v.size
  · exact readLoop_correct v pc hwf hp _ off _ (Nat.le_refl _) (by omega)
  · have : min len (v.size - off) = 0 := by omega
    rw [this, readLoop_zero]; simp

/-- progress: whatever the header and map contain, the loop never runs out of fuel
    (the parent, itself a terminating reader, is the only other loop involved) -/
theorem readLoop_progress (v : Vdi)
    (hpar : ∀ p, v.parent = some p → ∀ o l, p o l ≠ .error .nonTermination) :
    ∀ fuel blockIdx blockOff off len, len ≤ fuel →
    blockOff < v.blockSize → readLoop v fuel blockIdx blockOff off len ≠ .error .nonTermination := by
  intro fuel
  induction fuel with
  | zero =>
    intro _ _ _ len h _
    have : len = 0 := by omega
    subst this; simp [readLoop]
  | succ fuel ih =>
    intro blockIdx blockOff off len hf hbo
    unfold readLoop
    by_cases hl : len = 0
    · simp [hl]
    · simp only [hl, if_false]
      have hn : 1 ≤ min len (v.blockSize - blockOff) := by omega
      cases hm : v.map[blockIdx]? with
      | none => simp [bind, Except.bind]
      | some b =>
        simp only [bind, Except.bind]
        cases hc : chunk v b blockOff off (min len (v.blockSize - blockOff)) with
        | error e =>
          simp only
          intro h; cases h
          unfold chunk at hc
          split at hc
          · cases hp : v.parent with
            | none => rw [hp] at hc; simp at hc
            | some p => rw [hp] at hc; exact hpar p hp _ _ hc
          · split at hc
            · cases hc
            · split at hc <;> cases hc
        | ok cb =>
          simp only
          have := ih (blockIdx + 1) 0 (off + min len (v.blockSize - blockOff))
            (len - min len (v.blockSize - blockOff)) (by omega) (by omega)
          cases hr : readLoop v fuel (blockIdx + 1) 0 (off + min len (v.blockSize - blockOff))
            (len - min len (v.blockSize - blockOff)) with
          | error e => simp only; intro h; cases h; exact this hr
          | ok _ => simp

/-- `_read` never reports non-termination, for **any** header / map contents -/
theorem read_terminates (v : Vdi)
    (hpar : ∀ p, v.parent = some p → ∀ o l, p o l ≠ .error .nonTermination) (off len : Nat) :
    read v off len ≠ .error .nonTermination := by
  unfold read
  by_cases h : v.blockSize = 0
  · simp [h]
  · simp only [h, if_false]
    exact readLoop_progress v hpar _ _ _ _ _ (Nat.le_refl _) (Nat.mod_lt _ (by omega))

end Hv.Vdi

namespace Hv.Vdi
theorem wfb_sound (v : Vdi) (h : wfb v = true) : WF v := by
  unfold wfb at h
  simp only [Bool.and_eq_true, decide_eq_true_eq, Array.all_eq_true, Bool.or_eq_true,
    beq_iff_eq] at h
  obtain ⟨⟨h1, h2⟩, h3⟩ := h
  refine ⟨h1, h2, ?_⟩
  intro i hi
  rcases h3 i hi with (h | h) | h
  · exact Or.inl h
  · exact Or.inr (Or.inl h)
  · exact Or.inr (Or.inr h)
end Hv.Vdi
