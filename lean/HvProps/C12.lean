/-
  C12 — foreign or unsupported inputs are refused, not misread.
  One theorem per gate, in the form "an input that is accepted passed the gate"
  (equivalently: every value outside the accepted set is refused at open).
  Disk formats first (VDI, HDS, QCOW2, VHDX, VMDK, Parallels HDD directory), then the non-disk parsers
  (Hyper-V storage files, ESXi envelope + keystore, encrypted-VMX key safe, vmtar headers), each with a
  `…_gate_before_content` statement: the refusal is produced by open / unlock, no tree, plaintext, key or
  updated dictionary exists afterwards.  Accepted literal values are restated as literals (0x400, 2, 1,
  "AES-256-GCM", "NONE", "vmware:key", "list" / "pair" / "phrase", the table keys): an edit of one of them in
  the code changes the extraction and breaks the theorem at `lake build`.
  VHD: `read_footer` / `VHD.__init__` validate nothing (see the `example` at the end).
-/
import HvProofs.Gates
import HvProofs.Gates2
namespace Hv.C12
open Hv Hv.Gates

/-- VDI signature -/
theorem vdi_signature_gate (fh : File) (p : Option Vdi.Reader) (v : Vdi.Vdi) (h : Vdi.open fh p = .ok v) :
    fh.field 0 Extracted.vdi.HeaderDescriptor.size Extracted.vdi.HeaderDescriptor.Signature
      = .ok Extracted.vdi.VDI_SIGNATURE := vdi_open_ok fh p v h

/-- Parallels HDS signature (v1 or v2) -/
theorem hds_signature_gate (fh : File) (p : Option Hds.Reader) (v : Hds.Hds) (h : Hds.open fh p = .ok v) :
    ∃ sig, fh.chars 0 Extracted.hdd.pvd_header.size Extracted.hdd.pvd_header.m_Sig.1 Extracted.hdd.pvd_header.m_Sig.2 = .ok sig ∧
      (sig = Extracted.hdd.SIGNATURE_STRUCTURED_DISK_V1 ∨ sig = Extracted.hdd.SIGNATURE_STRUCTURED_DISK_V2) :=
  hds_open_ok fh p v h

/-- QCOW2 header gates: magic, version ∈ {2,3}, cluster_bits ∈ [9,21], no zstd, sub-cluster
    size ≥ 512, crypt_method = 0, no unknown incompatible feature bit -/
theorem qcow2_header_gates (h : Qcow2.Hdr) (hg : h.gate = none) :
    h.magic = Extracted.qcow2.QCOW2_MAGIC ∧ (2 ≤ h.version ∧ h.version ≤ 3) ∧
    (Extracted.qcow2.MIN_CLUSTER_BITS ≤ h.clusterBits ∧ h.clusterBits ≤ Extracted.qcow2.MAX_CLUSTER_BITS) ∧
    ¬ (h.compressionType = Extracted.qcow2.QCOW2_COMPRESSION_TYPE_ZSTD ∧ Extracted.qcow2.HAS_ZSTD = 0) ∧
    2 ^ Extracted.qcow2.MIN_CLUSTER_BITS ≤ 2 ^ h.clusterBits / h.scPer ∧ h.crypt = 0 ∧
    h.incompat / (Extracted.qcow2.QCOW2_INCOMPAT_MASK + 1) = 0 := qcow2_gate_none h hg

/-- QCOW2: accepted ⇒ header gates passed, required data file given, named backing file given
    (or explicitly waived) — all decided in `open`, before any read result exists -/
theorem qcow2_open_gates (fh : File) (df : Option File) (bk : Option Qcow2.Reader) (allow : Bool)
    (inf : Bytes → Nat → Except Err Bytes) (q : Qcow2.QCow2) (h : Qcow2.open fh df bk allow inf = .ok q) :
    ∃ hdr, Qcow2.readHdr fh = .ok hdr ∧ hdr.gate = none ∧
      ((hdr.incompat / Extracted.qcow2.QCOW2_INCOMPAT_DATA_FILE) % 2 = 1 → df.isSome) ∧
      (hdr.bfOff ≠ 0 → bk.isSome ∨ allow = true) := qcow2_open_ok fh df bk allow inf q h

theorem qcow2_gate_constants :
    Extracted.qcow2.QCOW2_MAGIC = 0x514649FB ∧ Extracted.qcow2.MIN_CLUSTER_BITS = 9 ∧ Extracted.qcow2.MAX_CLUSTER_BITS = 21 ∧
    Extracted.qcow2.QCOW2_INCOMPAT_MASK = 31 ∧ Extracted.qcow2.QCOW2_INCOMPAT_DATA_FILE = 4 ∧
    Extracted.qcow2.QCOW2_INCOMPAT_EXTL2 = 16 ∧ Extracted.qcow2.HAS_ZSTD = 0 := by decide

/-- VHDX signatures and required regions -/
theorem vhdx_identifier_gate (fh : File) (p : Option Vhdx.SectorReader) (v : Vhdx.Vhdx) (h : Vhdx.open fh p = .ok v) :
    fh.chars 0 Extracted.vhdx.file_identifier.size Extracted.vhdx.file_identifier.signature.1
      Extracted.vhdx.file_identifier.signature.2 = .ok "vhdxfile".toUTF8.toList := vhdx_open_ok_identifier fh p v h

theorem vhdx_region_table_gate (fh : File) (off : Nat) (t : List Vhdx.RegionEntry) (h : Vhdx.regionTable fh off = .ok t) :
    fh.chars off Extracted.vhdx.region_table_header.size Extracted.vhdx.region_table_header.signature.1
      Extracted.vhdx.region_table_header.signature.2 = .ok "regi".toUTF8.toList := vhdx_region_table_ok fh off t h

theorem vhdx_metadata_table_gate (fh : File) (off : Nat) (t : List (Bytes × Vhdx.MetaItem))
    (h : Vhdx.metadataTable fh off = .ok t) :
    fh.chars off Extracted.vhdx.metadata_table_header.size Extracted.vhdx.metadata_table_header.signature.1
      Extracted.vhdx.metadata_table_header.signature.2 = .ok "metadata".toUTF8.toList := vhdx_metadata_table_ok fh off t h

theorem vhdx_required_region_gate (t : List Vhdx.RegionEntry) (g : Bytes) (h : ∀ e ∈ t, e.guid ≠ g) :
    Vhdx.regionGet t g = .error .format := vhdx_region_required t g h

/-- VMDK sparse extent magic (header and footer copies alike) -/
theorem vmdk_sparse_magic_gate (fh : File) (pos : Nat) (hdr : Vmdk.Hdr) (h : Vmdk.readHeader fh pos = .ok hdr) :
    fh.read pos 4 = Extracted.vmdk.VMDK_MAGIC ∨ fh.read pos 4 = Extracted.vmdk.SESPARSE_MAGIC ∨
    fh.read pos 4 = Extracted.vmdk.COWD_MAGIC := vmdk_header_magic fh pos hdr h

/-! ## VHDX: the rest of `VHDX.__init__` -/

/-- VHDX: accepted ⇒ the *active* header (the one with the larger sequence number, the second on a tie) carries the
    `head` signature, both region tables parsed (each through `vhdx_region_table_gate`), the first one has the
    metadata region and the BAT region, the metadata table parsed (through `vhdx_metadata_table_gate`) -/
theorem vhdx_open_gates (fh : File) (p : Option Vhdx.SectorReader) (v : Vhdx.Vhdx) (h : Vhdx.open fh p = .ok v) :
    ∃ seq1 sig1 seq2 sig2 rt1 rt2 me md be,
      fh.field (1 * Extracted.vhdx.ALIGNMENT) Extracted.vhdx.header.size Extracted.vhdx.header.sequence_number = .ok seq1 ∧
      fh.chars (1 * Extracted.vhdx.ALIGNMENT) Extracted.vhdx.header.size Extracted.vhdx.header.signature.1
        Extracted.vhdx.header.signature.2 = .ok sig1 ∧
      fh.field (2 * Extracted.vhdx.ALIGNMENT) Extracted.vhdx.header.size Extracted.vhdx.header.sequence_number = .ok seq2 ∧
      fh.chars (2 * Extracted.vhdx.ALIGNMENT) Extracted.vhdx.header.size Extracted.vhdx.header.signature.1
        Extracted.vhdx.header.signature.2 = .ok sig2 ∧
      (if seq1 > seq2 then sig1 else sig2) = "head".toUTF8.toList ∧
      Vhdx.regionTable fh (3 * Extracted.vhdx.ALIGNMENT) = .ok rt1 ∧
      Vhdx.regionTable fh (4 * Extracted.vhdx.ALIGNMENT) = .ok rt2 ∧
      Vhdx.regionGet rt1 Extracted.vhdx.METADATA_REGION_GUID = .ok me ∧ Vhdx.metadataTable fh me.fileOffset = .ok md ∧
      Vhdx.regionGet rt1 Extracted.vhdx.BAT_REGION_GUID = .ok be ∧
      (v.hasParent = true → Vhdx.metaGet md Extracted.vhdx.PARENT_LOCATOR_GUID =
        some (.parentLocator Extracted.vhdx.VHDX_PARENT_LOCATOR_GUID v.locator)) := vhdx_open_ok fh p v h

/-- VHDX parent locator type: a differencing image that opens has a parent locator of the VHDX type
    (any other locator type GUID — or no locator item at all — is refused at open) -/
theorem vhdx_parent_locator_type_gate (fh : File) (p : Option Vhdx.SectorReader) (v : Vhdx.Vhdx)
    (h : Vhdx.open fh p = .ok v) (hp : v.hasParent = true) :
    ∃ md, Vhdx.metaGet md Extracted.vhdx.PARENT_LOCATOR_GUID =
      some (.parentLocator Extracted.vhdx.VHDX_PARENT_LOCATOR_GUID v.locator) := by
  obtain ⟨_, _, _, _, _, _, _, md, _, _, _, _, _, _, _, _, _, _, _, hl⟩ := vhdx_open_ok fh p v h
  exact ⟨md, hl hp⟩

/-! ## Parallels HDD directory (`HDD.__init__`, `HDD.open`) -/

/-- missing `DiskDescriptor.xml` ⇒ ValueError, whatever else the directory holds -/
theorem hdd_missing_descriptor_gate (d : HddOpen.Dir) (nullGuid defaultTop : Nat) (guid : Option Nat)
    (h : d.descriptor = none) : HddOpen.open d nullGuid defaultTop guid = .error .value :=
  hdd_open_missing d nullGuid defaultTop guid h

/-- image type: accepted ⇒ the descriptor exists and parsed, the snapshot chain resolved, and *every* image of
    *every* storage on that chain was found and has type "Compressed" or "Plain" -/
theorem hdd_image_type_gate (d : HddOpen.Dir) (nullGuid defaultTop : Nat) (guid : Option Nat)
    (r : List (Meta.Storage × Option HddOpen.Reader)) (h : HddOpen.open d nullGuid defaultTop guid = .ok r) :
    ∃ desc chain, d.descriptor = some (.ok desc) ∧
      Hdd.snapshotChain (desc.shots.map fun s => (s.guid, s.parent)) nullGuid
        (match guid with | some g => g | none => match desc.topGuid with | some x => x | none => defaultTop) = .ok chain ∧
      ∀ s ∈ desc.storages, ∀ g ∈ chain, ∃ image, HddOpen.findImage s g = .ok image ∧
        (image.type = some "Compressed" ∨ image.type = some "Plain") := hdd_open_ok d nullGuid defaultTop guid r h

/-- the refusal is not vacuous: one storage, one snapshot, an image of type "Expanding" -/
example (hs : Hds.Hds → HddOpen.Reader) :
    HddOpen.open ⟨some (.ok ⟨[⟨0, 8, [⟨7, some "Expanding", some "a.hds"⟩]⟩], none, [⟨7, 0⟩]⟩), fun _ => .ok ⟨0, fun _ => 0⟩, hs⟩ 0 7 none
      = .error .value := by rfl

/-! ## Hyper-V storage files (`HyperVFile.__init__` and the classes it instantiates) -/

/-- **all Hyper-V gates at once**: a file that `as_dict()` accepts has the storage-header signature and version
    0x400 in its active header, the replay-log signature at the offset that header names, the object-table
    signature at 0x2000, and every allocated key-table / replay-log entry of that object table passed its own
    signature check -/
theorem hyperv_accepted_gates (f : File) (t : HyperV.Tree) (h : HyperV.asDict f = .ok t) :
    ∃ h1 h2 es, HyperV.parseHeader f Extracted.hyperv.FIRST_HEADER_OFFSET = .ok h1 ∧
      HyperV.parseHeader f Extracted.hyperv.SECOND_HEADER_OFFSET = .ok h2 ∧
      (HyperV.chooseHeader h1 h2).signature = Extracted.hyperv.SIGNATURE_STORAGE_HEADER ∧
      (HyperV.chooseHeader h1 h2).version = 0x400 ∧
      f.field (HyperV.chooseHeader h1 h2).replayLogOffset HyperV.LOG Extracted.hyperv.HyperVStorageReplayLog.signature
        = .ok Extracted.hyperv.SIGNATURE_REPLAY_LOG_HEADER ∧
      f.field Extracted.hyperv.OBJECT_TABLE_OFFSET HyperV.OTH Extracted.hyperv.HyperVStorageObjectTable.signature
        = .ok Extracted.hyperv.SIGNATURE_OBJECT_TABLE_HEADER ∧
      HyperV.loadObjectTable f Extracted.hyperv.OBJECT_TABLE_OFFSET = .ok es ∧
      ∀ e ∈ es, e.allocated ≠ 0 →
        (e.typ = HyperV.otKeyTable → HyperV.bfield (f.read e.offset e.size) Extracted.hyperv.HyperVStorageKeyTable.signature
          = Extracted.hyperv.SIGNATURE_KEY_TABLE_HEADER) ∧
        (e.typ = HyperV.otReplayLog → f.field e.offset HyperV.LOG Extracted.hyperv.HyperVStorageReplayLog.signature
          = .ok Extracted.hyperv.SIGNATURE_REPLAY_LOG_HEADER) := by
  obtain ⟨r, hl⟩ := hyperv_asDict_load f t h
  obtain ⟨h1, h2, es, e1, e2, hs, hv, hlog, hot, hw⟩ := hyperv_load_ok f r hl
  refine ⟨h1, h2, es, e1, e2, hs, ?_, hyperv_log_ok f _ hlog, hyperv_object_table_ok f _ es hot, hot, ?_⟩
  · rw [hv]; decide
  · exact hyperv_walk_ok f _ _ r hw es (by simp)

theorem hyperv_header_signature_gate (f : File) (r : HyperV.Reg) (h : HyperV.load f = .ok r) :
    ∃ h1 h2, HyperV.parseHeader f Extracted.hyperv.FIRST_HEADER_OFFSET = .ok h1 ∧
      HyperV.parseHeader f Extracted.hyperv.SECOND_HEADER_OFFSET = .ok h2 ∧
      (HyperV.chooseHeader h1 h2).signature = Extracted.hyperv.SIGNATURE_STORAGE_HEADER := by
  obtain ⟨h1, h2, _, e1, e2, hs, _⟩ := hyperv_load_ok f r h
  exact ⟨h1, h2, e1, e2, hs⟩

theorem hyperv_version_gate (f : File) (r : HyperV.Reg) (h : HyperV.load f = .ok r) :
    ∃ h1 h2, HyperV.parseHeader f Extracted.hyperv.FIRST_HEADER_OFFSET = .ok h1 ∧
      HyperV.parseHeader f Extracted.hyperv.SECOND_HEADER_OFFSET = .ok h2 ∧
      (HyperV.chooseHeader h1 h2).version = 0x400 := by
  obtain ⟨h1, h2, _, e1, e2, _, hv, _⟩ := hyperv_load_ok f r h
  exact ⟨h1, h2, e1, e2, by rw [hv]; decide⟩

/-- every replay log that is instantiated (the header's, or one named by an object-table entry) -/
theorem hyperv_log_signature_gate (f : File) (off : Nat) (h : HyperV.checkReplayLog f off = .ok ()) :
    f.field off HyperV.LOG Extracted.hyperv.HyperVStorageReplayLog.signature
      = .ok Extracted.hyperv.SIGNATURE_REPLAY_LOG_HEADER := hyperv_log_ok f off h

/-- every object table that is instantiated (the one at 0x2000, or one named by an object-table entry) -/
theorem hyperv_object_table_signature_gate (f : File) (off : Nat) (es : List HyperV.ObjEntry)
    (h : HyperV.loadObjectTable f off = .ok es) :
    f.field off HyperV.OTH Extracted.hyperv.HyperVStorageObjectTable.signature
      = .ok Extracted.hyperv.SIGNATURE_OBJECT_TABLE_HEADER := hyperv_object_table_ok f off es h

/-- every key table that is instantiated -/
theorem hyperv_key_table_signature_gate (raw : Bytes) (size : Nat) (t : HyperV.KeyTable)
    (h : HyperV.parseKeyTable raw size = .ok t) :
    HyperV.bfield raw Extracted.hyperv.HyperVStorageKeyTable.signature = Extracted.hyperv.SIGNATURE_KEY_TABLE_HEADER :=
  hyperv_key_table_ok raw size t h

/-- inside the object-table walk, at any depth: the loop body for an allocated entry succeeds only if the entry's
    key table / replay log / not yet loaded object table carries its signature -/
theorem hyperv_entry_gates (f : File) (e : HyperV.ObjEntry) (w w' : HyperV.Walk) (h : HyperV.stepEntry f e w = .ok w')
    (ha : e.allocated ≠ 0) :
    (e.typ = HyperV.otKeyTable → HyperV.bfield (f.read e.offset e.size) Extracted.hyperv.HyperVStorageKeyTable.signature
      = Extracted.hyperv.SIGNATURE_KEY_TABLE_HEADER) ∧
    (e.typ = HyperV.otReplayLog → f.field e.offset HyperV.LOG Extracted.hyperv.HyperVStorageReplayLog.signature
      = .ok Extracted.hyperv.SIGNATURE_REPLAY_LOG_HEADER) ∧
    (e.typ = HyperV.otObjectTable → ¬ w.visited.contains e.offset →
      f.field e.offset HyperV.OTH Extracted.hyperv.HyperVStorageObjectTable.signature
        = .ok Extracted.hyperv.SIGNATURE_OBJECT_TABLE_HEADER) := by
  obtain ⟨⟨hk, hl⟩, ho, _⟩ := hyperv_stepEntry_ok f e w w' h ha
  exact ⟨hk, hl, ho⟩

/-- gate before content: when `__init__` refuses, no tree, no typed walk and no linked file exist -/
theorem hyperv_gate_before_content (f : File) (x : Err) (h : HyperV.load f = .error x) :
    HyperV.openFile f = .error x ∧ HyperV.asDict f = .error x ∧ HyperV.typedTree f = .error x :=
  hyperv_load_error f x h

theorem hyperv_gate_constants :
    Extracted.hyperv.SIGNATURE_STORAGE_HEADER = 0x01282014 ∧ Extracted.hyperv.SIGNATURE_REPLAY_LOG_HEADER = 0x01110003 ∧
    Extracted.hyperv.SIGNATURE_OBJECT_TABLE_HEADER = 0x01110001 ∧ Extracted.hyperv.SIGNATURE_KEY_TABLE_HEADER = 0x0002 ∧
    HyperV.VERSION = 0x400 ∧ Extracted.hyperv.FIRST_HEADER_OFFSET = 0 ∧ Extracted.hyperv.SECOND_HEADER_OFFSET = 0x1000 ∧
    Extracted.hyperv.OBJECT_TABLE_OFFSET = 0x2000 := by decide

/-! ## ESXi envelope and keystore (`Envelope.__init__`, `Envelope.decrypt`, `KeyStore.__init__`) -/

theorem envelope_magic_gate (file : Bytes) (env : Envelope.Env) (h : Envelope.openEnv file = .ok env) :
    Envelope.sub (file.take Envelope.BLOCK) Envelope.magicPos.1 Envelope.magicPos.2 = Envelope.FILE_MAGIC :=
  (envelope_open_ok file env h).1

theorem envelope_version_gate (file : Bytes) (env : Envelope.Env) (h : Envelope.openEnv file = .ok env) :
    Envelope.verF.decode (Envelope.sub (file.take Envelope.BLOCK) Envelope.verF.off Envelope.verF.width) = 2 := by
  rw [(envelope_open_ok file env h).2.1]; decide

/-- the three required attributes are present in what `_read_envelope_attributes` returned -/
theorem envelope_required_attributes_gate (file : Bytes) (env : Envelope.Env) (h : Envelope.openEnv file = .ok env) :
    Envelope.readAttrs ((file.take Envelope.BLOCK).drop Envelope.HDR) = .ok env.attrs ∧
    (Envelope.getAttr env.attrs Envelope.nmKeyInfo).isSome ∧ (Envelope.getAttr env.attrs Envelope.nmCipher).isSome ∧
    (Envelope.getAttr env.attrs Envelope.nmKeyHash).isSome := by
  obtain ⟨_, _, attrs, ha, hreq, _, _, _, he, _⟩ := envelope_open_ok file env h
  rw [he]
  exact ⟨ha, hreq _ (by simp [Envelope.REQUIRED]), hreq _ (by simp [Envelope.REQUIRED]), hreq _ (by simp [Envelope.REQUIRED])⟩

/-- the cipher name is the string "AES-256-GCM" (a Bytes attribute with the same bytes is refused too) -/
theorem envelope_cipher_gate (file : Bytes) (env : Envelope.Env) (h : Envelope.openEnv file = .ok env) :
    ∃ ci, Envelope.getAttr env.attrs Envelope.nmCipher = some ci ∧ ci.val = .str "AES-256-GCM".toUTF8.toList ∧
      env.cipherName = "AES-256-GCM".toUTF8.toList := by
  obtain ⟨_, _, attrs, _, _, ⟨ci, hci, hv⟩, _, _, he, hn⟩ := envelope_open_ok file env h
  have hc : Envelope.CIPHER_GCM = "AES-256-GCM".toUTF8.toList := by decide +kernel
  exact ⟨ci, by rw [he]; exact hci, by rw [hv, hc], by rw [hn, hc]⟩

/-- the AEAD footer (the last block of the file) has version 1 -/
theorem envelope_footer_version_gate (file : Bytes) (env : Envelope.Env) (h : Envelope.openEnv file = .ok env) :
    Envelope.AEAD_SIZE ≤ file.length ∧
    Envelope.aeadVerF.decode (Envelope.sub (file.drop (file.length - Envelope.BLOCK)) Envelope.aeadVerF.off
      Envelope.aeadVerF.width) = 1 := by
  obtain ⟨_, _, attrs, _, _, _, hl, hv, _, _⟩ := envelope_open_ok file env h
  exact ⟨hl, by rw [hv]; decide⟩

/-- `Envelope.decrypt`: key-hash gate, cipher-name gate (again), IV present — before any AES call -/
theorem envelope_decrypt_gates (c : Envelope.Crypto) (e : Envelope.Env) (verify : Bool) (key aad out : Bytes)
    (h : Envelope.decrypt c e verify key aad = .ok out) :
    Envelope.Val.bytes (c.sha256 (e.cipherName ++ key)) = e.keyHash ∧ e.cipherName = "AES-256-GCM".toUTF8.toList ∧
    (Envelope.ivOf e).isSome := by
  obtain ⟨h1, h2, h3⟩ := envelope_decrypt_ok c e verify key aad out h
  have hc : Envelope.DEC_CIPHER_GCM = "AES-256-GCM".toUTF8.toList := by decide +kernel
  exact ⟨h1, by rw [h2, hc], h3⟩

/-- gate before content: an envelope refused at open is never decrypted — the tool returns that error, derives no
    key and makes no crypto call -/
theorem envelope_gate_before_content (c : Envelope.Crypto) (file : Bytes) (ks : Envelope.Str) (x : Err)
    (h : Envelope.openEnv file = .error x) :
    Envelope.cli c file ks = .error x ∧ Envelope.cliCalls c file ks = [] := envelope_cli_error c file ks x h

/-- keystore mode: only `mode = "NONE"` (exactly; "none", "TPM", empty or absent are refused) -/
theorem keystore_mode_gate (c : Envelope.Crypto) (text : Envelope.Str) (r : Bytes × Bytes)
    (h : Envelope.keystore c text = .ok r) :
    ∃ store, Envelope.parseStore text = .ok store ∧
      Envelope.dictGet store "mode".toList = some (.str "NONE".toList) := by
  obtain ⟨store, hp, hm⟩ := keystore_ok c text r h
  have h1 : Envelope.sMode = "mode".toList := by decide
  have h2 : Envelope.sNONE = "NONE".toList := by decide
  exact ⟨store, hp, by rw [← h1, ← h2]; exact hm⟩

/-- … and a refused keystore costs no key derivation -/
theorem keystore_gate_before_content (c : Envelope.Crypto) (text : Envelope.Str) (x : Err)
    (h : Envelope.keystore c text = .error x) : Envelope.keystoreCalls text = [] :=
  keystore_error_no_calls c text x h

example (c : Envelope.Crypto) : Envelope.keystore c "mode = \"TPM\"".toList = .error .other := by rfl
example (c : Envelope.Crypto) : Envelope.keystore c "mode = \"none\"".toList = .error .other := by rfl
example (c : Envelope.Crypto) : Envelope.keystore c "Mode = \"NONE\"".toList = .error .value := by rfl

/-! ## encrypted-VMX key safe (`KeySafe.from_text`, `_parse_key_locator`, `Phrase.unwrap`, `_decrypt_hmac`) -/

/-- key-safe identifier: the text before the first `/` is `vmware:key` -/
theorem keysafe_identifier_gate (c : Vmx.Crypto) (text : Bytes) (locs : List Vmx.Loc) (h : Vmx.fromText c text = .ok locs) :
    (Vmx.partition 47 text).1 = Vmx.asc "vmware:key" := by
  have h1 := (keysafe_fromText_ok c text locs h).1
  have e1 : Vmx.sepSafe = 47 := by decide
  have e2 : Vmx.identKeySafe = Vmx.asc "vmware:key" := by decide
  rw [← e1, ← e2]; exact h1

/-- … and the locator behind it is a `list` -/
theorem keysafe_list_gate (c : Vmx.Crypto) (text : Bytes) (locs : List Vmx.Loc) (h : Vmx.fromText c text = .ok locs) :
    (Vmx.partition 47 (Vmx.partition 47 text).2).1 = Vmx.asc "list" := by
  have h1 := (keysafe_fromText_ok c text locs h).2
  have e1 : Vmx.sepSafe = 47 := by decide
  have e2 : Vmx.sepLoc = 47 := by decide
  have e3 : Vmx.identList = Vmx.asc "list" := by decide
  rw [← e1, ← e3]; rw [e2] at h1; exact h1

/-- locator kinds, at every nesting level: `list`, `pair`, `phrase` — and nothing else -/
theorem keysafe_locator_kind_gate (c : Vmx.Crypto) (fuel : Nat) (s : Bytes) (l : Vmx.Loc)
    (h : Vmx.parseLocator c (fuel + 1) s = .ok l) :
    (Vmx.partition 47 s).1 = Vmx.asc "list" ∨ (Vmx.partition 47 s).1 = Vmx.asc "pair" ∨
    (Vmx.partition 47 s).1 = Vmx.asc "phrase" := by
  have e2 : Vmx.sepLoc = 47 := by decide
  have e3 : Vmx.identList = Vmx.asc "list" := by decide
  have e4 : Vmx.identPair = Vmx.asc "pair" := by decide
  have e5 : Vmx.identPhrase = Vmx.asc "phrase" := by decide
  rw [← e2, ← e3, ← e4, ← e5]
  rcases keysafe_locator_ok c fuel s l h with ⟨hh, _⟩ | ⟨hh, _⟩ | ⟨hh, _⟩
  · exact Or.inl hh
  · exact Or.inr (Or.inl hh)
  · exact Or.inr (Or.inr hh)

/-- `rawkey`, `ldap`, `script`, `role`, `fqid` … : NotImplementedError -/
theorem keysafe_unknown_locator_refused (c : Vmx.Crypto) (fuel : Nat) (s : Bytes)
    (h1 : (Vmx.partition 47 s).1 ≠ Vmx.asc "list") (h2 : (Vmx.partition 47 s).1 ≠ Vmx.asc "pair")
    (h3 : (Vmx.partition 47 s).1 ≠ Vmx.asc "phrase") : Vmx.parseLocator c (fuel + 1) s = .error .other := by
  have e2 : Vmx.sepLoc = 47 := by decide
  have e3 : Vmx.identList = Vmx.asc "list" := by decide
  have e4 : Vmx.identPair = Vmx.asc "pair" := by decide
  have e5 : Vmx.identPhrase = Vmx.asc "phrase" := by decide
  exact keysafe_locator_unknown c fuel s (by rw [e2, e3]; exact h1) (by rw [e2, e4]; exact h2) (by rw [e2, e5]; exact h3)

/-- a `list` that mixes supported members with one of an unknown kind is refused as a whole: the list branch parses every
    member and has no way to skip one (whatever the position of the member and whatever the other members are) -/
theorem keysafe_mixed_list_refused (c : Vmx.Crypto) (fuel : Nat) (s : Bytes) (ms : List Bytes) (m : Bytes)
    (hl : (Vmx.partition 47 s).1 = Vmx.asc "list") (hs : Vmx.splitList (Vmx.partition 47 s).2 = .ok ms) (hm : m ∈ ms)
    (h1 : (Vmx.partition 47 m).1 ≠ Vmx.asc "list") (h2 : (Vmx.partition 47 m).1 ≠ Vmx.asc "pair")
    (h3 : (Vmx.partition 47 m).1 ≠ Vmx.asc "phrase") : ∀ l, Vmx.parseLocator c (fuel + 1) s ≠ .ok l := by
  intro l h
  have e2 : Vmx.sepLoc = 47 := by decide
  have e3 : Vmx.identList = Vmx.asc "list" := by decide
  obtain ⟨ms', hs', hall⟩ := keysafe_list_members_ok c fuel s l (by rw [e2, e3]; exact hl) h
  rw [e2, hs] at hs'
  cases hs'
  obtain ⟨lm, hlm⟩ := hall m hm
  cases fuel with
  | zero => unfold Vmx.parseLocator at hlm; cases hlm
  | succ f => rw [keysafe_unknown_locator_refused c f m h1 h2 h3] at hlm; cases hlm

/-- … and so is the key safe: `KeySafe.from_text` of `vmware:key/list/(…)` with such a member raises -/
theorem keysafe_mixed_safe_refused (c : Vmx.Crypto) (text : Bytes) (ms : List Bytes) (m : Bytes)
    (hl : (Vmx.partition 47 (Vmx.partition 47 text).2).1 = Vmx.asc "list")
    (hs : Vmx.splitList (Vmx.partition 47 (Vmx.partition 47 text).2).2 = .ok ms) (hm : m ∈ ms)
    (h1 : (Vmx.partition 47 m).1 ≠ Vmx.asc "list") (h2 : (Vmx.partition 47 m).1 ≠ Vmx.asc "pair")
    (h3 : (Vmx.partition 47 m).1 ≠ Vmx.asc "phrase") : ∀ locs, Vmx.fromText c text ≠ .ok locs := by
  intro locs h
  unfold Vmx.fromText at h
  split at h
  · cases h
  · obtain ⟨l, hp, _⟩ := bind_ok h
    have e1 : Vmx.sepSafe = 47 := by decide
    rw [e1] at hp
    exact keysafe_mixed_list_refused c _ _ ms m hl hs hm h1 h2 h3 l hp

/-- cipher / MAC / KDF names are table lookups: a pair that unlocks named a KDF in `PASS2KEY_MAP`, a cipher in
    `CIPHER_KEY_SIZES` and a MAC in `HMAC_MAP` -/
theorem vmx_cipher_mac_kdf_tables_gate (c : Vmx.Crypto) (p : Vmx.Phrase) (mac data pw k : Bytes)
    (h : Vmx.unlockPair c p mac data pw = .ok k) :
    (p.pass2key = Vmx.asc "PBKDF2-HMAC-SHA-1" ∨ p.pass2key = Vmx.asc "PBKDF2-HMAC-SHA-256") ∧
    (p.cipher = Vmx.asc "AES-256" ∨ p.cipher = Vmx.asc "AES-192" ∨ p.cipher = Vmx.asc "AES-128") ∧
    (mac = Vmx.asc "HMAC-SHA-1" ∨ mac = Vmx.asc "HMAC-SHA-1-128" ∨ mac = Vmx.asc "HMAC-SHA-256") := by
  obtain ⟨h1, h2, h3⟩ := vmx_unlockPair_ok c p mac data pw k h
  exact ⟨(vmx_known_names _).1.mp h1, (vmx_known_names _).2.1.mp h2, (vmx_known_names _).2.2.mp h3⟩

/-- the same at the level of the whole key safe: the pair that unsealed it used known names -/
theorem vmx_unseal_tables_gate (c : Vmx.Crypto) (pw : Bytes) (locs : List Vmx.Loc) (k mac : Bytes)
    (h : Vmx.unsealWithPhrase c pw locs = .ok (k, mac)) :
    ∃ p data, Vmx.Loc.pair (.phrase p) mac data ∈ locs ∧
      (p.pass2key = Vmx.asc "PBKDF2-HMAC-SHA-1" ∨ p.pass2key = Vmx.asc "PBKDF2-HMAC-SHA-256") ∧
      (p.cipher = Vmx.asc "AES-256" ∨ p.cipher = Vmx.asc "AES-192" ∨ p.cipher = Vmx.asc "AES-128") ∧
      (mac = Vmx.asc "HMAC-SHA-1" ∨ mac = Vmx.asc "HMAC-SHA-1-128" ∨ mac = Vmx.asc "HMAC-SHA-256") := by
  obtain ⟨p, data, hm, h1, h2, h3⟩ := vmx_unseal_ok c pw locs k mac h
  exact ⟨p, data, hm, (vmx_known_names _).1.mp h1, (vmx_known_names _).2.1.mp h2, (vmx_known_names _).2.2.mp h3⟩

/-- an unknown KDF or cipher name is a `KeyError`, which `unseal_with_phrase` does not swallow: the unseal aborts
    at that pair instead of moving on to the next locator -/
theorem vmx_unknown_kdf_cipher_refused (c : Vmx.Crypto) (p : Vmx.Phrase) (mac data pw : Bytes) (rest : List Vmx.Loc)
    (h : Vmx.pass2keyHash p.pass2key = none ∨ Vmx.cipherKeySize p.cipher = none) :
    Vmx.unsealWithPhrase c pw (.pair (.phrase p) mac data :: rest) = .error .other :=
  vmx_unseal_unknown c p mac data pw rest h

/-- … the same for an unknown MAC name (looked up after the key derivation) -/
theorem vmx_unknown_mac_refused (c : Vmx.Crypto) (p : Vmx.Phrase) (mac data pw key : Bytes) (rest : List Vmx.Loc)
    (hk : Vmx.unwrap c p pw = .ok key) (h : Vmx.hmacInfo mac = none) :
    Vmx.unsealWithPhrase c pw (.pair (.phrase p) mac data :: rest) = .error .other :=
  vmx_unseal_unknown_mac c p mac data pw key rest hk h

/-- `VMX.unlock_with_phrase`: accepted ⇒ identifier, list, unsealed through known names, known MAC for
    `encryption.data` -/
theorem vmx_unlock_gates (c : Vmx.Crypto) (attr : Vmx.Attr) (pw : Bytes) (new : Vmx.Attr)
    (h : Vmx.unlockCore c attr pw = .ok new) :
    ∃ ks locs k mac, Vmx.attrGet attr Vmx.kKeySafe = some ks ∧ Vmx.fromText c ks = .ok locs ∧
      (Vmx.partition 47 ks).1 = Vmx.asc "vmware:key" ∧ (Vmx.partition 47 (Vmx.partition 47 ks).2).1 = Vmx.asc "list" ∧
      Vmx.unsealWithPhrase c pw locs = .ok (k, mac) ∧
      (mac = Vmx.asc "HMAC-SHA-1" ∨ mac = Vmx.asc "HMAC-SHA-1-128" ∨ mac = Vmx.asc "HMAC-SHA-256") := by
  obtain ⟨ks, locs, k, mac, hks, hl, hu, hm⟩ := vmx_unlockCore_ok c attr pw new h
  exact ⟨ks, locs, k, mac, hks, hl, keysafe_identifier_gate c ks locs hl, keysafe_list_gate c ks locs hl, hu,
    (vmx_known_names _).2.2.mp hm⟩

/-- gate before content: a refused unlock leaves `self.attr` exactly as it was -/
theorem vmx_gate_before_content (c : Vmx.Crypto) (attr : Vmx.Attr) (pw : Bytes) (e : Vmx.VErr)
    (h : Vmx.unlockCore c attr pw = .error e) : Vmx.unlock c attr pw = (.error e, attr) := vmx_unlock_error c attr pw e h

example (c : Vmx.Crypto) : Vmx.fromText c (Vmx.asc "vmware:kez/list/(x)") = .error .value := by rfl
example (c : Vmx.Crypto) : Vmx.fromText c (Vmx.asc "vmware:key/ldap/(x)") = .error .other := by rfl
example (c : Vmx.Crypto) : Vmx.fromText c (Vmx.asc "vmware:key/list/(rawkey/abc)") = .error .other := by rfl

/-! ## vmtar member headers -/

/-- a 512-byte block is taken for a member header only if it is exactly one block, not all zero, its checksum
    field equals the unsigned or the signed sum of the block, and — for `VisorTarInfo` — its size is not negative -/
theorem vmtar_header_gates (aware : Bool) (buf : Bytes) (hd : Vmtar.Hdr) (h : Vmtar.frombuf aware buf = .ok hd) :
    buf.length = 512 ∧ buf.all (· = 0) = false ∧
    (∃ chk, Vmtar.nti (Vmtar.sub buf 148 156) = .ok chk ∧ (chk = (Vmtar.chksums buf).1 ∨ chk = (Vmtar.chksums buf).2)) ∧
    (aware = true → 0 ≤ hd.size) := vmtar_frombuf_ok aware buf hd h

/-! ## VHD: no gate to prove

`dissect/hypervisor/disk/vhd.py` checks neither the `conectix` footer cookie nor the `cxsparse` cookie of the dynamic
header, nor a checksum, version or disk type: the model (`Vhd.open`), faithful to the code, has no refusing branch
except short reads.  A file of 1024 bytes 0xFF is "a fixed VHD of 2^64 − 1 bytes" for both (finding, see the report). -/
example : ∃ v, Vhd.open ⟨1024, fun _ => 0xFF⟩ = .ok v ∧ v.kind = .fixed ∧ v.size = 2 ^ 64 - 1 := by
  refine ⟨_, rfl, rfl, ?_⟩
  decide

end Hv.C12
