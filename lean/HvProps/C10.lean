/-
  C10 — descriptor-driven multi-extent assembly and size accounting.
-/
import Hv.VmdkDesc
import Hv.Vmdk
import Hv.Hdd
namespace Hv.C10
open Hv Hv.VmdkDesc

/-- **wiring_total**: every data-bearing extent kind the property names is accepted by the
    extent grammar (the regex translated from the live pattern) *and* mapped to a disk by
    `VMDK.__init__`. -/
theorem wiring_total :
    ∀ ty ∈ ["FLAT", "VMFS", "SPARSE", "VMFSSPARSE", "SESPARSE"],
      (parseExtentLine ("RW 2048 " ++ ty ++ " \"disk-f001.vmdk\"").toList).map (fun e => (e.type, wire e.type))
        = some (ty.toList, if ty = "FLAT" ∨ ty = "VMFS" then Wire.flat else Wire.sparse) := by
  decide

end Hv.C10
