/-
  Hv.HddOpen — model of `HDD.__init__` and `HDD.open` (dissect/hypervisor/disk/hdd.py) above the pieces that
  already have models: `Descriptor.__init__` (`Meta.descriptor`), `get_snapshot_chain` (`Hdd.snapshotChain`),
  `HDS.__init__` (`Hds.open`).  What is new here: the descriptor file must exist, and the `Type` of every image of
  the snapshot chain decides how it is opened — "Compressed" ↦ `HDS(fh, parent=stream)`, "Plain" ↦ the file itself,
  anything else ↦ `ValueError("Unsupported image type")`.  Mathlib-free (the driver imports it).

  The directory is abstract: whether `DiskDescriptor.xml` exists and what `Descriptor(path)` made of it (the XML
  parser is external), what `_open_image` returns for a file name, and the stream object an `HDS` is.
-/
import Hv.Hdd
import Hv.Meta
namespace Hv.HddOpen
open Hv

abbrev Reader := Hds.Reader

structure Dir where
  /-- `none`: `DiskDescriptor.xml` does not exist; otherwise the outcome of `Descriptor(descriptor_path)` -/
  descriptor : Option (Except Err Meta.Descriptor)
  /-- `_open_image(Path(image.file))` (FileNotFoundError, IsADirectoryError … are errors) -/
  openImage : String → Except Err File
  /-- an opened `HDS` as the `parent=` of the next layer / as a storage stream: `seek(off); read(n)` -/
  hdsStream : Hds.Hds → Reader

/-- the two image types `HDD.open` knows -/
def TYPE_COMPRESSED : String := "Compressed"
def TYPE_PLAIN : String := "Plain"

/-- `HDD.__init__`: "missing DiskDescriptor.xml" is a ValueError -/
def init (d : Dir) : Except Err Meta.Descriptor :=
  match d.descriptor with
  | none => .error .value
  | some r => r

/-- `Storage.find_image`: first image with the GUID; KeyError when there is none -/
def findImage (s : Meta.Storage) (g : Nat) : Except Err Meta.Image :=
  match s.images.find? (fun i => i.guid = g) with
  | some i => .ok i
  | none => .error .index

/-- the raw file as a stream -/
def plainStream (fh : File) : Reader := fun off n => .ok (fh.read off n)

/-- `for guid in chain[::-1]: …` for one storage; `stream` is the layer below -/
def openLayers (d : Dir) (s : Meta.Storage) : List Nat → Option Reader → Except Err (Option Reader)
  | [], stream => .ok stream
  | g :: gs, stream =>
    match findImage s g with
    | .error e => .error e
    | .ok image =>
      match image.file with
      | none => .error .other                           -- Path(None): TypeError
      | some name =>
        match d.openImage name with
        | .error e => .error e
        | .ok fh =>
          if image.type = some TYPE_COMPRESSED then
            match Hds.open fh stream with
            | .error e => .error e
            | .ok v => openLayers d s gs (some (d.hdsStream v))
          else if image.type ≠ some TYPE_PLAIN then .error .value     -- "Unsupported image type"
          else openLayers d s gs (some (plainStream fh))

def openStorages (d : Dir) (chain : List Nat) : List Meta.Storage → Except Err (List (Meta.Storage × Option Reader))
  | [] => .ok []
  | s :: ss =>
    match openLayers d s chain.reverse none with
    | .error e => .error e
    | .ok stream =>
      match openStorages d chain ss with
      | .error e => .error e
      | .ok rest => .ok ((s, stream) :: rest)

/-- `HDD(path).open(guid)` up to the list handed to `StorageStream` (whose model is `Hdd.mk`).
    `guid = none`: the descriptor's `TopGUID`, else `DEFAULT_TOP_GUID`. -/
def «open» (d : Dir) (nullGuid defaultTop : Nat) (guid : Option Nat) :
    Except Err (List (Meta.Storage × Option Reader)) :=
  match init d with
  | .error e => .error e
  | .ok desc =>
    let g := match guid with
      | some g => g
      | none => match desc.topGuid with | some t => t | none => defaultTop
    match Hdd.snapshotChain (desc.shots.map fun s => (s.guid, s.parent)) nullGuid g with
    | .error e => .error e
    | .ok chain => openStorages d chain desc.storages

end Hv.HddOpen
