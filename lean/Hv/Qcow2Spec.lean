/-
  Hv.Qcow2Spec — pointwise specification of the guest-visible content of a QCOW2 image, written
  from QEMU `docs/interop/qcow2.txt` one byte at a time (no runs, no counting of contiguous
  sub-clusters, no `clusterType` / `subclusterType` / `countLoop` / `yieldRuns`), and the
  well-formedness predicate `Conformant` (with its Boolean version `conformantb`) under which
  `QCow2.read` is proved to return exactly these bytes (HvProofs/Qcow2.lean, HvProps/C01.lean).

  Bits are addressed with `Nat.testBit`, `/ 2^k`, `% 2^k` — not with the masks of the code.
-/
import Hv.Qcow2
namespace Hv.Qcow2
open Hv

/-- 64-bit big-endian word of the image file at file offset `o` -/
def QCow2.be64 (q : QCow2) (o : Nat) : Nat := beNat (slice q.fh.byte o 8)

/-- cluster size in bytes -/
def QCow2.clusterSize (q : QCow2) : Nat := 2 ^ q.clusterBits
/-- L2 entry size: 8 bytes, 16 bytes with extended L2 entries (incompatible feature bit 4) -/
def QCow2.entrySize (q : QCow2) : Nat := if q.sub then 16 else 8
/-- number of entries of one L2 table (an L2 table occupies exactly one cluster) -/
def QCow2.l2n (q : QCow2) : Nat := q.clusterSize / q.entrySize
/-- number of guest clusters that contain a byte below `size` -/
def QCow2.nClusters (q : QCow2) : Nat := (q.size + q.clusterSize - 1) / q.clusterSize

/-- bits 9–55 of an L1 / L2 entry: a host offset (bits 0–8 and 56–63 are flags / reserved) -/
def hostOff (e : Nat) : Nat := e % 2 ^ 56 / 2 ^ 9 * 2 ^ 9

/-- L1 entry `i` as stored at `l1_table_offset` -/
def QCow2.l1At (q : QCow2) (i : Nat) : Nat := q.be64 (q.l1Offset + 8 * i)
/-- the active L1 table as stored in the file -/
def QCow2.l1Table (q : QCow2) : Array Nat := ((List.range q.l1Size).map q.l1At).toArray
/-- offset of the L2 table that describes guest cluster `c` (0 = not allocated) -/
def QCow2.l2Off (q : QCow2) (c : Nat) : Nat := hostOff (q.l1At (c / q.l2n))
/-- the L2 entry (first 64-bit word) of guest cluster `c` -/
def QCow2.entryAt (q : QCow2) (c : Nat) : Nat := q.be64 (q.l2Off c + c % q.l2n * q.entrySize)
/-- the sub-cluster bitmap (second 64-bit word, extended L2 entries only) of guest cluster `c` -/
def QCow2.bitmapAt (q : QCow2) (c : Nat) : Nat := q.be64 (q.l2Off c + c % q.l2n * q.entrySize + 8)

/-- compressed cluster descriptor: `x = 62 - (cluster_bits - 8)`; bits 0..x-1 host offset, bits x..61
    number of additional 512-byte sectors. The compressed data runs from the host offset to the end
    of the last of these sectors (short when the file ends before). -/
def QCow2.cx (q : QCow2) : Nat := 62 - (q.clusterBits - 8)
def QCow2.compBuf (q : QCow2) (e : Nat) : Bytes :=
  let coff := e % 2 ^ q.cx
  let nsec := e / 2 ^ q.cx % 2 ^ (62 - q.cx) + 1
  q.fh.read coff (nsec * 512 - coff % 512)
/-- the decompressed cluster (raw deflate, at most one cluster of output) -/
def QCow2.decomp (q : QCow2) (e : Nat) : Except Err Bytes := q.inflate (q.compBuf e) q.clusterSize
def QCow2.decompLen (q : QCow2) (e : Nat) : Nat :=
  match q.decomp e with | .ok d => d.length | .error _ => 0

/-- **the guest-visible byte at guest offset `o`**, for an image whose backing file has the content `b`
    (`b.size = 0`: no backing file).
    * L1 index `o / (cluster_size · l2n)`, L2 index `(o / cluster_size) % l2n`;
    * no L2 table / entry unallocated → the backing byte at `o` if `o < backing size`, else 0;
    * bit 62 → compressed: byte `o % cluster_size` of the inflated cluster;
    * standard entry: bit 0 → zero; offset 0 and bit 63 clear → unallocated; else the byte of the
      (external) data file at `host offset + o % cluster_size`;
    * extended entry, sub-cluster `i = (o % cluster_size) / (cluster_size / 32)`: bitmap bit `32+i` → zero,
      bit `i` → allocated (data file byte), neither → unallocated. -/
def QCow2.guest (q : QCow2) (b : File) (o : Nat) : UInt8 :=
  let cs := q.clusterSize
  let c := o / cs
  let back : UInt8 := if o < b.size then b.byte o else 0
  if q.l1Size ≤ c / q.l2n then back
  else if q.l2Off c = 0 then back
  else
    let e := q.entryAt c
    if e.testBit 62 then
      match q.decomp e with
      | .ok d => d.getD (o % cs) 0
      | .error _ => 0
    else if q.sub then
      let bm := q.bitmapAt c
      let i := o % cs / (cs / 32)
      if bm.testBit (32 + i) then 0
      else if bm.testBit i then q.dataFile.byte (hostOff e + o % cs)
      else back
    else if e.testBit 0 then 0
    else if hostOff e = 0 ∧ e.testBit 63 = false then back
    else q.dataFile.byte (hostOff e + o % cs)

/-! Evaluating `guest` over a range without repeating the table walk (and the inflation of a compressed
    cluster) for every byte: `guest q b o = guestVia q b (cview q (o / cluster_size)) o`
    (`guestVia_eq` in HvProofs/Qcow2.lean). Used by the driver command `qcow2.spec`. -/

/-- what `guest` needs to know about one guest cluster -/
structure CView where
  mapped : Bool                    -- L1 entry present and L2 table allocated
  e : Nat                          -- the L2 entry
  bm : Nat                         -- the sub-cluster bitmap
  dec : Option (Array UInt8)       -- the inflated cluster (compressed entries only)

def QCow2.cview (q : QCow2) (c : Nat) : CView :=
  if q.l1Size ≤ c / q.l2n then ⟨false, 0, 0, none⟩
  else if q.l2Off c = 0 then ⟨false, 0, 0, none⟩
  else
    ⟨true, q.entryAt c, q.bitmapAt c,
     if (q.entryAt c).testBit 62 then (match q.decomp (q.entryAt c) with | .ok d => some d.toArray | .error _ => none) else none⟩

def QCow2.guestVia (q : QCow2) (b : File) (v : CView) (o : Nat) : UInt8 :=
  let cs := q.clusterSize
  let back : UInt8 := if o < b.size then b.byte o else 0
  if v.mapped = false then back
  else if v.e.testBit 62 then
    match v.dec with
    | some d => d.getD (o % cs) 0
    | none => 0
  else if q.sub then
    let i := o % cs / (cs / 32)
    if v.bm.testBit (32 + i) then 0
    else if v.bm.testBit i then q.dataFile.byte (hostOff v.e + o % cs)
    else back
  else if v.e.testBit 0 then 0
  else if hostOff v.e = 0 ∧ v.e.testBit 63 = false then back
  else q.dataFile.byte (hostOff v.e + o % cs)

/-- header geometry accepted by the gates of `open`: `cluster_bits ∈ [9, 21]`, extended L2 needs
    sub-clusters of ≥ 512 bytes -/
structure HdrOK (q : QCow2) : Prop where
  cb_lo : 9 ≤ q.clusterBits
  cb_hi : q.clusterBits ≤ 21
  sub_lo : q.sub = true → 14 ≤ q.clusterBits

def QCow2.hdrOkb (q : QCow2) : Bool :=
  decide (9 ≤ q.clusterBits) && decide (q.clusterBits ≤ 21) && (!q.sub || decide (14 ≤ q.clusterBits))

/-- number of bytes of guest cluster `c` that lie below `size` -/
def QCow2.bytesIn (q : QCow2) (c : Nat) : Nat := min ((c + 1) * q.clusterSize) q.size - c * q.clusterSize

/-- what must hold of the entry of a guest cluster `c` whose L2 table is allocated -/
structure EntryOK (q : QCow2) (c : Nat) : Prop where
  /-- the L2 table (one cluster) lies inside the image file -/
  l2_in : q.l2Off c + q.clusterSize ≤ q.fh.size
  /-- compressed: zlib, and the stored stream inflates to a whole cluster -/
  comp : (q.entryAt c).testBit 62 = true →
    q.compressionType = Extracted.qcow2.QCOW2_COMPRESSION_TYPE_ZLIB ∧ q.clusterSize ≤ q.decompLen (q.entryAt c)
  /-- host offset 0 with bit 63 (COPIED) only with an external data file -/
  off0 : (q.entryAt c).testBit 62 = false → hostOff (q.entryAt c) = 0 → (q.entryAt c).testBit 63 = true →
    q.hasDataFile = true
  /-- standard entry: the host cluster (as far as it is below `size`) lies inside the data file -/
  std_in : (q.entryAt c).testBit 62 = false → q.sub = false → (q.entryAt c).testBit 0 = false →
    ¬ (hostOff (q.entryAt c) = 0 ∧ (q.entryAt c).testBit 63 = false) →
    hostOff (q.entryAt c) + q.bytesIn c ≤ q.dataFile.size
  /-- extended entry: no sub-cluster is both allocated and zero -/
  ext_disj : (q.entryAt c).testBit 62 = false → q.sub = true → ∀ i, i < 32 →
    ¬ ((q.bitmapAt c).testBit i = true ∧ (q.bitmapAt c).testBit (32 + i) = true)
  /-- extended entry of an unallocated cluster: no sub-cluster allocated -/
  ext_unalloc : (q.entryAt c).testBit 62 = false → q.sub = true →
    hostOff (q.entryAt c) = 0 → (q.entryAt c).testBit 63 = false →
    ∀ i, i < 32 → (q.bitmapAt c).testBit i = false
  /-- extended entry with an allocated sub-cluster: the host cluster lies inside the data file -/
  ext_in : (q.entryAt c).testBit 62 = false → q.sub = true →
    (∃ i, i < 32 ∧ (q.bitmapAt c).testBit i = true) →
    hostOff (q.entryAt c) + q.bytesIn c ≤ q.dataFile.size

def QCow2.entryOkb (q : QCow2) (c : Nat) : Bool :=
  let e := q.entryAt c
  let bm := q.bitmapAt c
  decide (q.l2Off c + q.clusterSize ≤ q.fh.size) &&
  (if e.testBit 62 then
    decide (q.compressionType = Extracted.qcow2.QCOW2_COMPRESSION_TYPE_ZLIB) && decide (q.clusterSize ≤ q.decompLen e)
   else
    (!(decide (hostOff e = 0) && e.testBit 63) || q.hasDataFile) &&
    (if q.sub then
      (List.range 32).all (fun i => !(bm.testBit i && bm.testBit (32 + i))) &&
      (!(decide (hostOff e = 0) && !e.testBit 63) || (List.range 32).all (fun i => !bm.testBit i)) &&
      (!((List.range 32).any (fun i => bm.testBit i)) || decide (hostOff e + q.bytesIn c ≤ q.dataFile.size))
     else
      (e.testBit 0 || (decide (hostOff e = 0) && !e.testBit 63) || decide (hostOff e + q.bytesIn c ≤ q.dataFile.size))))

/-- **Conformant**: the hypotheses of the read theorem. Placement and order of tables and clusters,
    host offsets (up to 2^56), flag / reserved bits the reader ignores, the size of the L1 table
    (clusters beyond it are unallocated) are free. -/
structure Conformant (q : QCow2) : Prop where
  hdr : HdrOK q
  /-- the cached L1 table is the table stored at `l1_table_offset` -/
  l1ok : q.l1 = .ok q.l1Table
  /-- every guest cluster below `size` whose L2 table is allocated has a well-formed entry -/
  entries : ∀ c, c < q.nClusters → c / q.l2n < q.l1Size → q.l2Off c ≠ 0 → EntryOK q c

def QCow2.conformantb (q : QCow2) : Bool :=
  q.hdrOkb && decide (q.l1 = .ok q.l1Table) &&
  (List.range q.nClusters).all (fun c => !decide (c / q.l2n < q.l1Size) || decide (q.l2Off c = 0) || q.entryOkb c)

/-- the backing reader behaves as `seek(off); read(len)` on a file with content `b`
    (no backing file: `b` is empty) -/
def BackingIs (r : Option Reader) (b : File) : Prop :=
  match r with
  | none => b.size = 0
  | some rd => ∀ off len, rd off len = .ok (b.read off len)

/-- the guest-visible disk of an image over backing content `b` — as a `File`, so that it can be the
    backing content of the next layer -/
def QCow2.asFile (q : QCow2) (b : File) : File := ⟨q.size, q.guest b⟩

end Hv.Qcow2
