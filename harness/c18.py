"""C18 — VM configuration files: the reported disk list is exactly the VM's hard disks.

Abstract VMs (gen_configs.gen_vm) are rendered by independent writers to VMware VMX, OVF, VirtualBox and Parallels PVS
text; the real parsers, the Lean models (Hv/Configs.lean) and the writers' truth are compared.
  * VMX: the text goes to the model as code points; compared: `VMX.parse(text).disks()`, the whole dictionary (as a set of
    items) and single look-ups.  On top of gen_configs' rendering, a block of re-assignments is appended for some keys:
    the same key spelled A / b / A (and other patterns) with stale values first and the true value last.
  * OVF / VBox / PVS: the element tree the *real* XML parser (defusedxml, as the code uses it) built is serialised to the
    model (XML text -> tree is C19's trusted part); compared: `list(X(fh).disks())`.
    VirtualBox additionally gets registries in which typed hard disks are nested inside other hard disks at any depth.
"""
from __future__ import annotations

import hashlib
import io
import random

import core
import gen_configs as G
from core import Built

PROPERTY = "C18"
RULE = ("seeded abstract VMs (0..8 devices on scsi/sata/ide/nvme with any bus:unit, disks / cdrom images / raw cdroms / floppies, "
        "controllers, 2..15 unrelated settings incl. sched.scsi0:0.*, ethernet1.fileName, floppy0.*) rendered by independent "
        "writers: VMX with random key casing, line order, comments, blank lines, quoting, CRLF, stale earlier assignments and an "
        "appended block re-assigning keys three or more times with spellings A/b/A; OVF with random prefixes, default namespace, "
        "disk-vs-file host resources, crossed ids (and, on every run, envelopes whose disk ids are a rotation of the file ids with both "
        "HostResource forms), decoy ResourceType texts; on every run VMs whose file names / settings contain '#' and VMs whose hard disks carry a deviceType key with an empty value (\"\", bare, blanks; also emptied by the last of two assignments); VirtualBox registries (machine / global styles, "
        "differencing children, mixed formats and types, typed disks nested in disks of any format/type to depth 4, look-alike "
        "elements); Parallels hardware lists (Hdd/CdRom/Fdd, nested Partition/SystemName, shuffled children). Compared: the "
        "disk list (VMX sorted, XML in document order), for VMX also the dictionary and look-ups: real code vs Lean model vs "
        "writer truth. Every descriptor object (VMX, OVF, VBox, PVS) is then queried again 2..4 times on the same object (complete list, "
        "next() then a second call listed, two iterations advanced alternately, a fresh query in the middle of a partial one): always the same list. "
        "Non-trivial = at least one hard disk reported and at least one non-disk medium or decoy present.")
ASSUMPTIONS = ["XML text -> element tree is not modelled: the model receives the tree built by defusedxml.ElementTree.fromstring (C19)",
               "xml.etree.ElementPath selector semantics (child, descendant, attribute and child-text predicates) are transcribed into "
               "Hv/Prim/XPath.lean; paths are compiled per run with the live xpath_tokenizer",
               "str.lower() is modelled per code point (table extracted from the interpreter); the final-sigma context rule is outside the model",
               "legacy RDM device types and OVF empty disks / VirtualSystemCollection (gen_configs 'exotic') are outside the default stream"]
TIMEOUT_CASE = 20.0
FMTS = ("vmx", "ovf", "vbox", "pvs")


def _h(s):
    return "~" if s is None else "s" + s.encode("utf-8", "surrogatepass").hex()


def canon_list(l):
    return "L" + ",".join(_h(x) for x in l)


def dict_digest(items):
    return "D%d:" % len(items) + hashlib.sha256(repr(sorted(items)).encode("utf-8", "surrogatepass")).hexdigest()[:16]


# --------------------------------------------------------------------------- histories on one descriptor object

HIST_OPS = ("list", "peek-list", "interleave", "partial-fresh-rest", "two-lists")


def gen_history(rng):
    """2..4 further queries on the *same* object after the first complete `disks()`: complete again, peeked (`next(d1)`) then
    listed through a second call, two iterations alive and advanced alternately, a fresh complete query in the middle of a
    partial one. The disk list is a function of the document: every query must give the same list whatever happened before."""
    return [rng.choice(HIST_OPS) for _ in range(rng.choice([2, 2, 3, 4]))]


def history_answers(query, ops):
    """`query()` = one call of disks() (a list or an iterator). One canonical answer per op."""
    out = []
    for op in ops:
        try:
            if op == "list":
                out.append("H" + canon_list(list(query())))
            elif op == "two-lists":
                a = list(query())
                b = list(query())
                out.append("H" + canon_list(a) + "|" + canon_list(b))
            elif op == "peek-list":
                d1 = iter(query())
                first = next(d1, None)
                d2 = query()
                out.append("H" + _h(first) + "|" + canon_list(list(d2)))
            elif op == "interleave":
                d1, d2 = iter(query()), iter(query())
                a, b, live = [], [], [True, True]
                while any(live):
                    for k, (it, acc) in enumerate(((d1, a), (d2, b))):
                        if live[k]:
                            try:
                                acc.append(next(it))
                            except StopIteration:
                                live[k] = False
                out.append("H" + canon_list(a) + "|" + canon_list(b))
            elif op == "partial-fresh-rest":
                d1 = iter(query())
                first = next(d1, None)
                fresh = list(query())
                out.append("H" + _h(first) + "|" + canon_list(fresh) + "|" + canon_list(list(d1)))
            else:
                raise ValueError(op)
        except Exception:  # noqa
            out.append("HE")
    return out


def _unlist(tok):
    """inverse of canon_list"""
    body = tok[1:]
    return [_unhex(t) for t in body.split(",")] if body else []


# --------------------------------------------------------------------------- VMX: appended re-assignments

PATTERNS = ["AbA", "AbA", "AbA", "AbAb", "Ab", "AA", "bAA", "ABa", "AbBA"]


def _spell(rng, lk, other=None):
    for _ in range(20):
        s = "".join(rng.choice((c.lower(), c.upper())) for c in lk)
        if s != other and s != lk:
            return s
    return lk.upper()


def reassign_block(rng, tdict):
    """-> (lines, [re-assigned lower-cased keys]); the last assignment of every key carries the value the writer stored."""
    dev = [k for k in tdict if k.endswith((".filename", ".devicetype")) and k.split(".")[0].rstrip("0123456789:") in ("scsi", "sata", "ide", "nvme")]
    oth = [k for k in tdict if k not in dev]
    n = rng.choice([0, 1, 1, 2, 3])
    keys = []
    for _ in range(n):
        pool = dev if dev and rng.random() < 0.75 else oth
        if pool:
            k = rng.choice(pool)
            if k not in keys:
                keys.append(k)
    seqs = []
    for k in keys:
        v = tdict[k]
        pat = rng.choice(PATTERNS)
        A = _spell(rng, k) if rng.random() < 0.7 else k
        b = _spell(rng, k, A)
        B = _spell(rng, k, A)
        sp = {"A": A, "b": b, "B": B, "a": _spell(rng, k, A)}
        rows = []
        for i, ch in enumerate(pat):
            last = i == len(pat) - 1
            if last:
                val = v
            elif k.endswith(".filename"):
                val = rng.choice(["stale-%d.vmdk" % i, "stale-%d.iso" % i, ""])
            elif k.endswith(".devicetype"):
                val = "cdrom-image" if "disk" in v.lower() else rng.choice(["scsi-hardDisk", "disk"])
            else:
                val = v + "-old%d" % i
            rows.append((sp[ch], val))
        seqs.append(rows)
    lines = []
    if seqs and rng.random() < 0.5:
        lines.append("# re-pointed after snapshot consolidation")
    while any(seqs):                                    # interleave the per-key sequences, keeping each one's order
        s = rng.choice([q for q in seqs if q])
        key, val = s.pop(0)
        if rng.random() < 0.1:
            lines.append(rng.choice(["", "  ", "# " + key + ' = "commented.vmdk"']))
        lines.append(rng.choice(["", "", " ", "\t"]) + key + rng.choice([" ", "", "  "]) + "=" + rng.choice([" ", "", "  "]) + f'"{val}"' + rng.choice(["", "", " "]))
    return lines, keys


def build_vmx(recipe):
    vm = recipe["vm"]
    text, truth, tdict = G.render_vmx(vm, random.Random(recipe["rseed"]))
    rng = random.Random(recipe["rseed"] ^ 0x5EED18)
    lines, rekeys = reassign_block(rng, tdict) if recipe.get("variant") == "reassign" else ([], [])
    if lines:
        eol = "\r\n" if "\r\n" in text else "\n"
        if text and not text.endswith("\n"):
            text += eol
        text += eol.join(lines) + (eol if rng.random() < 0.8 else "")
    qs = list(rekeys)
    keys = sorted(tdict)
    for _ in range(3):
        if keys:
            qs.append(rng.choice(keys))
    if keys:
        qs.append(rng.choice(keys).upper() + "X")      # absent
        up = [k for k in keys if k.upper() != k]
        if up:
            qs.append(rng.choice(up).upper())           # keys are stored lower-cased: the upper-case spelling is absent
    return text, truth, tdict, qs


# --------------------------------------------------------------------------- VirtualBox: nested registries

def render_vbox_nested(vm, rng):
    """A media registry whose <HardDisk> elements nest to depth 4 with explicit types and formats at every level
    (-> xml, locations of the Normal/VDI ones in document order)."""
    N = G.VBOX_NS
    truth = []
    stems = [d["file"] for d in G.hard_disks(vm)] or ["disk"]
    cnt = [0]

    def hd(depth):
        cnt[0] += 1
        fmt = rng.choice(["VDI"] * 5 + ["vdi", "Vdi", "vDI", "VMDK", "VHD", "vdi2", "", None])
        typ = rng.choice(["Normal"] * 6 + ["Immutable", "Writethrough", "normal", "NORMAL", "Normal ", "", None, None])
        loc = rng.choice(stems) + "-%d" % cnt[0] + {"vdi": ".vdi", "vmdk": ".vmdk", "vhd": ".vhd"}.get((fmt or "").lower(), ".img")
        has_loc = rng.random() < 0.93
        attrs = [(None, "uuid", "{" + G._uuid(rng) + "}")]
        if has_loc:
            attrs.append((None, "location", loc))
        if fmt is not None:
            attrs.append((None, "format", fmt))
        if typ is not None:
            attrs.append((None, "type", typ))
        if rng.random() < 0.1:
            attrs.append((None, "Location" if rng.random() < 0.5 else "Type", "Normal"))
        e = G.el("HardDisk", attrs, ns=N)
        if has_loc and typ == "Normal" and fmt is not None and fmt.lower() == "vdi":
            truth.append(loc)
        if rng.random() < 0.15:
            e["k"].append(G.el("Property", [(None, "name", "CRYPT/KeyId"), (None, "value", "Normal")], ns=N))
        if depth < 4:
            for _ in range(rng.choice([0, 0, 1, 1, 2, 3] if depth < 2 else [0, 0, 0, 1, 2])):
                e["k"].append(hd(depth + 1))
        return e
    regs = [hd(0) for _ in range(rng.choice([1, 2, 3, 4]))]
    dvds = [G.el("Image", [(None, "uuid", "{" + G._uuid(rng) + "}"), (None, "location", d["file"]), (None, "type", "Normal"), (None, "format", "VDI")], ns=N)
            for d in vm["devices"] if d["kind"] == "cdrom-image" and d["file"]]
    look = [G.el("HardDiskAttachment", [(None, "location", "no.vdi"), (None, "type", "Normal"), (None, "format", "VDI")], ns=N)] if rng.random() < 0.3 else []
    reg = G.el("MediaRegistry", kids=[G.el("HardDisks", kids=regs, ns=N), G.el("DVDImages", kids=dvds, ns=N)] + look, ns=N)
    extra = []
    if rng.random() < 0.3:                                   # a hard disk registered outside <HardDisks> (older layouts): still a descendant
        extra.append(hd(3))
    machine = G.el("Machine", [(None, "uuid", "{" + G._uuid(rng) + "}"), (None, "name", vm["name"])], [reg] + extra + [G.el("Hardware", ns=N)], ns=N)
    p = rng.choice(["", "", "vb"])
    root = G.el("VirtualBox", [(None, "version", "1.16-linux")], [machine], ns=N, decl=[(p, N)])
    return G._doc(root, rng), truth


# --------------------------------------------------------------------------- VMX: '#' inside values

HASH_NAMES = ["Data #%d", "/vmfs/volumes/ds#1/vm/scratch%d", "#lead%d", "tail%d#", "a # b #%d", "C:\\VMs\\#x\\disk%d", "x## %d", "# %d"]


def hashify(vm, rng):
    """-> a copy of the VM whose media names (and two unrelated settings) contain '#': in a VMX file '#' starts a comment only
    as the first non-blank character of a line, never inside a value"""
    vm = dict(vm, devices=[dict(d) for d in vm["devices"]], unrelated=[list(kv) for kv in vm["unrelated"]])
    n = 0
    for d in vm["devices"]:
        n += 1
        if d["kind"] in G.DISK_KINDS and d["file"]:
            d["file"] = rng.choice(HASH_NAMES) % n
        elif d["kind"] == "cdrom-image" and d["file"]:
            d["file"] = rng.choice(["tools #%d.iso", "#%d.iso", "/iso/os#%d.iso"]) % n
    if not any(d["kind"] in G.DISK_KINDS and d["file"] for d in vm["devices"]):
        vm["devices"].append({"cls": "scsi", "bus": 3, "unit": 30, "kind": "disk", "file": "Data #2"})
        if not any(c["cls"] == "scsi" and c["bus"] == 3 for c in vm["controllers"]):
            vm["controllers"] = vm["controllers"] + [{"cls": "scsi", "bus": 3, "props": [["present", "TRUE"]]}]
    have = {k.lower() for k, _ in vm["unrelated"]}
    for k, v in (("annotation", "see ticket #42 # urgent"), ("displayName", "vm #7"), ("guestinfo.note", "#starts with hash")):
        if k.lower() not in have:
            vm["unrelated"].append([k, v])
    return vm


# --------------------------------------------------------------------------- VMX: characters only str.splitlines() treats as line ends

LINESEP_ONLY = ["\x0b", "\x0c", "\x1c", "\x1d", "\x1e", "\x85", "\u2028", "\u2029"]


def linesep(vm, rng, k):
    """-> a copy of the VM whose hard-disk file names carry, in the middle, a character that `str.splitlines()` treats as a line
    end but `split("\\n")` does not (VT, FF, FS, GS, RS, NEL, LS, PS: ordinary data inside a VMX value); in every second name the
    character is followed by text that looks like another assignment. Rendered as VMX only (most of them are not XML characters)."""
    vm = dict(vm, devices=[dict(d) for d in vm["devices"]], controllers=list(vm["controllers"]))
    if not [d for d in vm["devices"] if d["kind"] == "disk" and d["file"]]:
        vm["devices"].append({"cls": "scsi", "bus": 3, "unit": 30, "kind": "disk", "file": "data"})
        if not any(c["cls"] == "scsi" and c["bus"] == 3 for c in vm["controllers"]):
            vm["controllers"].append({"cls": "scsi", "bus": 3, "props": [["present", "TRUE"]]})
    n = 0
    for d in vm["devices"]:
        if d["kind"] == "disk" and d["file"]:
            ch = LINESEP_ONLY[(k + n) % len(LINESEP_ONLY)]
            tail = "scsi0:%d.fileName = ghost%d.vmdk" % (9 + n, n) if n % 2 else "Disk%d.vmdk" % n
            d["file"] = d["file"] + ch + tail
            n += 1
    return vm


# --------------------------------------------------------------------------- VMX: keys that are present but empty

def emptytype(vm, rng, k):
    """-> a copy of the VM in which hard disks carry a deviceType key with an EMPTY value (every spelling of G.EMPTY_RAW in turn,
    k rotates them; every other one emptied by the last of two assignments, the earlier one naming a disk or a CD-ROM type), one
    device has an empty fileName spelled with blanks, and CD-ROMs keep their explicit types. A device whose type is not given
    is an ordinary hard disk: the expected list is unchanged."""
    vm = dict(vm, devices=[dict(d) for d in vm["devices"]], controllers=list(vm["controllers"]))
    disks = [d for d in vm["devices"] if d["kind"] == "disk" and d["file"]]
    used = {(d["cls"], d["bus"], d["unit"]) for d in vm["devices"]}
    want = 2 + k % 3
    for cls, bus, unit in (("scsi", 0, 0), ("sata", 1, 3), ("nvme", 0, 1), ("ide", 1, 0), ("scsi", 3, 15), ("sata", 0, 29)):
        if len(disks) >= want:
            break
        if (cls, bus, unit) in used:
            continue
        d = {"cls": cls, "bus": bus, "unit": unit, "kind": "disk", "file": rng.choice(G.DIRS) + rng.choice(G.STEMS) + "-e%d" % len(disks)}
        vm["devices"].append(d)
        disks.append(d)
        if cls != "ide" and not any(c["cls"] == cls and c["bus"] == bus for c in vm["controllers"]):
            vm["controllers"].append({"cls": cls, "bus": bus, "props": [["present", "TRUE"]]})
    for i, d in enumerate(disks):
        if i and i % 4 == 3:
            continue                                            # one in four keeps whatever the writer picks (absent / a disk type)
        d["dt_raw"] = G.EMPTY_RAW[(k + i) % len(G.EMPTY_RAW)]
        d["dt_old"] = [None, "scsi-hardDisk", None, "cdrom-image", "disk", "atapi-cdrom"][(k // 2 + i) % 6]
    for d in vm["devices"]:
        if d["cls"] != "floppy" and not d["file"]:
            d["file_raw"] = G.EMPTY_RAW[(k + 1) % len(G.EMPTY_RAW)]
    return vm


# --------------------------------------------------------------------------- OVF: file ids and disk ids are independent id spaces

def render_ovf_crossed(vm, rng):
    """An envelope in which every Disk's ovf:diskId equals the ovf:id of a File that backs a *different* disk (the disk ids are a
    rotation of the file ids), with hard-disk Items in both the /disk/ and the /file/ HostResource form, CD-ROM / floppy items
    on files whose ids are used as well, controllers and decoys (-> xml, hrefs of the hard-disk items in document order)."""
    O, R = G.OVF_NS, G.RASD_NS
    po, pr = rng.choice(["ovf", "ovf", "o", "ns0"]), rng.choice(["rasd", "rasd", "r"])
    decl = [(po, O), (pr, R)] + ([("", O)] if rng.random() < 0.6 else [])
    rng.shuffle(decl)
    disks = [{"href": d["file"] + ".vmdk", "kind": "disk"} for d in G.hard_disks(vm)]
    while len(disks) < 2 or (len(disks) < 6 and rng.random() < 0.3):
        disks.append({"href": "extra-%d.vmdk" % len(disks), "kind": "disk"})
    others = [{"href": d["file"], "kind": d["kind"]} for d in vm["devices"] if d["kind"] in ("cdrom-image", "floppy") and d["file"]]
    media = disks + others
    rng.shuffle(media)
    style = rng.choice(["file%d", "x%d", "vmdisk%d", "%d"])
    for i, m in enumerate(media):
        m["fid"] = style % (i + 1)
    dm = [m for m in media if m["kind"] == "disk"]
    k = rng.randrange(1, len(dm))
    for i, m in enumerate(dm):                                # disk i carries the file id of disk i+k
        m["did"] = dm[(i + k) % len(dm)]["fid"]
    forms = ["disk", "file"] + [rng.choice(["disk", "disk", "file"]) for _ in dm[2:]]
    rng.shuffle(forms)
    for m, f in zip(dm, forms):
        m["via"] = f
    files = [G.el("File", [(O, "href", m["href"]), (O, "id", m["fid"])] + ([(O, "size", str(rng.randrange(1 << 30)))] if rng.random() < 0.7 else []), ns=O) for m in media]
    dels = [G.el("Disk", [(O, "capacity", str(rng.choice([1, 40, 17]))), (O, "diskId", m["did"]), (O, "fileRef", m["fid"])], ns=O) for m in dm]
    rng.shuffle(dels)
    iid = [0]

    def item(rt, name, **kw):
        iid[0] += 1
        ch = [("ResourceType", str(rt)), ("ElementName", name), ("InstanceID", str(iid[0]))] + [(a, b) for a, b in kw.items() if b is not None]
        ch = sorted(ch) if rng.random() < 0.6 else rng.sample(ch, len(ch))
        return G.el("Item", kids=[G._t(a, b, R) for a, b in ch], ns=O)
    pairs = [(item(3, "17 virtual CPU(s)", VirtualQuantity="17"), None), (item(6, "SCSI Controller 0", Address="0", ResourceSubType="lsilogic"), None),
             (item(5, "IDE 17", Address="17"), None), (item(10, "Ethernet adapter on 17", Connection="VM Network", AddressOnParent="17"), None)]
    for m in media:
        pre = rng.choice(["ovf:", "ovf:", ""])
        if m["kind"] == "disk":
            hr = pre + (f"/disk/{m['did']}" if m["via"] == "disk" else f"/file/{m['fid']}")
            pairs.append((item(17, rng.choice(["Hard Disk 1", "disk", "17"]), HostResource=hr, AddressOnParent=str(rng.randrange(16))), m["href"]))
        else:
            rt = 14 if m["kind"] == "floppy" else rng.choice([15, 16])
            pairs.append((item(rt, rng.choice(["CD/DVD drive 1", "Floppy", "17"]), HostResource=pre + f"/file/{m['fid']}", AddressOnParent="17"), None))
    if rng.random() < 0.6:
        rng.shuffle(pairs)
    truth = [h for _, h in pairs if h is not None]
    info = lambda t: G.el("Info", kids=[t], ns=O)
    vhs = G.el("VirtualHardwareSection", kids=[info("Virtual hardware requirements")] + [p[0] for p in pairs], ns=O)
    vs = G.el("VirtualSystem", [(O, "id", vm["name"])], [info("A virtual machine"), vhs], ns=O)
    top = [G.el("References", kids=files, ns=O), G.el("DiskSection", kids=[info("Virtual disk information")] + dels, ns=O), vs]
    return G._doc(G.el("Envelope", kids=top, ns=O, decl=decl), rng), truth


def ovf_shape(text):
    """(has a Disk whose diskId is the id of a File backing a different disk, has /disk/ hard-disk item, has /file/ hard-disk item)"""
    from defusedxml import ElementTree
    O, R = "{%s}" % G.OVF_NS, "{%s}" % G.RASD_NS
    try:
        root = ElementTree.fromstring(text)
    except Exception:  # noqa
        return False, False, False
    fids = {f.get(O + "id") for f in root.iter(O + "File")}
    crossed = any(d.get(O + "diskId") in fids and d.get(O + "diskId") != d.get(O + "fileRef") for d in root.iter(O + "Disk"))
    hrs = [(it.findtext(R + "HostResource") or "") for it in root.iter(O + "Item") if it.findtext(R + "ResourceType") == "17"]
    return crossed, any("/disk/" in h for h in hrs), any("/file/" in h for h in hrs)


# --------------------------------------------------------------------------- cases

def _render(recipe):
    fmt, vm, rs = recipe["fmt"], recipe["vm"], recipe["rseed"]
    if fmt == "vmx":
        text, truth, tdict, qs = build_vmx(recipe)
        return text, truth, tdict, qs
    if fmt == "vbox" and recipe.get("variant") == "nested":
        text, truth = render_vbox_nested(vm, random.Random(rs))
        return text, truth, None, []
    if fmt == "ovf" and recipe.get("variant") == "crossed":
        text, truth = render_ovf_crossed(vm, random.Random(rs))
        return text, truth, None, []
    text, truth = G.build(recipe)
    return text, truth, None, []


def generate(seed, tier):
    rng = random.Random(f"C18/{seed}/{tier}")
    n = 150 if tier == "quick" else 2000
    cases = []
    for i in range(n):
        vm = G.gen_vm(rng, tier)
        if i % 5 == 1:                                        # every run: '#' inside values (all four renderings of this VM)
            vm = hashify(vm, rng)
        if i % 10 == 3:                                       # every run: hard disks whose deviceType key is present but empty
            vm = emptytype(vm, random.Random(f"C18/emptytype/{seed}/{i}"), i // 10)
        for fmt in FMTS:
            variant = None
            if fmt == "vmx":
                variant = "reassign" if rng.random() < 0.6 else None
            if fmt == "vbox":
                variant = "nested" if rng.random() < 0.4 else None
            if fmt == "ovf":                                  # every run: disk ids that are other files' ids, both HostResource forms
                variant = "crossed" if i % 4 == 2 or rng.random() < 0.15 else None
            vmf = linesep(vm, random.Random(f"C18/linesep/{seed}/{i}"), i // 10) if fmt == "vmx" and i % 10 == 7 else vm
            recipe = {"vm": vmf, "fmt": fmt, "rseed": rng.getrandbits(32), "variant": variant}
            qs = _render(recipe)[3]
            cases.append({"id": f"{fmt}{i}", "recipe": recipe, "queries": ["disks"] + (["dict"] + qs if fmt == "vmx" else []), "hist": gen_history(rng)})
    return cases


def _lower_ok(s):
    return s.lower() == "".join(c.lower() for c in s)


def build(case):
    r = case["recipe"]
    fmt, vm = r["fmt"], r["vm"]
    text, truth, tdict, qs = _render(r)
    kinds = {d["kind"] for d in vm["devices"]}
    branches = {fmt, fmt + ("-" + r["variant"] if r.get("variant") else "")}
    in_scope = True
    if fmt == "vmx":
        answers = [canon_list(truth), dict_digest(list(tdict.items()))] + [_h(tdict.get(q)) for q in qs]
        branches |= {"vmx-crlf"} if "\r\n" in text else set()
        branches |= {"vmx-comment"} if "\n#" in text or "\n #" in text or "\n\t#" in text else set()
        branches |= {"vmx-hash-in-disk-file"} if any("#" in t for t in truth) else set()
        branches |= {"vmx-hash-in-value"} if any("#" in v for v in tdict.values()) else set()
        et = [k for k, v in tdict.items() if k.endswith(".devicetype") and v == "" and tdict.get(k[:-11] + ".filename")]
        branches |= {"vmx-empty-devicetype-on-hard-disk"} if et else set()
        if r.get("variant") == "reassign" and len(qs) > 5:
            branches.add("vmx-reassigned-key")
        in_scope = all(_lower_ok(l.partition("=")[0]) for l in text.split("\n")) and all(_lower_ok(v) for k, v in tdict.items() if k.endswith(".devicetype"))
    else:
        answers = [canon_list(truth)]
        if fmt == "vbox":
            branches |= {"vbox-nested-reported"} if r.get("variant") == "nested" and len(truth) > 1 else set()
        if fmt == "ovf":
            answers.append("spec=ok")                         # model = specification of ovf_disks_exact wherever its hypothesis holds
            cr, vd, vf = ovf_shape(text)
            branches |= {"ovf-via-file"} if vf else set()
            branches |= {"ovf-via-disk"} if vd else set()
            branches |= {"ovf-diskid-is-other-file-id"} if cr else set()
            branches |= {"ovf-diskid-is-other-file-id+both-forms"} if cr and vd and vf else set()
    hist = case.get("hist", [])
    answers += history_answers(lambda: list(truth), hist)      # the same list, whatever was asked before
    branches |= {"hist-" + op for op in hist}
    branches |= {"has-" + k for k in kinds}
    branches.add("disks=%s" % (len(truth) if len(truth) < 4 else "4+"))
    nt = bool(truth) and (bool(kinds - set(G.DISK_KINDS)) or r.get("variant") is not None or len(vm["unrelated"]) > 0 and fmt == "vmx")
    b = Built({}, answers, {"branches": sorted(branches), "in_scope": in_scope, "compare_model_out_of_scope": False, "nontrivial": nt, "fmt": fmt})
    b.text = text
    b.queries = qs
    return b


# --------------------------------------------------------------------------- the real code

def impl_run(case, built):
    fmt, text = built.info["fmt"], built.text
    answers, errors = [], {}
    if fmt == "vmx":
        from dissect.hypervisor.descriptor.vmx import VMX
        try:
            vmx = VMX.parse(text)
        except Exception as e:  # noqa
            return {"answers": ["E"], "errors": {"0": f"{type(e).__name__}: {e}"[:300]}}
        try:
            answers.append(canon_list(vmx.disks()))
        except Exception as e:  # noqa
            answers.append("E")
            errors["0"] = f"{type(e).__name__}: {e}"[:300]
        answers.append(dict_digest(list(vmx.attr.items())))
        answers += [_h(vmx.attr.get(q)) for q in built.queries]
        answers += history_answers(vmx.disks, case.get("hist", []))
        return {"answers": answers, "errors": errors}
    obj = None
    try:
        if fmt == "ovf":
            from dissect.hypervisor.descriptor.ovf import OVF
            obj = OVF(io.StringIO(text))
        elif fmt == "vbox":
            from dissect.hypervisor.descriptor.vbox import VBox
            obj = VBox(io.StringIO(text))
        else:
            from dissect.hypervisor.descriptor.pvs import PVS
            obj = PVS(io.StringIO(text))
        answers.append(canon_list(list(obj.disks())))
    except Exception as e:  # noqa
        answers.append("E")
        errors["0"] = f"{type(e).__name__}: {e}"[:300]
    if fmt == "ovf":
        answers.append("spec=ok")
    # the same object is queried again (see gen_history)
    answers += history_answers(obj.disks, case.get("hist", [])) if obj is not None else ["HE"] * len(case.get("hist", []))
    return {"answers": answers, "errors": errors}


# --------------------------------------------------------------------------- the model

def tree_tokens(e, out):
    out += ["N", _h(e.tag), str(len(e.attrib))]
    for k, v in e.attrib.items():
        out += [_h(k), _h(v)]
    out += [_h(e.text), _h(e.tail), str(len(e))]
    for c in e:
        tree_tokens(c, out)
    return out


def model_lines(case, built):
    fmt, text = built.info["fmt"], built.text
    if fmt == "vmx":
        return [" ".join(["cfg.vmx", _h(text)] + [_h(q) for q in built.queries])]
    try:
        from defusedxml import ElementTree
        root = ElementTree.fromstring(text)
    except Exception:  # noqa
        return ["cfg.noxml"]
    if any(not isinstance(x.tag, str) for x in root.iter()):
        return ["cfg.noxml"]
    toks = tree_tokens(root, [])
    return [" ".join(["cfg." + fmt] + toks)] + ([" ".join(["cfg.ovfspec"] + toks)] if fmt == "ovf" else [])


def _unhex(t):
    return None if t == "~" else bytes.fromhex(t[1:]).decode("utf-8", "surrogatepass")


def model_parse(case, built, out):
    """the model's disk list is a pure function of the document: its answers to the history are derived from that one list"""
    r = _model_parse(case, built, out)
    a = r.get("answers")
    if a and case.get("hist"):
        if a[0].startswith("L"):
            lst = _unlist(a[0])
            r["answers"] = a + history_answers(lambda: list(lst), case["hist"])
        else:
            r["answers"] = a + ["HE"] * len(case["hist"])
    return r


def _model_parse(case, built, out):
    if not out:
        return {"answers": None, "wf": None}
    line = out[0]
    if not line.startswith("ok "):
        return {"answers": None, "wf": None, "raw": line[:200]}
    parts = line.split(" ")
    if built.info["fmt"] == "ovf":
        # second line: `ok <ovfWfb 0|1> <ovfSpec>`; inside the hypothesis of ovf_disks_exact the model must equal the specification
        sp = out[1].split(" ") if len(out) > 1 and out[1].startswith("ok ") else None
        if sp is None:
            return {"answers": [parts[1], "spec=?"], "wf": None, "raw": (out[1] if len(out) > 1 else "")[:200]}
        wfb = sp[1] == "1"
        ok = (not wfb) or sp[2] == parts[1]
        return {"answers": [parts[1], "spec=ok" if ok else "spec=" + sp[2][:200]], "wf": wfb and built.info["in_scope"], "spec": sp[2]}
    if built.info["fmt"] != "vmx":
        return {"answers": [parts[1]], "wf": parts[1] != "E" and built.info["in_scope"]}
    items = []
    body = parts[2][1:]
    for it in body.split(",") if body else []:
        k, v = it.split(":")
        items.append((_unhex(k), _unhex(v)))
    qa = parts[3][1:].split(",") if len(parts) > 3 and parts[3][1:] else []
    return {"answers": [parts[1], dict_digest(items)] + qa, "wf": parts[1] != "E" and built.info["in_scope"]}


def nontrivial(case, built, model):
    return built.info["nontrivial"]


def search(seed, broken, budget):
    rng = random.Random(f"C18/search/{seed}")
    cases = []
    for i in range(min(budget, 2000) // 4):
        vm = G.gen_vm(rng, "thorough")
        for fmt in FMTS:
            variant = {"vmx": "reassign", "vbox": "nested" if i % 2 else None, "ovf": "crossed" if i % 2 else None}.get(fmt)
            vmf = linesep(vm, random.Random(f"C18/linesep/{seed}/{i}"), i // 10) if fmt == "vmx" and i % 10 == 7 else vm
            recipe = {"vm": vmf, "fmt": fmt, "rseed": rng.getrandbits(32), "variant": variant}
            qs = _render(recipe)[3]
            cases.append({"id": f"s{fmt}{i}", "recipe": recipe, "queries": ["disks"] + (["dict"] + qs if fmt == "vmx" else []), "hist": gen_history(rng)})
    return cases


def shrink(case):
    """drop devices / unrelated settings while the implementation still disagrees with the writer's truth"""
    def failing(c):
        try:
            b = build(c)
            res = core.run_impl(__name__, [c], timeout_case=TIMEOUT_CASE, nproc=1).get(c["id"], {})
            return bool(res.get("fatal")) or res.get("answers") != b.truth
        except Exception:  # noqa
            return False
    r = case["recipe"]
    for field in ("devices", "unrelated", "controllers"):
        changed, rounds = True, 0
        while changed and rounds < 30:
            changed = False
            rounds += 1
            items = r["vm"][field]
            for i in reversed(range(len(items))):
                vm2 = dict(r["vm"], **{field: items[:i] + items[i + 1:]})
                if field == "devices":                        # keep controllers consistent with the remaining devices
                    have = {(d["cls"], d["bus"]) for d in vm2["devices"]}
                    vm2["controllers"] = [c for c in vm2["controllers"] if (c["cls"], c["bus"]) in have]
                c2 = dict(case, recipe=dict(r, vm=vm2))
                c2["queries"] = ["disks"] + (["dict"] + _render(c2["recipe"])[3] if r["fmt"] == "vmx" else [])
                if failing(c2):
                    r, case, changed = c2["recipe"], c2, True
                    break
    return case
