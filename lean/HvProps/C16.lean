/-
  C16 — ESXi envelope and keystore: decrypt round-trips and is authenticated.
  Model: Hv/Envelope.lean (over abstract crypto `Crypto`: SHA-256, PBKDF2, AES-GCM are parameters); lemmas: HvProofs/Envelope.lean.
-/
import HvProofs.Envelope
namespace Hv.C16
open Hv Hv.Envelope

/-! ### extracted constants / layouts / literals = the format's values -/

theorem block_size_spec : Extracted.envelope.ENVELOPE_BLOCK_SIZE = 4096 := by decide
theorem file_header_layout_spec :
    Extracted.envelope.EnvelopeFileHeader.size = 512 ∧ Extracted.envelope.EnvelopeFileHeader.magic = (0, 21) ∧
    Extracted.envelope.EnvelopeFileHeader.size_field = ⟨504, 4, false, 0, 32⟩ ∧
    Extracted.envelope.EnvelopeFileHeader.version = ⟨508, 4, false, 0, 32⟩ := by decide
theorem aead_footer_layout_spec :
    Extracted.envelope.DataTransformAeadFooter.size = 4096 ∧ Extracted.envelope.DataTransformAeadFooter.data = (32, 4056) ∧
    Extracted.envelope.DataTransformAeadFooter.size_field = ⟨4088, 4, false, 0, 32⟩ ∧
    Extracted.envelope.DataTransformAeadFooter.version = ⟨4092, 4, false, 0, 32⟩ := by decide
theorem crypto_footer_layout_spec :
    Extracted.envelope.DataTransformCryptoFooter.size = 512 ∧
    Extracted.envelope.DataTransformCryptoFooter.padding = ⟨504, 4, false, 0, 32⟩ := by decide
/-- b"DataTransformEnvelope", checked on read and written on re-serialisation -/
theorem file_magic_spec :
    Extracted.envelope.FILE_HEADER_MAGIC = [68, 97, 116, 97, 84, 114, 97, 110, 115, 102, 111, 114, 109, 69, 110, 118, 101, 108, 111, 112, 101] ∧
    Extracted.envelope.pack_header_bytes.contains Extracted.envelope.FILE_HEADER_MAGIC = true := by decide
/-- b"This is obfuscation, not encryption. If you want encryption, use TPM." -/
theorem pbkdf2_salt_spec :
    Extracted.envelope.PBKDF2_SALT = [84, 104, 105, 115, 32, 105, 115, 32, 111, 98, 102, 117, 115, 99, 97, 116, 105, 111, 110, 44, 32, 110, 111,
      116, 32, 101, 110, 99, 114, 121, 112, 116, 105, 111, 110, 46, 32, 73, 102, 32, 121, 111, 117, 32, 119, 97, 110, 116, 32, 101, 110, 99,
      114, 121, 112, 116, 105, 111, 110, 44, 32, 117, 115, 101, 32, 84, 80, 77, 46] := by decide
/-- ENVELOPE_ATTRIBUTE_TYPE_MAP as probed: (code, kind, width, signed); 1..4 unsigned 8..64, 5..8 signed 8..64, 9/10 IEEE, 11/12/0 → None -/
theorem attr_type_map_spec :
    Extracted.envelope.ATTR_TYPE_MAP = [(0, 0, 0, 0), (1, 1, 1, 0), (2, 1, 2, 0), (3, 1, 4, 0), (4, 1, 8, 0), (5, 1, 1, 1), (6, 1, 2, 1),
      (7, 1, 4, 1), (8, 1, 8, 1), (9, 2, 4, 0), (10, 2, 8, 0), (11, 0, 0, 0), (12, 0, 0, 0)] ∧
    Extracted.envelope.AttributeType_Invalid = 0 ∧ Extracted.envelope.AttributeType_String = 11 ∧
    Extracted.envelope.AttributeType_Bytes = 12 ∧ Extracted.envelope.AttributeType_width = 1 := by decide
/-! literals inside function bodies: the set of constants each anchored function uses contains the format's value, and
    the model constant picked out of that set is that value -/

/-- `Envelope.__init__`: version 2, AEAD footer version 1, two framing blocks; required attributes, IV attribute, the one cipher -/
theorem init_literals_spec :
    Extracted.envelope.init_ints.contains 2 = true ∧ Extracted.envelope.init_ints.contains 1 = true ∧
    ["vmware.keyInfo", "vmware.cipherName", "vmware.keyHash", "vmware.iv", "AES-256-GCM"].all Extracted.envelope.init_strs.contains = true ∧
    Extracted.envelope.init_utf8 = Extracted.envelope.init_strs.map (fun s => s.toUTF8.toList) ∧
    ENV_VERSION = 2 ∧ AEAD_VERSION = 1 ∧ N_FRAME_BLOCKS = 2 ∧
    nmKeyInfo = "vmware.keyInfo".toUTF8.toList ∧ nmCipher = "vmware.cipherName".toUTF8.toList ∧
    nmKeyHash = "vmware.keyHash".toUTF8.toList ∧ nmIv = "vmware.iv".toUTF8.toList ∧ CIPHER_GCM = "AES-256-GCM".toUTF8.toList := by
  decide +kernel
/-- `Envelope.decrypt`: `decrypted[-512:]`, `decrypted[: -4096 - footer.padding]`, cipher "AES-256-GCM" -/
theorem decrypt_literals_spec :
    Extracted.envelope.decrypt_ints.contains 512 = true ∧ Extracted.envelope.decrypt_ints.contains 4096 = true ∧
    Extracted.envelope.decrypt_strs.contains "AES-256-GCM" = true ∧
    DEC_TAIL = 512 ∧ DEC_STRIP = 4096 ∧ DEC_CIPHER_GCM = "AES-256-GCM".toUTF8.toList := by decide +kernel
/-- `KeyStore.__init__` / `from_text`: 100000 PBKDF2 rounds with SHA-256, the keys and separators they use -/
theorem keystore_literals_spec :
    Extracted.envelope.ks_init_ints.contains 100000 = true ∧
    ["mode", "NONE", "ConfigEncData", ":", "=", "keyId", "data1", "data2", "sha256"].all Extracted.envelope.ks_init_strs.contains = true ∧
    ["\n", "#", "=", " \"", "."].all Extracted.envelope.ks_from_text_strs.contains = true ∧
    ROUNDS = 100000 ∧ sMode = "mode".toList ∧ sNONE = "NONE".toList ∧ sConfigEncData = "ConfigEncData".toList ∧
    sKeyId = "keyId".toList ∧ sData1 = "data1".toList ∧ sData2 = "data2".toList ∧ kColon = ':' ∧ kEq2 = '=' ∧
    kNL = '\n' ∧ kHash = '#' ∧ kEq = '=' ∧ kDot = '.' ∧ kQuoteSet = [' ', '"'] := by decide +kernel
/-- two reserved bytes per attribute on read; 512 zero bytes and a 4-NUL terminator on write -/
theorem pack_literals_spec :
    Extracted.envelope.read_attrs_ints.contains 2 = true ∧ Extracted.envelope.pack_header_ints.contains 512 = true ∧
    Extracted.envelope.pack_attrs_ints.contains 4 = true ∧
    RESERVED = 2 ∧ PACK_ZEROS = 512 ∧ TERM = 4 ∧ PACK_MAGIC = Extracted.envelope.FILE_HEADER_MAGIC := by decide +kernel
/-- the value ranges used in `WFAttr` are those of the extracted widths / signedness -/
theorem int_ranges_spec :
    Extracted.envelope.ATTR_TYPE_MAP.all (fun r =>
      if r.2.1 = 1 then
        intRange r.1 == some (if r.2.2.2 = 1 then (-(2 ^ (8 * r.2.2.1 - 1) : Int), (2 ^ (8 * r.2.2.1 - 1) : Int)) else (0, (2 ^ (8 * r.2.2.1) : Int)))
      else intRange r.1 == none) = true := intRange_spec

/-! ### (1) attributes: read ∘ pack = id, and the re-serialised header is the stored one -/

/-- **attrs_roundtrip**: for every list of well-formed attributes (NUL-free valid-UTF-8 names, values in the range of
    their type — all twelve types, any flags, any order, any number) with distinct names, the reader applied to
    `_pack_attributes`' output (attributes, then the terminator, then anything) returns exactly that list. -/
theorem attrs_roundtrip (as : List Attr) (h : ∀ a ∈ as, WFAttr a) (hnd : (as.map (·.name)).Nodup) (fill : Bytes) :
    readAttrs (packAttrs as ++ fill) = .ok as := by
  have ht : TERM = 4 := by decide
  simp only [packAttrs, ht, List.append_assoc]
  exact readAttrs_pack as h hnd (zeros 3 ++ fill)

/-- **header_repack_identity**: a canonical header block `h` (what `_pack_envelope_header` writes for attributes that
    fit the block: file header, attributes, zero fill) is 4096 bytes, its attribute area parses back to the
    attributes, and therefore re-serialising what was parsed gives `h` again byte for byte — the associated data fed
    to AES-GCM is the stored header. -/
theorem header_repack_identity (as : List Attr) (h : ∀ a ∈ as, WFAttr a) (hnd : (as.map (·.name)).Nodup)
    (hfit : 512 + (packBody as).length + 4 ≤ 4096) :
    (packHeader as 2).length = 4096 ∧
    ∃ parsed, readAttrs (((packHeader as 2).take BLOCK).drop HDR) = .ok parsed ∧ packHeader parsed 2 = packHeader as 2 :=
  ⟨packHeader_length as 2 hfit, as, packHeader_reads_back as 2 h hnd hfit, rfl⟩

/-! ### (2) padding -/

/-- **padding_strip**: for every payload `p`, every padding length `k` (in particular `k = 0`), any padding bytes,
    any filler and any footer magic, the stripping in `decrypt` returns exactly `p` from
    `p ‖ pad(k) ‖ filler(3584) ‖ crypto footer(512, padding = k)`. -/
theorem padding_strip (p pad filler m : Bytes) (k : Nat) (hk : k < 2 ^ 32) (hpad : pad.length = k)
    (hfill : filler.length = 4096 - 512) (hm : m.length = 504) :
    stripPlain (p ++ pad ++ filler ++ cryptoFooter m k) = .ok p :=
  stripPlain_written p pad filler m k hk hpad hfill hm

/-- the `k = 0` instance spelled out: a block-aligned payload is returned whole, not emptied -/
theorem padding_zero_strip (p filler m : Bytes) (hfill : filler.length = 4096 - 512) (hm : m.length = 504) :
    stripPlain (p ++ filler ++ cryptoFooter m 0) = .ok p := by
  have := stripPlain_written p [] filler m 0 (by decide) rfl hfill hm
  simpa using this

/-! ### (3) fail closed -/

/-- **decrypt_fail_closed**: for every crypto, envelope, key and associated data — if the key-hash gate fails, or the
    envelope has no usable IV, or (with verification on) the tag computed over the data differs from the stored one,
    `decrypt` returns an error: no plaintext leaves the function. -/
theorem decrypt_fail_closed (c : Crypto) (e : Env) (key aad : Bytes)
    (h : Val.bytes (c.sha256 (e.cipherName ++ key)) ≠ e.keyHash ∨ ivOf e = none ∨
         ∀ iv, ivOf e = some iv → (c.gcm key iv (aadOf e aad) e.data).2 ≠ e.digest) :
    ∃ err, decrypt c e true key aad = .error err := by
  apply decrypt_error_of_not_ok
  intro out hok
  obtain ⟨hk, iv, hiv, -, -, -, hv⟩ := decrypt_ok hok
  rcases h with h | h | h
  · exact h hk
  · rw [h] at hiv; cases hiv
  · exact h iv hiv (hv rfl)

/-- the key-hash gate alone, with or without verification -/
theorem decrypt_wrong_key (c : Crypto) (e : Env) (verify : Bool) (key aad : Bytes)
    (h : Val.bytes (c.sha256 (e.cipherName ++ key)) ≠ e.keyHash) :
    ∃ err, decrypt c e verify key aad = .error err := by
  apply decrypt_error_of_not_ok
  intro out hok
  exact h (decrypt_ok hok).1

/-! ### (4) what the tag covers -/

/-- **aad_covers**: a successful verified `decrypt` means: the stored tag equals the tag the cipher computes over
    (re-serialised header ‖ caller AAD, ciphertext) under the given key and the envelope's IV, the key hashes to the
    stored key hash, and the result is the stripped decryption of exactly that ciphertext. -/
theorem aad_covers (c : Crypto) (e : Env) (key aad out : Bytes) (h : decrypt c e true key aad = .ok out) :
    ∃ iv, ivOf e = some iv ∧
      e.digest = (c.gcm key iv (packHeader e.attrs e.version ++ aad) e.data).2 ∧
      Val.bytes (c.sha256 (e.cipherName ++ key)) = e.keyHash ∧
      stripPlain (c.gcm key iv (packHeader e.attrs e.version ++ aad) e.data).1 = .ok out := by
  obtain ⟨hk, iv, hiv, -, -, hs, hv⟩ := decrypt_ok h
  exact ⟨iv, hiv, (hv rfl).symm, hk, hs⟩

/-! ### (5) key derivation -/

/-- **keystore_deterministic**: the model of `KeyStore.from_text` is a pure function, and when it succeeds the key is
    `pbkdf2(data1 ‖ PBKDF2_SALT, data2, 100000)` of the values the text stores and the id is the stored keyId — nothing
    else enters (no state, no earlier keystore). -/
theorem keystore_deterministic (c : Crypto) (text : Str) (kid key : Bytes) (h : keystore c text = .ok (kid, key)) :
    ∃ store s, parseStore text = .ok store ∧ storedOf store = .ok s ∧
      kid = s.keyId ∧ key = c.pbkdf2 (s.data1 ++ Extracted.envelope.PBKDF2_SALT) s.data2 100000 := by
  obtain ⟨store, s, h1, h2, h3, h4⟩ := keystore_ok h
  have hr : ROUNDS = 100000 := by decide
  exact ⟨store, s, h1, h2, h3, by rw [h4, hr]; rfl⟩

/-- two keystore texts that store the same (keyId, data1, data2) — whatever their spelling — give the same id and key -/
theorem keystore_same_stored_same_key (c : Crypto) (t1 t2 : Str) (st1 st2 : Dict) (s : Stored)
    (h1 : parseStore t1 = .ok st1) (h2 : parseStore t2 = .ok st2) (hs1 : storedOf st1 = .ok s) (hs2 : storedOf st2 = .ok s) :
    keystore c t1 = keystore c t2 := by
  simp only [keystore, h1, h2, hs1, hs2]

/-- a different `data2` (the PBKDF2 salt) is a different PBKDF2 call: the key is `pbkdf2` at exactly these arguments -/
theorem derive_uses_data2 (c : Crypto) (s : Stored) :
    deriveKey c s = c.pbkdf2 (s.data1 ++ SALT) s.data2 ROUNDS := rfl

/-! ### (6) the command-line tool -/

/-- **cli_writes_exactly**: what `envelope-decrypt` writes is the result of `Envelope(fh).decrypt(KeyStore.key)` with
    verification on and no associated data — nothing else, and nothing when any step fails. -/
theorem cli_writes_exactly (c : Crypto) (file : Bytes) (ks : Str) (out : Bytes) (h : cli c file ks = .ok out) :
    ∃ env kid key, openEnv file = .ok env ∧ keystore c (universalNewlines ks) = .ok (kid, key) ∧
      decrypt c env true key [] = .ok out := by
  unfold cli at h
  split at h
  · cases h
  rename_i env he
  split at h
  · cases h
  rename_i kid key hk
  exact ⟨env, kid, key, he, hk, h⟩

/-! ### (7) end to end -/

/-- **envelope_roundtrip**: take any well-formed attribute list (all types, any order) that fits the header block and
    holds the cipher name "AES-256-GCM", the key hash of `key`, a key info and a non-empty IV; any payload, padding
    length `k` with any padding bytes, filler, associated data, ciphertext and tag such that the cipher maps
    (key, iv, header ‖ aad, ciphertext) to (payload ‖ pad ‖ filler ‖ crypto footer, tag) — which is what AES-GCM
    decryption of the writer's output does. Then opening `header ‖ ciphertext ‖ AEAD footer` and decrypting with
    `key` and `aad` returns exactly the payload, with verification on. -/
theorem envelope_roundtrip (c : Crypto) (as : List Attr) (ci kh ia : Attr)
    (key iv aad payload pad filler fm am ct tag : Bytes) (k : Nat)
    (hwf : ∀ a ∈ as, WFAttr a) (hnd : (as.map (·.name)).Nodup) (hfit : 512 + (packBody as).length + 4 ≤ 4096)
    (hreq : REQUIRED.any (fun n => (getAttr as n).isNone) = false)
    (hci : getAttr as nmCipher = some ci) (hciv : ci.val = .str CIPHER_GCM)
    (hkh : getAttr as nmKeyHash = some kh) (hkhv : kh.val = .bytes (c.sha256 (CIPHER_GCM ++ key)))
    (hia : getAttr as nmIv = some ia) (hiav : ia.val = .bytes iv) (hiv : iv ≠ [])
    (hkey : aesKeyOk key = true)
    (hk : k < 2 ^ 32) (hpad : pad.length = k) (hfill : filler.length = 4096 - 512) (hfm : fm.length = 504)
    (ham : am.length = 32) (htag : tag.length ≤ 4056)
    (hgcm : c.gcm key iv (packHeader as 2 ++ aad) ct = (payload ++ pad ++ filler ++ cryptoFooter fm k, tag)) :
    ∃ e, openEnv (packHeader as 2 ++ ct ++ aeadFooter am tag) = .ok e ∧ decrypt c e true key aad = .ok payload := by
  refine ⟨_, openEnv_written as ct am tag ci kh hwf hnd hfit hreq hci hciv hkh ham htag, ?_⟩
  have hdc : DEC_CIPHER_GCM = CIPHER_GCM := by decide
  have hivo : ∀ e : Env, e.iv = (getAttr as nmIv).map (·.val) → ivOf e = some iv := by
    intro e he
    simp only [ivOf, he, hia, Option.map_some, hiav, if_neg hiv]
  have hsz : ¬ ((ct.length : Int) < 0) := by omega
  unfold decrypt
  rw [hivo _ rfl]
  simp only [hkhv, hdc, hkey, aadOf, hgcm, stripPlain_written payload pad filler fm k hk hpad hfill hfm, hsz]
  simp

/-! ### (8) the finite crypto table of the driver is enough -/

/-- **model_uses_listed_calls_only**: `decrypt` (and `keystore`) look at the crypto parameter only at the calls
    `decryptCalls` / `keystoreCalls` list: two crypto instances that agree on those calls give the same result. So the
    driver's finite table — the real libraries evaluated at exactly those calls — stands for the real libraries. -/
theorem model_uses_listed_calls_only (c1 c2 : Crypto) (e : Env) (verify : Bool) (key aad : Bytes) (text : Str) :
    ((∀ call ∈ decryptCalls c1 e key aad, agreesOn c1 c2 call) → decrypt c1 e verify key aad = decrypt c2 e verify key aad) ∧
    ((∀ call ∈ keystoreCalls text, agreesOn c1 c2 call) → keystore c1 text = keystore c2 text) :=
  ⟨decrypt_depends_on_calls c1 c2 e verify key aad, keystore_depends_on_calls c1 c2 text⟩

/-! ### non-vacuity -/

def exAttrs : List Attr :=
  [ ⟨nmIv, 12, 1, .bytes [1, 2, 3, 4, 5, 6, 7, 8, 9, 10, 11, 12]⟩,
    ⟨[117, 56], 1, 0, .int 255⟩, ⟨[105, 49, 54], 6, 128, .int (-32768)⟩, ⟨[117, 54, 52], 4, 0, .int 18446744073709551615⟩,
    ⟨nmKeyInfo, 11, 0, .str [107, 49]⟩,
    ⟨[102], 9, 0, .f32 0x3FC00000⟩, ⟨[100, 195, 169], 10, 7, .f64 0xC002000000000000⟩,
    ⟨nmCipher, 11, 0, .str CIPHER_GCM⟩,
    ⟨nmKeyHash, 12, 0, .bytes [9, 9]⟩, ⟨[], 7, 0, .int (-1)⟩ ]

/-- a toy instance of the crypto parameter (NOT a cipher): enough to make the hypotheses of `envelope_roundtrip` true -/
def exCrypto : Crypto where
  sha256 _ := [9, 9]
  pbkdf2 pw salt n := pw ++ salt ++ [UInt8.ofNat n]
  gcm _ _ aad ct := (ct.map (· + 1) ++ zeros 3584 ++ cryptoFooter (zeros 504) 0, [UInt8.ofNat aad.length])

theorem exAttrs_wf : ∀ a ∈ exAttrs, WFAttr a := by
  intro a ha
  simp only [exAttrs, List.mem_cons, List.not_mem_nil, or_false] at ha
  rcases ha with rfl | rfl | rfl | rfl | rfl | rfl | rfl | rfl | rfl | rfl
  · exact ⟨by decide, by decide, by decide, by decide⟩
  · exact ⟨by decide, by decide, ⟨0, 2 ^ 8, rfl, by decide, by decide⟩⟩
  · exact ⟨by decide, by decide, ⟨-(2 ^ 15), 2 ^ 15, rfl, by decide, by decide⟩⟩
  · exact ⟨by decide, by decide, ⟨0, 2 ^ 64, rfl, by decide, by decide⟩⟩
  · exact ⟨by decide, by decide, by decide, by decide, by decide⟩
  · exact ⟨by decide, by decide, by decide, by decide, by decide⟩
  · exact ⟨by decide, by decide, by decide, by decide⟩
  · exact ⟨by decide, by decide, by decide, by decide, by decide⟩
  · exact ⟨by decide, by decide, by decide, by decide⟩
  · exact ⟨by decide, by decide, ⟨-(2 ^ 31), 2 ^ 31, rfl, by decide, by decide⟩⟩

/-- the model really parses the packed attributes back (kernel evaluation, ten attributes of eight types) -/
example : readAttrs (packAttrs exAttrs ++ [7, 7, 7]) = .ok exAttrs := by decide +kernel

/-- the end-to-end theorem applies: payload [2, 3, 4] with padding 0 comes back from the written file -/
example : ∃ e, openEnv (packHeader exAttrs 2 ++ [1, 2, 3] ++ aeadFooter (zeros 32) [UInt8.ofNat (4096 + 2)]) = .ok e ∧
    decrypt exCrypto e true (zeros 32) [5, 6] = .ok [2, 3, 4] := by
  have h := envelope_roundtrip exCrypto exAttrs ⟨nmCipher, 11, 0, .str CIPHER_GCM⟩ ⟨nmKeyHash, 12, 0, .bytes [9, 9]⟩
    ⟨nmIv, 12, 1, .bytes [1, 2, 3, 4, 5, 6, 7, 8, 9, 10, 11, 12]⟩
    (zeros 32) [1, 2, 3, 4, 5, 6, 7, 8, 9, 10, 11, 12] [5, 6] [2, 3, 4] [] (zeros 3584) (zeros 504) (zeros 32) [1, 2, 3]
    [UInt8.ofNat (4096 + 2)] 0
    exAttrs_wf (by decide +kernel) (by decide +kernel) (by decide +kernel) (by decide +kernel) rfl (by decide +kernel) rfl
    (by decide +kernel) rfl (by decide +kernel) (by decide +kernel)
    (by decide +kernel) rfl (by decide +kernel) (by decide +kernel) (by decide +kernel) (by decide +kernel)
    (by
      have hl : (packHeader exAttrs 2 ++ [5, 6]).length = 4096 + 2 := by
        rw [List.length_append, packHeader_length exAttrs 2 (by decide +kernel)]; rfl
      simp only [exCrypto, hl]
      rfl)
  exact h

/-- fail-closed is not vacuous: a stored tag that differs in one byte is refused -/
def exEnv : Env :=
  { version := 2, attrs := [], cipherName := CIPHER_GCM, keyHash := .bytes [9, 9], iv := some (.bytes [1]),
    digest := [1], size := 0, data := [] }

example : ∃ err, decrypt exCrypto exEnv true (zeros 32) [] = .error err :=
  decrypt_fail_closed _ _ _ _ (Or.inr (Or.inr (by
    intro iv _
    show [UInt8.ofNat (aadOf exEnv []).length] ≠ [1]
    decide +kernel)))

/-- key derivation on a concrete keystore text: the PBKDF2 arguments are the stored values -/
example : keystoreCalls "mode = \"NONE\"\nConfigEncData = \"keyId=AAAAAAAAAAAAAAAAAAAAAA%3d%3d:data1=QUI%3d:data2=Qw%3D%3D\"".toList
    = [.pbkdf2 ([65, 66] ++ SALT) [67] 100000] := by decide +kernel

/-- known finding D27, machine-checked on the model of the code as it is: a float32 signalling NaN (0x7FA00001) is
    re-serialised with the quiet bit set (0x7FE00001), so it is outside `WFAttr` and the re-serialised header differs
    from the stored one -/
example : f32Repack 0x7FA00001 = 0x7FE00001 ∧ packVal 9 (.f32 0x7FA00001) ≠ leBytes 4 0x7FA00001 := by decide

end Hv.C16
