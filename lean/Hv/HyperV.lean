/-
  Hv.HyperV — model of dissect/hypervisor/descriptor/hyperv.py (HyperVFile.__init__, HyperVStorageReplayLog,
  HyperVStorageObjectTable, HyperVStorageKeyTable, HyperVStorageKeyTableEntry: key / data / value / parent /
  file_object_pointer / as_dict, HyperVStorageFileObject.read) and the specification side (abstract tree,
  value and entry encoders).  Mathlib-free (the driver imports it).

  Every struct layout, signature, enum value, mask and literal comes from `Hv.Extracted.hyperv` (regenerated
  from the live c_hyperv cstruct and the hyperv.py source on every run); `HvProps/C17.lean` equates them with
  the format's values.

  Modelled, not verified (tied by correspondence):
  * cstruct parsing (`EOFError` on a short buffer), `struct.unpack` on an exactly sized slice,
  * `list.sort(key=…, reverse=True)` = stable sort (here: stable insertion into the already sorted list),
  * `bytes.decode("utf-8")` / `bytes.decode("utf-16-le")` in strict mode = the validators below; a decoded
    `str` is represented by its UTF-8 bytes (keys) or its UTF-16 code units (values) — both are injective on
    valid input, so equality of the representations is equality of the strings,
  * doubles are carried as their 64-bit patterns (never as floats),
  * `dict` = association list in first-insertion order, later assignment replaces the value,
  * `fh.seek(n)` raises for `n ≥ 2^63` (OverflowError of the index conversion).
-/
import Hv.Prim.Layout
import Hv.Extracted
namespace Hv.HyperV
open Hv Hv.Extracted.hyperv

/-! ### constants (all from the extraction) -/

def HDR := HyperVStorageHeader.size
def LOG := HyperVStorageReplayLog.size
def LOGE := HyperVStorageReplayLogEntry.size
def OTH := HyperVStorageObjectTable.size
def OTE := HyperVStorageObjectTableEntry.size
def KTH := HyperVStorageKeyTable.size
def EH := HyperVStorageKeyTableEntryHeader.size

def VERSION : Nat := init_ints.getD 0 0                  -- `self.header.version != 0x400`
def FLAGS_MASK : Nat := flags_ints.getD 0 0              -- `(self.header.type & 0xFF00) >> 8`
def FLAGS_SHIFT : Nat := flags_ints.getD 1 0
def TYPE_MASK : Nat := type_ints.getD 0 0                -- `self.header.type & 0xFF`
def PTR_LEN : Nat := pointer_ints.getD 0 0               -- `data[:12]`
def KEY_TRIM : Nat := key_ints.getD 0 0                  -- `[: data_offset - 1]`
def FO_FLAG : Nat := FLAG_FileObjectPointer

/- ObjectEntryType / KeyDataType members by position (names and values are pinned by `_spec` theorems) -/
def otObjectTable : Nat := ObjectEntryType_values.getD 1 0
def otKeyTable : Nat := ObjectEntryType_values.getD 2 0
def otFile : Nat := ObjectEntryType_values.getD 3 0
def otReplayLog : Nat := ObjectEntryType_values.getD 6 0

def tFree : Nat := KeyDataType_values.getD 0 0
def tInt : Nat := KeyDataType_values.getD 2 0
def tUInt : Nat := KeyDataType_values.getD 3 0
def tDouble : Nat := KeyDataType_values.getD 4 0
def tString : Nat := KeyDataType_values.getD 5 0
def tArray : Nat := KeyDataType_values.getD 6 0
def tBool : Nat := KeyDataType_values.getD 7 0
def tNode : Nat := KeyDataType_values.getD 8 0

/-- the `struct` formats the code uses: (signed, width in bytes); little-endian throughout -/
def fmtSpec (s : String) : Option (Bool × Nat) :=
  if s = "<q" then some (true, 8) else if s = "<Q" then some (false, 8) else if s = "<d" then some (false, 8)
  else if s = "<I" then some (false, 4) else none

def fmtInt := fmtSpec (value_formats.getD 0 "")
def fmtUInt := fmtSpec (value_formats.getD 1 "")
def fmtDouble := fmtSpec (value_formats.getD 2 "")
def fmtLen := fmtSpec (value_formats.getD 3 "")
def fmtBool := fmtSpec (value_formats.getD 5 "")

/-! ### values and trees (specification objects) -/

inductive Value where
  | int (v : Int)            -- KeyDataType.Int: signed 64 bit
  | uint (v : Nat)           -- KeyDataType.UInt: unsigned 64 bit
  | double (bits : Nat)      -- KeyDataType.Double: the 64-bit pattern
  | str (units : List Nat)   -- KeyDataType.String: UTF-16 code units
  | bytes (b : Bytes)        -- KeyDataType.Array
  | bool (b : Bool)          -- KeyDataType.Bool
  deriving Repr, DecidableEq, Inhabited

/-- the key/value tree: keys are UTF-8 byte strings -/
inductive Tree where
  | node (children : List (Bytes × Tree))
  | leaf (v : Value)
  deriving Repr, Inhabited

/-! ### text codecs (strict) -/

def cont (b : UInt8) : Bool := 0x80 ≤ b && b ≤ 0xBF

/-- `bytes.decode("utf-8")` succeeds (strict: no overlong forms, no surrogates, ≤ U+10FFFF) -/
def validUtf8 : Bytes → Bool
  | [] => true
  | a :: r =>
    if a < 0x80 then validUtf8 r
    else if 0xC2 ≤ a && a ≤ 0xDF then
      match r with
      | b :: r => cont b && validUtf8 r
      | _ => false
    else if 0xE0 ≤ a && a ≤ 0xEF then
      match r with
      | b :: c :: r =>
        (if a = 0xE0 then 0xA0 ≤ b && b ≤ 0xBF else if a = 0xED then 0x80 ≤ b && b ≤ 0x9F else cont b) && cont c && validUtf8 r
      | _ => false
    else if 0xF0 ≤ a && a ≤ 0xF4 then
      match r with
      | b :: c :: d :: r =>
        (if a = 0xF0 then 0x90 ≤ b && b ≤ 0xBF else if a = 0xF4 then 0x80 ≤ b && b ≤ 0x8F else cont b) && cont c && cont d && validUtf8 r
      | _ => false
    else false

/-- little-endian 16-bit units; `none` for an odd number of bytes ("truncated data") -/
def unitsOf : Bytes → Option (List Nat)
  | [] => some []
  | [_] => none
  | a :: b :: r => (unitsOf r).map (fun us => (a.toNat + 256 * b.toNat) :: us)

def isHigh (u : Nat) : Bool := 0xD800 ≤ u && u < 0xDC00
def isLow (u : Nat) : Bool := 0xDC00 ≤ u && u < 0xE000

/-- surrogates come in (high, low) pairs -/
def validUnits : List Nat → Bool
  | [] => true
  | u :: r =>
    if isHigh u then
      match r with
      | l :: r' => isLow l && validUnits r'
      | [] => false
    else if isLow u then false
    else validUnits r

/-- `bytes.decode("utf-16-le")` -/
def decodeUtf16 (b : Bytes) : Except Err (List Nat) :=
  match unitsOf b with
  | none => .error .value
  | some us => if validUnits us then .ok us else .error .value

/-! ### value decoding (`HyperVStorageKeyTableEntry.value`) -/

/-- `struct.unpack(fmt, data[:n])[0]` for the single-field formats used: the slice must have exactly the
    format's width -/
def unpack (fmt : Option (Bool × Nat)) (n : Nat) (data : Bytes) : Except Err Int :=
  match fmt with
  | none => .error .other
  | some (signed, w) =>
    if (data.take n).length ≠ w then .error .value
    else if signed then .ok (toSigned (8 * w) (leNat (data.take n))) else .ok (leNat (data.take n) : Nat)

/- the slice bounds in `.value`, in source order: `data[:8]` ×3, `data[:4]`, `data[4 : 4 + data_len]`, `data[:4]` -/
def nInt : Nat := value_ints.getD 0 0
def nUInt : Nat := value_ints.getD 2 0
def nDouble : Nat := value_ints.getD 4 0
def nLen : Nat := value_ints.getD 6 0
def nSkip : Nat := value_ints.getD 8 0
def nSkip' : Nat := value_ints.getD 9 0
def nBool : Nat := value_ints.getD 10 0

/-- `.value` on the bytes `self.data`; `isFo` = the value lives in a file object (no length prefix) -/
def decodeValue (ty : Nat) (isFo : Bool) (data : Bytes) : Except Err Value :=
  if ty = tInt then (unpack fmtInt nInt data).map .int
  else if ty = tUInt then (unpack fmtUInt nUInt data).map (fun v => .uint v.toNat)
  else if ty = tDouble then (unpack fmtDouble nDouble data).map (fun v => .double v.toNat)
  else if ty = tString ∨ ty = tArray then
    (if isFo then .ok data
     else (unpack fmtLen nLen data).map (fun n => (data.drop nSkip).take (nSkip' + n.toNat - nSkip))) >>= fun body =>
    if ty = tString then (decodeUtf16 body).map .str else .ok (.bytes body)
  else if ty = tBool then (unpack fmtBool nBool data).map (fun v => .bool (v ≠ 0))
  else .error .other          -- TypeError("Unknown data type")

/-! ### key tables -/

/-- one integer field of a structure held in a buffer -/
def bfield (buf : Bytes) (fld : Field) : Nat := fld.decode ((buf.drop fld.off).take fld.width)

/-- `HyperVStorageKeyTableEntry`: its header fields and `raw` (= `table.raw[offset + 21 : offset + size]`) -/
structure Entry where
  offset : Nat
  typ : Nat            -- header.type (16 bits: flags in the high byte, KeyDataType in the low byte)
  size : Nat
  parentIdx : Nat
  parentOff : Nat
  dataOffset : Nat
  body : Bytes
  deriving Repr, DecidableEq, Inhabited

def Entry.kind (e : Entry) : Nat := e.typ &&& TYPE_MASK                          -- `type & 0xFF`
def Entry.flags (e : Entry) : Nat := (e.typ &&& FLAGS_MASK) >>> FLAGS_SHIFT      -- `(type & 0xFF00) >> 8`
def Entry.isFo (e : Entry) : Bool := e.flags &&& FO_FLAG ≠ 0                     -- `flags & FileObjectPointer`

/-- header at the front of `rest` (= `table.raw[offset:]`) -/
def parseEntry (rest : Bytes) (off : Nat) : Except Err Entry :=
  if (rest.take EH).length < EH then .error .eof else
  let h := rest.take EH
  let size := bfield h HyperVStorageKeyTableEntryHeader.size_field
  .ok { offset := off
        typ := bfield h HyperVStorageKeyTableEntryHeader.type
        size := size
        parentIdx := bfield h HyperVStorageKeyTableEntryHeader.parent_table_idx
        parentOff := bfield h HyperVStorageKeyTableEntryHeader.parent_offset
        dataOffset := bfield h HyperVStorageKeyTableEntryHeader.data_offset
        body := (rest.drop EH).take (size - EH) }

/-- the `while entry_offset < size` loop of `HyperVStorageKeyTable.__init__`; `rest = raw[off:]` -/
def walkEntries : Nat → Bytes → Nat → Nat → Except Err (List Entry)
  | 0, _, off, size => if off < size then .error .nonTermination else .ok []
  | fuel + 1, rest, off, size =>
    if ¬ off < size then .ok [] else
    match parseEntry rest off with
    | .error e => .error e
    | .ok e =>
      if e.size = 0 then .ok [] else
      match walkEntries fuel (rest.drop e.size) (off + e.size) size with
      | .error x => .error x
      | .ok es => .ok (e :: es)

structure KeyTable where
  index : Nat
  seq : Nat
  entries : List Entry
  deriving Repr, DecidableEq, Inhabited

/-- `HyperVStorageKeyTable.__init__` on `raw = fh.read(size)` -/
def parseKeyTable (raw : Bytes) (size : Nat) : Except Err KeyTable :=
  if raw.length < KTH then .error .eof else
  if bfield raw HyperVStorageKeyTable.signature ≠ SIGNATURE_KEY_TABLE_HEADER then .error .format else
  match walkEntries size (raw.drop KTH) KTH size with
  | .error e => .error e
  | .ok es => .ok { index := bfield raw HyperVStorageKeyTable.index, seq := bfield raw HyperVStorageKeyTable.sequence_number, entries := es }

/-- `append` followed by the stable `sort(key = sequence_number, reverse = True)` of an already sorted list -/
def insertBySeq (t : KeyTable) : List KeyTable → List KeyTable
  | [] => [t]
  | h :: r => if h.seq < t.seq then t :: h :: r else h :: insertBySeq t r

/-- `self.key_tables`: a dict (first-insertion order) index → tables by descending sequence number -/
def register (t : KeyTable) : List (Nat × List KeyTable) → List (Nat × List KeyTable)
  | [] => [(t.index, [t])]
  | (i, ts) :: r => if i = t.index then (i, insertBySeq t ts) :: r else (i, ts) :: register t r

/-! ### file header, replay log, object tables -/

structure Header where
  signature : Nat
  seq : Nat
  version : Nat
  replayLogOffset : Nat
  deriving Repr, DecidableEq, Inhabited

def parseHeader (f : File) (off : Nat) : Except Err Header :=
  f.field off HDR HyperVStorageHeader.signature >>= fun signature =>
  f.field off HDR HyperVStorageHeader.sequence_number >>= fun seq =>
  f.field off HDR HyperVStorageHeader.version >>= fun version =>
  f.field off HDR HyperVStorageHeader.replay_log_offset >>= fun replayLogOffset =>
  .ok { signature, seq, version, replayLogOffset }

/-- `header1 if header1.sequence_number > header2.sequence_number else header2` -/
def chooseHeader (h1 h2 : Header) : Header := if h1.seq > h2.seq then h1 else h2

/-- `HyperVStorageReplayLog.__init__`: header, signature, `num_entries` entries must be readable -/
def checkReplayLog (f : File) (off : Nat) : Except Err Unit :=
  f.field off LOG HyperVStorageReplayLog.signature >>= fun sig =>
  if sig ≠ SIGNATURE_REPLAY_LOG_HEADER then .error .format else
  f.field off LOG HyperVStorageReplayLog.num_entries >>= fun n =>
  if off + LOG + n * LOGE ≤ f.size then .ok () else .error .eof

structure ObjEntry where
  typ : Nat
  offset : Nat
  size : Nat
  allocated : Nat
  deriving Repr, DecidableEq, Inhabited

def objEntryAt (f : File) (base : Nat) : ObjEntry :=
  let b := slice f.byte base OTE
  { typ := bfield b HyperVStorageObjectTableEntry.type, offset := bfield b HyperVStorageObjectTableEntry.offset,
    size := bfield b HyperVStorageObjectTableEntry.size_field, allocated := bfield b HyperVStorageObjectTableEntry.allocated }

/-- `HyperVStorageObjectTable.__init__` -/
def loadObjectTable (f : File) (off : Nat) : Except Err (List ObjEntry) :=
  f.field off OTH HyperVStorageObjectTable.signature >>= fun sig =>
  if sig ≠ SIGNATURE_OBJECT_TABLE_HEADER then .error .format else
  f.field off OTH HyperVStorageObjectTable.num_entries >>= fun n =>
  if off + OTH + n * OTE ≤ f.size then .ok ((List.range n).map fun i => objEntryAt f (off + OTH + i * OTE))
  else .error .eof

/-- what `__init__` accumulates while walking the object tables -/
structure Reg where
  keyTables : List (Nat × List KeyTable) := []
  fileObjects : List (Nat × Nat) := []          -- offset ↦ size, newest first (a later entry replaces an earlier one)
  deriving Repr, Inhabited

/-- the state of the `for object_table in self.object_tables` iteration: offsets of all tables loaded so far
    (`self.object_tables`), the loaded-but-not-yet-visited tables, the registrations -/
structure Walk where
  visited : List Nat
  pending : List (List ObjEntry)
  reg : Reg

/-- `if entry.type == ObjectEntryType.ObjectTable and not any(table.offset == entry.offset …)`: load once per offset -/
def stepObj (f : File) (e : ObjEntry) (w : Walk) : Except Err Walk :=
  if e.typ = otObjectTable ∧ ¬ w.visited.contains e.offset then
    match loadObjectTable f e.offset with
    | .error x => .error x
    | .ok es => .ok { w with visited := w.visited ++ [e.offset], pending := w.pending ++ [es] }
  else .ok w

/-- the KeyTable / File / ReplayLog branches -/
def stepReg (f : File) (e : ObjEntry) (r : Reg) : Except Err Reg :=
  (if e.typ = otKeyTable then
     match parseKeyTable (f.read e.offset e.size) e.size with
     | .error x => .error x
     | .ok t => .ok { r with keyTables := register t r.keyTables }
   else .ok r) >>= fun r =>
  (if e.typ = otFile then .ok { r with fileObjects := (e.offset, e.size) :: r.fileObjects } else .ok r) >>= fun r =>
  if e.typ = otReplayLog then
    match checkReplayLog f e.offset with
    | .error x => .error x
    | .ok () => .ok r
  else .ok r

/-- body of the inner loop for one object-table entry -/
def stepEntry (f : File) (e : ObjEntry) (w : Walk) : Except Err Walk :=
  if e.allocated = 0 then .ok w else
  match stepObj f e w with
  | .error x => .error x
  | .ok w1 =>
    match stepReg f e w1.reg with
    | .error x => .error x
    | .ok r => .ok { w1 with reg := r }

def stepEntries (f : File) : List ObjEntry → Walk → Except Err Walk
  | [], w => .ok w
  | e :: es, w =>
    match stepEntry f e w with
    | .error x => .error x
    | .ok w' => stepEntries f es w'

/-- the outer loop: a list that grows while it is iterated = a FIFO of pending tables -/
def walkTables (f : File) : Nat → Walk → Except Err Reg
  | 0, w => match w.pending with | [] => .ok w.reg | _ :: _ => .error .nonTermination
  | fuel + 1, w =>
    match w.pending with
    | [] => .ok w.reg
    | es :: rest =>
      match stepEntries f es { w with pending := rest } with
      | .error x => .error x
      | .ok w' => walkTables f fuel w'

/-- fuel that suffices (`walk_terminates`): every loaded table has its own offset below the file size -/
def walkFuel (f : File) : Nat := f.size + 1

/-- `HyperVFile.__init__` up to and including the object-table loop -/
def load (f : File) : Except Err Reg :=
  parseHeader f FIRST_HEADER_OFFSET >>= fun h1 =>
  parseHeader f SECOND_HEADER_OFFSET >>= fun h2 =>
  let h := chooseHeader h1 h2
  if h.signature ≠ SIGNATURE_STORAGE_HEADER then .error .format else
  if h.version ≠ VERSION then .error .format else
  checkReplayLog f h.replayLogOffset >>= fun _ =>
  loadObjectTable f OBJECT_TABLE_OFFSET >>= fun es =>
  walkTables f (walkFuel f) { visited := [OBJECT_TABLE_OFFSET], pending := [es], reg := {} }

/-! ### linking (`self.root`, `entry.children`) -/

/-- an entry of an active table is identified by (table index, offset) -/
abbrev Ref := Nat × Nat

/-- `key_tables[idx][0]` -/
def activeTable (kts : List (Nat × List KeyTable)) (idx : Nat) : Option KeyTable :=
  match kts.lookup idx with
  | some (t :: _) => some t
  | _ => none

/-- `.parent`: `none` = root; KeyError when the table index or the offset is unknown -/
def parentOf (kts : List (Nat × List KeyTable)) (e : Entry) : Except Err (Option Ref) :=
  if e.parentIdx = 0 then .ok none else
  match activeTable kts e.parentIdx with
  | none => .error .index
  | some t => if t.entries.any (fun p => p.offset = e.parentOff) then .ok (some (e.parentIdx, e.parentOff)) else .error .index

/-- Python `b[:n - 1]` for `n ≥ 0` -/
def sliceTo (b : Bytes) (n : Nat) : Bytes := if n < KEY_TRIM then b.dropLast else b.take (n - KEY_TRIM)

/-- `.key`: `self.raw.tobytes()[: data_offset - 1].decode("utf-8")` -/
def keyOf (e : Entry) : Except Err Bytes :=
  let k := sliceTo e.body e.dataOffset
  if validUtf8 k then .ok k else .error .value

/-- one assignment `parent.children[key] = entry` / `self.root[key] = entry` -/
structure Link where
  parent : Option Ref
  key : Bytes
  idx : Nat
  entry : Entry
  deriving Repr, Inhabited

def linkEntries (kts : List (Nat × List KeyTable)) (idx : Nat) : List Entry → Except Err (List Link)
  | [] => .ok []
  | e :: es =>
    if e.kind = tFree then linkEntries kts idx es else
    match parentOf kts e with
    | .error x => .error x
    | .ok p =>
      match keyOf e with
      | .error x => .error x
      | .ok k =>
        match linkEntries kts idx es with
        | .error x => .error x
        | .ok ls => .ok ({ parent := p, key := k, idx, entry := e } :: ls)

/-- `for key_tables in self.key_tables.values(): active_table = key_tables[0]; for entry in active_table.entries` -/
def linkAll (kts : List (Nat × List KeyTable)) : List (Nat × List KeyTable) → Except Err (List Link)
  | [] => .ok []
  | (_, []) :: _ => .error .index
  | (i, t :: _) :: r =>
    match linkEntries kts i t.entries with
    | .error x => .error x
    | .ok a => match linkAll kts r with
      | .error x => .error x
      | .ok b => .ok (a ++ b)

/-- dict assignment: replace the value of an existing key, else append -/
def dictSet (k : Bytes) (v : Link) : List (Bytes × Link) → List (Bytes × Link)
  | [] => [(k, v)]
  | (k', v') :: r => if k' = k then (k, v) :: r else (k', v') :: dictSet k v r

/-- the `children` dict of `p` (or `self.root` for `none`) after all assignments -/
def childrenOf (links : List Link) (p : Option Ref) : List (Bytes × Link) :=
  (links.filter (fun l => l.parent = p)).foldl (fun d l => dictSet l.key l d) []

/-! ### values through file objects, `as_dict` -/

/-- `.data` -/
def entryData (f : File) (fos : List (Nat × Nat)) (e : Entry) : Except Err Bytes :=
  let d := e.body.drop e.dataOffset
  if e.isFo then
    if (d.take PTR_LEN).length ≠ PTR_LEN then .error .value else       -- struct.unpack("<IQ", data[:12])
    let size := leNat (d.take 4)
    let off := leNat ((d.drop 4).take 8)
    match fos.lookup off with
    | none => .error .value                                             -- "Unknown file object"
    | some osz => if off ≥ 2 ^ 63 then .error .value else .ok (f.read off (min size osz))
  else .ok d

def valueOf (f : File) (fos : List (Nat × Nat)) (e : Entry) : Except Err Value :=
  match entryData f fos e with
  | .error x => .error x
  | .ok d => decodeValue e.kind e.isFo d

def mapE {α β : Type} (g : α → Except Err β) : List α → Except Err (List β)
  | [] => .ok []
  | a :: r => match g a with
    | .error x => .error x
    | .ok b => match mapE g r with
      | .error x => .error x
      | .ok bs => .ok (b :: bs)

/-- `HyperVStorageKeyTableEntry.as_dict` for a Node, `.value` otherwise (the walk `as_dict` does below a Node) -/
def treeOf (f : File) (fos : List (Nat × Nat)) (links : List Link) : Nat → Link → Except Err Tree
  | 0, _ => .error .nonTermination
  | fuel + 1, l =>
    if l.entry.kind = tNode then
      match mapE (fun (kc : Bytes × Link) => match treeOf f fos links fuel kc.2 with
                    | .error x => .error x
                    | .ok t => .ok (kc.1, t)) (childrenOf links (some (l.idx, l.entry.offset))) with
      | .error x => .error x
      | .ok cs => .ok (.node cs)
    else match valueOf f fos l.entry with
      | .error x => .error x
      | .ok v => .ok (.leaf v)

structure Loaded where
  reg : Reg
  links : List Link

def openFile (f : File) : Except Err Loaded :=
  match load f with
  | .error x => .error x
  | .ok reg => match linkAll reg.keyTables reg.keyTables with
    | .error x => .error x
    | .ok links => .ok { reg, links }

/-- `HyperVFile(fh).as_dict()`: every root entry must be a Node -/
def asDict (f : File) : Except Err Tree :=
  match openFile f with
  | .error x => .error x
  | .ok L =>
    match mapE (fun (kc : Bytes × Link) =>
        if kc.2.entry.kind ≠ tNode then .error .other else            -- TypeError("can't be dumped as dictionary")
        match treeOf f L.reg.fileObjects L.links (L.links.length + 1) kc.2 with
        | .error x => .error x
        | .ok t => .ok (kc.1, t)) (childrenOf L.links none) with
    | .error x => .error x
    | .ok cs => .ok (.node cs)

/-- the typed walk of the harness: `.type` / `.value` / `.children` from `HyperVFile.root` down -/
def typedTree (f : File) : Except Err Tree :=
  match openFile f with
  | .error x => .error x
  | .ok L =>
    match mapE (fun (kc : Bytes × Link) =>
        match treeOf f L.reg.fileObjects L.links (L.links.length + 1) kc.2 with
        | .error x => .error x
        | .ok t => .ok (kc.1, t)) (childrenOf L.links none) with
    | .error x => .error x
    | .ok cs => .ok (.node cs)

/-! ### specification side: how values and entries are stored -/

def Value.typ : Value → Nat
  | .int _ => tInt | .uint _ => tUInt | .double _ => tDouble | .str _ => tString | .bytes _ => tArray | .bool _ => tBool

def unitsBytes (us : List Nat) : Bytes := us.flatMap (fun u => leBytes 2 u)

/-- the stored form of an inline value (strings and arrays carry a 32-bit length) -/
def encodeValue : Value → Bytes
  | .int v => leBytes 8 (v % (2 ^ 64 : Nat)).toNat
  | .uint v => leBytes 8 v
  | .double b => leBytes 8 b
  | .str us => leBytes 4 (2 * us.length) ++ unitsBytes us
  | .bytes b => leBytes 4 b.length ++ b
  | .bool b => leBytes 4 (if b then 1 else 0)

/-- the stored form of a value held in a file object (no length prefix; the pointer carries the size) -/
def encodeFoValue : Value → Bytes
  | .str us => unitsBytes us
  | .bytes b => b
  | v => encodeValue v

def Value.inRange : Value → Prop
  | .int v => -(2 ^ 63 : Int) ≤ v ∧ v < (2 ^ 63 : Int)
  | .uint v => v < 2 ^ 64
  | .double b => b < 2 ^ 64
  | .str us => (∀ u ∈ us, u < 2 ^ 16) ∧ validUnits us = true ∧ 2 * us.length < 2 ^ 32
  | .bytes b => b.length < 2 ^ 32
  | .bool _ => True

/-- a stored entry: 21-byte header ‖ key ‖ NUL ‖ value bytes (‖ slack); `typ` carries the flags byte -/
structure SEntry where
  typ : Nat
  pidx : Nat
  poff : Nat
  ck : Nat             -- checksum (not interpreted)
  ins : Nat            -- insertion sequence (not interpreted)
  doff : Nat           -- data_offset
  body : Bytes         -- everything after the header
  deriving Repr, DecidableEq, Inhabited

def SEntry.size (s : SEntry) : Nat := EH + s.body.length

def SEntry.encode (s : SEntry) : Bytes :=
  leBytes 2 s.typ ++ leBytes 4 s.size ++ leBytes 2 s.pidx ++ leBytes 4 s.poff ++ leBytes 4 s.ck ++ leBytes 4 s.ins
    ++ leBytes 1 s.doff ++ s.body

def SEntry.ok (s : SEntry) : Prop :=
  s.typ < 2 ^ 16 ∧ s.pidx < 2 ^ 16 ∧ s.poff < 2 ^ 32 ∧ s.doff < 2 ^ 8 ∧ s.size < 2 ^ 32

/-- a keyed entry: body = key ‖ NUL ‖ payload -/
def SEntry.keyed (typ pidx poff ck ins : Nat) (key payload : Bytes) : SEntry :=
  { typ, pidx, poff, ck, ins, doff := key.length + 1, body := key ++ [0] ++ payload }

/-- what the parser must return for a stored entry placed at `off` -/
def SEntry.parsed (s : SEntry) (off : Nat) : Entry :=
  { offset := off, typ := s.typ, size := s.size, parentIdx := s.pidx, parentOff := s.poff, dataOffset := s.doff, body := s.body }

def encodeEntries (ss : List SEntry) : Bytes := ss.flatMap SEntry.encode

def parsedFrom : List SEntry → Nat → List Entry
  | [], _ => []
  | s :: r, off => s.parsed off :: parsedFrom r (off + s.size)

def totalSize (ss : List SEntry) : Nat := (ss.map SEntry.size).sum

/-- key-table header ‖ entries -/
def encodeTable (index seq ck : Nat) (ss : List SEntry) : Bytes :=
  leBytes 2 SIGNATURE_KEY_TABLE_HEADER ++ leBytes 2 index ++ leBytes 2 seq ++ leBytes 4 ck ++ encodeEntries ss

end Hv.HyperV
