"""C06 — Parallels HDS reads. Independent writer per docs/interop/parallels.txt."""
from __future__ import annotations

import random
import struct

import core
from core import Built
from sparse import Image

PROPERTY = "C06"
RULE = ("seeded generator: format v1 (BAT in sectors) / v2 (BAT in clusters), cluster size 1..2048 sectors incl. non powers "
        "of two, BAT states, placement styles (self-indexed = the sparse-run/offset coincidence, packed, reversed, shuffled), "
        "size not a cluster multiple, v1 headers with arbitrary bytes in the unused upper half of the size field, optional parent "
        "chain (depth ≤ 3); requests: cluster-edge±1, multi-cluster, tail, full, random as one history. Second family (hdd): "
        ".hdd directories opened through HDD(path).open() — 2..5 storages mixing plain, v1 and v2 expanding images (images larger "
        "than their storage range, snapshot chains of depth ≤ 2), DiskDescriptor.xml listing the storages in any order (mostly not "
        "ascending by Start), requests straddling every storage boundary; fixed grid of 32 directories whose Plain image (first / last / "
        "every storage, or the plain root below an expanding snapshot layer) holds guest bytes that begin with the signature of an expanding "
        "image (signature only, a whole nested v1 / v2 image, one cut off by the end of the storage, a near miss): read as the file bytes. Non-trivial = model WF, both sparse and allocated "
        "clusters, a request spanning ≥ 2 clusters (hdd: ≥ 2 storages and a request crossing a storage boundary); distinct recipe hash.")
ASSUMPTIONS = ["dissect.util AlignedStream as transcribed", "cstruct uint32[] array = little-endian u32 list", "cached_property bat (file immutable)"]
TIMEOUT_CASE = 20.0

SIG1 = b"WithoutFreeSpace"
SIG2 = b"WithouFreSpacExt"


def gen_layer(rng, ver, spc, ncl, size_sectors, seed):
    cs = spc * 512
    hdr = 64 + 4 * ncl
    min_idx = (hdr + cs - 1) // cs
    p_sparse = rng.choice([0.2, 0.5, 0.8])
    states = [rng.random() >= p_sparse for _ in range(ncl)]
    style = rng.choice(["self", "self", "packed", "reversed", "shuffled"])
    alloc = [i for i, a in enumerate(states) if a]
    if style == "self":
        phys = {}
        used = set()
        nxt = max(ncl, min_idx)
        for i in alloc:
            if i >= min_idx:
                phys[i] = i
                used.add(i)
            else:
                phys[i] = nxt
                nxt += 1
    else:
        idxs = list(range(min_idx, min_idx + len(alloc)))
        if style == "reversed":
            idxs.reverse()
        elif style == "shuffled":
            idxs = rng.sample(range(min_idx, min_idx + 2 * len(alloc) + 1), len(alloc))
        phys = dict(zip(alloc, idxs))
    # v1 BAT entries are sector numbers: a data area need not start on a multiple of the cluster size
    skew = rng.randrange(1, spc) if (ver == 1 and spc > 1 and rng.random() < 0.4) else 0
    # v1 stores a 32-bit sector count at 0x24; the 4 bytes at 0x28 (the upper half of v2's 64-bit field) are unused by the format and
    # need not be zero (parallels.txt: "only the lowest 4 bytes are used"): whatever an older writer left there
    unused = rng.choice([0, 1, 0x80000000, 0xFFFFFFFF, rng.getrandbits(32), rng.getrandbits(32)]) if ver == 1 else 0
    return {"ver": ver, "spc": spc, "ncl": ncl, "size": size_sectors, "phys": {str(k): v for k, v in phys.items()}, "seed": seed, "skew": skew,
            "unused": unused}


def gen_recipe(rng, tier, big=False):
    ver = rng.choice([1, 2])
    spc = rng.choice([1, 1, 2, 8, 16, 63, 17, 128] + ([2048] if tier == "thorough" or big else []))
    ncl = rng.choice([700, 1500, 4300]) if big else rng.choice([1, 2, 2, 3, 4, 6, 10, 20])
    if big:
        spc = rng.choice([1, 2, 8])
    size = ncl * spc - (rng.randrange(spc) if rng.random() < 0.4 else 0)
    size = max(size, 1)
    ncl = (size + spc - 1) // spc + rng.choice([0, 0, 2])
    depth = rng.choice([1, 1, 1, 2, 3])
    layers = [gen_layer(rng, rng.choice([1, 2]) if k else ver, spc if rng.random() < 0.7 else rng.choice([1, 4, 8]), 0, 0, rng.randrange(256)) for k in range(depth)]
    out = []
    for k, l in enumerate(layers):
        lspc = l["spc"]
        lncl = (size + lspc - 1) // lspc + rng.choice([0, 1])
        out.append(gen_layer(rng, l["ver"], lspc, lncl, size, l["seed"]))
    return {"layers": out}     # base first, top last


def build_layer(l):
    spc, ncl = l["spc"], l["ncl"]
    cs = spc * 512
    im = Image()
    h = bytearray(64)
    h[0:16] = SIG1 if l["ver"] == 1 else SIG2
    struct.pack_into("<IIIII", h, 16, 2, 16, 1024, spc, ncl)
    if l["ver"] == 1:
        struct.pack_into("<II", h, 36, l["size"], l.get("unused", 0))
    else:
        struct.pack_into("<Q", h, 36, l["size"])
    struct.pack_into("<III", h, 44, 0, (64 + 4 * ncl + 511) // 512, 0)
    im.put_hex(0, bytes(h))
    bat = [0] * ncl
    loc = {}
    end = 64 + 4 * ncl
    for k, p in l["phys"].items():
        i = int(k)
        sk = l.get("skew", 0) if l["ver"] == 1 else 0
        off = p * cs + sk * 512
        bat[i] = p * spc + sk if l["ver"] == 1 else p
        loc[i] = off
        im.put_pat(off, cs, (l["seed"] + 13 * p) & 0xFF)
        end = max(end, off + cs)
    im.put_hex(64, b"".join(struct.pack("<I", e) for e in bat))
    im.finish(end)
    return im, loc


class Truth:
    def __init__(self, r):
        self.layers = []
        for l in r["layers"]:
            im, loc = build_layer(l)
            self.layers.append((l, im, loc))
        self.size = r["layers"][-1]["size"] * 512

    def read_layer(self, k, off, n):
        if k < 0:
            return bytes(n)
        l, im, loc = self.layers[k]
        cs = l["spc"] * 512
        out = []
        end = off + n
        while off < end:
            c, ino = divmod(off, cs)
            m = min(cs - ino, end - off)
            if c in loc:
                out.append(im.read_at(loc[c] + ino, m))
            else:
                out.append(self.read_layer(k - 1, off, m))
            off += m
        return b"".join(out)

    def read(self, off, n):
        return self.read_layer(len(self.layers) - 1, off, n)


def gen_queries(rng, r, n):
    top = r["layers"][-1]
    size = top["size"] * 512
    cs = top["spc"] * 512
    ncl = (size + cs - 1) // cs
    qs = []
    for _ in range(n):
        kind = rng.choice(["edge", "multi", "multi", "tail", "rand", "full", "small"])
        if kind == "edge":
            b = rng.randrange(ncl + 1) * cs
            off = max(0, b + rng.choice([-1, 0, 1, -rng.randrange(1, cs + 1)]))
            ln = rng.choice([1, 2, cs, cs + 1, 2 * cs, rng.randrange(1, 3 * cs + 2)])
        elif kind == "multi":
            c0 = rng.randrange(ncl)
            off = c0 * cs + rng.choice([0, 0, rng.randrange(cs)])
            ln = rng.randrange(1, (ncl - c0) * cs + 2)
        elif kind == "tail":
            off = max(0, size - rng.randrange(1, min(size, 2 * cs) + 1))
            ln = rng.choice([size - off, size - off + 1, size - off + 100000])
        elif kind == "full":
            off, ln = 0, size
        elif kind == "small":
            off = rng.randrange(size)
            ln = rng.randrange(0, 16)
        else:
            off = rng.randrange(size + 3)
            ln = rng.randrange(0, min(size, 100000) + 1)
        qs.append(["o", off, min(ln, 4 << 20)])
    return qs


def generate(seed, tier):
    rng = random.Random(f"C06/{seed}/{tier}")
    n = 240 if tier == "quick" else 3000
    cases = []
    for i in range(n):
        r = gen_recipe(rng, tier, big=(i % 25 == 3))
        align = rng.choice([8192] * 5 + [512, 512, 4096, 65536, 1 << 20, 1536])
        if tier == "quick" and align > 65536 and len(r["layers"]) > 1 and sum(l["ncl"] for l in r["layers"]) > 2000:
            # cost of the Lean model only: every parent request of a few sectors refills a 1 MiB stream buffer of the layer below, thousands
            # of clusters deep => the driver needs minutes (stall watchdog, the case and its neighbours lose their model verdict); thorough keeps it
            align = 65536
        cases.append({"id": f"g{i}", "recipe": r, "align": align, "queries": gen_queries(rng, r, 10 if tier == "quick" else 16)})
    # storage stitching (StorageStream, HDD.open): split disks read through the directory
    import gen_hdd
    hrng = random.Random(f"C06hdd/{seed}/{tier}")
    for i in range(40 if tier == "quick" else 500):
        r = gen_hdd.gen_recipe(hrng, tier, max_depth=2 if i % 5 == 4 else 1, nst=hrng.choice([2, 2, 3, 3, 4, 5]), disorder=0.85)
        t = gen_hdd.Truth(r)
        cases.append({"id": f"h{i}", "fam": "hdd", "recipe": r, "align": hrng.choice([8192] * 5 + [512, 4096, 65536]),
                      "queries": [["s", 0, 2]] + gen_hdd.gen_queries(hrng, t, 8 if tier == "quick" else 14)})
    cases += plain_head_cases(seed, tier)
    return cases


def plain_head_cases(seed, tier, tag="hp"):
    """Directed family (fixed grid, every run): a Plain image is the guest's disk byte for byte — also when the guest's first bytes
    are the signature of an expanding image (only the signature / a whole nested v1 or v2 image / one that is cut off by the end of
    the storage / a near miss), in the first, the last, a middle or every storage of a split disk, and as the plain root below an
    expanding snapshot layer. The descriptor's <Type> decides how an image is read; the requests start at every storage start."""
    import gen_hdd
    rng = random.Random(f"C06plainhead/{seed}/{tier}")
    grid = [(kind, where, 1) for kind in gen_hdd.PLAIN_HEADS for where in ("first", "last", "all")] + \
           [(kind, "middle", 2) for kind in gen_hdd.PLAIN_HEADS]
    if tier != "quick":
        grid = grid * 6
    cases = []
    for i, (kind, where, depth) in enumerate(grid):
        for attempt in range(60):
            r = gen_hdd.gen_recipe(rng, tier, max_depth=depth, min_depth=depth, nst=rng.choice([2, 3, 3, 4]), disorder=0.5, plain_head=(kind, where))
            heads = [(im, (s["end"] - s["start"] + im["extra"]) * 512) for s in r["storages"] for im in s["images"] if im.get("head")]
            fits = [len(gen_hdd.plain_head_bytes(im["head"])) <= n for im, n in heads]
            # a complete nested image fits into its storage, a cut one does not
            if kind.endswith("-cut") and not any(fits) or kind.startswith("hds") and not kind.endswith("-cut") and all(fits) or not kind.startswith("hds"):
                break
        t = gen_hdd.Truth(r)
        qs = [["s", 0, 2], ["o", 0, t.size]]
        for st in r["storages"]:
            a, e = st["start"] * 512, st["end"] * 512
            qs += [["o", a, rng.choice([16, 64, 512, 4096])], ["o", max(0, a - rng.choice([1, 512])), rng.choice([700, e - a + 513])]]
        cases.append({"id": f"{tag}{i}", "fam": "hdd", "recipe": r, "align": [8192, 8192, 512, 4096, 65536][i % 5],
                      "queries": qs + gen_hdd.gen_queries(rng, t, 4)})
    return cases


def group_by_env(cases):
    by = {}
    for c in cases:
        by.setdefault(c.get("align", 8192), []).append(c)
    return [({"DISSECT_STREAM_BUFFER_SIZE": a}, cs) for a, cs in sorted(by.items())]


def build_hdd(case):
    import gen_hdd
    r = case["recipe"]
    t = gen_hdd.Truth(r)
    truth = core.truth_ops(t.size, t.read, case["queries"])
    bounds = sorted({s["start"] * 512 for s in r["storages"]})
    crosses = any(q[0] == "o" and any(q[1] < b < q[1] + q[2] for b in bounds[1:]) for q in case["queries"])
    ids = {name: f"f{k}" for k, name in enumerate(t.files)}
    toks = []
    for tok in t.storage_tokens():
        a, e, kind, names = tok.split(":", 3)
        names = "+".join(("raw=" + ids[n[4:]]) if n.startswith("raw=") else ids[n] for n in names.split("+"))
        toks.append(f"{a}:{e}:{kind}:{names}")
    kinds = sorted({("plain" if l[0] == "P" else f"v{l[1]['layer']['ver']}") for _, ls in t.st for l in ls})
    order = r["xml_order"]
    heads = sorted({"plain-starts-with-" + im["head"]["kind"] for s in r["storages"] for im in s["images"] if im.get("head")})
    b = Built({ids[n]: im for n, im in t.files.items()}, truth,
              {"branches": ["hdd"] + kinds + heads + (["xml-unordered"] if order != sorted(order) else []) + ([f"depth{len(r['chain'])}"] if len(r["chain"]) > 1 else []),
               "crosses": crosses, "in_scope": True, "n": len(r["storages"]), "tokens": toks})
    b.t = t
    return b


def build(case):
    if case.get("fam") == "hdd":
        return build_hdd(case)
    r = case["recipe"]
    t = Truth(r)
    files = {f"l{k}": im for k, (_, im, _) in enumerate(t.layers)}
    truth = core.truth_ops(t.size, t.read, case["queries"])
    top, _, loc = t.layers[-1]
    cs = top["spc"] * 512
    nneed = (t.size + cs - 1) // cs
    states = {("a" if c in loc else "s") for c in range(nneed)}
    coincidence = any((c in loc) and c > 0 and all((j not in loc) for j in range(c)) and loc[c] == c * cs for c in range(nneed))
    branches = sorted(states) + [f"v{top['ver']}"] + (["coincidence"] if coincidence else []) + ([f"depth{len(t.layers)}"] if len(t.layers) > 1 else [])
    crosses = any(q[2] > 0 and q[1] < t.size and q[1] // cs != (min(q[1] + q[2], t.size) - 1) // cs for q in case["queries"])
    return Built(files, truth, {"branches": branches, "crosses": crosses, "in_scope": True})


def impl_run(case, built):
    if case.get("fam") == "hdd":
        import os
        import shutil
        import tempfile
        from pathlib import Path

        from dissect.hypervisor.disk.hdd import HDD
        tmp = tempfile.mkdtemp(prefix="hvc06.")
        try:
            d = os.path.join(tmp, "x.pvm", "x.hdd")
            built.t.write_dir(d)
            s = HDD(Path(d)).open()
            if s.align != case["align"]:
                raise RuntimeError(f"stream align {s.align} != case align {case['align']}")
            return core.impl_ops(s, case["queries"])
        finally:
            shutil.rmtree(tmp, ignore_errors=True)
    from dissect.hypervisor.disk.hdd import HDS
    stream = None
    for k in range(len(built.files)):
        stream = HDS(built.files[f"l{k}"].open(), parent=stream)
    if stream.align != case["align"]:
        raise RuntimeError(f"stream align {stream.align} != case align {case['align']}")
    return core.impl_ops(stream, case["queries"])


def model_lines(case, built):
    if case.get("fam") == "hdd":
        st = built.info["tokens"]
        return core.file_lines(built.files) + [f"hdd.stream {case['align']} {len(st)} " + " ".join(st) + " " + " ".join(core.op_tokens(case["queries"]))]
    ids = [f"l{k}" for k in range(len(built.files))]
    return core.file_lines(built.files) + [f"hds.open {case['align']} " + " ".join(ids),
                                           f"hds.stream {case['align']} {len(ids)} " + " ".join(ids) + " " + " ".join(core.op_tokens(case["queries"]))]


def model_parse(case, built, out):
    if case.get("fam") == "hdd":
        ans = core.parse_stream_answer(out[0]) if out else None
        return {"answers": ans, "wf": ans is not None and ans != ["E"]}
    wf = ("wf=1" in out[0]) if out and out[0].startswith("ok") else None
    return {"answers": core.parse_stream_answer(out[1]) if len(out) > 1 else None, "wf": wf, "open": out[0] if out else None}


def nontrivial(case, built, model):
    if case.get("fam") == "hdd":
        return bool(model.get("wf")) and built.info["n"] >= 2 and built.info["crosses"]
    b = built.info["branches"]
    return bool(model.get("wf")) and built.info["crosses"] and "a" in b and "s" in b


def search(seed, broken, budget):
    rng = random.Random(f"C06/search/{seed}")
    cases = []
    for i in range(min(budget, 1500)):
        r = gen_recipe(rng, "quick")
        cases.append({"id": f"s{i}", "recipe": r, "align": rng.choice([8192, 512, 65536]), "queries": gen_queries(rng, r, 12)})
    import gen_hdd
    for i in range(min(budget // 8, 200)):
        r = gen_hdd.gen_recipe(rng, "quick", max_depth=2, nst=rng.choice([2, 3, 4]), disorder=0.85)
        cases.append({"id": f"sh{i}", "fam": "hdd", "recipe": r, "align": rng.choice([8192, 512, 65536]),
                      "queries": [["s", 0, 2]] + gen_hdd.gen_queries(rng, gen_hdd.Truth(r), 10)})
    cases += plain_head_cases(seed + 1000, "quick", tag="shp")
    return cases


# ---- adapters used by C08 / C13 (fam "hdd": a split disk opened through its directory, C08)
def open_impl(case, built):
    if case.get("fam") == "hdd":
        import os
        import shutil
        import tempfile
        from pathlib import Path

        from dissect.hypervisor.disk.hdd import HDD
        tmp = tempfile.mkdtemp(prefix="hvc06.")
        try:
            d = os.path.join(tmp, "x.pvm", "x.hdd")
            built.t.write_dir(d)
            return HDD(Path(d)).open()          # every image file is open when this returns
        finally:
            shutil.rmtree(tmp, ignore_errors=True)
    from dissect.hypervisor.disk.hdd import HDS
    stream = None
    for k in range(len(built.files)):
        stream = HDS(built.files[f"l{k}"].open(), parent=stream)
    return stream


def stream_prefix(case, built):
    if case.get("fam") == "hdd":
        st = built.info["tokens"]
        return f"hdd.stream {case['align']} {len(st)} " + " ".join(st)
    ids = [f"l{k}" for k in range(len(built.files))]
    return f"hds.stream {case['align']} {len(ids)} " + " ".join(ids)


def open_line(case, built):
    if case.get("fam") == "hdd":
        # wf = the hypotheses of storage_concat_read_any_order (HvProps/C10.lean) hold for this directory
        st = built.info["tokens"]
        return f"hdd.concatcheck {case['align']} {len(st)} " + " ".join(st)
    ids = [f"l{k}" for k in range(len(built.files))]
    return f"hds.open {case['align']} " + " ".join(ids)


def truth_reader(case):
    if case.get("fam") == "hdd":
        import gen_hdd
        t = gen_hdd.Truth(case["recipe"])
        return t.size, t.read, 512
    t = Truth(case["recipe"])
    return t.size, t.read, 512
