"""gen_vmx — independent sealer for encrypted VMware VMX files (property C15).

Format knowledge hard-coded here (nothing is imported from dissect.hypervisor except inside impl_unlock):
  .vmx            lines `key = "value"`; an encrypted one carries encryption.keySafe and encryption.data
  keySafe         vmware:key/list/(PAIR,PAIR,...)        PAIR = pair/(LOCATOR,esc(mac name),esc(base64(blob)))
  LOCATOR         phrase/esc(id)/esc(pass2key=esc(kdf):cipher=esc(c):rounds=esc(n):salt=esc(base64(salt)))   (salt is escaped twice)
  blob            IV(16) || AES-CBC(key, PKCS#7(plain)) || HMAC(key, plain)[:mac size]
  pair blob       key = PBKDF2(kdf hash, utf8(passphrase), salt, rounds, key size of the locator cipher),
                  plain = type=key:cipher=esc(data cipher):key=esc(base64(data key))
  encryption.data base64(blob) with key = data key, MAC = the MAC named in the pair that was opened, plain = hidden .vmx text (UTF-8)
Primitives (AES, HMAC, PBKDF2) come from pycryptodome / hashlib / hmac and are trusted.

Wrong keys that look right: a blob decrypted under a wrong key ends in valid PKCS#7 padding for about 1 in 256 blobs; for such
a blob the MAC is the only thing that tells the wrong key from the right one. `force_pad_collision` searches (deterministically)
a salt / IV for which a chosen pair (or the configuration blob) pads validly under a chosen *wrong* key; the recipe records
what was forced (`forced`) and `build` re-checks it with its own decryption (`padvalid`).

Public: gen_recipe, build, impl_unlock, tamper, wrong_phrases, parse_dictionary, force_pad_collision, pads_validly, selftest.
"""
from __future__ import annotations

import base64
import hashlib
import hmac
import json
import random
import sys

CIPHERS = {"AES-128": 16, "AES-192": 24, "AES-256": 32}
MACS = {"HMAC-SHA-1": ("sha1", 20), "HMAC-SHA-1-128": ("sha1", 16), "HMAC-SHA-256": ("sha256", 32)}
KDFS = {"PBKDF2-HMAC-SHA-1": "sha1", "PBKDF2-HMAC-SHA-256": "sha256"}
COMBOS = [(c, m, k) for c in CIPHERS for m in MACS for k in KDFS]           # 18
FIELDS = ("wrapped", "data", "salt")
_MUST = set(b'%/(),:="')          # structural characters of the locator grammar (+ the .vmx quote)
_STD = set(b"_.-~")


# --------------------------------------------------------------------------- encodings

def _b64(b: bytes) -> str:
    return base64.b64encode(b).decode("ascii")


def _esc(s: str, style: str, upper: bool) -> str:
    """percent-encoding of the UTF-8 bytes. all: everything but [0-9A-Za-z] (what VMware writes);
    std: RFC 3986 unreserved kept; min: only structural characters, blanks, controls and non-ASCII."""
    out = []
    for b in s.encode("utf-8"):
        alnum = 48 <= b <= 57 or 65 <= b <= 90 or 97 <= b <= 122
        keep = alnum if style == "all" else (alnum or b in _STD) if style == "std" else (0x21 <= b <= 0x7E and b not in _MUST)
        out.append(chr(b) if keep else ("%%%02X" if upper else "%%%02x") % b)
    return "".join(out)


def _unesc(s: str) -> str:
    out, i = bytearray(), 0
    while i < len(s):
        if s[i] == "%":
            out.append(int(s[i + 1:i + 3], 16))
            i += 3
        else:
            out += s[i].encode("utf-8")
            i += 1
    return out.decode("utf-8")


def _seal(key: bytes, iv: bytes, plain: bytes, mac: str) -> bytes:
    from Crypto.Cipher import AES
    name, size = MACS[mac]
    pad = 16 - len(plain) % 16                       # PKCS#7: 1..16 bytes, a whole block when already aligned
    ct = AES.new(key, AES.MODE_CBC, iv=iv).encrypt(plain + bytes([pad]) * pad)
    return iv + ct + hmac.new(key, plain, name).digest()[:size]


def pads_validly(key: bytes, blob: bytes, mac: str) -> bool:
    """does `blob` (IV || ciphertext || MAC of the size `mac` names), decrypted under `key`, end in valid PKCS#7 padding?
    (true for the right key by construction; true for a wrong key for ~1/256 of all blobs)"""
    from Crypto.Cipher import AES
    ct = blob[16:len(blob) - MACS[mac][1]]
    if len(blob) < 16 + MACS[mac][1] or not ct or len(ct) % 16:
        return False
    d = AES.new(key, AES.MODE_CBC, iv=blob[:16]).decrypt(ct)
    return 1 <= d[-1] <= 16 and d[-d[-1]:] == bytes([d[-1]]) * d[-1]


# --------------------------------------------------------------------------- .vmx dictionary text

def _trim(s: str, drop) -> str:
    a, b = 0, len(s)
    while a < b and drop(s[a]):
        a += 1
    while b > a and drop(s[b - 1]):
        b -= 1
    return s[a:b]


def parse_dictionary(text: str) -> dict:
    """independent statement of the .vmx dictionary syntax: LF-separated lines, blanks and #-lines ignored, key up to the
    first '=', keys case-folded, blanks and double quotes peeled off both ends of the value; the last duplicate wins."""
    out = {}
    for raw in text.split("\n"):
        ln = _trim(raw, str.isspace)
        if ln == "" or ln[0] == "#":
            continue
        i = ln.find("=")
        k, v = (ln, "") if i < 0 else (ln[:i], ln[i + 1:])
        out[_trim(k, str.isspace).lower()] = _trim(v, lambda c: c == " " or c == '"')
    return out


def _line(it: dict) -> str:
    if "c" in it:
        return it["c"]
    v = '"' + it["v"] + '"' if it.get("q", True) else it["v"]
    return it.get("l", "") + it["k"] + it.get("s", " = ") + v + it.get("t", "")


_KEYS = ["displayName", "guestOS", "memsize", "numvcpus", "scsi0.present", "scsi0:0.fileName", "scsi0:0.deviceType",
         "ide1:0.fileName", "nvme0:1.fileName", "sata0:0.present", "ethernet0.addressType", "uuid.bios", "dataFileKey",
         "annotation", "virtualHW.version", "config.version", "vmci0.present", "tools.syncTime", "my key", "Schlüssel", "İd"]
_VALS = ["TRUE", "FALSE", "disk 1.vmdk", "windows9-64", "4096", "a=b=c", 'say "hi" now', "C:\\VMs\\x y\\d.vmdk", "56 4d 12 ab-ff",
         "", " padded ", '"', '""x""', "#notcomment", "käse-日本 🔑", "x|0Ay", "type=key:cipher=AES-256:key=abc%3d", "100%",
         "tab\there", "'single'", "= lead", "trail =", "\u2028sep", "other-0.vmdk", "disk", "cdrom-image"]
_ALPHA = "abcdefXYZ019.:_- \"'=#%/(),é日\t\\"


def _gen_items(rng, n: int, avoid=()) -> list:
    items = []
    while len(items) < n:
        r = rng.random()
        if r < 0.10:
            items.append({"c": rng.choice(["", "   ", "\t", "\x0c", "\r"])})
        elif r < 0.22:
            items.append({"c": rng.choice(["#", "# a comment", "  # indented", "#key = \"value\"", "#!/usr/bin/vmware", "\t#x=y"])})
        elif r < 0.27:
            items.append({"c": rng.choice(["lonelykey", " NoEquals here ", "FLAG\r"])})
        else:
            k = rng.choice(_KEYS)
            if rng.random() < 0.25:
                k = "".join(rng.choice(_ALPHA) for _ in range(rng.randint(1, 12))).replace("=", "e").replace("#", "h")
                k = k.strip() or "k"
            k = rng.choice([k, k, k.upper(), k.lower(), k.swapcase()])
            if k.lower() in avoid or k.lower() != k.lower().strip():
                continue
            v = rng.choice(_VALS) if rng.random() < 0.7 else "".join(rng.choice(_ALPHA) for _ in range(rng.randint(0, 40)))
            it = {"k": k, "v": v}
            if rng.random() < 0.2:
                it["q"] = False
            if rng.random() < 0.4:
                it["s"] = rng.choice(["=", " =", "= ", "\t=\t", "  =  ", " = "])
            if rng.random() < 0.2:
                it["l"] = rng.choice([" ", "\t", "   "])
            if rng.random() < 0.3:
                it["t"] = rng.choice([" ", "\t", "\r", " \r", "\x0c", "\u2028"])
            items.append(it)
    return items


def _hidden_text(r: dict) -> str:
    body = "".join(_line(it) + "\n" for it in r["hidden"])
    if body and not r.get("final_nl", True):
        body = body[:-1]
    tail = r.get("tail", "")
    if r.get("len_mod16") is not None:             # filler comment so that the UTF-8 length hits the wanted residue
        k = (r["len_mod16"] - len(body.encode("utf-8")) - len(tail.encode("utf-8"))) % 16
        body += "" if k == 0 else "\n" if k == 1 else "\n#" + "~" * (k - 2)
    return body + tail


# --------------------------------------------------------------------------- recipes

_PHRASES = ["password", "correct horse battery staple", "pässwörd", "密码 🔑", "a/b(c),d:e=f%g", " lead and trail ", "P@ss\"w'ord",
            "x" * 100, "tab\tnl\n", "%41", "Ω", "p", "1234567890123456"]
_TAILS = ["", "", "", "\n", "\t", "\r\n", "\n#\x01", "\n#\x10", "\n#\x0f", "\n#\x00", "\n\x0b", "\n \x0c", "\n#\x11"]


def _gen_phrase(rng, taken) -> str:
    while True:
        p = rng.choice(_PHRASES) if rng.random() < 0.6 else "".join(rng.choice(_ALPHA + "ßΩ🔑") for _ in range(rng.randint(0, 24)))
        if p not in taken:                          # never NUL: HMAC zero-pads keys, so "p" and "p\0" are the same PBKDF2 password
            return p


def _gen_pair(rng, combo, big, taken, key_hex=None) -> dict:
    cipher, mac, kdf = combo
    x = rng.random()
    rounds = 1 if x < 0.1 else rng.randint(2, 60) if x < 0.72 else rng.randint(61, 5000) if x < (0.9 if big else 0.97) else rng.randint(5001, 50000)
    kc = cipher if rng.random() < 0.7 else rng.choice(list(CIPHERS))
    x = rng.random()
    pid = _b64(rng.randbytes(8)) if x < 0.6 else rng.choice(["", "id/with(reserved),chars:=%", "schlüssel №1", "a b", "phrase", "日本"])
    p = {"passphrase": _gen_phrase(rng, taken), "phrase_id": pid, "cipher": cipher, "mac": mac, "kdf": kdf, "rounds": rounds,
         "salt": rng.randbytes(rng.choice([0, 1, 8, 16, 16, 16, 32, 64, rng.randint(0, 64)])).hex(), "iv": rng.randbytes(16).hex(),
         "key_cipher": kc, "key": key_hex or rng.randbytes(CIPHERS[kc]).hex(), "order": rng.sample(range(4), 4) if rng.random() < 0.3 else [0, 1, 2, 3]}
    if key_hex:
        p["key_cipher"] = {v: k for k, v in CIPHERS.items()}[len(key_hex) // 2]
    taken.add(p["passphrase"])
    return p


def gen_recipe(rng: random.Random, tier: str = "quick", combo=None, npairs=None, pos=None) -> dict:
    """npairs / pos: number of pairs in the key safe and the position of the pair the configuration is sealed for (default: drawn)"""
    big = tier != "quick"
    taken: set = set()
    main = _gen_pair(rng, combo or rng.choice(COMBOS), big, taken)
    pairs = [main]
    for _ in range(rng.choice([0, 0, 0, 1, 1, 2, 3]) if npairs is None else npairs - 1):
        pairs.append(_gen_pair(rng, rng.choice(COMBOS), False, taken, key_hex=main["key"] if rng.random() < 0.6 else None))
    pos = rng.randrange(len(pairs)) if pos is None else pos
    pairs[0], pairs[pos] = pairs[pos], pairs[0]
    x = rng.random()
    nh = 0 if x < 0.08 else rng.randint(1, 12) if x < (0.6 if big else 0.85) else rng.randint(13, 60)
    visible = _gen_items(rng, rng.randint(0, 8), avoid=("encryption.keysafe", "encryption.data"))
    if rng.random() < 0.7:
        visible.insert(0, {"k": ".encoding", "v": "UTF-8"})
    at = sorted(rng.randint(0, len(visible)) for _ in range(2))
    return {"pairs": pairs, "pos": pos, "data_iv": rng.randbytes(16).hex(),
            "hidden": _gen_items(rng, nh), "final_nl": rng.random() < 0.8, "tail": rng.choice(_TAILS),
            "len_mod16": rng.choice([0, 0, 15, 15, 1, 8, 14, 2]) if rng.random() < 0.6 else None,
            "visible": visible, "enc_at": at, "ks_first": rng.random() < 0.7,
            "ks_key": rng.choice(["encryption.keySafe"] * 3 + ["encryption.keysafe", "ENCRYPTION.KEYSAFE"]),
            "data_key": rng.choice(["encryption.data"] * 3 + ["Encryption.Data"]), "enc_quote": rng.random() < 0.85,
            "eol": rng.choice(["\n", "\n", "\r\n"]),
            "esc": {"outer": rng.choice(["all", "all", "std", "min"]), "inner": rng.choice(["all", "min", "min", "std"]), "upper": rng.random() < 0.3}}


# --------------------------------------------------------------------------- wrong keys that pad validly

def _wrong_key(r: dict, victim, under) -> bytes:
    """the wrong key `under` stands for, as the reader will compute it when it tries `victim`:
    victim = pair index: the key pair `victim`'s locator derives from the passphrase of pair `under` (or from {"phrase": w});
    victim = "data": the data key carried by pair `under` (which must differ from the key the configuration is sealed with)"""
    if victim == "data":
        return bytes.fromhex(r["pairs"][under]["key"])
    pw = under["phrase"] if isinstance(under, dict) else r["pairs"][under]["passphrase"]
    return _kek(r["pairs"][victim], pw)


def _victim_blob(r: dict, victim):
    """-> (blob, MAC name the reader splits it with)"""
    if victim == "data":
        main = r["pairs"][r["pos"]]
        return _seal(bytes.fromhex(main["key"]), bytes.fromhex(r["data_iv"]), _hidden_text(r).encode("utf-8"), main["mac"]), None
    p = r["pairs"][victim]
    e = r["esc"]
    return _pair_blob(p, lambda s: _esc(s, e["inner"], e["upper"]))[0], p["mac"]


def collides(r: dict, victim, under) -> bool:
    """independent check: does `victim`'s blob end in valid PKCS#7 padding under the wrong key `under` stands for?"""
    blob, mac = _victim_blob(r, victim)
    if victim == "data":
        mac = r["pairs"][under]["mac"]              # the reader splits the configuration blob with the MAC of the pair it opened
        if r["pairs"][under]["key"] == r["pairs"][r["pos"]]["key"]:
            raise ValueError("the pair carries the right data key")
    elif (under["phrase"] if isinstance(under, dict) else r["pairs"][under]["passphrase"]) == r["pairs"][victim]["passphrase"]:
        raise ValueError("that is the right passphrase of the pair")
    return pads_validly(_wrong_key(r, victim, under), blob, mac)


def force_pad_collision(r: dict, victim, under, vary: str = "salt", tag: str = "", limit: int = 20000) -> dict:
    """Deterministic search (candidate n = SHA-256(tag|n)) for a salt or IV of `victim` with which its blob pads validly under the
    wrong key `under` stands for (see _wrong_key). vary = "salt" re-derives both keys per candidate: the caller keeps the rounds
    of the victim small; vary = "iv" leaves the locator alone (any rounds). The recipe is changed in place and the forcing is
    recorded in r["forced"]; expected ~256 candidates. Nothing else of the recipe changes, so every expectation `build` derives
    (which passphrase opens what) is the same as for a file that does not collide."""
    if victim == "data" and vary != "iv":
        raise ValueError("the configuration blob has no salt")
    p = None if victim == "data" else r["pairs"][victim]
    if vary == "salt" and len(p["salt"]) < 16:
        p["salt"] = "00" * 16                        # a salt long enough to search in (the length is part of the recipe from here on)
    fast = None
    if vary == "iv":                                 # neither key depends on the IV: derive them once
        collides(r, victim, under)                   # (argument checks)
        wrong = _wrong_key(r, victim, under)
        if victim == "data":
            main = r["pairs"][r["pos"]]
            fast = (bytes.fromhex(main["key"]), _hidden_text(r).encode("utf-8"), main["mac"], r["pairs"][under]["mac"], wrong)
        else:
            e = r["esc"]
            plain = _pair_blob(p, lambda s: _esc(s, e["inner"], e["upper"]))[1].encode("ascii")
            fast = (_kek(p, p["passphrase"]), plain, p["mac"], p["mac"], wrong)
    for n in range(limit):
        cand = hashlib.sha256(f"{tag}|{victim}|{n}".encode()).digest()
        if vary == "salt":
            k = len(p["salt"]) // 2
            p["salt"] = (cand * (k // 32 + 1))[:k].hex()
            hit = collides(r, victim, under)
        else:
            hit = pads_validly(fast[4], _seal(fast[0], cand[:16], fast[1], fast[2]), fast[3])
            if hit and victim == "data":
                r["data_iv"] = cand[:16].hex()
            elif hit:
                p["iv"] = cand[:16].hex()
        if hit:
            assert collides(r, victim, under)
            f = {"victim": victim, "under": under, "vary": vary, "tries": n + 1}
            r.setdefault("forced", []).append(f)
            return f
    raise ValueError(f"no colliding {vary} within {limit} candidates (MAC sizes of different block residue?)")


# --------------------------------------------------------------------------- build

def _kek(p: dict, passphrase: str) -> bytes:
    """the key the locator of pair `p` derives from `passphrase` (its own passphrase: the key its blob is sealed with)"""
    return hashlib.pbkdf2_hmac(KDFS[p["kdf"]], passphrase.encode("utf-8"), bytes.fromhex(p["salt"]), p["rounds"], CIPHERS[p["cipher"]])


def _pair_blob(p: dict, ei):
    """-> (sealed blob of the pair, its plaintext)"""
    plain = "type=key:cipher=%s:key=%s" % (ei(p["key_cipher"]), ei(_b64(bytes.fromhex(p["key"]))))
    return _seal(_kek(p, p["passphrase"]), bytes.fromhex(p["iv"]), plain.encode("ascii"), p["mac"]), plain


def _pair_text(p: dict, eo, ei):
    """-> (pair string, length of the sealed key text, (offset, length) of the escaped salt, same of the escaped blob)"""
    salt = bytes.fromhex(p["salt"])
    blob, plain = _pair_blob(p, ei)
    members = [("pass2key", p["kdf"]), ("cipher", p["cipher"]), ("rounds", str(p["rounds"])), ("salt", _b64(salt))]
    parts, salt_at = ["pair/(phrase/", eo(p["phrase_id"]), "/"], None
    for j, idx in enumerate(p["order"]):
        name, val = members[idx]
        parts.append(eo((":" if j else "") + name + "="))
        if name == "salt":
            salt_at = (sum(map(len, parts)), len(eo(ei(val))))
        parts.append(eo(ei(val)))
    parts.append("," + eo(p["mac"]) + ",")
    wrapped_at = (sum(map(len, parts)), len(eo(_b64(blob))))
    parts += [eo(_b64(blob)), ")"]
    return "".join(parts), len(plain), salt_at, wrapped_at


# key locators of kinds the reader does not implement (its comment lists rawkey, ldap, script, role, fqid), identifiers that are no
# kind at all, and the supported identifiers in another case. The exact VMware syntax behind the identifier does not matter to a
# reader that stops at the identifier; the bodies below only have to survive the list / pair splitting (structural characters escaped).
FOREIGN_KINDS = ["rawkey", "fqid", "ldap", "script", "role", "tpm", "null", "Phrase", "PAIR", "List"]
FOREIGN_SHAPES = ["member", "pair", "pair-list", "pair-pair", "list", "list-pair"]


def _foreign_locator(f: dict, eo, ei) -> str:
    k, blob = f["kind"], bytes.fromhex(f["blob"])
    if k == "rawkey":
        return "rawkey/" + eo("type=key:cipher=%s:key=%s" % (ei("AES-256"), ei(_b64(blob[:32]))))
    if k == "fqid":
        return "fqid/" + eo("<VMWARE-NULL>/kmip-cluster-1/" + blob[:16].hex())
    if k == "ldap":
        return "ldap/" + eo("ldap.example.org") + "/" + eo("dc=example,dc=org") + "/389/" + eo("cn=vmkeys (prod)")
    if k == "script":
        return "script/" + eo("/usr/lib/vmware/bin/getkey.sh") + "/" + eo(_b64(blob[:20]))
    if k == "role":
        return "role/" + eo(f.get("role", "obfuscation"))
    if k == "tpm":
        return "tpm/" + eo(_b64(blob[:24]))
    if k == "null":
        return "null"
    if k == "Phrase":                               # a complete, valid phrase locator — but the identifier is spelled `Phrase`
        t = _pair_text(f["pair"], eo, ei)[0]
        return "Phrase/" + t[len("pair/(phrase/"):t.index(",")]
    if k in ("PAIR", "List"):                       # handled by the shapes (the identifier of the wrapper is respelled)
        return _pair_text(f["pair"], eo, ei)[0].replace("pair/(", k + "/(" if k == "PAIR" else "pair/(", 1)
    raise ValueError(f"unknown foreign kind {k}")


def foreign_member(f: dict, eo, ei) -> str:
    """text of one key-safe list member that is, wraps or contains a key locator of an unsupported kind.
    f: kind (FOREIGN_KINDS), shape (FOREIGN_SHAPES), blob (hex, filler), mac, pair (a full pair recipe used where the shape
    needs a *supported* sibling or where the foreign thing is a respelled supported one)"""
    loc, sh = _foreign_locator(f, eo, ei), f["shape"]
    data = eo(_b64(bytes.fromhex(f["blob"])))
    good = _pair_text(f["pair"], eo, ei)[0]
    good_phrase = good[len("pair/("):good.index(",")]
    lst = "List" if f["kind"] == "List" else "list"
    if f["kind"] == "List" and sh in ("member", "pair", "pair-pair"):
        sh = "list"                                  # a respelled `list` needs a list to be
    if sh == "member":
        return loc
    if sh == "pair":                                # a pair whose key locator is foreign
        return "pair/(%s,%s,%s)" % (loc, eo(f["mac"]), data)
    if sh == "pair-list":                           # a pair whose key locator is a list: a supported phrase next to the foreign one
        return "pair/(%s/(%s,%s),%s,%s)" % (lst, good_phrase, loc, eo(f["mac"]), data)
    if sh == "pair-pair":                           # a pair whose key locator is a pair whose key locator is foreign
        return "pair/(pair/(%s,%s,%s),%s,%s)" % (loc, eo(f["mac"]), data, eo(f["mac"]), data)
    if sh == "list":                                # a nested list: a supported pair and the foreign locator
        return "%s/(%s,%s)" % (lst, good, loc) if f.get("inner_first", True) else "%s/(%s,%s)" % (lst, loc, good)
    if sh == "list-pair":                           # a nested list: a supported pair and a pair with a foreign locator
        return "%s/(%s,pair/(%s,%s,%s))" % (lst, good, loc, eo(f["mac"]), data)
    raise ValueError(f"unknown foreign shape {sh}")


def gen_foreign(rng, kind: str, shape: str, at: int) -> dict:
    taken: set = set()
    return {"at": at, "kind": kind, "shape": shape, "blob": rng.randbytes(rng.choice([48, 52, 64, 68])).hex(), "mac": rng.choice(list(MACS)),
            "role": rng.choice(["obfuscation", "adminIdent", "adminRecovery", "server"]), "inner_first": rng.random() < 0.5,
            "pair": _gen_pair(rng, rng.choice(COMBOS), False, taken)}


def build(recipe: dict) -> dict:
    r = recipe
    e = r["esc"]
    eo = lambda s: _esc(s, e["outer"], e["upper"])
    ei = lambda s: _esc(s, e["inner"], e["upper"])
    main = r["pairs"][r["pos"]]
    members = [(i, _pair_text(p, eo, ei)) for i, p in enumerate(r["pairs"])]
    for f in r.get("foreign", []):                 # members of a kind the reader does not implement, at list position f["at"]
        members.insert(f["at"], (None, (foreign_member(f, eo, ei), 0, None, None)))
    ks, rel = "vmware:key/list/(", {}
    for j, (i, (s, nplain, salt_at, wrapped_at)) in enumerate(members):
        ks += "," if j else ""
        if i == r["pos"]:
            wrapped_plain_len = nplain
            rel = {"salt": (len(ks) + salt_at[0], salt_at[1]), "wrapped": (len(ks) + wrapped_at[0], wrapped_at[1])}
        ks += s
    ks += ")"
    hidden_text = _hidden_text(r)
    plain = hidden_text.encode("utf-8")
    data = _b64(_seal(bytes.fromhex(main["key"]), bytes.fromhex(r["data_iv"]), plain, main["mac"]))
    q = '"' if r["enc_quote"] else ""
    enc = [(r["ks_key"], ks, True), (r["data_key"], data, False)]
    if not r["ks_first"]:
        enc.reverse()
    text, spans, vis = "", {}, list(r["visible"])
    for i in range(len(vis) + 1):
        while enc and r["enc_at"][2 - len(enc)] == i:
            k, v, is_ks = enc.pop(0)
            at = len(text) + len(k) + 3 + len(q)
            if is_ks:
                spans.update({f: (at + o, at + o + n) for f, (o, n) in rel.items()})
            else:
                spans["data"] = (at, at + len(v))
            text += k + " = " + q + v + q + r["eol"]
        if i < len(vis):
            text += _line(vis[i]) + r["eol"]
    visible = parse_dictionary(text)
    assert visible["encryption.keysafe"] == ks and visible["encryption.data"] == data
    hidden = parse_dictionary(hidden_text)
    alt = [[p["passphrase"], "ok" if p["key"] == main["key"] and p["mac"] == main["mac"] else "err"]
           for i, p in enumerate(r["pairs"]) if i != r["pos"]]
    padvalid = []
    for f in r.get("forced", []):                  # re-checked here with the sealer's own decryption, never taken on trust
        assert collides(r, f["victim"], f["under"]), f"forced collision {f} does not hold"
        padvalid.append([f["victim"], f["under"]])
    return {"text": text, "passphrase": main["passphrase"], "hidden": hidden, "visible": visible, "expected": {**visible, **hidden},
            "padvalid": padvalid, "foreign": [[f["at"], f["kind"], f["shape"]] for f in r.get("foreign", [])],
            "members": [("foreign" if i is None else "main" if i == r["pos"] else "pair") for i, _ in members],
            "fields": {f: text[a:b] for f, (a, b) in spans.items()}, "spans": spans, "alt": alt, "esc": e,
            "mac_size": MACS[main["mac"]][1], "hidden_text": hidden_text, "plain_len": len(plain),
            "plain_lens": {"data": len(plain), "wrapped": wrapped_plain_len},
            "combo": (main["cipher"], main["mac"], main["kdf"])}


# --------------------------------------------------------------------------- real code, tampering, wrong phrases

def impl_unlock(text: str, passphrase: str):
    from dissect.hypervisor.descriptor.vmx import VMX
    vmx = VMX.parse(text)
    try:
        vmx.unlock_with_phrase(passphrase)
    except Exception as e:  # noqa: BLE001
        return ("err", f"{type(e).__name__}: {e}"[:300], dict(vmx.attr))
    return ("ok", dict(vmx.attr))


def field_bytes(built: dict, field: str) -> bytes:
    s = built["fields"][field]
    for _ in range({"data": 0, "wrapped": 1, "salt": 2}[field]):
        s = _unesc(s)
    return base64.b64decode(s, validate=True)


def padding_only(built: dict, field: str, pos: int) -> bool:
    """True when byte `pos` of a sealed blob can reach nothing but PKCS#7 padding of the decrypted text, which the MAC (taken
    over the unpadded text) does not cover: (a) an IV byte lying over a pad byte when the text fits in one cipher block (the IV
    is XORed straight onto text || padding); (b) any byte of the last ciphertext block when the text length is a multiple of 16
    (that block decrypts to padding alone). Every other position changes at least one MACed byte or the MAC itself.
    A reader that checks all pad bytes rejects (a) and (b) too; one that looks only at the last byte accepts (a) always
    (except pos 15) and (b) whenever the garbled block happens to end in 0x10 (or 0x00 for an empty text), i.e. ~1/256."""
    if field not in built["plain_lens"]:
        return False
    n = built["plain_lens"][field]
    ct_end = 16 + (n // 16 + 1) * 16
    return (n < 16 and n <= pos < 16) or (n % 16 == 0 and ct_end - 16 <= pos < ct_end)


def tamper(built: dict, rng, field: str, pos: int | None = None, xor: int | None = None, info: dict | None = None):
    """alter one decoded byte of `field` and re-encode it the way it was encoded. pos/xor may be forced (exhaustive sweeps);
    by default a region (IV / ciphertext / MAC) is drawn first so that short regions are hit as often as long ones.
    Raises ValueError for an empty field (zero-length salt). `info`, if given, receives pos / xor / region / n / padding_only."""
    raw = bytearray(field_bytes(built, field))
    if not raw:
        raise ValueError(f"field {field} is empty")
    n, m = len(raw), built["mac_size"]
    regions = [("salt", 0, n)] if field == "salt" else [("iv", 0, 16), ("ct", 16, n - m), ("mac", n - m, n)]
    if pos is None:
        _, lo, hi = rng.choice(regions)
        pos = rng.randrange(lo, hi)
    if xor is None:
        xor = rng.choice([1, 0x80, rng.randrange(1, 256), 1 << rng.randrange(8)])
    raw[pos] ^= xor
    region = next(name for name, lo, hi in regions if lo <= pos < hi)
    e = built["esc"]
    s = _b64(bytes(raw))
    if field == "salt":
        s = _esc(s, e["inner"], e["upper"])
    if field != "data":
        s = _esc(s, e["outer"], e["upper"])
    a, b = built["spans"][field]
    po = padding_only(built, field, pos)
    if info is not None:
        info.update(pos=pos, xor=xor, region=region, n=n, padding_only=po)
    return built["text"][:a] + s + built["text"][b:], f"{field}[{pos}/{n}] ({region}{', over padding only' if po else ''}) ^= 0x{xor:02x}"


def wrong_phrases(built: dict, rng, k: int = 2) -> list:
    good = built["passphrase"]
    known = {good} | {p for p, _ in built["alt"]}
    cands = [good + "x", good[:-1], good.swapcase(), good + " ", " " + good, good[::-1], "", "password", good * 2,
             good.replace("a", "а"), good.encode("utf-8").decode("latin-1")]       # Cyrillic а; mojibake
    cands = [c for c in dict.fromkeys(cands) if c not in known and "\x00" not in c]
    rng.shuffle(cands)
    return cands[:k]


# --------------------------------------------------------------------------- selftest

def _pbkdf2_ref(h, pw, salt, rounds, n):          # RFC 8018 §5.2 from hmac alone (cross-check of the trusted primitive)
    out, i = b"", 1
    while len(out) < n:
        u = t = hmac.new(pw, salt + i.to_bytes(4, "big"), h).digest()
        for _ in range(rounds - 1):
            u = hmac.new(pw, u, h).digest()
            t = bytes(x ^ y for x, y in zip(t, u))
        out, i = out + t, i + 1
    return out[:n]


def selftest(n: int = 300, seed: int = 0, tier: str = "quick") -> int:
    assert _pbkdf2_ref("sha1", b"password", b"salt", 1, 20).hex() == "0c60c80f961f0e71f3a9b524af6012062fe037a6"      # RFC 6070 #1
    assert _pbkdf2_ref("sha256", "pä".encode(), b"", 7, 40) == hashlib.pbkdf2_hmac("sha256", "pä".encode(), b"", 7, 40)
    stats = {k: 0 for k in ("cases", "roundtrip_ok", "wrong_ok", "alt_ok", "tamper_ok", "mismatch", "salt_empty", "undetected_padding_only", "padvalid_ok")}
    combos, mods, errs, lowlast, bad = {}, {}, {}, 0, []

    def miss(i, recipe, what, **kw):
        stats["mismatch"] += 1
        bad.append({"case": i, "what": what, **kw, "recipe": recipe})

    def closed(i, recipe, b, res, what):
        if res[0] != "err":
            miss(i, recipe, what + ": unlock succeeded", plain_len=b["plain_len"], result_equals_original_config=res[1] == {**b["visible"], **b["hidden"]})
            return False
        errs[res[1].split(":")[0] + ":" + res[1].split(":")[1][:28]] = errs.get(res[1].split(":")[0] + ":" + res[1].split(":")[1][:28], 0) + 1
        if res[2] != b["visible"]:
            miss(i, recipe, what + ": attr changed after a failed unlock", diff=_diff(b["visible"], res[2]))
            return False
        return True

    for i in range(n):
        rng = random.Random(f"vmx:{seed}:{i}")
        recipe = gen_recipe(rng, tier, combo=COMBOS[i % len(COMBOS)])
        b = build(recipe)
        assert build(json.loads(json.dumps(recipe)))["text"] == b["text"], "build is not a function of the JSON recipe"
        assert all(b["fields"][f] == b["text"][s:e] for f, (s, e) in b["spans"].items())
        stats["cases"] += 1
        combos[b["combo"]] = combos.get(b["combo"], 0) + 1
        mods[b["plain_len"] % 16] = mods.get(b["plain_len"] % 16, 0) + 1
        lowlast += bool(b["hidden_text"]) and b["hidden_text"].encode()[-1] <= 16
        res = impl_unlock(b["text"], b["passphrase"])
        if res[0] == "ok" and res[1] == b["expected"]:
            stats["roundtrip_ok"] += 1
        else:
            miss(i, recipe, "correct passphrase", plain_len=b["plain_len"], got=res[1] if res[0] == "err" else _diff(b["expected"], res[1]))
        for w in wrong_phrases(b, rng):
            stats["wrong_ok"] += closed(i, recipe, b, impl_unlock(b["text"], w), f"wrong passphrase {w!r}")
        for p, want in b["alt"]:
            res = impl_unlock(b["text"], p)
            if want == "ok":
                good = res[0] == "ok" and res[1] == b["expected"]
                if not good:
                    miss(i, recipe, f"alternative passphrase {p!r} (same key, same MAC)", got=res[1] if res[0] == "err" else _diff(b["expected"], res[1]))
                stats["alt_ok"] += good
            else:
                stats["alt_ok"] += closed(i, recipe, b, res, f"passphrase {p!r} of a pair with another key/MAC")
        for f in FIELDS:
            if f == "salt" and not field_bytes(b, f):
                stats["salt_empty"] += 1
                continue
            for _ in range(3):
                info = {}
                t, desc = tamper(b, rng, f, info=info)
                assert t != b["text"]
                res = impl_unlock(t, b["passphrase"])
                vis = dict(b["visible"])
                vis.update({k: v for k, v in parse_dictionary(t).items() if k.startswith("encryption.")})
                ok = closed(i, recipe, dict(b, visible=vis), res, "tamper " + desc)
                stats["tamper_ok"] += ok
                stats["undetected_padding_only"] += (not ok) and info["padding_only"]
    # wrong keys that pad validly: an earlier pair under the later pair's passphrase (salt / IV searched), every pair still opens
    stats["padvalid_ok"] = 0
    for i in range(max(6, n // 10)):
        rng = random.Random(f"vmx-padvalid:{seed}:{i}")
        recipe = gen_recipe(rng, "quick", combo=COMBOS[i % len(COMBOS)], npairs=2, pos=i % 2)
        recipe["pairs"][0]["rounds"] = min(recipe["pairs"][0]["rounds"], 60)
        force_pad_collision(recipe, 0, 1, "salt" if i % 3 else "iv", tag=f"selftest:{seed}:{i}")
        b = build(json.loads(json.dumps(recipe)))
        assert b["padvalid"] == [[0, 1]]
        res = impl_unlock(b["text"], b["passphrase"])
        if res[0] == "ok" and res[1] == b["expected"]:
            stats["padvalid_ok"] += 1
        else:
            miss(i, recipe, "correct passphrase, another pair pads validly under it", got=res[1] if res[0] == "err" else _diff(b["expected"], res[1]))
    print(json.dumps(stats))
    print("combos covered:", len(combos), "/ 18   plaintext length mod 16:", dict(sorted(mods.items())), "  last plaintext byte <= 16:", lowlast)
    print("error kinds:", errs)
    for m in bad[:40]:
        print("MISMATCH", json.dumps(m, ensure_ascii=True, default=str))
    print("selftest:", "OK" if not bad else f"{len(bad)} MISMATCHES ({stats['undetected_padding_only']} of them: the altered byte reaches only unverified padding, unlock succeeds)")
    return len(bad)


def _diff(want: dict, got: dict) -> dict:
    return {k: [want.get(k), got.get(k)] for k in sorted(set(want) | set(got)) if want.get(k) != got.get(k)}


if __name__ == "__main__":
    a = sys.argv[1:]
    if a and a[0] == "selftest":
        sys.exit(1 if selftest(int(a[1]) if len(a) > 1 else 300, int(a[2]) if len(a) > 2 else 0, a[3] if len(a) > 3 else "quick") else 0)
    if a and a[0] == "show":
        bb = build(gen_recipe(random.Random(f"vmx:{a[1] if len(a) > 1 else 0}:0")))
        print(bb["text"])
        print(json.dumps({k: bb[k] for k in ("passphrase", "hidden", "fields", "alt")}, indent=1, ensure_ascii=False))
        sys.exit(0)
    print("usage: gen_vmx.py selftest [n] [seed] [tier] | show [seed]")
