"""C09 — parsing never modifies evidence. Runtime audit of the real code over a broad workload:
  * wrapped workloads of the other properties (disk formats through sparse handles that *accept and record* writes,
    path-based chains / descriptors in real temp directories),
  * in-memory handles (io.BytesIO subclasses recording write / truncate / getbuffer, content compared afterwards) for the
    envelope (decrypt), Hyper-V files (incl. files with outstanding replay-log entries), VMX (incl. unlock), OVF / VBox / PVS,
  * the decrypt command-line tool in a temp directory.
A `sys.addaudithook` hook records every file-system event raised while a frame of dissect.hypervisor is on the stack; the
observed trace goes to the Lean model (`Effects.firstViolation`), each path open must map to a site of the extracted table."""
from __future__ import annotations

import importlib
import io
import json
import os
import random
import struct
import sys
from pathlib import Path

import core
import sparse
from core import Built

PROPERTY = "C09"
RULE = ("runtime audit of the real code: (a) first cases of the C01-C07, C10, C20 workloads re-run with handles that accept and record "
        "write/truncate and with an audit hook attributing open/remove/rename/mkdir/truncate/... events to dissect.hypervisor frames; "
        "(b) envelope decrypt, Hyper-V parse (clean and with outstanding replay-log entries), VMX parse + unlock, OVF/VBox/PVS over "
        "recording io.BytesIO/StringIO handles whose content is compared afterwards; (c) the decrypt tool in a temp directory "
        "(the only allowed mutation: the --output file); (d) disk images (VMDK sparse / flat / multi-extent / descriptor, QCOW2, VHD, VDI, HDS) materialised in a "
        "temp directory and handed over as handles the caller opened itself: open() rb / r+b / w+b / a+b, unbuffered FileIO, NamedTemporaryFile, "
        "recording Buffered* subclasses; every open made from a library frame is checked for write mode / flags, content + size + mtime of every "
        "file compared before / after; (e) every program the library ships (modules of dissect/hypervisor/tools, console scripts) run in its own "
        "process inside a sandbox directory (current directory = an evidence directory) with generic command lines (list / test / extract / "
        "extract into a named directory / create / -o) on a hand-written tar and visor tar whose members are named etc/hosts.txt, "
        "../evidence/keep.bin, ../../escaped.bin and an absolute path: the whole tree is compared before / after, anything created, changed "
        "or removed outside the path the user named for output is a mutation. Expected: the observed trace is all read-only and every path open maps to "
        "a site of the extracted call-site table. Non-trivial = the trace contains at least one read on a handle or one path open.")
ASSUMPTIONS = ["Python-level effects only: sys audit events + method calls on the handles we supply; effects inside C extensions that "
               "raise no audit event are invisible", "the static table covers calls visible in the AST (no dynamic dispatch: checked by the table itself)"]
TIMEOUT_CASE = 60.0

WRAP = [("c01", 8), ("c02", 10), ("c03", 8), ("c04", 10), ("c05", 10), ("c06", 10), ("c07", 40), ("c10", 30), ("c20", 12)]
MUT_EVENTS = {"os.remove": "U", "os.unlink": "U", "os.rename": "N", "os.replace": "N", "os.mkdir": "M", "os.rmdir": "U", "os.truncate": "T",
              "os.chmod": "T", "os.chown": "T", "os.utime": "T", "os.link": "M", "os.symlink": "M", "shutil.rmtree": "U", "shutil.move": "N",
              "shutil.copyfile": "W", "shutil.copytree": "M", "tempfile.mkstemp": "M", "tempfile.mkdtemp": "M", "subprocess.Popen": "M",
              "os.system": "M", "os.exec": "M", "os.posix_spawn": "M", "os.fork": "M", "mmap.__new__": "T", "ctypes.dlopen": "M"}


def hx(s) -> str:
    return str(s).encode("utf-8", "surrogateescape").hex() or "00"


# --------------------------------------------------------------------------- audit (worker side)

_A = {"on": False, "ev": [], "repo": None}
_HOOKED = False


def _lib_frame():
    """(relative file, qualified function) of the innermost dissect.hypervisor frame on the stack, or None"""
    f = sys._getframe(2)
    root = _A["repo"]
    while f is not None:
        fn = f.f_code.co_filename
        if fn.startswith(root):
            return fn[len(root):].lstrip("/"), f.f_code.co_qualname
        f = f.f_back
    return None


def _hook(name, args):
    if not _A["on"]:
        return
    if name == "open":
        lf = _lib_frame()
        if lf is None:
            return
        path, mode, flags = args[0], args[1], args[2]
        if isinstance(path, int):
            return
        acc = flags & (os.O_WRONLY | os.O_RDWR | os.O_CREAT | os.O_TRUNC | os.O_APPEND) if isinstance(flags, int) else 0
        wr = bool(acc) or (isinstance(mode, str) and any(c in mode for c in "wax+"))
        _A["ev"].append(("W" if wr else "R", str(path), ("t" if isinstance(flags, int) and flags & os.O_TRUNC else "") + ("c" if isinstance(flags, int) and flags & os.O_CREAT else ""), lf))
    elif name in MUT_EVENTS:
        lf = _lib_frame()
        if lf is None:
            return
        _A["ev"].append((MUT_EVENTS[name], str(args[0]) if args else "?", name, lf))
    elif name.startswith("socket.") and name in ("socket.connect", "socket.bind", "socket.sendto"):
        lf = _lib_frame()
        if lf is not None:
            _A["ev"].append(("M", name, name, lf))


def audit_start():
    global _HOOKED
    if not _HOOKED:
        import dissect.hypervisor
        _A["repo"] = str(Path(dissect.hypervisor.__file__).resolve().parent)
        sys.addaudithook(_hook)
        _HOOKED = True
    _A["ev"] = []
    _A["on"] = True


def audit_stop():
    _A["on"] = False
    return list(_A["ev"])


class RecBytesIO(io.BytesIO):
    """in-memory handle that lets mutations through and records them"""

    def __init__(self, data=b""):
        super().__init__(data)
        self.muts = []
        self.reads = 0

    def read(self, *a):
        self.reads += 1
        return super().read(*a)

    def write(self, b):
        self.muts.append(("write", self.tell(), len(b)))
        return super().write(b)

    def writelines(self, ls):
        self.muts.append(("writelines", self.tell(), 0))
        return super().writelines(ls)

    def truncate(self, *a):
        self.muts.append(("truncate", self.tell(), 0))
        return super().truncate(*a)

    def getbuffer(self):
        self.muts.append(("getbuffer", 0, 0))
        return super().getbuffer()


class RecStringIO(io.StringIO):
    def __init__(self, data=""):
        super().__init__(data)
        self.muts = []
        self.reads = 0

    def read(self, *a):
        self.reads += 1
        return super().read(*a)

    def write(self, s):
        self.muts.append(("write", self.tell(), len(s)))
        return super().write(s)

    def truncate(self, *a):
        self.muts.append(("truncate", self.tell(), 0))
        return super().truncate(*a)


def _sites():
    fp = json.loads((core.LEAN / "Hv" / "Extracted.fingerprint.json").read_text())
    return {(s[0], s[1]) for s in fp.get("effects.sites", []) if s[3] in ("open-path", "read_text", "read_bytes", "open-cli-output")}



# --------------------------------------------------------------------------- real-file handles (caller-opened, incl. for update)

REALFH_MODS = [("c02", 14), ("c10", 12), ("c01", 5), ("c04", 5), ("c05", 5), ("c06", 5)]
# how the caller obtained the handle it passes in: (kind, mode). "open" = builtin open(); "rec" = a subclass of the very
# io.Buffered* class open() returns (still .raw = io.FileIO, .name, .mode) that counts reads and records write/truncate;
# "raw" = unbuffered io.FileIO; "ntf" = tempfile.NamedTemporaryFile (mode "rb+")
REALFH_KINDS = [("open", "rb"), ("open", "r+b"), ("rec", "r+b"), ("open", "r+b"), ("rec", "rb"), ("open", "w+b"), ("open", "a+b"),
                ("raw", "r+b"), ("ntf", "w+b"), ("open", "r+b"), ("raw", "rb"), ("rec", "r+b")]
REALFH_MAX_DATA = 24 << 20
REALFH_MAX_SIZE = 1 << 42


def _realfh_cases(rng, seed, mult):
    """the first cases of the disk-format workloads whose images are small enough to be materialised, each paired with a way the
    caller opened the file. VMDK first (bare extents of every kind, flat, multi-extent lists, descriptor files)."""
    out = []
    k = 0
    for mod, n in REALFH_MODS:
        m = importlib.import_module(mod)
        sub = [c for c in m.generate(seed, "quick") if c.get("align", 8192) == 8192 and c.get("fam", "vmdk") == "vmdk"]
        rng.shuffle(sub)
        took = 0
        for sc in sub:
            if took >= n * mult:
                break
            try:
                ims = list(m.build(sc).files.values())
            except Exception:  # noqa
                continue
            if not ims or sum(sn for im in ims for _, sn, _, _ in im.segs) > REALFH_MAX_DATA or max(im.size for im in ims) > REALFH_MAX_SIZE:
                continue
            kind, mode = REALFH_KINDS[k % len(REALFH_KINDS)]
            k += 1
            took += 1
            sc = dict(sc, queries=sc.get("queries", [])[:4])
            out.append({"id": f"realfh-{mod}-{sc['id']}-{kind}-{mode}", "fam": "realfh", "mod": mod, "sub": sc, "kind": kind, "mode": mode,
                        "recipe": {"mod": mod, "sub": sc.get("recipe"), "fam": "realfh", "kind": kind, "mode": mode}, "queries": []})
    return out


def _content_digest(path):
    """(size, digest of the non-zero 64 KiB blocks) of a possibly sparse file; independent of its hole layout"""
    import hashlib
    blk = 1 << 16
    h = hashlib.sha256()
    size = os.path.getsize(path)
    fd = os.open(path, os.O_RDONLY)
    try:
        pos = 0
        while pos < size:
            try:
                a = os.lseek(fd, pos, os.SEEK_DATA)
            except OSError:
                break
            try:
                e = os.lseek(fd, a, os.SEEK_HOLE)
            except OSError:
                e = size
            b = a // blk
            while b * blk < e:
                d = os.pread(fd, blk, b * blk)
                if d.strip(b"\0"):
                    h.update(b.to_bytes(8, "little") + d)
                b += 1
            pos = max(e, b * blk)
    finally:
        os.close(fd)
    return size, h.hexdigest()


class _RecRandom(io.BufferedRandom):
    """what open(p, "r+b") returns (io.BufferedRandom over io.FileIO), counting reads and recording write / truncate"""
    muts: list
    reads = 0

    def read(self, *a):
        self.reads += 1
        return super().read(*a)

    def readinto(self, b):
        self.reads += 1
        return super().readinto(b)

    def write(self, b):
        self.muts.append("write")
        return super().write(b)

    def truncate(self, *a):
        self.muts.append("truncate")
        return super().truncate(*a)


class _RecReader(io.BufferedReader):
    """what open(p, "rb") returns, counting reads"""
    muts: list
    reads = 0

    def read(self, *a):
        self.reads += 1
        return super().read(*a)

    def readinto(self, b):
        self.reads += 1
        return super().readinto(b)


def _realfh_run(case, err):
    """run the wrapped workload with every image materialised as a real file in a temp directory and handed to the library as a
    handle the *caller* opened (case["kind"], case["mode"]). Observed: audit events (every open made from a library frame, with
    its mode / flags), write / truncate calls on recording handles, content + size + mtime of every file before / after.
    The caller's own opens are made from harness frames (no library frame on the stack) and are therefore not attributed."""
    import shutil
    import tempfile

    kind, mode = case["kind"], case["mode"]
    m = importlib.import_module(case["mod"])
    sc = case["sub"]
    ib = m.build(sc)
    if (kind == "ntf" or mode == "w+b") and max(im.size for im in ib.files.values()) > (64 << 20):
        kind, mode = "open", "r+b"         # these two copy the content through the handle, which would expand the holes
    d = tempfile.mkdtemp(prefix="hvc09r.")
    opened, before = [], {}                # [(path, handle)], {path: (size, digest, mtime)}
    hmuts, reads, events = [], 0, []

    def state(p):
        return _content_digest(p) + (os.stat(p).st_mtime_ns,)

    def caller_open(path, im):
        """the caller's side: bring the file into existence and open it the way the case says"""
        if kind == "ntf" or mode == "w+b":
            srcp = path + ".src"
            im.write_to(srcp)
            if kind == "ntf":
                fh = tempfile.NamedTemporaryFile(dir=os.path.dirname(path), suffix="." + os.path.basename(path))
                path = fh.name
            else:
                fh = open(path, "w+b")
            with open(srcp, "rb") as src:
                shutil.copyfileobj(src, fh, 1 << 20)
            os.unlink(srcp)
            fh.flush()
            fh.seek(0)
        else:
            im.write_to(path)
            if kind == "open":
                fh = open(path, mode)
            elif kind == "raw":
                fh = open(path, mode, buffering=0)
            else:
                fh = _RecRandom(io.FileIO(path, "r+")) if "+" in mode else _RecReader(io.FileIO(path, "r"))
                fh.muts = []
            fh.seek(0)
        opened.append((path, fh))
        before[path] = state(path)
        return fh

    def image_open(self, name=None, log=None):
        sub = os.path.join(d, f"h{len(opened)}")
        os.mkdir(sub)
        return caller_open(os.path.join(sub, os.path.basename(str(name)) if name else "image.bin"), self)

    orig_open = sparse.Image.open
    try:
        sparse.Image.open = image_open
        if case["mod"] == "c10" and sc["recipe"]["mode"] == "descriptor":
            # a descriptor file and its extents live in one directory; only the descriptor is handed over as a handle
            t = ib.t
            sub = os.path.join(d, "disk")
            os.mkdir(sub)
            for name, im in t.files.items():
                if name != t.descriptor_name:
                    im.write_to(os.path.join(sub, name))
                    before[os.path.join(sub, name)] = state(os.path.join(sub, name))
            dfh = caller_open(os.path.join(sub, t.descriptor_name), t.files[t.descriptor_name])

            def runner():
                from dissect.hypervisor.disk.vmdk import VMDK
                return core.impl_ops_sec(VMDK(dfh), sc["queries"])
        else:
            def runner():
                return m.impl_run(sc, ib)
        audit_start()
        try:
            try:
                r = runner()
                if isinstance(r, dict) and r.get("errors"):
                    err["q"] = str(list(r["errors"].values())[0])[:200]
            except Exception as e:  # noqa
                err["0"] = f"{type(e).__name__}: {e}"[:200]
        finally:
            events = audit_stop()
        for p, fh in opened:
            if hasattr(fh, "muts"):
                hmuts += [(f"handle-{mu}:" + os.path.basename(p), 0, 0) for mu in fh.muts]
                reads += fh.reads
            elif not fh.closed and fh.tell() != 0:
                reads += 1
            if not fh.closed and kind != "ntf":
                fh.close()                 # anything the library left in a write buffer reaches the file now
        after = {}
        for root, _, files in os.walk(d):
            for f in files:
                after[os.path.join(root, f)] = state(os.path.join(root, f))
        for p, v in before.items():
            a = after.get(p)
            if a is None:
                hmuts.append(("removed:" + os.path.basename(p), 0, 0))
            elif a[:2] != v[:2]:
                hmuts.append(("content-changed:" + os.path.basename(p), 0, 0))
            elif a[2] != v[2]:
                hmuts.append(("mtime-changed:" + os.path.basename(p), 0, 0))
        hmuts += [("created:" + os.path.basename(p), 0, 0) for p in after if p not in before]
    finally:
        sparse.Image.open = orig_open
        for _, fh in opened:
            try:
                fh.close()
            except Exception:  # noqa
                pass
        shutil.rmtree(d, ignore_errors=True)
    return events, hmuts, reads


# --------------------------------------------------------------------------- disk formats behind real files opened for update

RW_MODS = [("c03", 12), ("c01", 3), ("c04", 3), ("c05", 3), ("c06", 3)]      # (format check, cases per quick run); VMDK: see the vmdk family
RW_MAX = 48 << 20


class RecFile(io.BufferedRandom):
    """a genuine file object on a real file opened "r+b" (descriptor, fileno(), OS-level write access), recording the calls
    that would modify it; `getvalue()` = the bytes of the file after the run (read back from disk before it is removed)"""

    def __init__(self, path):
        super().__init__(io.FileIO(path, "r+"))
        self.muts, self.reads, self.final = [], 0, None

    def read(self, *a):
        self.reads += 1
        return super().read(*a)

    def write(self, b):
        self.muts.append(("write", self.tell(), len(b)))
        return super().write(b)

    def truncate(self, *a):
        self.muts.append(("truncate", self.tell(), 0))
        return super().truncate(*a)

    def getvalue(self):
        return self.final


class _OnDisk:
    """stands in for a sparse.Image in `Built.files`: `open()` hands out an r+b handle on the materialised file"""

    def __init__(self, im, path, handles):
        self._im, self._path, self._handles = im, path, handles
        im.write_to(path)
        self._orig = Path(path).read_bytes()

    def open(self, name=None, log=None):
        fh = RecFile(self._path)
        self._handles.append((fh, self._orig))
        return fh

    def __getattr__(self, k):
        return getattr(self._im, k)


def _rwfile_cases(seed, rng, mult):
    """Sub-cases of the disk-format checks whose images fit a temp file; every other VHDX is given an *active log* ([MS-VHDX] 2.3:
    non-zero LogGuid in the current header, a sequence of CRC-32C-protected entries with data and zero descriptors): a reader that
    brings such an image up to date must do so without touching the file. The expected trace is read-only whatever the reader does
    with the log (dissect.hypervisor ignores it)."""
    import copy
    import gen_vhdx
    out = []
    for mod, n in RW_MODS:
        m = importlib.import_module(mod)
        sub = [c for c in m.generate(seed, "quick") if c.get("align", 8192) == 8192]
        rng.shuffle(sub)
        k = 0
        for sc in sub:
            if k >= n * mult:
                break
            if mod == "c03" and k % 2 == 0:
                sc = copy.deepcopy(sc)
                sc["recipe"]["layers"][-1]["log"] = gen_vhdx.gen_log(rng, sc["recipe"]["layers"][-1])
            try:
                if any(im.size > RW_MAX for im in m.build(sc).files.values()):
                    continue
            except Exception:  # noqa
                continue
            out.append({"id": f"rwfile-{mod}-{sc['id']}", "fam": "rwfile", "mod": mod, "sub": sc, "queries": [],
                        "recipe": {"mod": mod, "sub": sc.get("recipe"), "log": bool(mod == "c03" and k % 2 == 0)}})
            k += 1
    return out


def _rwfile_run(case, handles, err):
    """run the format workload with every image materialised in a temp directory and opened "r+b"; -> audit events.
    `handles` receives (handle, original bytes): the caller compares content and recorded calls"""
    import shutil
    import tempfile
    m = importlib.import_module(case["mod"])
    ib = m.build(case["sub"])
    d = tempfile.mkdtemp(prefix="hvc09rw.")
    holders = [(ib, ib.files)] + ([(t, t.files) for t in [m.truth_of(case["sub"])]] if hasattr(m, "truth_of") else [])   # c01 opens what its (cached) writer holds
    try:
        ondisk = {}
        for holder, files in holders:
            for fid, im in files.items():
                if id(im) not in ondisk:
                    ondisk[id(im)] = _OnDisk(im, os.path.join(d, f"{len(ondisk)}-{fid}.img"), handles)
            holder.files = {fid: ondisk[id(im)] for fid, im in files.items()}
        audit_start()
        try:
            try:
                m.impl_run(case["sub"], ib)
            except Exception as e:  # noqa
                err["0"] = f"{type(e).__name__}: {e}"[:200]
        finally:
            events = audit_stop()
        for fh, _ in handles:
            try:
                fh.flush()
            except Exception:  # noqa
                pass
            fh.final = Path(fh.name).read_bytes()
            try:
                fh.close()
            except Exception:  # noqa
                pass
        return events
    finally:
        for holder, files in holders:
            holder.files = files
        shutil.rmtree(d, ignore_errors=True)


# --------------------------------------------------------------------------- every program the library ships, in a sandbox

KNOWN_TOOLS = {"dissect.hypervisor.tools.envelope:main"}       # driven with real envelopes by the "cli" family above
# generic command lines ("A" = an archive in the current directory, "OUT" / "NEW" = a path the user names for output,
# "F" = an existing file); the second entry is the argument that names the output, if any
TOOL_ARGV = [([], None), (["A"], None), (["-l", "A"], None), (["-t", "A"], None), (["-e", "A"], None), (["-e", "A", "OUT"], "OUT"),
             (["-x", "A"], None), (["-xf", "A", "-C", "OUT"], "OUT"), (["-c", "NEW", "F"], "NEW"), (["-o", "OUT", "A"], "OUT"),
             (["--extract", "A", "OUT"], "OUT"), (["--output", "OUT", "A"], "OUT"), (["extract", "A", "OUT"], "OUT"), (["A", "OUT"], "OUT"),
             (["-v", "-e", "A", "OUT"], "OUT"), (["--create", "NEW", "F"], "NEW")]


def shipped_programs(repo=None):
    """-> sorted ["module:function"]: every module of dissect/hypervisor/tools (read off the directory; whether it has a
    callable `main` is seen when it is run) and every console script of pyproject.toml [project.scripts] / setup.cfg"""
    repo = Path(repo or core.REPO)
    out = set()
    tdir = repo / "dissect" / "hypervisor" / "tools"
    if tdir.is_dir():
        for p in sorted(tdir.rglob("*.py")):
            if p.name != "__init__.py":
                out.add("dissect.hypervisor.tools." + ".".join(p.relative_to(tdir).with_suffix("").parts) + ":main")
    try:
        import tomllib
        proj = tomllib.loads((repo / "pyproject.toml").read_text()).get("project", {})
        for tab in [proj.get("scripts", {}), proj.get("gui-scripts", {})] + list(proj.get("entry-points", {}).values()):
            for v in tab.values():
                if isinstance(v, str) and ":" in v:
                    out.add(v.strip().split("[")[0].strip())
    except Exception:  # noqa
        pass
    return sorted(out)


def _tool_cases(seed, rng, mult):
    """every shipped program x generic command lines x two archive flavours. The decrypt tool takes part as well (its real
    work is the "cli" family): every generic command line ends in its usage error."""
    progs = shipped_programs()
    out = []
    for prog in progs:
        tmpl = list(range(len(TOOL_ARGV)))
        if prog in KNOWN_TOOLS:
            k = rng.choice([t for t in range(len(TOOL_ARGV)) if t not in (4, 5, 8, 9)])
            tmpl = [4, 5, 8, 9, k]                          # a handful is enough for the program whose behaviour is pinned elsewhere
        for t in tmpl:
            flavor = ["ustar", "visor"][(t + seed) % 2]
            out.append({"id": f"tool-{prog.split('.')[-1].replace(':', '.')}-{t}-{flavor}", "fam": "tool", "prog": prog, "argv_t": t, "flavor": flavor,
                        "recipe": {"fam": "tool", "prog": prog, "argv": TOOL_ARGV[t][0], "flavor": flavor}, "queries": []})
    return out


def _tar_header(name: bytes, size: int, typeflag: bytes = b"0", visor_off=None) -> bytes:
    h = bytearray(512)
    h[0:len(name)] = name[:100]
    h[100:108] = b"0000644\0"
    h[108:116] = b"0000000\0"
    h[116:124] = b"0000000\0"
    h[124:136] = b"%011o\0" % size
    h[136:148] = b"%011o\0" % 1700000000
    h[156:157] = typeflag
    if visor_off is None:
        h[257:265] = b"ustar\x0000"
    else:
        h[257:265] = b"visor  \0"
        struct.pack_into("<IIII", h, 496, visor_off, 0, 0, 0)
    h[148:156] = b"        "
    h[148:156] = b"%06o\0 " % sum(h)
    return bytes(h)


def hostile_archive(members, flavor: str) -> bytes:
    """a tar (inline data) / visor tar (data area behind the end-of-archive blocks) with exactly the given (name, content)"""
    pad = lambda b: b + bytes(-len(b) % 512)
    if flavor == "ustar":
        return b"".join(_tar_header(n.encode(), len(c)) + pad(c) for n, c in members) + bytes(1024)
    hdrs_len = 512 * len(members) + 1024
    out, area, off = b"", b"", hdrs_len
    for n, c in members:
        out += _tar_header(n.encode(), len(c), visor_off=off if c else 0)
        area += pad(c)
        off = hdrs_len + len(area)
    return out + bytes(1024) + area


def _tree(root: Path):
    """{relative path: ("d",) | ("l", target) | ("f", size, sha256, mtime_ns)} of everything below root (links not followed)"""
    import hashlib
    out = {}
    for dp, dns, fns in os.walk(root):
        for n in dns + fns:
            p = Path(dp) / n
            rel = str(p.relative_to(root))
            if p.is_symlink():
                out[rel] = ("l", os.readlink(p))
            elif p.is_dir():
                out[rel] = ("d",)
            else:
                st = p.stat()
                out[rel] = ("f", st.st_size, hashlib.sha256(p.read_bytes()).hexdigest(), st.st_mtime_ns)
    return out


def _tool_run(case, err):
    """run one shipped program the way a user would (own process, current directory = the evidence directory) on a hand-written
    archive whose members are named etc/hosts.txt, ../evidence/keep.bin, ../../escaped.bin and <sandbox>/abs/pwned.bin.
    Observed: the complete tree of the sandbox before / after. -> (changes outside the named output, named output or None, ran)"""
    import shutil
    import subprocess
    import tempfile
    root = Path(tempfile.mkdtemp(prefix="hvc09t."))
    try:
        box = root / "case"
        ev = box / "evidence"
        ev.mkdir(parents=True)
        (root / "abs").mkdir()
        (ev / "keep.bin").write_bytes(b"evidence: must stay as it is\n" * 8)
        (ev / "notes.txt").write_bytes(b"collected 2024-01-01\n")
        (ev / "sub").mkdir()
        (ev / "sub" / "inner.dat").write_bytes(bytes(range(256)))
        payload = b"overwritten by a member of the archive\n"
        members = [("etc/hosts.txt", b"127.0.0.1 localhost\n"), ("../evidence/keep.bin", payload), ("../../escaped.bin", payload),
                   (str(root / "abs" / "pwned.bin"), payload), ("notes.txt", payload), ("empty", b"")]
        (ev / "boot.v00").write_bytes(hostile_archive(members, case["flavor"]))
        argv_t, named = TOOL_ARGV[case["argv_t"]]
        names = {"A": "boot.v00", "OUT": "../out", "NEW": "../new.v00", "F": "notes.txt"}
        argv = [names.get(a, a) for a in argv_t]
        out_abs = (box / names[named][3:]) if named else None
        if named == "OUT" and case["argv_t"] % 2 == 1:
            out_abs.mkdir()                                 # the user prepared the directory
        mod, func = case["prog"].split(":")
        code = ("import sys, importlib\n"
                f"m = importlib.import_module({mod!r})\n"
                f"f = getattr(m, {func!r}, None)\n"
                "if not callable(f):\n    print('NO-ENTRY'); sys.exit(97)\n"
                f"sys.argv = [{mod.split('.')[-1]!r}] + {argv!r}\n"
                "sys.exit(f())\n")
        before = _tree(root)
        envp = dict(os.environ, PYTHONPATH=core.REPO, PYTHONDONTWRITEBYTECODE="1", PYTHONWARNINGS="ignore")
        try:
            r = subprocess.run([sys.executable, "-c", code], cwd=str(ev), env=envp, capture_output=True, timeout=40, stdin=subprocess.DEVNULL)
            err["rc"] = str(r.returncode)
            if r.returncode not in (0, 97):
                err["0"] = (r.stderr or r.stdout).decode("utf-8", "replace").strip().splitlines()[-1][:200] if (r.stderr or r.stdout).strip() else f"rc={r.returncode}"
        except subprocess.TimeoutExpired:
            err["0"] = "timeout"
        after = _tree(root)
        changes, touched_out = [], False
        outrel = str(out_abs.relative_to(root)) if out_abs else None
        for rel in sorted(set(before) | set(after)):
            b, a = before.get(rel), after.get(rel)
            if a == b:
                continue
            if outrel is not None and (rel == outrel or rel.startswith(outrel + "/")):
                touched_out = True
                continue
            what = "created" if b is None else "removed" if a is None else "mtime-changed" if a[:3] == b[:3] else "content-changed"
            changes.append(f"{what}:{rel}")
        return changes, (str(out_abs) if touched_out else None), err.get("rc") != "97"
    finally:
        shutil.rmtree(root, ignore_errors=True)


# --------------------------------------------------------------------------- cases

def generate(seed, tier):
    rng = random.Random(f"C09/{seed}/{tier}")
    mult = 1 if tier == "quick" else 6
    cases = []
    for mod, n in WRAP:
        m = importlib.import_module(mod)
        sub = [c for c in m.generate(seed, "quick") if c.get("align", 8192) == 8192]
        rng.shuffle(sub)
        for sc in sub[: n * mult]:
            cases.append({"id": f"wrap-{mod}-{sc['id']}", "fam": "wrap", "mod": mod, "sub": sc, "recipe": {"mod": mod, "sub": sc.get("recipe"), "fam": sc.get("fam")}, "queries": []})
    import gen_configs
    import gen_envelope
    import gen_hyperv
    import gen_vmx
    for i in range(14 * mult):
        r = gen_envelope.gen_recipe(rng, "quick")
        cases.append({"id": f"env-{i}", "fam": "envelope", "recipe": r, "wrongkey": i % 5 == 4, "queries": []})
    for i in range(4 * mult):
        r = gen_envelope.gen_recipe(rng, "quick")
        while r["aad"] is not None:                    # the tool has no option for associated data
            r = gen_envelope.gen_recipe(rng, "quick")
        cases.append({"id": f"cli-{i}", "fam": "cli", "recipe": r, "queries": []})
        # the tool run without -o (in a directory that already holds a file called like the envelope without its suffix, and for
        # an envelope without extension): nothing at all may be written
        cases.append({"id": f"cli-noout-{i}", "fam": "cli", "recipe": r, "no_output": True, "envname": ["local.tgz.ve", "envelope"][i % 2], "queries": []})
        # -o names an existing directory (the envelope's own directory): the tool must not invent a file name
        cases.append({"id": f"cli-outdir-{i}", "fam": "cli", "recipe": r, "out_is_dir": True, "envname": ["local.tgz.ve", "state_0001"][i % 2], "queries": []})
    for i in range(24 * mult):
        r = gen_hyperv.gen_recipe(rng, "quick")
        cases.append({"id": f"hv-{i}", "fam": "hyperv", "recipe": r, "dirty": i % 2, "queries": []})
    for i in range(10 * mult):
        r = gen_vmx.gen_recipe(rng, "quick")
        cases.append({"id": f"vmx-{i}", "fam": "vmx", "recipe": r, "queries": []})
    for i in range(24 * mult):
        fmt = ["vmx", "ovf", "vbox", "pvs"][i % 4]
        cases.append({"id": f"cfg-{fmt}-{i}", "fam": "config", "recipe": {"vm": gen_configs.gen_vm(rng), "fmt": fmt, "rseed": rng.getrandbits(32)}, "queries": []})
    cases += _tool_cases(seed, random.Random(f"C09/tool/{seed}/{tier}"), mult)
    cases += _rwfile_cases(seed, random.Random(f"C09/rwfile/{seed}/{tier}"), mult)
    cases += _realfh_cases(random.Random(f"C09/realfh/{seed}/{tier}"), seed, mult)
    return cases


def build(case):
    b = Built({}, ["RO"], {"branches": [case["fam"] + (":" + case["mod"] if case["fam"] == "wrap" else "")], "in_scope": True})
    return b


def _dirty_hyperv(data: bytes) -> bytes:
    """set num_entries = 1 in the replay log of the active header: one outstanding entry targeting the log's own slack"""
    d = bytearray(data)
    best = None
    for off in (0, 0x1000):
        if len(d) >= off + 46 and struct.unpack_from("<I", d, off)[0] == 0x01282014:
            seq = struct.unpack_from("<H", d, off + 8)[0]
            log = struct.unpack_from("<Q", d, off + 26)[0]
            if best is None or seq > best[0]:
                best = (seq, log)
    if best is None:
        return data
    log = best[1]
    if log + 34 + 28 + 4096 + 16 > len(d):
        d += bytes(log + 34 + 28 + 4096 + 16 - len(d))
    struct.pack_into("<I", d, log + 8, 1)
    struct.pack_into("<QIIIII", d, log + 34, log + 200, 8, 0, 0, 0, 0)
    return bytes(d)


def impl_run(case, built):
    fam = case["fam"]
    events, hmuts, reads, out_path = [], [], 0, None
    pre_toks = []
    err = {}
    sparse.TRACK = []
    sparse.PERMISSIVE = True
    handles = []
    try:
        if fam == "wrap":
            m = importlib.import_module(case["mod"])
            ib = m.build(case["sub"])
            if case["mod"] == "c20" and not ib.info.get("gz"):
                ib.data = None                          # read through the recording sparse handle
            audit_start()
            try:
                try:
                    m.impl_run(case["sub"], ib)
                except Exception as e:  # noqa
                    err["0"] = f"{type(e).__name__}: {e}"[:200]
            finally:
                events = audit_stop()
        elif fam == "rwfile":
            events = _rwfile_run(case, handles, err)
        elif fam == "realfh":
            events, hmuts, reads = _realfh_run(case, err)
        elif fam == "tool":
            changes, out_path, ran = _tool_run(case, err)
            hmuts += [(c, 0, 0) for c in changes]
            reads = 1 if ran else 0
            pre_toks += ([f"r:{hx(case['prog'])}"] if ran else []) + ([f"W:{hx(out_path)}:c"] if out_path else [])
        elif fam == "envelope":
            import gen_envelope
            b = gen_envelope.build(case["recipe"])
            from dissect.hypervisor.util.envelope import Envelope, KeyStore
            fh = RecBytesIO(b["envelope"])
            handles.append((fh, b["envelope"]))
            audit_start()
            try:
                try:
                    key = KeyStore.from_text(b["keystore_text"]).key
                    if case.get("wrongkey"):
                        key = bytes(32)
                    Envelope(fh).decrypt(key, b["aad"])
                except Exception as e:  # noqa
                    err["0"] = f"{type(e).__name__}: {e}"[:200]
            finally:
                events = audit_stop()
        elif fam == "cli":
            import contextlib
            import shutil
            import tempfile

            import gen_envelope
            from dissect.hypervisor.tools import envelope as tool
            b = gen_envelope.build(case["recipe"])
            d = Path(tempfile.mkdtemp(prefix="hvc09."))
            argv = sys.argv
            try:
                envname = case.get("envname", "in.ve")
                (d / envname).write_bytes(b["envelope"])
                (d / "ks.info").write_bytes(b["keystore_text"].encode())
                if case.get("no_output") or case.get("out_is_dir"):
                    (d / "local.tgz").write_bytes(b"an older file next to the envelope")
                    # with -o <dir> the only path the user named for writing is the directory itself (the open fails)
                    out_path = str(d) if case.get("out_is_dir") else None
                    sys.argv = ["envelope-decrypt", str(d / envname), "-ks", str(d / "ks.info")] + (["-o", str(d)] if case.get("out_is_dir") else [])
                else:
                    out_path = str(d / "out.bin")
                    sys.argv = ["envelope-decrypt", str(d / envname), "-ks", str(d / "ks.info"), "-o", out_path]
                before = {p.name: p.read_bytes() for p in d.iterdir()}
                audit_start()
                try:
                    try:
                        with contextlib.redirect_stderr(io.StringIO()), contextlib.redirect_stdout(io.StringIO()):
                            tool.main()
                    except BaseException as e:  # noqa
                        err["0"] = f"{type(e).__name__}: {e}"[:200]
                finally:
                    events = audit_stop()
                after = {p.name: p.read_bytes() for p in d.iterdir()}
                for k in before:
                    if after.get(k) != before[k]:
                        hmuts.append(("input-changed:" + k, 0, 0))
                for k in after:
                    if k not in before and k != "out.bin":
                        hmuts.append(("created:" + k, 0, 0))
                if "out.bin" in after and after["out.bin"] != b["payload"] and "0" not in err:
                    hmuts.append(("output-differs", 0, 0))
            finally:
                sys.argv = argv
                shutil.rmtree(d, ignore_errors=True)
        elif fam == "vmtar-big":
            import gen_vmtar
            from dissect.hypervisor.util import vmtar
            bb = gen_vmtar.build(case["recipe"])
            fh = RecBytesIO(bb["data"])
            handles.append((fh, bb["data"]))
            audit_start()
            try:
                try:
                    tf = vmtar.open(fileobj=fh, mode="r")
                    for ti in tf.getmembers():
                        if ti.isreg():
                            tf.extractfile(ti).read(4096)
                except Exception as e:  # noqa
                    err["0"] = f"{type(e).__name__}: {e}"[:200]
            finally:
                events = audit_stop()
        elif fam == "hyperv":
            import gen_hyperv
            data, _, _ = gen_hyperv.build(case["recipe"])
            if case.get("dirty"):
                data = _dirty_hyperv(data)
            from dissect.hypervisor.descriptor.hyperv import HyperVFile
            fh = RecBytesIO(data)
            handles.append((fh, data))
            audit_start()
            try:
                try:
                    HyperVFile(fh).as_dict()
                except Exception as e:  # noqa
                    err["0"] = f"{type(e).__name__}: {e}"[:200]
            finally:
                events = audit_stop()
        elif fam == "vmx":
            import gen_vmx
            b = gen_vmx.build(case["recipe"])
            from dissect.hypervisor.descriptor.vmx import VMX
            audit_start()
            try:
                try:
                    v = VMX.parse(b["text"])
                    v.unlock_with_phrase(b["passphrase"])
                    v.disks()
                except Exception as e:  # noqa
                    err["0"] = f"{type(e).__name__}: {e}"[:200]
            finally:
                events = audit_stop()
            reads = 1
        else:
            import gen_configs
            text, _ = gen_configs.build(case["recipe"])
            fmt = case["recipe"]["fmt"]
            fh = RecStringIO(text)
            handles.append((fh, text))
            audit_start()
            try:
                try:
                    if fmt == "vmx":
                        from dissect.hypervisor.descriptor.vmx import VMX
                        VMX.parse(fh.read()).disks()
                    elif fmt == "ovf":
                        from dissect.hypervisor.descriptor.ovf import OVF
                        list(OVF(fh).disks())
                    elif fmt == "vbox":
                        from dissect.hypervisor.descriptor.vbox import VBox
                        list(VBox(fh).disks())
                    else:
                        from dissect.hypervisor.descriptor.pvs import PVS
                        list(PVS(fh).disks())
                except Exception as e:  # noqa
                    err["0"] = f"{type(e).__name__}: {e}"[:200]
            finally:
                events = audit_stop()
    finally:
        tracked = sparse.TRACK or []
        sparse.TRACK = None
        sparse.PERMISSIVE = False
    # ---- assemble the observed trace
    toks, notes = list(pre_toks), []
    sites = _sites()
    for k, path, extra, lf in events:
        if k == "R":
            toks.append(f"R:{hx(path)}")
            if lf not in sites:
                notes.append(f"UNMAPPED:{lf[0]}:{lf[1]}")
        elif k == "W":
            toks.append(f"W:{hx(path)}:{extra or 'x'}")
            if lf not in sites:
                notes.append(f"UNMAPPED:{lf[0]}:{lf[1]}")
        elif k == "N":
            toks.append(f"N:{hx(path)}:{hx(extra)}")
        else:
            toks.append(f"{k}:{hx(path)}")
        if k != "R":
            notes.append(f"{k}:{extra}@{lf[0]}:{lf[1]}" if not (k == "W" and out_path and path == out_path) else "")
    for i, sf in enumerate(tracked):
        name = f"handle{i}"
        if sf.n_reads:
            toks.append(f"r:{hx(name)}")
            reads += sf.n_reads
        for mu in sf.mutations:
            toks.append(("w" if mu == "write" else "T") + f":{hx(name)}")
            notes.append(f"handle-{mu}")
    for i, (fh, orig) in enumerate(handles):
        name = f"mem{i}"
        if fh.reads:
            toks.append(f"r:{hx(name)}")
            reads += fh.reads
        for mu in fh.muts:
            toks.append(("w" if mu[0] in ("write", "writelines", "getbuffer") else "T") + f":{hx(name)}")
            notes.append(f"handle-{mu[0]}@{mu[1]}+{mu[2]}")
        if fh.getvalue() != orig:
            toks.append(f"w:{hx(name)}")
            notes.append("handle-content-changed")
    for mu in hmuts:
        toks.append(f"w:{hx(mu[0])}")
        notes.append(mu[0])
    notes = [n for n in notes if n]
    ans = ["RO"] if not notes else ["MUT"]
    if notes:
        err["mutations"] = ";".join(sorted(set(notes))[:6])
    return {"answers": ans, "errors": err, "trace": toks, "out": out_path, "reads": reads}


def model_lines2(case, built, impl):
    toks = impl.get("trace")
    if toks is None:
        return ["fx.trace -"]
    out = impl.get("out")
    return ["fx.trace " + (hx(out) if out else "-") + " " + " ".join(toks)]


def model_lines(case, built):
    return ["fx.trace -"]


def model_parse(case, built, out):
    if not out:
        return {"answers": None, "wf": None}
    if out[0].startswith("ok"):
        return {"answers": ["RO"], "wf": True, "raw": out[0]}
    if out[0].startswith("mut"):
        return {"answers": ["MUT"], "wf": True, "raw": out[0]}
    return {"answers": None, "wf": None, "raw": out[0]}


def nontrivial(case, built, model):
    raw = model.get("raw") or ""
    return raw.startswith("ok") and raw != "ok 0"


def search(seed, broken, budget):
    """directed search after a broken table theorem: the thorough stream plus inputs large enough to make an in-memory spool spill"""
    import gen_envelope
    import gen_vmtar
    rng = random.Random(f"C09/search/{seed}")
    big = []
    r = gen_envelope.gen_recipe(rng, "quick")
    r["plen"], r["padding"] = 40 << 20, 0
    big.append({"id": "env-big", "fam": "envelope", "recipe": r, "wrongkey": False, "queries": []})
    t = gen_vmtar.gen_recipe(rng, "quick")
    while t["huge"] or not t["members"]:
        t = gen_vmtar.gen_recipe(rng, "quick")
    m = dict(t["members"][0], visor=True, type="file", pre="", base="big.bin", long=False, magic="visor", size=40 << 20, place="area", tf="0")
    m.pop("alias", None); m.pop("edge", None); m.pop("link", None)
    t2 = dict(t, members=[m], area=[0], gaps=[0], huge=0, gz=True, gzcuts=[], flavor="visor")
    big.append({"id": "vgz-big", "fam": "vmtar-big", "recipe": t2, "queries": []})
    return big + generate(seed + 500, "thorough")[: min(budget, 1200)]
