/-
  Hv.Driver.Meta — driver commands of the metadata layer (C14). Every answer is
  `ok k=v k=v …` (byte strings as `x<hex>`, absent values as `N`) or `err <kind>`.
-/
import Hv.Driver.Core
import Hv.Driver.Vmdk
import Hv.Meta
import Hv.HddOpen
import Hv.Stream
import Hv.MetaEnc
namespace Hv.Driver
open Hv

def xb (b : Bytes) : String := "x" ++ hexOf b
def xo (o : Option Bytes) : String := match o with | some b => xb b | none => "N"
def utf8ok (b : Bytes) : Bool := (String.fromUTF8? (ByteArray.mk b.toArray)).isSome
def utf8okO (o : Option Bytes) : Bool := match o with | some b => utf8ok b | none => true
def natsO (o : Option (List Nat)) : String := match o with | some l => ",".intercalate (l.map toString) | none => "N"

def snapTok (i : Nat) (s : Meta.SnapFull) : String :=
  s!"snap{i}={xb s.idStr}:{xb s.name}:{s.l1Offset}:{s.l1Size}:{s.dateSec}:{s.dateNsec}:{s.vmClock}:{s.vmStateSize}:{s.extraSize}:" ++
  s!"{s.vmStateLarge}:{s.diskSize}:{s.icount}:{xo s.unknownExtra}:{s.entrySize}"

def enum (l : List α) : List (Nat × α) := (List.range l.length).zip l

def qmetaOut (m : Meta.QMeta) : String :=
  if ¬ (utf8okO m.backingFile ∧ utf8okO m.backingFormat ∧ utf8okO m.dataFile) then "err decode" else
  let head := [s!"size={m.size}", s!"cluster_size={m.clusterSize}", s!"version={m.version}", s!"l1_size={m.l1Size}",
    s!"l1_table_offset={m.l1Offset}", s!"nb_snapshots={m.nbSnapshots}", s!"snapshots_offset={m.snapshotsOffset}",
    s!"header_length={m.headerLength}", s!"incompatible_features={m.incompat}", s!"compression_type={m.compressionType}",
    s!"backing_file={xo m.backingFile}", s!"backing_format={xo m.backingFormat}", s!"data_file={xo m.dataFile}",
    s!"feature_table={xo m.featureTable}", s!"bitmaps={natsO m.bitmaps}", s!"crypto={natsO m.crypto}",
    s!"n_unknown={m.unknown.length}"]
  let unk := (enum m.unknown).map (fun (i, e) => s!"unknown{i}={e.magic}:{e.len}:{xb e.data}")
  let exts := s!"n_ext={m.exts.length}" :: (enum m.exts).map (fun (i, e) => s!"ext{i}={e.magic}:{e.len}:{xb e.data}")
  let snaps := match m.snapshots with
    | .error _ => ["snapshots=E"]
    | .ok l => if l.all (fun s => utf8ok s.idStr && utf8ok s.name) then s!"snapshots={l.length}" :: (enum l).map (fun (i, s) => snapTok i s)
               else ["snapshots=E"]
  "ok " ++ " ".intercalate (head ++ unk ++ exts ++ snaps)

def vmetaOut (m : Meta.VMeta) : String :=
  let h := m.hdr
  let head := [s!"seq1={m.seqs.1}", s!"seq2={m.seqs.2}", s!"header.sequence_number={h.seq}", s!"header.signature={xb h.signature}",
    s!"header.checksum={h.checksum}", s!"header.file_write_guid={xb h.fileWriteGuid}", s!"header.data_write_guid={xb h.dataWriteGuid}",
    s!"header.log_guid={xb h.logGuid}", s!"header.log_version={h.logVersion}", s!"header.version={h.version}",
    s!"header.log_length={h.logLength}", s!"header.log_offset={h.logOffset}",
    s!"size={m.size}", s!"block_size={m.blockSize}", s!"has_parent={if m.hasParent then 1 else 0}", s!"sector_size={m.sectorSize}",
    s!"physical_sector_size={match m.physSectorSize with | some n => toString n | none => "N"}", s!"id={xb m.diskId}",
    s!"locator_type={xo m.locatorType}", s!"n_locator={m.locator.length}"]
  "ok " ++ " ".intercalate (head ++ (enum m.locator).map (fun (i, e) => s!"loc{i}={xb e.1}:{xb e.2}"))

def descOut (d : VmdkDesc.Desc) : String :=
  let sx := fun (s : List Char) => "x" ++ hx s
  let os := fun (o : Option (List Char)) => match o with | some s => sx s | none => "N"
  let kv := fun (pre : String) (l : List (List Char × List Char)) => (enum l).map (fun (i, p) => s!"{pre}{i}={sx p.1}:{sx p.2}")
  let ex := (enum d.extents).map (fun (i, e) =>
    s!"extent{i}={sx e.access},{e.sectors},{sx e.type},{os e.filename},{optN e.start},{os e.uuid},{os e.dev},{sx e.raw}")
  "ok " ++ " ".intercalate ([s!"sectors={d.sectors}", s!"n_attr={d.attr.length}", s!"n_ddb={d.ddb.length}", s!"n_extents={d.extents.length}"]
    ++ kv "attr" d.attr ++ kv "ddb" d.ddb ++ ex)

def kvOut (m : Meta.KV) : String :=
  "ok " ++ " ".intercalate (m.ints.map (fun p => s!"{p.1}={p.2}") ++ m.blobs.map (fun p => s!"{p.1}={xb p.2}"))

/-- pre-order tokens `tagHex textHex|- nChildren` -/
def parseElem : Nat → List String → Option (Meta.Elem × List String)
  | 0, _ => none
  | fuel+1, tag :: text :: n :: rest => do
    let t ← hexToString tag
    let tx ← (if text = "-" then some none else (hexToString (text.drop 1).toString).map some)
    let k ← n.toNat?
    let rec kids : Nat → List String → List Meta.Elem → Option (List Meta.Elem × List String)
      | 0, r, acc => some (acc.reverse, r)
      | j+1, r, acc => match parseElem fuel r with
        | some (c, r') => kids j r' (c :: acc)
        | none => none
    let (cs, r) ← kids k rest []
    some (.node t tx cs, r)
  | _, _ => none

def so (o : Option String) : String := match o with | some s => "x" ++ hexOf s.toUTF8.toList | none => "N"

def hddOut (d : Meta.Descriptor) : String :=
  let st := (enum d.storages).map (fun (i, s) =>
    s!"storage{i}={s.start}:{s.end_}:{s.images.length}" ::
      (enum s.images).map (fun (j, im) => s!"image{i}.{j}={im.guid}:{so im.type}:{so im.file}"))
  "ok " ++ " ".intercalate ([s!"n_storages={d.storages.length}"] ++ st.flatten ++
    [s!"top_guid={match d.topGuid with | some g => toString g | none => "N"}", s!"n_shots={d.shots.length}"] ++
    (enum d.shots).map (fun (i, s) => s!"shot{i}={s.guid}:{s.parent}"))

def res (r : Except Err String) : String := match r with | .ok s => s | .error e => s!"err {e}"

/-- `l1off,l1size,datesec,datensec,clock,vmstate,<extra>,<idhex|->,<namehex|->`;
    extra = `n` | `a:large:disk` | `b:large:disk:icount` | `m:large:disk:icount:<tailhex|->` -/
def parseSnapSpec (t : String) : Option Meta.SnapSpec :=
  let hx (h : String) : Option Bytes := if h == "-" then some [] else (parseHex h).map (·.toList)
  match t.splitOn "," with
  | [a, b, c, d, e, f, x, i, n] => do
    let extra ← (match x.splitOn ":" with
      | ["n"] => some Meta.SnapExtra.none
      | ["a", l, dk] => do some (.v16 (← l.toNat?) (← dk.toNat?))
      | ["b", l, dk, ic] => do some (.v24 (← l.toNat?) (← dk.toNat?) (← ic.toNat?))
      | ["m", l, dk, ic, tl] => do some (.more (← l.toNat?) (← dk.toNat?) (← ic.toNat?) (← hx tl))
      | _ => none)
    some { l1Offset := ← a.toNat?, l1Size := ← b.toNat?, dateSec := ← c.toNat?, dateNsec := ← d.toNat?, vmClock := ← e.toNat?,
           vmStateSize := ← f.toNat?, extra, idStr := ← hx i, name := ← hx n }
  | _ => none

/-- the hypotheses of `snapshot_table_roundtrip` evaluated on a file (`hyp`: every spec in range and the table bytes at `off`
    are exactly `encodeSnaps specs`) and the evaluated instance of its conclusion (`rt`) -/
def snapEnc (fh : File) (off : Nat) (specs : List Meta.SnapSpec) : String :=
  let e := Meta.encodeSnaps specs
  let hyp := specs.all (·.ok) && decide (off + e.length ≤ fh.size) && decide (slice fh.byte off e.length = e)
  let rt := decide (Meta.readSnapsFull fh specs.length off = .ok (specs.map Meta.SnapSpec.expected))
  s!"ok {if hyp then 1 else 0} {if rt then 1 else 0}"

def metaCmd (st : St) : List String → String
  | "meta.snapenc" :: img :: off :: specs =>
    match st.file? img, off.toNat?, specs.mapM parseSnapSpec with
    | some fh, some o, some ss => snapEnc fh o ss
    | _, _, _ => "bad-args"
  | ["meta.qcow2", img, data, b] =>
    match st.file? img with
    | some fh => res ((Meta.qcow2 fh (st.file? data) (b = "b")).map qmetaOut)
    | none => "bad-args"
  | ["meta.vhdx", img] =>
    match st.file? img with
    | some fh => res ((Meta.vhdx fh).map vmetaOut)
    | none => "bad-args"
  | ["meta.vmdk", img] =>
    match st.file? img with
    | some fh => match Meta.embeddedDescriptor fh with
      | .error e => s!"err {e}"
      | .ok none => "ok descriptor=N"
      | .ok (some b) => match String.fromUTF8? (ByteArray.mk b.toArray) with
        | some t => descOut (VmdkDesc.parse t.toList)
        | none => "err decode"
    | none => "bad-args"
  | ["meta.desc", h] =>
    match hexToString h with
    | some t => descOut (VmdkDesc.parse t.toList)
    | none => "err decode"
  | ["meta.descfile", id] =>
    match (st.file? id).bind fileText with
    | some t => descOut (VmdkDesc.parse t.toList)
    | none => "err decode"
  | ["meta.kvline", h] =>
    match hexToString h with
    | some t => let p := Meta.kvLine t.toList; s!"ok x{hx p.1} x{hx p.2}"
    | none => "err decode"
  | ["meta.vhd", img] => match st.file? img with | some fh => res ((Meta.vhd fh).map kvOut) | none => "bad-args"
  | ["meta.vdi", img] => match st.file? img with | some fh => res ((Meta.vdi fh).map kvOut) | none => "bad-args"
  | ["meta.hds", img] => match st.file? img with | some fh => res ((Meta.hds fh).map kvOut) | none => "bad-args"
  | "meta.hdd" :: toks =>
    match parseElem (toks.length + 1) toks with
    | some (root, []) => res ((Meta.descriptor root).map hddOut)
    | _ => "bad-args"
  | "meta.hddopen" :: null :: deftop :: guid :: desc :: align :: nf :: rest =>
    -- C12: `HDD(path).open(guid)` up to the streams handed to `StorageStream`.
    --   desc = 0 (no DiskDescriptor.xml) | 1; nf file tokens `<name hex>=<file id>` (what `_open_image` can open);
    --   then the element tree of the descriptor as for `meta.hdd` (no tokens: the XML parser raised)
    match null.toNat?, deftop.toNat?, align.toNat?, nf.toNat? with
    | some n, some t, some a, some k =>
      let names := (rest.take k).filterMap fun tok => match tok.splitOn "=" with
        | [h, id] => (hexToString h).map fun nm => (nm, id)
        | _ => none
      let toks := rest.drop k
      let descr : Option (Except Err Meta.Descriptor) :=
        if desc = "0" then none
        else match parseElem (toks.length + 1) toks with
          | some (root, []) => some (Meta.descriptor root)
          | _ => some (.error .other)
      let dir : HddOpen.Dir :=
        { descriptor := descr
          openImage := fun nm => match (names.find? (·.1 = nm)).bind (fun p => st.file? p.2) with
            | some f => .ok f
            | none => .error .other
          hdsStream := fun v off len => do
            let (_, s0) ← (AS.init v.size a).seek off .set
            let (d, _) ← s0.read v.read len
            pure d }
      match HddOpen.open dir n t (if guid = "-" then none else guid.toNat?) with
      | .error e => s!"err {e}"
      | .ok l => s!"ok n={l.length} " ++ " ".intercalate (l.map fun (s, r) => s!"{s.start}:{s.end_}:{if r.isSome then 1 else 0}")
    | _, _, _, _ => "bad-args"
  | _ => "bad-cmd"

end Hv.Driver
