/-
  HvProofs.VmdkDescRT — completeness of the direct extent-line parser on canonically written pieces, and the
  round trip `parse ∘ print` on `wfExtent`.
-/
import HvProofs.VmdkDesc
namespace Hv.VmdkDesc
open Hv Hv.Regex

theorem optPiece_some (w : Char) (t : Str) : optPiece (some (w, t)) = w :: t := rfl
theorem optPiece_none : optPiece none = [] := rfl

theorem isSp_not_isDg (x : Char) (h : isSp x = true) : isDg x = false := by
  cases hd : isDg x with
  | false => rfl
  | true => rw [isDg_not_isSp x hd] at h; cases h

theorem takeWhile_tok (P : Char → Bool) (tok rest : Str) (hall : tok.all P = true)
    (hrest : ∀ x xs, rest = x :: xs → P x = false) :
    (tok ++ rest).takeWhile P = tok ∧ (tok ++ rest).dropWhile P = rest := by
  induction tok with
  | nil =>
    cases rest with
    | nil => exact ⟨rfl, rfl⟩
    | cons x xs => simp [hrest x xs rfl]
  | cons c cs ih =>
    simp only [List.all_cons, Bool.and_eq_true] at hall
    obtain ⟨i1, i2⟩ := ih hall.2
    simp [hall.1, i1, i2]

theorem tokenThen_complete (P : Char → Bool) (w : Char) (tok rest : Str) (hw : isSp w = true)
    (hne : tok.isEmpty = false) (hall : tok.all P = true) (hrest : ∀ x xs, rest = x :: xs → P x = false) :
    tokenThen P (w :: (tok ++ rest)) = some (w, tok, rest) := by
  obtain ⟨h1, h2⟩ := takeWhile_tok P tok rest hall hrest
  simp [tokenThen, hw, h1, h2, hne]

/-- an optional piece starts with a space character (or is empty) -/
theorem optPiece_head (P : Char → Bool) (o : Piece) (h : pieceOk P o = true) :
    ∀ x xs, optPiece o = x :: xs → isSp x = true := by
  intro x xs hx
  cases o with
  | none => cases hx
  | some p =>
    obtain ⟨w, t⟩ := p
    simp only [optPiece, List.cons.injEq] at hx
    simp only [pieceOk, Bool.and_eq_true] at h
    rw [← hx.1]; exact h.1.1

theorem pieceOk_some {P : Char → Bool} {w : Char} {t : Str} (h : pieceOk P (some (w, t)) = true) :
    isSp w = true ∧ t.isEmpty = false ∧ t.all P = true := by
  simp only [pieceOk, Bool.and_eq_true, Bool.not_eq_true'] at h
  exact ⟨h.1.1, h.1.2, h.2⟩

theorem tailDev_complete (d : Piece) (h : pieceOk isNsp d = true) : tailDev (optPiece d) = some d := by
  cases d with
  | none => rfl
  | some p =>
    obtain ⟨w, t⟩ := p
    obtain ⟨h1, h2, h3⟩ := pieceOk_some h
    have := tokenThen_complete isNsp w t [] h1 h2 h3 (by intro x xs hx; cases hx)
    simp only [List.append_nil] at this
    simp [optPiece_some, tailDev, this]

theorem tailUuid_complete (u d : Piece) (hu : pieceOk isNsp u = true) (hd : pieceOk isNsp d = true)
    (hpos : (d.isNone || u.isSome) = true) : tailUuid (optPiece u ++ optPiece d) = some (u, d) := by
  cases u with
  | none =>
    cases d with
    | none => rfl
    | some _ => simp at hpos
  | some p =>
    obtain ⟨w, t⟩ := p
    obtain ⟨h1, h2, h3⟩ := pieceOk_some hu
    have := tokenThen_complete isNsp w t (optPiece d) h1 h2 h3 (by
      intro x xs hx
      simp [isNsp, optPiece_head _ d hd x xs hx])
    simp only [optPiece_some, List.cons_append, tailUuid, this, tailDev_complete d hd, Option.map_some]

theorem dropWhile_stops (P : Char → Bool) (t r : Str) (h : t.all P = false) :
    ∃ x xs, x ∈ t ∧ P x = false ∧ (t ++ r).dropWhile P = x :: xs := by
  induction t with
  | nil => simp at h
  | cons c cs ih =>
    by_cases hc : P c = true
    · have : cs.all P = false := by simpa [hc] using h
      obtain ⟨x, xs, hx, hpx, he⟩ := ih this
      exact ⟨x, xs, List.mem_cons_of_mem _ hx, hpx, by simp [hc, he]⟩
    · exact ⟨c, cs ++ r, List.mem_cons_self, by simpa using hc, by simp [hc]⟩

theorem tailStart_complete (st u d : Piece) (hs : pieceOk isDg st = true) (hu : pieceOk isNsp u = true)
    (hd : pieceOk isNsp d = true) (hpos : (d.isNone || u.isSome) = true)
    (hdig : (st.isSome || notAllDigits u) = true) :
    tailStart (optPiece st ++ (optPiece u ++ optPiece d)) = some (st, u, d) := by
  have hU := tailUuid_complete u d hu hd hpos
  cases st with
  | some p =>
    obtain ⟨w, ds⟩ := p
    obtain ⟨h1, h2, h3⟩ := pieceOk_some hs
    have := tokenThen_complete isDg w ds (optPiece u ++ optPiece d) h1 h2 h3 (by
      intro x xs hx
      apply isSp_not_isDg
      cases u with
      | some q =>
        obtain ⟨w', t'⟩ := q
        rw [optPiece_some, List.cons_append] at hx
        simp only [List.cons.injEq] at hx
        rw [← hx.1]; exact (pieceOk_some hu).1
      | none =>
        cases d with
        | none => cases hx
        | some _ => simp at hpos)
    simp only [optPiece_some, List.cons_append, tailStart, this, hU]
  | none =>
    simp only [optPiece_none, List.nil_append, tailStart, hU, Option.map_some]
    cases u with
    | none =>
      cases d with
      | none => rfl
      | some _ => simp at hpos
    | some q =>
      obtain ⟨w, t⟩ := q
      obtain ⟨h1, h2, h3⟩ := pieceOk_some hu
      simp only [Option.isSome_none, Bool.false_or, notAllDigits, Bool.not_eq_true'] at hdig
      simp only [optPiece_some, List.cons_append]
      cases ht : tokenThen isDg (w :: (t ++ optPiece d)) with
      | none => rfl
      | some v =>
        obtain ⟨w', tok, rest⟩ := v
        simp only
        have hrest : rest = (t ++ optPiece d).dropWhile isDg := by
          simp only [tokenThen] at ht
          split at ht
          · simp only [Option.some.injEq, Prod.mk.injEq] at ht; exact ht.2.2.symm
          · cases ht
        obtain ⟨x, xs, hx, -, he⟩ := dropWhile_stops isDg t (optPiece d) hdig
        rw [hrest, he]
        have hxs : isSp x = false := by
          have := (List.all_eq_true.mp h3) x hx
          simpa [isNsp] using this
        rw [tailUuid_nonspace x xs hxs]

theorem split_last (r : Str) (c : Char) (h : r.getLast? = some c) : r = r.dropLast ++ [c] := by
  have hne : r ≠ [] := by intro h0; rw [h0] at h; simp at h
  have h1 := List.dropLast_concat_getLast hne
  rw [List.getLast?_eq_some_getLast hne] at h
  simp only [Option.some.injEq] at h
  rw [← h]; exact h1.symm

theorem closeQ_noquote (s : Str) (h : ∀ c ∈ s, c ≠ '"') : closeQ s = none := by
  induction s with
  | nil => rfl
  | cons c cs ih =>
    have hc : c ≠ '"' := h c List.mem_cons_self
    have := ih (fun c' hc' => h c' (List.mem_cons_of_mem _ hc'))
    simp only [closeQ, this, hc, if_false, ite_self]

theorem closeQ_complete (pre rest : Str) (t : Piece × Piece × Piece) (hpre : ∀ c ∈ pre, c ≠ '\n')
    (hrest : closeQ rest = none) (ht : tailStart rest = some t) :
    closeQ (pre ++ '"' :: rest) = some (pre.length, t) := by
  induction pre with
  | nil => simp [closeQ, hrest, ht]
  | cons c cs ih =>
    have hc : c ≠ '\n' := hpre c List.mem_cons_self
    have := ih (fun c' hc' => hpre c' (List.mem_cons_of_mem _ hc'))
    simp [closeQ, hc, this]

theorem piece_noquote (P : Char → Bool) (o : Piece) (hok : pieceOk P o = true) (hq : noQuote o = true) :
    ∀ c ∈ optPiece o, c ≠ '"' := by
  cases o with
  | none => intro c hc; cases hc
  | some p =>
    obtain ⟨w, t⟩ := p
    intro c hc
    rw [optPiece_some, List.mem_cons] at hc
    rcases hc with rfl | hc
    · intro h; subst h
      have := (pieceOk_some hok).1
      revert this; decide
    · have := (List.all_eq_true.mp hq) c hc
      simpa using this

theorem digits_noQuote (o : Piece) (hok : pieceOk isDg o = true) : noQuote o = true := by
  cases o with
  | none => rfl
  | some p =>
    obtain ⟨w, t⟩ := p
    simp only [noQuote, List.all_eq_true]
    intro c hc
    have := (List.all_eq_true.mp (pieceOk_some hok).2.2) c hc
    simp only [bne_iff_ne, ne_eq]
    intro h; subst h
    revert this; decide

theorem tailName_complete (fn st u d : Piece) (hf : namePieceOk fn = true) (hs : pieceOk isDg st = true)
    (hu : pieceOk isNsp u = true) (hd : pieceOk isNsp d = true) (hpos : (d.isNone || u.isSome) = true)
    (hdig : (st.isSome || notAllDigits u) = true)
    (hqu : noQuote u = true) (hqd : noQuote d = true) :
    tailName (optPiece fn ++ (optPiece st ++ (optPiece u ++ optPiece d))) = some (fn, st, u, d) := by
  have hT := tailStart_complete st u d hs hu hd hpos hdig
  have hQ : ∀ c ∈ optPiece st ++ (optPiece u ++ optPiece d), c ≠ '"' := by
    intro c hc
    simp only [List.mem_append] at hc
    rcases hc with hc | hc | hc
    · exact piece_noquote _ st hs (digits_noQuote st hs) c hc
    · exact piece_noquote _ u hu hqu c hc
    · exact piece_noquote _ d hd hqd c hc
  generalize hR : optPiece st ++ (optPiece u ++ optPiece d) = R at hT hQ
  cases fn with
  | none =>
    simp only [optPiece_none, List.nil_append]
    unfold tailName
    split
    · rename_i w q x xs
      have hq : q ≠ '"' := hQ q (by simp)
      have : (q == '"') = false := by simpa using hq
      simp [this, hT]
    · simp [hT]
  | some p =>
    obtain ⟨w, t⟩ := p
    simp only [namePieceOk, Bool.and_eq_true] at hf
    obtain ⟨hw, hf⟩ := hf
    split at hf
    · rename_i r
      simp only [Bool.and_eq_true, decide_eq_true_eq, beq_iff_eq, List.all_eq_true, bne_iff_ne] at hf
      obtain ⟨⟨hlen, hlast⟩, hnl⟩ := hf
      have hr := split_last r '"' hlast
      cases hn : r.dropLast with
      | nil =>
        have := List.length_dropLast (xs := r)
        rw [hn] at this
        simp only [List.length_nil] at this
        omega
      | cons x xs' =>
        rw [hn] at hr hnl
        have hx : x ≠ '\n' := hnl x List.mem_cons_self
        have hx' : (x != '\n') = true := by simpa using hx
        have hc := closeQ_complete xs' R _ (fun c hc => hnl c (List.mem_cons_of_mem _ hc))
          (closeQ_noquote R hQ) hT
        rw [optPiece_some, hr]
        have e : (w :: '"' :: ((x :: xs') ++ ['"'])) ++ R = w :: '"' :: x :: (xs' ++ '"' :: R) := by simp
        rw [e]
        simp only [tailName, hw, hx', beq_self_eq_true, Bool.and_self, if_true, hc, List.take_left]
        simp
    · cases hf

theorem typeThen_complete (T rest : Str) (t : Piece × Piece × Piece × Piece) (hT : T ∈ typeWords)
    (h : tailName rest = some t) : typeThen (T ++ rest) = some (T, t) := by
  have hS : ∀ xs, tailName ('S' :: xs) = none := fun xs => tailName_nonspace 'S' xs (by decide)
  have hR : ∀ xs, tailName ('R' :: xs) = none := fun xs => tailName_nonspace 'R' xs (by decide)
  simp only [typeWords, List.mem_cons, List.not_mem_nil, or_false] at hT
  rcases hT with rfl | rfl | rfl | rfl | rfl | rfl | rfl | rfl <;>
    simp [typeThen, typeWords, h, hS, hR]

theorem afterAccess_complete (w1 : Char) (ds : Str) (w2 : Char) (T rest : Str) (t : Piece × Piece × Piece × Piece)
    (h1 : isSp w1 = true) (hne : ds.isEmpty = false) (hds : ds.all isDg = true) (h2 : isSp w2 = true)
    (hT : T ∈ typeWords) (h : tailName rest = some t) :
    afterAccess (w1 :: (ds ++ w2 :: (T ++ rest))) = some (w1, ds, w2, T, t) := by
  have := tokenThen_complete isDg w1 ds (w2 :: (T ++ rest)) h1 hne hds (by
    intro x xs hx
    simp only [List.cons.injEq] at hx
    rw [← hx.1]; exact isSp_not_isDg w2 h2)
  simp [afterAccess, this, h2, typeThen_complete T rest t hT h]

/-- **completeness of the direct parser** on canonically written pieces: every valid, canonical `Raw` is
    what its own line parses to — any space characters as separators, any Unicode digits, any quoted name
    (inner `"`, spaces, `=`, `#` included) -/
theorem parseRaw_complete (F : Raw) (hv : F.validb = true) (hc : F.canonb = true) : parseRaw F.line = some F := by
  obtain ⟨a, w1, ds, w2, ty, fn, st, u, d⟩ := F
  simp only [Raw.validb, Bool.and_eq_true, Bool.not_eq_true', List.contains_iff_mem] at hv
  obtain ⟨⟨⟨⟨⟨⟨⟨⟨⟨ha, h1⟩, hne⟩, hds⟩, h2⟩, hty⟩, hfn⟩, hst⟩, hu⟩, hd⟩ := hv
  simp only [Raw.canonb, Bool.and_eq_true] at hc
  obtain ⟨⟨⟨hpos, hqu⟩, hqd⟩, hdig⟩ := hc
  have hT := tailName_complete fn st u d hfn hst hu hd hpos hdig hqu hqd
  have hA := afterAccess_complete w1 ds w2 ty _ _ h1 hne hds h2 hty hT
  simp only [Raw.line]
  simp only [accessWords, List.mem_cons, List.not_mem_nil, or_false] at ha
  rcases ha with rfl | rfl | rfl <;> simp [parseRaw, accessWords, hA]

/-! ### the printer -/

theorem digit_isDg : ∀ d, d < 10 → isDg (digitChar d) = true := by decide
theorem digit_val : ∀ d, d < 10 → digitVal tables (digitChar d).toNat = some d := by decide

theorem parseInt_snoc (s : Str) (c : Char) :
    parseInt (s ++ [c]) = match parseInt s, digitVal tables c.toNat with
      | some a, some d => some (a * 10 + d)
      | _, _ => none := by
  unfold parseInt
  rw [List.foldl_append]
  rfl

theorem natDigitsF_spec : ∀ (f n : Nat), n < f →
    (natDigitsF f n).isEmpty = false ∧ (natDigitsF f n).all isDg = true ∧ parseInt (natDigitsF f n) = some n := by
  intro f
  induction f with
  | zero => intro n h; omega
  | succ f ih =>
    intro n hn
    rw [natDigitsF]
    split
    · rename_i h
      refine ⟨rfl, by simp [digit_isDg n h], ?_⟩
      simp [parseInt, digit_val n h]
    · rename_i h
      obtain ⟨i1, i2, i3⟩ := ih (n / 10) (by omega)
      have hm : n % 10 < 10 := by omega
      refine ⟨by simp, by simp [i2, digit_isDg _ hm], ?_⟩
      rw [parseInt_snoc, i3, digit_val _ hm]
      simp only [Option.some.injEq]
      omega

theorem natDigits_spec (n : Nat) :
    (natDigits n).isEmpty = false ∧ (natDigits n).all isDg = true ∧ parseInt (natDigits n) = some n :=
  natDigitsF_spec (n + 1) n (by omega)

theorem dropWhile_head_stop (f : Char → Bool) (l : Str) (h : ∀ x, l.head? = some x → f x = false) :
    l.dropWhile f = l := by
  cases l with
  | nil => rfl
  | cons x xs => simp [h x rfl]

theorem strip_quotes (n : Str) (hne : n.isEmpty = false) (hh : n.head? ≠ some '"') (hl : n.getLast? ≠ some '"') :
    stripChars ['"'] ('"' :: (n ++ ['"'])) = n := by
  have hf : ∀ x : Char, (['"'].contains x) = (x == '"') := by
    intro x
    cases h : (x == '"') <;> simp [List.contains, List.elem, h]
  simp only [stripChars, hf]
  have h1 : List.dropWhile (fun c => c == '"') ('"' :: (n ++ ['"'])) = n ++ ['"'] := by
    rw [List.dropWhile_cons]
    simp only [beq_self_eq_true, if_true]
    apply dropWhile_head_stop
    intro x hx
    cases n with
    | nil => simp at hne
    | cons y ys =>
      simp only [List.cons_append, List.head?_cons, Option.some.injEq] at hx hh
      subst hx
      simpa using hh
  rw [h1, List.reverse_append, List.reverse_singleton, List.singleton_append, List.dropWhile_cons]
  simp only [beq_self_eq_true, if_true]
  rw [dropWhile_head_stop, List.reverse_reverse]
  intro x hx
  rw [List.head?_reverse] at hx
  rw [hx] at hl
  simpa using hl

theorem wf_valid (e : ExtentSpec) (h : wfExtent e = true) : e.raw.validb = true ∧ e.raw.canonb = true := by
  simp only [wfExtent, Bool.and_eq_true] at h
  obtain ⟨⟨⟨⟨⟨⟨ha, hty⟩, hn⟩, hu⟩, hd⟩, hpos⟩, hdig⟩ := h
  obtain ⟨n1, n2, -⟩ := natDigits_spec e.sectors
  have hsp : isSp ' ' = true := by decide
  have tok : ∀ o : Option Str, tokOk o = true →
      pieceOk isNsp (o.map (fun u => (' ', u))) = true ∧ noQuote (o.map (fun u => (' ', u))) = true := by
    intro o ho
    cases o with
    | none => exact ⟨rfl, rfl⟩
    | some t =>
      simp only [tokOk, Bool.and_eq_true, Bool.not_eq_true', List.all_eq_true, bne_iff_ne] at ho
      simp only [Option.map_some, pieceOk, noQuote, hsp, Bool.true_and, Bool.and_eq_true, Bool.not_eq_true',
        List.all_eq_true, bne_iff_ne]
      exact ⟨⟨ho.1, fun c hc => (ho.2 c hc).1⟩, fun c hc => (ho.2 c hc).2⟩
  have hname : namePieceOk (e.filename.map (fun n => (' ', '"' :: (n ++ ['"'])))) = true := by
    cases hf : e.filename with
    | none => rfl
    | some n =>
      rw [hf] at hn
      simp only [nameOk, Bool.and_eq_true, Bool.not_eq_true', List.all_eq_true] at hn
      simp only [Option.map_some, namePieceOk, hsp, Bool.true_and, List.length_append, List.length_cons,
        List.length_nil, List.getLast?_concat, beq_self_eq_true, List.dropLast_concat, Bool.and_eq_true,
        decide_eq_true_eq, List.all_eq_true, Bool.and_true]
      refine ⟨?_, hn.1.1.2⟩
      cases n with
      | nil => simp at hn
      | cons _ _ => simp
  have hstart : pieceOk isDg (e.start.map (fun n => (' ', natDigits n))) = true := by
    cases e.start with
    | none => rfl
    | some n =>
      obtain ⟨m1, m2, -⟩ := natDigits_spec n
      simp [pieceOk, hsp, m1, m2]
  constructor
  · simp only [Raw.validb, ExtentSpec.raw, ha, hty, hsp, n1, n2, hname, hstart, (tok _ hu).1, (tok _ hd).1]
    rfl
  · simp only [Raw.canonb, ExtentSpec.raw, (tok _ hu).2, (tok _ hd).2, Option.isNone_map, Option.isSome_map, hpos, hdig]
    rfl

theorem raw_line (e : ExtentSpec) : e.raw.line = printExtentLine e := rfl

theorem raw_toExtent (e : ExtentSpec) (h : wfExtent e = true) (line : Str) :
    e.raw.toExtent line = some ⟨line, e.access, e.sectors, e.type, e.filename, e.start, e.uuid, e.dev⟩ := by
  simp only [wfExtent, Bool.and_eq_true] at h
  obtain ⟨⟨⟨⟨⟨⟨-, -⟩, hn⟩, -⟩, -⟩, -⟩, -⟩ := h
  obtain ⟨-, -, n3⟩ := natDigits_spec e.sectors
  have hfn : (e.filename.map (fun n => (' ', '"' :: (n ++ ['"'])))).map
      (fun p => if p.2.isEmpty then p.2 else stripChars ['"'] p.2) = e.filename := by
    cases hf : e.filename with
    | none => rfl
    | some n =>
      rw [hf] at hn
      simp only [nameOk, Bool.and_eq_true, Bool.not_eq_true', bne_iff_ne] at hn
      simp only [Option.map_some, List.isEmpty_cons, Bool.false_eq_true, if_false]
      rw [strip_quotes n hn.1.1.1 hn.1.2 hn.2]
  simp only [Raw.toExtent, ExtentSpec.raw, n3, hfn, Option.map_map]
  cases hs : e.start with
  | none => simp [Function.comp_def]
  | some n =>
    obtain ⟨m1, -, m3⟩ := natDigits_spec n
    simp [m1, m3, Function.comp_def]

end Hv.VmdkDesc
