/-
  Hv.Envelope — model of dissect/hypervisor/util/envelope.py (Envelope.__init__, _read_envelope_attributes,
  _pack_envelope_header, _pack_attributes, Envelope.decrypt, KeyStore.from_text, KeyStore.__init__) and of
  dissect/hypervisor/tools/envelope.py (main), over *abstract crypto* (`Crypto`: SHA-256, PBKDF2-HMAC-SHA256,
  AES-GCM are parameters, never axioms).  Mathlib-free (the driver imports it).

  Modelled, not verified (transcribed, tied by correspondence): cstruct reads/writes, the CPython float32 <-> double
  conversion (`f32Repack`), `str.strip`/`split`/`partition`, `urllib.parse.unquote`, `binascii.a2b_base64`
  (non-strict), UTF-8 validity, pycryptodome's `verify` (exact comparison with the 16-byte tag) and its key-length
  check.
-/
import Hv.Prim.Bytes
import Hv.Prim.Layout
import Hv.Extracted
namespace Hv.Envelope
open Hv

/-! ## abstract crypto -/

/-- the external libraries, as parameters of the model -/
structure Crypto where
  /-- `hashlib.sha256(m).digest()` -/
  sha256 : Bytes → Bytes
  /-- `hashlib.pbkdf2_hmac("sha256", password, salt, rounds)` -/
  pbkdf2 : Bytes → Bytes → Nat → Bytes
  /-- `AES.new(key, MODE_GCM, nonce).update(aad)`: `decrypt(ct)` and the tag `verify` compares with -/
  gcm : Bytes → Bytes → Bytes → Bytes → Bytes × Bytes

/-- one call of an external function (what the driver's finite table is indexed by) -/
inductive Call where
  | sha256 (m : Bytes)
  | pbkdf2 (pw salt : Bytes) (rounds : Nat)
  | gcm (key iv aad ct : Bytes)
  deriving DecidableEq, Repr, Inhabited

/-! ## constants (all from extraction; pinned by the `_spec` theorems of HvProps/C16) -/

def BLOCK : Nat := Extracted.envelope.ENVELOPE_BLOCK_SIZE
def HDR : Nat := Extracted.envelope.EnvelopeFileHeader.size
def magicPos : Nat × Nat := Extracted.envelope.EnvelopeFileHeader.magic
def sizeF : Field := Extracted.envelope.EnvelopeFileHeader.size_field
def verF : Field := Extracted.envelope.EnvelopeFileHeader.version
def FILE_MAGIC : Bytes := Extracted.envelope.FILE_HEADER_MAGIC
def AEAD_SIZE : Nat := Extracted.envelope.DataTransformAeadFooter.size
def aeadData : Nat × Nat := Extracted.envelope.DataTransformAeadFooter.data
def aeadSizeF : Field := Extracted.envelope.DataTransformAeadFooter.size_field
def aeadVerF : Field := Extracted.envelope.DataTransformAeadFooter.version
def CF_SIZE : Nat := Extracted.envelope.DataTransformCryptoFooter.size
def padF : Field := Extracted.envelope.DataTransformCryptoFooter.padding
def SALT : Bytes := Extracted.envelope.PBKDF2_SALT
def tInvalid : Nat := Extracted.envelope.AttributeType_Invalid
def tString : Nat := Extracted.envelope.AttributeType_String
def tBytes : Nat := Extracted.envelope.AttributeType_Bytes
/-- literals inside function bodies: the model *picks* the value it needs out of the set of constants the live function
    uses (re-extracted on every run): if the code stops using the value the model degrades to a useless default (and the
    `_spec` theorems fail); reordering or adding other literals does not disturb it. -/
def pickN (l : List Nat) (x : Nat) : Nat := if l.contains x then x else 0
def pickB (l : List Bytes) (x : Bytes) : Bytes := if l.contains x then x else []
def pickS (l : List String) (x : String) : String := if l.contains x then x else ""

/-- `Envelope.__init__`: `version != 2`, `aead_footer.version != 1`, `2 * ENVELOPE_BLOCK_SIZE` -/
def ENV_VERSION : Nat := pickN Extracted.envelope.init_ints 2
def AEAD_VERSION : Nat := pickN Extracted.envelope.init_ints 1
def N_FRAME_BLOCKS : Nat := pickN Extracted.envelope.init_ints 2
/-- "vmware.keyInfo", "vmware.cipherName", "vmware.keyHash" (the `for req in (…)` tuple), "vmware.iv", "AES-256-GCM" -/
def nmKeyInfo : Bytes := pickB Extracted.envelope.init_utf8 [118, 109, 119, 97, 114, 101, 46, 107, 101, 121, 73, 110, 102, 111]
def nmCipher : Bytes := pickB Extracted.envelope.init_utf8 [118, 109, 119, 97, 114, 101, 46, 99, 105, 112, 104, 101, 114, 78, 97, 109, 101]
def nmKeyHash : Bytes := pickB Extracted.envelope.init_utf8 [118, 109, 119, 97, 114, 101, 46, 107, 101, 121, 72, 97, 115, 104]
def nmIv : Bytes := pickB Extracted.envelope.init_utf8 [118, 109, 119, 97, 114, 101, 46, 105, 118]
def REQUIRED : List Bytes := [nmKeyInfo, nmCipher, nmKeyHash]
def CIPHER_GCM : Bytes := pickB Extracted.envelope.init_utf8 [65, 69, 83, 45, 50, 53, 54, 45, 71, 67, 77]
def DEC_CIPHER_GCM : Bytes := pickB Extracted.envelope.decrypt_utf8 [65, 69, 83, 45, 50, 53, 54, 45, 71, 67, 77]
/-- `decrypted[-512:]` and `decrypted[: -4096 - footer.padding]` -/
def DEC_TAIL : Nat := pickN Extracted.envelope.decrypt_ints 512
def DEC_STRIP : Nat := pickN Extracted.envelope.decrypt_ints 4096
/-- `buf.read(2)` -/
def RESERVED : Nat := pickN Extracted.envelope.read_attrs_ints 2
/-- `b"\x00" * 512`, the magic written, `b"\x00" * 4` -/
def PACK_ZEROS : Nat := pickN Extracted.envelope.pack_header_ints 512
def PACK_MAGIC : Bytes := pickB Extracted.envelope.pack_header_bytes Extracted.envelope.FILE_HEADER_MAGIC
def TERM : Nat := pickN Extracted.envelope.pack_attrs_ints 4
def ROUNDS : Nat := pickN Extracted.envelope.ks_init_ints 100000

def sub (b : Bytes) (off len : Nat) : Bytes := (b.drop off).take len

/-! ## attributes -/

inductive Val where
  | int (v : Int)
  | f32 (bits : Nat)       -- IEEE bits; Python holds a float, the bits are what is observable
  | f64 (bits : Nat)
  | str (b : Bytes)        -- UTF-8 bytes of the decoded `str`
  | bytes (b : Bytes)
  deriving DecidableEq, Repr, Inhabited

structure Attr where
  name : Bytes             -- UTF-8 bytes of the decoded name
  typ : Nat
  flag : UInt8
  val : Val
  deriving DecidableEq, Repr, Inhabited

/-- row of ENVELOPE_ATTRIBUTE_TYPE_MAP: (code, kind, width, signed); kind 0 = `None`, 1 = integer, 2 = float -/
def typeRow (t : Nat) : Option (Nat × Nat × Nat × Nat) :=
  Extracted.envelope.ATTR_TYPE_MAP.find? (fun r => r.1 == t)

/-- `char[None]`: bytes up to the first NUL, and what follows it; `none` = EOFError (no NUL before the end) -/
def cstr : Bytes → Option (Bytes × Bytes)
  | [] => none
  | b :: rest =>
    if b = 0 then some ([], rest) else
    match cstr rest with
    | none => none
    | some (s, r) => some (b :: s, r)

def isCont (b : UInt8) : Bool := 0x80 ≤ b && b ≤ 0xBF

/-- `bytes.decode()` succeeds (strict UTF-8: no overlong forms, no surrogates, ≤ U+10FFFF) -/
def utf8ValidF : Nat → Bytes → Bool
  | 0, _ => false
  | _ + 1, [] => true
  | fuel + 1, b0 :: r =>
    if b0 < 0x80 then utf8ValidF fuel r
    else if 0xC2 ≤ b0 && b0 ≤ 0xDF then
      match r with
      | b1 :: r => isCont b1 && utf8ValidF fuel r
      | _ => false
    else if 0xE0 ≤ b0 && b0 ≤ 0xEF then
      match r with
      | b1 :: b2 :: r =>
        (if b0 = 0xE0 then 0xA0 ≤ b1 && b1 ≤ 0xBF else if b0 = 0xED then 0x80 ≤ b1 && b1 ≤ 0x9F else isCont b1)
          && isCont b2 && utf8ValidF fuel r
      | _ => false
    else if 0xF0 ≤ b0 && b0 ≤ 0xF4 then
      match r with
      | b1 :: b2 :: b3 :: r =>
        (if b0 = 0xF0 then 0x90 ≤ b1 && b1 ≤ 0xBF else if b0 = 0xF4 then 0x80 ≤ b1 && b1 ≤ 0x8F else isCont b1)
          && isCont b2 && isCont b3 && utf8ValidF fuel r
      | _ => false
    else false

def utf8Valid (b : Bytes) : Bool := utf8ValidF (b.length + 1) b

/-- one iteration of the `while True` loop of `_read_envelope_attributes` -/
inductive Step where
  | stop                              -- `break`: type Invalid, or EOFError
  | err (e : Err)                     -- an exception that leaves the function
  | attr (a : Attr) (rest : Bytes)
  deriving Repr, DecidableEq, Inhabited

/-- the value part, by type. `none` = EOFError. -/
def readVal (t : Nat) (b : Bytes) : Option (Except Err (Val × Bytes)) :=
  match typeRow t with
  | none => some (.error .other)                    -- NotImplementedError("Unknown attribute type")
  | some (_, kind, w, signed) =>
    if t = tString then
      match cstr b with
      | none => none
      | some (s, r) => if utf8Valid s then some (.ok (.str s, r)) else some (.error .value)
    else if t = tBytes then
      if b.length < 8 then none else
      let n := leNat (b.take 8)
      if n ≥ 2 ^ 63 then some (.error .other)         -- OverflowError in `buf.read`
      else some (.ok (.bytes ((b.drop 8).take n), (b.drop 8).drop n))     -- `buf.read(n)`: short at the end
    else if kind = 1 then
      if b.length < w then none else
      let v := leNat (b.take w)
      some (.ok (.int (if signed = 1 then toSigned (8 * w) v else (v : Int)), b.drop w))
    else if kind = 2 then
      if b.length < w then none else
      let v := leNat (b.take w)
      some (.ok (if w = 4 then .f32 v else .f64 v, b.drop w))
    else some (.error .other)                        -- `None(buf)`

def readOne (b : Bytes) : Step :=
  match b with
  | [] => .stop
  | t :: b1 =>
    if t.toNat = tInvalid then .stop else
    match b1 with
    | [] => .stop
    | flag :: b2 =>
      match cstr (b2.drop RESERVED) with
      | none => .stop
      | some (name, b4) =>
        if utf8Valid name = false then .err .value else
        match readVal t.toNat b4 with
        | none => .stop
        | some (.error e) => .err e
        | some (.ok (v, rest)) => .attr ⟨name, t.toNat, flag, v⟩ rest

/-- the attributes in file order -/
def readList : Nat → Bytes → Except Err (List Attr)
  | 0, _ => .error .nonTermination
  | fuel + 1, b =>
    match readOne b with
    | .stop => .ok []
    | .err e => .error e
    | .attr a rest =>
      match readList fuel rest with
      | .ok as => .ok (a :: as)
      | .error e => .error e

/-- `attributes[name] = …` on an insertion-ordered dict -/
def dictSet : List Attr → Attr → List Attr
  | [], a => [a]
  | x :: xs, a => if x.name = a.name then a :: xs else x :: dictSet xs a

/-- `_read_envelope_attributes(buf)` on the bytes that follow the file header inside the first block -/
def readAttrs (b : Bytes) : Except Err (List Attr) :=
  match readList (b.length + 1) b with
  | .ok as => .ok (as.foldl dictSet [])
  | .error e => .error e

def getAttr (attrs : List Attr) (name : Bytes) : Option Attr := attrs.find? (fun a => a.name == name)

/-- CPython `struct` float32 → double → float32 (x86-64): a signalling NaN comes back quiet -/
def f32Repack (bits : Nat) : Nat :=
  if (bits / 2 ^ 23) % 256 = 255 ∧ bits % 2 ^ 23 ≠ 0 then bits ||| 0x400000 else bits

def intWidth (t : Nat) : Nat := match typeRow t with | some (_, _, w, _) => w | none => 0

def packVal (t : Nat) : Val → Bytes
  | .str s => s ++ [0]
  | .bytes b => leBytes 8 b.length ++ b
  | .int v => leBytes (intWidth t) (v % ((2 ^ (8 * intWidth t) : Nat) : Int)).toNat
  | .f32 bits => leBytes 4 (f32Repack bits)
  | .f64 bits => leBytes 8 bits

def packAttr (a : Attr) : Bytes :=
  [UInt8.ofNat a.typ, a.flag] ++ zeros 2 ++ a.name ++ [0] ++ packVal a.typ a.val

def packBody : List Attr → Bytes
  | [] => []
  | a :: as => packAttr a ++ packBody as

/-- `_pack_attributes`: the attributes and the 4-NUL terminator -/
def packAttrs (as : List Attr) : Bytes := packBody as ++ zeros TERM

def padTo (b : Bytes) (blk : Nat) : Bytes :=
  if b.length % blk = 0 then b else b ++ zeros (blk - b.length % blk)

/-- overwrite `v.length` bytes of `b` at `off` -/
def patch (b : Bytes) (off : Nat) (v : Bytes) : Bytes := b.take off ++ v ++ b.drop (off + v.length)

/-- `EnvelopeFileHeader(magic=…, size=…, version=…).dumps()`: the fields at their (extracted) offsets, `_pad` zero -/
def fileHeader (size version : Nat) : Bytes :=
  PACK_MAGIC ++ zeros (sizeF.off - PACK_MAGIC.length) ++ leBytes sizeF.width size
    ++ zeros (verF.off - (sizeF.off + sizeF.width)) ++ leBytes verF.width version ++ zeros (HDR - (verF.off + verF.width))

/-- `_pack_envelope_header` -/
def packHeader (attrs : List Attr) (version : Nat) : Bytes :=
  let s := padTo (zeros PACK_ZEROS ++ packAttrs attrs) BLOCK
  patch s 0 (fileHeader (s.length - HDR) version)

/-! ## Envelope -/

structure Env where
  version : Nat
  attrs : List Attr
  cipherName : Bytes
  keyHash : Val
  iv : Option Val
  digest : Bytes
  size : Int            -- `self.size` = file size − 2 blocks (negative for a one-block file)
  data : Bytes          -- RangeStream(fh, BLOCK, size)
  deriving Repr, DecidableEq, Inhabited

/-- `Envelope.__init__` on the whole file contents -/
def openEnv (file : Bytes) : Except Err Env :=
  let blk := file.take BLOCK
  if blk.length < HDR then .error .eof else
  if sub blk magicPos.1 magicPos.2 ≠ FILE_MAGIC then .error .format else
  if verF.decode (sub blk verF.off verF.width) ≠ ENV_VERSION then .error .format else
  match readAttrs (blk.drop HDR) with
  | .error e => .error e
  | .ok attrs =>
    if REQUIRED.any (fun n => (getAttr attrs n).isNone) then .error .value else
    match getAttr attrs nmCipher, getAttr attrs nmKeyHash with
    | some ci, some kh =>
      if ci.val ≠ .str CIPHER_GCM then .error .format else
      if file.length < AEAD_SIZE then .error .eof else           -- seek(-BLOCK, END) + struct read
      let foot := file.drop (file.length - BLOCK)
      if aeadVerF.decode (sub foot aeadVerF.off aeadVerF.width) ≠ AEAD_VERSION then .error .value else
      let digest := (sub foot aeadData.1 aeadData.2).take (aeadSizeF.decode (sub foot aeadSizeF.off aeadSizeF.width))
      .ok { version := verF.decode (sub blk verF.off verF.width), attrs, cipherName := CIPHER_GCM, keyHash := kh.val,
            iv := (getAttr attrs nmIv).map (·.val), digest,
            size := (file.length : Int) - ((N_FRAME_BLOCKS * BLOCK : Nat) : Int),
            data := (file.drop BLOCK).take (file.length - N_FRAME_BLOCKS * BLOCK) }
    | _, _ => .error .value

/-- `if not self.iv` / what `AES.new(nonce=…)` accepts -/
def ivOf (e : Env) : Option Bytes :=
  match e.iv with
  | some (.bytes b) => if b = [] then none else some b
  | _ => none

/-- pycryptodome: AES keys are 16, 24 or 32 bytes -/
def aesKeyOk (key : Bytes) : Bool := key.length = 16 || key.length = 24 || key.length = 32

/-- the crypto-footer parse and the slice `decrypted[: -4096 - footer.padding]` -/
def stripPlain (dec : Bytes) : Except Err Bytes :=
  let tail := dec.drop (dec.length - DEC_TAIL)
  if tail.length < CF_SIZE then .error .eof else
  let padding := padF.decode (sub tail padF.off padF.width)
  .ok (dec.take (dec.length - (DEC_STRIP + padding)))

/-- what the cipher is fed as associated data: the re-serialised header, then the caller's AAD -/
def aadOf (e : Env) (aad : Bytes) : Bytes := packHeader e.attrs e.version ++ aad

/-- `Envelope.decrypt(key, aad)` (`aad = []` for `None`/empty; `verify` = the constructor flag) -/
def decrypt (c : Crypto) (e : Env) (verify : Bool) (key aad : Bytes) : Except Err Bytes :=
  if Val.bytes (c.sha256 (e.cipherName ++ key)) ≠ e.keyHash then .error .value else   -- "Key hash doesn't match"
  if e.cipherName ≠ DEC_CIPHER_GCM then .error .format else
  match ivOf e with
  | none => .error .value                                                              -- "Missing IV" / bad nonce
  | some iv =>
    if aesKeyOk key = false then .error .value else
    if e.size < 0 then .error .value else                                              -- bytearray(negative)
    match stripPlain (c.gcm key iv (aadOf e aad) e.data).1 with
    | .error x => .error x
    | .ok out =>
      if verify = true ∧ (c.gcm key iv (aadOf e aad) e.data).2 ≠ e.digest then .error .value   -- "MAC check failed"
      else .ok out

/-- the external calls `decrypt` makes, in order -/
def decryptCalls (c : Crypto) (e : Env) (key aad : Bytes) : List Call :=
  .sha256 (e.cipherName ++ key) ::
    (if Val.bytes (c.sha256 (e.cipherName ++ key)) ≠ e.keyHash then [] else
     if e.cipherName ≠ DEC_CIPHER_GCM then [] else
     match ivOf e with
     | none => []
     | some iv => if aesKeyOk key = false then [] else if e.size < 0 then [] else [.gcm key iv (aadOf e aad) e.data])

/-! ## KeyStore -/

abbrev Str := List Char

inductive Node where
  | str (s : Str)
  | dict (kv : List (Str × Node))
  deriving Inhabited

abbrev Dict := List (Str × Node)

def dictGet (kv : Dict) (k : Str) : Option Node := (kv.find? (fun p => p.1 == k)).map (·.2)

def dictPut : Dict → Str → Node → Dict
  | [], k, v => [(k, v)]
  | (k', v') :: r, k, v => if k' = k then (k, v) :: r else (k', v') :: dictPut r k v

/-- `str.isspace` (table regenerated from the running interpreter) -/
def isSpace (c : Char) : Bool := Extracted.unicode.SPACES.contains c.toNat

def stripBy (p : Char → Bool) (s : Str) : Str := ((s.dropWhile p).reverse.dropWhile p).reverse
def strip (s : Str) : Str := stripBy isSpace s

/-- `s.split(sep)` for a one-character separator -/
def splitOn1 (sep : Char) : Str → List Str
  | [] => [[]]
  | c :: r =>
    match splitOn1 sep r with
    | [] => [[]]          -- unreachable
    | h :: t => if c = sep then [] :: h :: t else (c :: h) :: t

/-- `s.partition(sep)` → (before, after); no separator: (s, "") -/
def partition1 (sep : Char) (s : Str) : Str × Str :=
  (s.takeWhile (· ≠ sep), (s.dropWhile (· ≠ sep)).drop 1)

def chrOf (s : String) : Char := s.toList.headD ' '
def kNL : Char := chrOf (pickS Extracted.envelope.ks_from_text_strs "\n")
def kHash : Char := chrOf (pickS Extracted.envelope.ks_from_text_strs "#")
def kEq : Char := chrOf (pickS Extracted.envelope.ks_from_text_strs "=")
def kQuoteSet : Str := (pickS Extracted.envelope.ks_from_text_strs " \"").toList
def kDot : Char := chrOf (pickS Extracted.envelope.ks_from_text_strs ".")
def sMode : Str := (pickS Extracted.envelope.ks_init_strs "mode").toList
def sNONE : Str := (pickS Extracted.envelope.ks_init_strs "NONE").toList
def sConfigEncData : Str := (pickS Extracted.envelope.ks_init_strs "ConfigEncData").toList
def kColon : Char := chrOf (pickS Extracted.envelope.ks_init_strs ":")
def kEq2 : Char := chrOf (pickS Extracted.envelope.ks_init_strs "=")
def sKeyId : Str := (pickS Extracted.envelope.ks_init_strs "keyId").toList
def sData1 : Str := (pickS Extracted.envelope.ks_init_strs "data1").toList
def sData2 : Str := (pickS Extracted.envelope.ks_init_strs "data2").toList

/-- the nested assignment of `from_text`: walk/create dicts along `parts[:-1]`, assign the leaf -/
def setPath : List Str → Str → Dict → Except Err Dict
  | [], _, kv => .ok kv
  | [last], v, kv => .ok (dictPut kv last (.str v))
  | part :: rest, v, kv =>
    match dictGet kv part with
    | none =>
      match setPath rest v [] with
      | .ok sub => .ok (dictPut kv part (.dict sub))
      | .error e => .error e
    | some (.dict sub) =>
      match setPath rest v sub with
      | .ok sub' => .ok (dictPut kv part (.dict sub'))
      | .error e => .error e
    | some (.str _) => .error .other                     -- TypeError: a str is not a dict

/-- one line of `KeyStore.from_text` -/
def storeLine (store : Dict) (line : Str) : Except Err Dict :=
  let line := strip line
  if line = [] ∨ line.head? = some kHash then .ok store else
  let (name, value) := partition1 kEq line
  let name := strip name
  let value := stripBy (fun c => kQuoteSet.contains c) value
  if name.head? = some kDot then .ok (dictPut store name (.str value))
  else setPath (splitOn1 kDot name) value store

def storeLines : List Str → Dict → Except Err Dict
  | [], st => .ok st
  | l :: ls, st =>
    match storeLine st l with
    | .ok st' => storeLines ls st'
    | .error e => .error e

/-- the dict `KeyStore.from_text` builds -/
def parseStore (text : Str) : Except Err Dict := storeLines (splitOn1 kNL text) []

def hexVal (c : Char) : Option Nat :=
  if '0' ≤ c ∧ c ≤ '9' then some (c.toNat - 48)
  else if 'a' ≤ c ∧ c ≤ 'f' then some (c.toNat - 87)
  else if 'A' ≤ c ∧ c ≤ 'F' then some (c.toNat - 55)
  else none

/-- `urllib.parse.unquote` as a sequence of byte/char codes: `%XX` → the byte, anything else unchanged.
    (A byte ≥ 0x80 decodes to some non-ASCII character, which `b64decode` then refuses; only that is used.) -/
def hexPair : Str → Option Nat
  | a :: b :: _ =>
    match hexVal a, hexVal b with
    | some x, some y => some (16 * x + y)
    | _, _ => none
  | _ => none

def unquoteAux : Nat → Str → List Nat
  | _, [] => []
  | skip + 1, _ :: rest => unquoteAux skip rest
  | 0, c :: rest =>
    if c = '%' then
      match hexPair rest with
      | some v => v :: unquoteAux 2 rest
      | none => 37 :: unquoteAux 0 rest
    else c.toNat :: unquoteAux 0 rest

def unquote (s : Str) : List Nat := unquoteAux 0 s

def b64Val (c : Nat) : Option Nat :=
  if 65 ≤ c ∧ c ≤ 90 then some (c - 65)
  else if 97 ≤ c ∧ c ≤ 122 then some (c - 71)
  else if 48 ≤ c ∧ c ≤ 57 then some (c + 4)
  else if c = 43 then some 62
  else if c = 47 then some 63
  else none

structure B64 where
  quad : Nat := 0
  left : Nat := 0
  pads : Nat := 0
  out : Bytes := []       -- reversed
  done : Bool := false

/-- one character of `binascii.a2b_base64(strict_mode=False)` (CPython 3.12) -/
def b64Step (s : B64) (ch : Nat) : B64 :=
  if s.done then s else
  if ch = 61 then
    if s.quad ≥ 2 then
      if s.quad + (s.pads + 1) ≥ 4 then { s with pads := s.pads + 1, done := true } else { s with pads := s.pads + 1 }
    else s
  else match b64Val ch with
    | none => s
    | some v =>
      match s.quad with
      | 0 => { s with pads := 0, quad := 1, left := v }
      | 1 => { s with pads := 0, quad := 2, out := UInt8.ofNat ((s.left * 4 + v / 16) % 256) :: s.out, left := v % 16 }
      | 2 => { s with pads := 0, quad := 3, out := UInt8.ofNat ((s.left * 16 + v / 4) % 256) :: s.out, left := v % 4 }
      | _ => { s with pads := 0, quad := 0, out := UInt8.ofNat ((s.left * 64 + v) % 256) :: s.out, left := 0 }

/-- `base64.b64decode(str)`: ASCII only, then the non-strict decoder -/
def b64decode (s : List Nat) : Except Err Bytes :=
  if s.any (· ≥ 128) then .error .value else
  let r := s.foldl b64Step {}
  if r.done = false ∧ r.quad ≠ 0 then .error .value else .ok r.out.reverse

/-- the fields of `ConfigEncData`: later duplicates win -/
def optLookup (opts : List Str) (key : Str) : Option Str :=
  (opts.reverse.find? (fun o => strip (partition1 kEq2 o).1 == key)).map fun o => strip (partition1 kEq2 o).2

/-- what a mode-NONE keystore *stores*: keyId, data1, data2 -/
structure Stored where
  keyId : Bytes
  data1 : Bytes
  data2 : Bytes
  deriving DecidableEq, Repr, Inhabited

/-- `KeyStore.__init__` up to (not including) the key derivation -/
def storedOf (store : Dict) : Except Err Stored :=
  match dictGet store sMode with
  | none => .error .value
  | some (.dict _) => .error .other                 -- NotImplementedError (a dict is not "NONE")
  | some (.str m) =>
    if m = [] then .error .value else
    if m ≠ sNONE then .error .other else
    match dictGet store sConfigEncData with
    | some (.str data) =>
      let opts := splitOn1 kColon data
      match optLookup opts sKeyId, optLookup opts sData1, optLookup opts sData2 with
      | some k, some d1, some d2 =>
        match b64decode (unquote k) with
        | .error e => .error e
        | .ok kid =>
          if kid.length ≠ 16 then .error .value else     -- UUID(bytes=…)
          match b64decode (unquote d1), b64decode (unquote d2) with
          | .ok a, .ok b => .ok { keyId := kid, data1 := a, data2 := b }
          | _, _ => .error .value
      | _, _, _ => .error .index
    | _ => .error .index

/-- the key of a keystore holding `s`: `hashlib.pbkdf2_hmac("sha256", data1 + PBKDF2_SALT, data2, 100000)` -/
def deriveKey (c : Crypto) (s : Stored) : Bytes := c.pbkdf2 (s.data1 ++ SALT) s.data2 ROUNDS

/-- `KeyStore.from_text(text)` → (`id` as the 16 UUID bytes, `key`) -/
def keystore (c : Crypto) (text : Str) : Except Err (Bytes × Bytes) :=
  match parseStore text with
  | .error e => .error e
  | .ok store =>
    match storedOf store with
    | .error e => .error e
    | .ok s => .ok (s.keyId, deriveKey c s)

def keystoreCalls (text : Str) : List Call :=
  match parseStore text with
  | .error _ => []
  | .ok store =>
    match storedOf store with
    | .error _ => []
    | .ok s => [.pbkdf2 (s.data1 ++ SALT) s.data2 ROUNDS]

/-! ## the command-line tool -/

/-- `Path.read_text()`: universal newlines -/
def universalNewlines : Str → Str
  | [] => []
  | '\r' :: '\n' :: r => '\n' :: universalNewlines r
  | '\r' :: r => '\n' :: universalNewlines r
  | c :: r => c :: universalNewlines r

/-- `tools.envelope.main`: what is written to the output file (`.error` = the tool raises).
    `Envelope(fh)` comes first, then the keystore, then `decrypt(keystore.key)` without associated data. -/
def cli (c : Crypto) (file : Bytes) (ksText : Str) : Except Err Bytes :=
  match openEnv file with
  | .error e => .error e
  | .ok env =>
    match keystore c (universalNewlines ksText) with
    | .error e => .error e
    | .ok (_, key) => decrypt c env true key []

def cliCalls (c : Crypto) (file : Bytes) (ksText : Str) : List Call :=
  match openEnv file with
  | .error _ => []
  | .ok env =>
    keystoreCalls (universalNewlines ksText) ++
      (match keystore c (universalNewlines ksText) with
       | .error _ => []
       | .ok (_, key) => decryptCalls c env key [])

/-! ## specification side: an independent description of a written envelope -/

/-- the crypto footer block a writer appends to the plaintext: `DataTransformCryptoFooter` with `padding`
    (magic and version are not looked at by the reader: any bytes `m` of the right length may stand there) -/
def cryptoFooter (m : Bytes) (padding : Nat) : Bytes :=
  m ++ leBytes padF.width padding ++ zeros (CF_SIZE - (padF.off + padF.width))

/-- the AEAD footer block a writer appends to the file: tag at `data`, its length, version -/
def aeadFooter (m : Bytes) (tag : Bytes) : Bytes :=
  m ++ tag ++ zeros (aeadData.2 - tag.length) ++ leBytes aeadSizeF.width tag.length ++ leBytes aeadVerF.width AEAD_VERSION

end Hv.Envelope
