/-
  C10 — descriptor-driven multi-extent assembly and size accounting.
-/
import Hv.VmdkDesc
import Hv.Vmdk
import Hv.Hdd
import Hv.Concat
import HvProofs.Concat
namespace Hv.C10
open Hv Hv.VmdkDesc Hv.Concat

/-- **wiring_total**: every data-bearing extent kind the property names is accepted by the
    extent grammar (the regex translated from the live pattern) *and* mapped to a disk by
    `VMDK.__init__`. -/
theorem wiring_total :
    ∀ ty ∈ ["FLAT", "VMFS", "SPARSE", "VMFSSPARSE", "SESPARSE"],
      (parseExtentLine ("RW 2048 " ++ ty ++ " \"disk-f001.vmdk\"").toList).map (fun e => (e.type, wire e.type))
        = some (ty.toList, if ty = "FLAT" ∨ ty = "VMFS" then Wire.flat else Wire.sparse) := by
  decide

/-! ### VMDK: the extent walk

  `Contiguous 0 ds`: disk `i` has `sector_offset = Σ_{j<i} sector_count_j`, `sector_count > 0`,
  `size = sector_count * 512` (`Hv.Concat`).  `ReadAs ds ps`: disk `i` has the length of part `i`
  and its `read_sectors` returns the part's bytes for every in-range request. -/

/-- closed form of `_disk_offsets` for such a layout: the start sectors of disks 1 … k-1 -/
theorem diskOffsets_closed_form (v : Vmdk.Vmdk) (hc : Contiguous 0 v.disks.toList) :
    v.diskOffsets = v.disks.toList.tail.map (·.sectorOffset) :=
  diskOffsets_contiguous v hc

/-- **bisect_finds_extent**: `bisect_right(self._disk_offsets, sector)` is the index of the
    extent that contains `sector`, for every sector of the disk. -/
theorem bisect_finds_extent (v : Vmdk.Vmdk) (hc : Contiguous 0 v.disks.toList) (sector : Nat)
    (hs : sector < (v.disks.toList.map (·.sectorCount)).sum) :
    ∃ hi : Vmdk.bisectRight v.diskOffsets sector < v.disks.size,
      v.disks[Vmdk.bisectRight v.diskOffsets sector].sectorOffset ≤ sector ∧
      sector < v.disks[Vmdk.bisectRight v.diskOffsets sector].sectorOffset
                + v.disks[Vmdk.bisectRight v.diskOffsets sector].sectorCount := by
  rw [diskOffsets_contiguous v hc]
  cases hl : v.disks.toList with
  | nil => rw [hl] at hs; simp at hs
  | cons d ds =>
    rw [hl] at hc hs
    obtain ⟨e, he, hlo, hhi⟩ := bisect_contig sector ds d 0 hc (Nat.zero_le _) (by simpa [sectorsOf] using hs)
    simp only [List.tail_cons]
    rw [← hl, Array.getElem?_toList] at he
    obtain ⟨hi, hget⟩ := Array.getElem?_eq_some_iff.mp he
    exact ⟨hi, by rw [hget]; exact ⟨hlo, hhi⟩⟩

/-- **vmdk_concat_read_correct**: `VMDK.read_sectors(sector, count)` returns exactly the bytes
    of the concatenation of the extents — for requests inside one extent, crossing any number
    of extent boundaries, and ending exactly at the end of the last extent. -/
theorem vmdk_concat_read_correct (v : Vmdk.Vmdk) (ps : List Part) (hc : Contiguous 0 v.disks.toList)
    (hr : ReadAs v.disks.toList ps) (sector count : Nat) (h : sector + count ≤ total ps) :
    v.readSectors sector count = .ok (slice (concat ps) (sector * 512) (count * 512)) :=
  readSectors_concat v ps hc hr sector count h

/-- `VMDK._read` (the stream backend) on a sector-aligned offset: whole sectors of the concatenation -/
theorem vmdk_concat_stream_read (v : Vmdk.Vmdk) (ps : List Part) (hc : Contiguous 0 v.disks.toList)
    (hr : ReadAs v.disks.toList ps) (offset length : Nat) (ha : offset % 512 = 0)
    (h : offset + length ≤ total ps * 512) :
    v.read offset length = .ok (slice (concat ps) offset ((length + 511) / 512 * 512)) := by
  unfold Vmdk.Vmdk.read
  have hS : Vmdk.S = 512 := rfl
  simp only [hS]
  have hc' : (length + 512 - 1) / 512 = (length + 511) / 512 := rfl
  rw [hc', readSectors_concat v ps hc hr _ _ (by omega)]
  congr 2
  omega

/-- **size accounting**: `VMDK.__init__` gives disk `i` the offset `Σ_{j<i} sector_count_j` and the
    stream the size `Σ size_i` — for *arbitrary* extent constructors -/
theorem vmdk_assemble_size (mk : List (Nat → Vmdk.Disk)) :
    (Vmdk.assemble mk).disks.toList = place 0 mk ∧
    (Vmdk.assemble mk).size = ((Vmdk.assemble mk).disks.toList.map (·.size)).sum :=
  ⟨assemble_disks mk, assemble_size mk⟩

/-- `assemble` of constructors that honour the offset they are given produces a `Contiguous`
    layout, and the stream size is `512 ×` the number of sectors -/
theorem vmdk_assemble_contiguous (mk : List (Nat → Vmdk.Disk)) (h : ∀ f ∈ mk, GoodCtor f) :
    Contiguous 0 (Vmdk.assemble mk).disks.toList ∧
    (Vmdk.assemble mk).size = ((Vmdk.assemble mk).disks.toList.map (·.sectorCount)).sum * 512 := by
  have hc : Contiguous 0 (Vmdk.assemble mk).disks.toList := by
    rw [assemble_disks]; exact place_contiguous mk 0 h
  exact ⟨hc, by rw [assemble_size, contiguous_size _ 0 hc]; rfl⟩

/-- **flat extents, end to end**: a descriptor's FLAT / VMFS extents `(file, sectors)`, each file
    holding its extent, opened as `RawDisk(fh, sectors * 512)` and assembled by `VMDK.__init__`,
    read as the concatenation of the files' first `sectors * 512` bytes; the size is the sum. -/
theorem vmdk_flat_extents_read_correct (exts : List (File × Nat))
    (h : ∀ e ∈ exts, 0 < e.2 ∧ e.2 * 512 ≤ e.1.size) (sector count : Nat)
    (hin : sector + count ≤ total (flatParts exts)) :
    (Vmdk.assemble (flatCtors exts)).readSectors sector count
        = .ok (slice (concat (flatParts exts)) (sector * 512) (count * 512)) ∧
    (Vmdk.assemble (flatCtors exts)).size = total (flatParts exts) * 512 := by
  have hg := flat_good exts h
  have hc := (vmdk_assemble_contiguous _ hg).1
  have hr : ReadAs (Vmdk.assemble (flatCtors exts)).disks.toList (flatParts exts) := by
    rw [assemble_disks]; exact flat_readAs exts 0 h
  refine ⟨readSectors_concat _ _ hc hr sector count hin, ?_⟩
  rw [(vmdk_assemble_contiguous _ hg).2, ← readAs_sectors _ _ hr]; rfl

/-! non-vacuity: three flat extents of 2, 1 and 3 sectors -/
def exA : File := ⟨1024, fun i => UInt8.ofNat (i % 251)⟩
def exB : File := ⟨600, fun i => UInt8.ofNat (7 * i % 256)⟩      -- 88 trailing bytes are not part of the extent
def exC : File := ⟨1536, fun i => UInt8.ofNat (255 - i % 256)⟩
def exExts : List (File × Nat) := [(exA, 2), (exB, 1), (exC, 3)]
def exVmdk : Vmdk.Vmdk := Vmdk.assemble (flatCtors exExts)

example : ∀ e ∈ exExts, 0 < e.2 ∧ e.2 * 512 ≤ e.1.size := by decide

example : Contiguous 0 exVmdk.disks.toList :=
  ⟨rfl, by decide, rfl, rfl, by decide, rfl, rfl, by decide, rfl, trivial⟩

example : exVmdk.diskOffsets = [2, 3] ∧ exVmdk.size = 3072 := by decide

/-- a request crossing both extent boundaries (sectors 1 … 3 of 6) evaluates to the pieces -/
example : exVmdk.readSectors 1 3 = .ok (slice exA.byte 512 512 ++ slice exB.byte 0 512 ++ slice exC.byte 0 512) := by
  decide +kernel

/-- … and the tail of the disk, ending exactly at the end of the last extent, by the theorem -/
example : exVmdk.readSectors 2 4 = .ok (slice (concat (flatParts exExts)) 1024 2048) :=
  (vmdk_flat_extents_read_correct exExts (by decide) 2 4 (by decide)).1

/-! ### Parallels `StorageStream`

  `Tiles 0 l ps` (`Hv.Concat`): the storages, *in the order given*, tile `[0, end)` without gaps
  (`start_0 = 0`, `start_{i+1} = end_i`, `start_i < end_i`) and stream `i` reads as part `i`.
  Such a list is already sorted by `start` with strictly increasing keys, so the stable sort of
  `StorageStream.__init__` is the identity on it (`sortByStart_tiles`, used inside). -/

theorem storage_sort_identity (l : List Hdd.Storage) (ps : List Part) (ht : Tiles 0 l ps) :
    Hdd.sortByStart l = l :=
  sortByStart_tiles l ps 0 ht

/-- size: `end` of the last storage `× 512` = total sectors `× 512` -/
theorem storage_concat_size (l : List Hdd.Storage) (ps : List Part) (ht : Tiles 0 l ps) :
    (Hdd.mk l).size = total ps * 512 ∧
    (Hdd.mk l).size = (match l.getLast? with | some s => s.end_ * 512 | none => 0) := by
  have h1 := mk_tiles l ps ht
  refine ⟨by rw [h1], ?_⟩
  show (match (Hdd.sortByStart l).getLast? with | some s => s.end_ * 512 | none => 0) = _
  rw [sortByStart_tiles l ps 0 ht]

/-- **storage_concat_read_correct**: `StorageStream._read(offset, length)` for a sector-aligned
    `offset` and `offset + length ≤ size` returns the bytes of the concatenation from `offset`,
    in whole sectors (`count = ceil(length / 512)`; the buffered stream layer above trims). -/
theorem storage_concat_read_correct (l : List Hdd.Storage) (ps : List Part) (hne : l ≠ []) (ht : Tiles 0 l ps)
    (offset length : Nat) (ha : offset % 512 = 0) (hin : offset + length ≤ total ps * 512) :
    (Hdd.mk l).read offset length = .ok (slice (concat ps) offset ((length + 511) / 512 * 512)) :=
  storage_read_concat l ps hne ht offset length ha hin

/-- for a whole number of sectors: exactly the requested bytes -/
theorem storage_concat_read_aligned (l : List Hdd.Storage) (ps : List Part) (hne : l ≠ []) (ht : Tiles 0 l ps)
    (offset length : Nat) (ha : offset % 512 = 0) (hl : length % 512 = 0) (hin : offset + length ≤ total ps * 512) :
    (Hdd.mk l).read offset length = .ok (slice (concat ps) offset length) := by
  rw [storage_read_concat l ps hne ht offset length ha hin]
  congr 2
  omega

/-- in general: the requested bytes are a prefix of what is returned -/
theorem storage_concat_read_prefix (l : List Hdd.Storage) (ps : List Part) (hne : l ≠ []) (ht : Tiles 0 l ps)
    (offset length : Nat) (ha : offset % 512 = 0) (hin : offset + length ≤ total ps * 512) :
    ∃ bs, (Hdd.mk l).read offset length = .ok bs ∧ bs.take length = slice (concat ps) offset length :=
  ⟨_, storage_read_concat l ps hne ht offset length ha hin, slice_take _ _ _ _ (by omega)⟩

/-- **any order in the descriptor**: `StorageStream.__init__` sorts the storages by `start`; when
    the *sorted* list (`sortByStart`, the transcription of `sorted(key=start)`) tiles `[0, end)`, the
    stream built from the list in any order reads as the concatenation, and its size is the sum -/
theorem storage_concat_read_any_order (l : List Hdd.Storage) (ps : List Part) (hne : ps ≠ [])
    (ht : Tiles 0 (Hdd.sortByStart l) ps)
    (offset length : Nat) (ha : offset % 512 = 0) (hin : offset + length ≤ total ps * 512) :
    (Hdd.mk l).read offset length = .ok (slice (concat ps) offset ((length + 511) / 512 * 512)) ∧
    (Hdd.mk l).size = total ps * 512 := by
  have e : Hdd.mk l = Hdd.mk (Hdd.sortByStart l) := by
    unfold Hdd.mk
    rw [storage_sort_identity (Hdd.sortByStart l) ps ht]
  have hne' : Hdd.sortByStart l ≠ [] := by
    intro h
    rw [h] at ht
    cases ps with
    | nil => exact hne rfl
    | cons p ps => exact ht
  rw [e]
  exact ⟨storage_concat_read_correct _ ps hne' ht offset length ha hin, (storage_concat_size _ ps ht).1⟩

/-- the executable layout checks the driver evaluates on every generated case are sound -/
theorem contiguousb_sound (ds : List Vmdk.Disk) (h : contiguousb 0 ds = true) : Contiguous 0 ds :=
  Concat.contiguousb_sound ds 0 h
theorem tilesb_sound (l : List Hdd.Storage) (ps : List Part) (h : tilesb 0 l ps = true) (hr : StreamsRead l ps) :
    Tiles 0 l ps := Concat.tilesb_sound l ps 0 h hr

/-! non-vacuity: three storages of 1, 2 and 1 sectors, given in tiling order -/
def exP : List Part := [⟨1, fun i => UInt8.ofNat (i % 251)⟩, ⟨2, fun i => UInt8.ofNat (3 * i % 256)⟩,
                        ⟨1, fun i => UInt8.ofNat (255 - i % 256)⟩]
def exStorages : List Hdd.Storage :=
  [⟨0, 1, fun off len => .ok (slice (fun i => UInt8.ofNat (i % 251)) off len)⟩,
   ⟨1, 3, fun off len => .ok (slice (fun i => UInt8.ofNat (3 * i % 256)) off len)⟩,
   ⟨3, 4, fun off len => .ok (slice (fun i => UInt8.ofNat (255 - i % 256)) off len)⟩]

theorem exTiles : Tiles 0 exStorages exP :=
  ⟨rfl, by decide, rfl, fun _ _ _ => rfl, rfl, by decide, rfl, fun _ _ _ => rfl,
   rfl, by decide, rfl, fun _ _ _ => rfl, trivial⟩

example : (Hdd.mk exStorages).size = 2048 := by decide

/-- a read across both storage boundaries evaluates to the pieces -/
example : (Hdd.mk exStorages).read 512 1536
    = .ok (slice (fun i => UInt8.ofNat (3 * i % 256)) 0 1024 ++ slice (fun i => UInt8.ofNat (255 - i % 256)) 0 512) := by
  decide +kernel

/-- … and an unaligned length over all three storages, by the theorem: whole sectors come back -/
example : (Hdd.mk exStorages).read 0 1900 = .ok (slice (concat exP) 0 2048) :=
  storage_concat_read_correct exStorages exP (by decide) exTiles 0 1900 (by decide) (by decide)


/-- the same storages listed in another order (as a shuffled DiskDescriptor.xml would) -/
example : (Hdd.mk [exStorages[2], exStorages[0], exStorages[1]]).read 0 1900 = .ok (slice (concat exP) 0 2048) :=
  (storage_concat_read_any_order [exStorages[2], exStorages[0], exStorages[1]] exP (by decide)
    (by show Tiles 0 exStorages exP; exact exTiles) 0 1900 (by decide) (by decide)).1

end Hv.C10
