"""C04 — VHD reads (fixed + dynamic). Independent writer per the VHD 1.0 specification."""
from __future__ import annotations

import random
import struct

import core
from core import Built
from sparse import Image

PROPERTY = "C04"
RULE = ("seeded generator: fixed or dynamic disk, block size (4 KiB..2 MiB; 4 MiB thorough), virtual size not a multiple of "
        "the block size, per-block allocated/unallocated, physical order (identity/reversed/shuffled/holes), BAT and header "
        "placement, legacy 511-byte footer, BATs larger than the 4096-entry cache; guest content knob: ordinary pattern, or guest "
        "offset 0 holding VHD structures of ANOTHER disk (a nested dynamic / differencing image: footer copy + dynamic header + BAT; "
        "a fixed-disk footer of another size, 512 or 511 bytes), or a foreign footer in the last guest sector right before the real "
        "footer (fixed disks); for dynamic disks the same structures at the start of block 0's data; requests: size, block-edge±1, "
        "tail, full, random, as one history. Non-trivial = model WF, (dynamic with both block states or permuted, or fixed), and a "
        "request crossing a block boundary (dynamic) / longer than one buffer (fixed); distinct recipe hash. Directed families, present "
        "in every run: resized disks (footer original_size != current_size, grown and shrunk, fixed and dynamic, optionally a stale footer copy "
        "at offset 0); sector bitmaps of allocated blocks of plain dynamic disks holding anything (all zero, pseudo-random, first half set, 0xAA, "
        "ones with zero padding): the data after the bitmap is the guest content; histories in which the file object is moved between two "
        "requests that are physically consecutive in one allocated block: by the first touch of an unallocated block (BAT read), by somebody "
        "else seeking / reading the file object (core op \"x\"), or by a second VHD object opened on the same file object and read alternately (op \"y\").")
ASSUMPTIONS = ["dissect.util AlignedStream as transcribed in Hv/Stream.lean", "struct.Struct('>I') = big-endian u32 (format string extracted)",
               "block sizes that are a multiple of 4096 (8 sectors); for 512..2048-byte blocks the references disagree (DESIGN §C04)"]
TIMEOUT_CASE = 20.0


def footer(size, data_offset, disk_type, legacy=False, orig=None):
    """size = current_size (what the guest sees now); orig = original_size (what it was created with; differs after a resize)"""
    f = bytearray(512)
    f[0:8] = b"conectix"
    struct.pack_into(">IIQ", f, 8, 0 if legacy else 2, 0x00010000, data_offset)
    struct.pack_into(">I4sI4s", f, 24, 0x2A000000, b"vpc ", 0x00050003, b"Wi2k")
    struct.pack_into(">QQ", f, 40, size if orig is None else orig, size)
    struct.pack_into(">II", f, 56, 0x03FF103F, disk_type)
    f[68:84] = bytes(range(16))
    return bytes(f[:511]) if legacy else bytes(f)


def dyn_header(table_offset, max_entries, block_size):
    h = bytearray(1024)
    h[0:8] = b"cxsparse"
    struct.pack_into(">QQII", h, 8, 0xFFFFFFFFFFFFFFFF, table_offset, 0x00010000, max_entries)
    struct.pack_into(">I", h, 32, block_size)
    return bytes(h)


def gen_content(rng, outer_size, nested=0.5, tail=True):
    """what the guest wrote at the start (and, for "tail", the end) of the disk. A disk may hold anything — in particular the raw
    bytes of another VHD image (nested virtualisation, a .vhd restored with dd, a backup appliance's volume): then guest sector 0
    is a footer copy with the `conectix` cookie, followed by that image's dynamic header and BAT. None of it describes THIS disk."""
    if rng.random() >= nested:
        return {"kind": "plain"}
    kind = rng.choice(["nested-dynamic", "nested-dynamic", "nested-differencing", "nested-fixed", "nested-fixed"] + (["tail"] if tail else []))
    isize = rng.choice([s for s in (512, 4096, 65536, 100 * 512, 3 << 20, 1 << 30, 127 << 30) if s != outer_size])
    c = {"kind": kind, "isize": isize, "ilegacy": rng.random() < 0.3}
    if kind in ("nested-dynamic", "nested-differencing"):
        ibs = rng.choice([4096, 65536, 1 << 21])
        n = min(max(1, (isize + ibs - 1) // ibs), rng.choice([1, 3, 8, 200]))
        spb = ibs // 512
        nxt = 4 + (n * 4 + 511) // 512
        bat = []
        for _ in range(n):
            if rng.random() < 0.7:
                bat.append(nxt)
                nxt += spb + ((spb + 7) // 8 + 511) // 512
            else:
                bat.append(0xFFFFFFFF)
        c.update({"ibs": ibs, "ibat": bat, "inent": (isize + ibs - 1) // ibs})
    return c


def content_prefix(c):
    """bytes at guest offset 0 (not counting the ordinary pattern that follows)"""
    k = (c or {}).get("kind", "plain")
    if k in ("plain", "tail"):
        return b""
    if k == "nested-fixed":
        return footer(c["isize"], 0xFFFFFFFFFFFFFFFF, 2, c["ilegacy"])
    bat = b"".join(struct.pack(">I", e) for e in c["ibat"])
    bat += b"\xff" * (-len(bat) % 512)
    return footer(c["isize"], 512, 3 if k == "nested-dynamic" else 4, False) + dyn_header(1536, c["inent"], c["ibs"]) + bat


def content_tail(c):
    """bytes ending exactly at the last guest byte (a nested image that fills the disk ends with its own footer)"""
    if (c or {}).get("kind") != "tail":
        return b""
    return footer(c["isize"], 0xFFFFFFFFFFFFFFFF, 2, c["ilegacy"])


def gen_recipe(rng, tier, big=False, bs=None, nb=None):
    legacy = rng.random() < 0.15
    if rng.random() < 0.25:
        size = rng.choice([512, 4096, 12288, 100 * 512, 65536 + 512, 307200, 1 << 20])
        return {"kind": "fixed", "size": size, "legacy": legacy, "seed": rng.randrange(256), "content": gen_content(rng, size)}
    fixed = bs is not None
    bs = bs or rng.choice([4096, 4096, 8192, 8192, 65536, 1 << 19] + ([1 << 21, 1 << 22] if tier == "thorough" else []))
    nb = nb or (rng.choice([1100, 2300, 4200]) if big else rng.choice([1, 2, 3, 3, 5, 8, 13, 30]))      # big: more BAT entries than any cache chunk
    if nb > 100 and not fixed:
        bs = 4096
    size = nb * bs - (rng.randrange(bs // 512) * 512 if rng.random() < 0.4 else 0)
    size = max(size, 512)
    nb = (size + bs - 1) // bs
    extra = rng.choice([0, 0, 1, 5])
    states = [("a" if rng.random() < rng.choice([0.5, 0.8, 1.0]) else "u") for _ in range(nb)]
    nalloc = states.count("a")
    style = rng.choice(["identity", "reversed", "shuffled", "holes"])
    phys = list(range(nalloc))
    if style == "reversed":
        phys.reverse()
    elif style == "shuffled":
        rng.shuffle(phys)
    elif style == "holes":
        phys = rng.sample(range(nalloc * 2 + 1), nalloc)
    it = iter(phys)
    blocks = [(next(it) if s == "a" else None) for s in states]
    return {"kind": "dynamic", "size": size, "bs": bs, "blocks": blocks, "extra": extra, "legacy": legacy,
            "content": gen_content(rng, size, nested=0.25 if blocks[0] is not None else 0.0, tail=False), "bat_after": rng.random() < 0.25, "hdr_off": rng.choice([512, 512, 1536, 4096]), "seed": rng.randrange(256)}


BITMAPS = ["zeros", "random", "half", "alt", "ones-pad0", "tail"]


def put_bitmap(im, off, nbytes, spb, kind, p):
    """sector bitmap of an allocated block (nbytes = bitmap sectors * 512; one bit per sector, MSB first, then padding).
    For a plain dynamic disk readers do not need it: the block's data is what follows it. Writers leave all kinds of things there:
    all ones incl. padding (None), ones with zero padding, all zero, only the sectors written so far, garbage."""
    used = (spb + 7) // 8
    if kind is None or kind == "ones":
        im.put_fill(off, nbytes, 0xFF)
    elif kind == "ones-pad0":
        im.put_fill(off, min(used, nbytes), 0xFF)
    elif kind == "zeros":
        pass
    elif kind == "random":
        im.put_pat(off, nbytes, (97 + 13 * p) & 0xFF)
    elif kind == "half":            # first half of the block's sectors marked
        im.put_fill(off, max(1, used // 2) if used > 1 else 0, 0xFF)
        if used == 1:
            im.put_hex(off, b"\xf0")
    elif kind == "alt":
        im.put_fill(off, nbytes, 0xAA)
    elif kind == "tail":            # only the last sectors marked
        im.put_fill(off + used - max(1, used // 4), max(1, used // 4), 0x0F if used == 1 else 0xFF)
    else:
        raise ValueError(kind)


class Truth:
    def __init__(self, r):
        self.r = r
        self.size = r["size"]
        im = Image()
        pre, tail = content_prefix(r.get("content")), content_tail(r.get("content"))
        if r["kind"] == "fixed":
            pre = pre[:r["size"]]
            if len(pre) + len(tail) > r["size"]:
                tail = b""
            im.put_hex(0, pre)
            im.put_pat(len(pre), r["size"] - len(pre) - len(tail), r["seed"])
            im.put_hex(r["size"] - len(tail), tail)
            ft = footer(r["size"], 0xFFFFFFFFFFFFFFFF, 2, r["legacy"], orig=r.get("osize"))
            im.put_hex(r["size"], ft)
            im.finish(r["size"] + len(ft))
            self.im = im
            return
        bs = r["bs"]
        spb = bs // 512
        bm = ((spb + 7) // 8 + 511) // 512            # sectors, per the specification
        nent = len(r["blocks"]) + r["extra"]
        hdr_off = r["hdr_off"]
        bat_bytes = (nent * 4 + 511) // 512 * 512
        nphys = max([p for p in r["blocks"] if p is not None], default=-1) + 1
        stride = (bm * 512 + bs)
        far = r.get("far", 0)              # C13: place the data area at a far file offset (512-aligned; sectors stay < 2^32)
        if r["bat_after"]:
            data0 = max(hdr_off + 1024, far)
            bat_off = data0 + nphys * stride
            end = bat_off + bat_bytes
        else:
            bat_off = hdr_off + 1024
            data0 = max(bat_off + bat_bytes, far)
            end = data0 + nphys * stride
        self.loc = []
        bat = []
        for p in r["blocks"]:
            if p is None:
                bat.append(0xFFFFFFFF)
                self.loc.append(None)
            else:
                o = data0 + p * stride
                bat.append(o // 512)
                self.loc.append(o + bm * 512)
                put_bitmap(im, o, bm * 512, spb, r.get("bitmap"), p)
                head = pre[:bs] if len(self.loc) == 1 else b""          # block 0 holds guest offset 0
                im.put_hex(o + bm * 512, head)
                im.put_pat(o + bm * 512 + len(head), bs - len(head), (r["seed"] + 31 * p) & 0xFF)
        bat += [0xFFFFFFFF] * r["extra"]
        osize = r.get("osize")
        # the copy at offset 0 is only a backup of the footer at the end; after a resize a writer may have left the old one there
        ft = footer(osize, hdr_off, 3, False) if r.get("stale_copy") and osize is not None else footer(r["size"], hdr_off, 3, False, orig=osize)
        im.put_hex(0, ft)
        im.put_hex(hdr_off, dyn_header(bat_off, nent, bs))
        im.put_hex(bat_off, b"".join(struct.pack(">I", e) for e in bat))
        ft2 = footer(r["size"], hdr_off, 3, r["legacy"], orig=osize)
        im.put_hex(end, ft2)
        im.finish(end + len(ft2))
        self.im = im
        self.hdr_off, self.bat_off, self.footer_off = hdr_off, bat_off, end

    def read(self, off, n):
        r = self.r
        if r["kind"] == "fixed":
            return self.im.read_at(off, n)
        bs = r["bs"]
        out = []
        end = off + n
        while off < end:
            b, ino = divmod(off, bs)
            k = min(bs - ino, end - off)
            loc = self.loc[b] if b < len(self.loc) else None
            out.append(bytes(k) if loc is None else self.im.read_at(loc + ino, k))
            off += k
        return b"".join(out)


def header_fields(r):
    """(name, file offset, width) of every size-like field of the structures a reader uses (all big-endian), from the layout this
    writer produced: the footer at the end of the file, the dynamic header, the first / last BAT entry in use"""
    t = Truth(r)
    fo = t.im.size - (511 if r["legacy"] else 512)
    fields = [("footer.features", fo + 8, 4), ("footer.data_offset", fo + 16, 8), ("footer.original_size", fo + 40, 8),
              ("footer.current_size", fo + 48, 8), ("footer.disk_type", fo + 60, 4)]
    if r["kind"] == "dynamic":
        h = t.hdr_off
        fields += [("dynamic_header.data_offset", h + 8, 8), ("dynamic_header.table_offset", h + 16, 8), ("dynamic_header.max_table_entries", h + 28, 4),
                   ("dynamic_header.block_size", h + 32, 4), ("bat[0]", t.bat_off, 4), (f"bat[{len(r['blocks']) - 1}]", t.bat_off + 4 * (len(r["blocks"]) - 1), 4)]
    return fields, "big"


def gen_queries(rng, r, n):
    size = r["size"]
    bs = r.get("bs", 8192)
    qs = [["s", 0, 2], ["o", 0, rng.choice([512, 512, 4096, min(size, 65536)])]]         # VHD.size; the first guest sector(s)
    nblk = (size + bs - 1) // bs
    for _ in range(n):
        kind = rng.choice(["edge", "edge", "span", "tail", "rand", "full", "small"])
        if kind == "edge":
            b = rng.randrange(nblk + 1) * bs
            off = max(0, b + rng.choice([-1, 0, 1, -512, -rng.randrange(1, bs + 1)]))
            ln = rng.choice([1, 2, 512, bs, bs + 1, 2 * bs, rng.randrange(1, 3 * bs + 2)])
        elif kind == "span":
            off = rng.randrange(size)
            ln = rng.randrange(1, min(size, 6 * bs) + 2)
        elif kind == "tail":
            off = max(0, size - rng.randrange(1, min(size, 2 * bs) + 1))
            ln = rng.choice([size - off, size - off + 1, size - off + 100000])
        elif kind == "full":
            off, ln = 0, size
        elif kind == "small":
            off = rng.randrange(size)
            ln = rng.randrange(0, 16)
        else:
            off = rng.randrange(size + 3)
            ln = rng.randrange(0, min(size, 100000) + 1)
        qs.append(["o", off, min(ln, 4 << 20)])
    return qs


def generate(seed, tier):
    rng = random.Random(f"C04/{seed}/{tier}")
    n = 240 if tier == "quick" else 3000
    cases = []
    for i in range(n):
        big = (i % 20 == 7)
        r = gen_recipe(rng, tier, big=big)
        align = rng.choice([8192] * 6 + [512, 4096, 65536, 1 << 20, 1536])
        cases.append({"id": f"g{i}", "recipe": r, "align": align, "queries": gen_queries(rng, r, 10 if tier == "quick" else 16)})
    # between the requests of every second random history somebody else uses the file object (own random stream: the cases above do not move)
    drng = random.Random(f"C04/disturb/{seed}/{tier}")
    for i, c in enumerate(cases):
        if i % 2 == 1:
            c["queries"] = core.disturbances(drng, c["queries"], Truth(c["recipe"]).im.size)
    cases += directed(seed, tier)
    return cases


def dyn_recipe(rng, bs, states, style="shuffled", **kw):
    """explicit dynamic recipe: states = "a"/"u" per block"""
    nalloc = states.count("a")
    phys = list(range(nalloc))
    if style == "reversed":
        phys.reverse()
    elif style == "shuffled":
        rng.shuffle(phys)
    elif style == "holes":
        phys = rng.sample(range(nalloc * 2 + 1), nalloc)
    it = iter(phys)
    r = {"kind": "dynamic", "size": len(states) * bs, "bs": bs, "blocks": [(next(it) if s == "a" else None) for s in states], "extra": rng.choice([0, 0, 1, 5]),
         "legacy": False, "content": {"kind": "plain"}, "bat_after": rng.random() < 0.25, "hdr_off": rng.choice([512, 512, 1536, 4096]), "seed": rng.randrange(256)}
    r.update(kw)
    return r


def gen_states(rng, nb, need=("a", "u")):
    while True:
        st = [rng.choice("aau") for _ in range(nb)]
        if all(x in st for x in need):
            return st


def continuation_history(rng, r, align, how):
    """(1) read part of allocated block A (whole buffers, ending inside A), (2) something moves the file object without reading
    block data through this object, (3) go on in A exactly where (1) ended. Expected answers: as always, the guest content.
    how: "sparse" = first touch of an unallocated block (its BAT entry is read, no data); "xseek" / "xread" / "xend" = somebody else
    uses the file object; "twin" = a second VHD object on the same file object reads elsewhere; "twin-alt" = both objects read on
    alternately through the same block."""
    bs = r["bs"]
    per = bs // align
    assert per >= 2
    A = rng.choice([i for i, p in enumerate(r["blocks"]) if p is not None])
    sparse = [i for i, p in enumerate(r["blocks"]) if p is None]
    i = rng.randrange(per - 1)
    j = rng.randrange(1, per - i)
    pos = A * bs + (i + j) * align
    qs = [["s", 0, 2], ["o", A * bs + i * align, j * align]]
    fsize = Truth(r).im.size
    if how == "sparse":
        U = rng.choice(sparse)
        qs.append(["o", U * bs + rng.randrange(bs), rng.choice([1, 512, align])])
    elif how == "xseek":
        qs.append(["x", "seek", rng.randrange(fsize)])
    elif how == "xread":
        qs.append(["x", "read", rng.choice([1, 512, 4096])])
    elif how == "xend":
        qs.append(["x", rng.choice(["end", "start"])])
    elif how == "twin":
        qs.append(["y", rng.randrange(r["size"]), rng.choice([1, 512, align, bs])])
    if how == "twin-alt":
        # two readers share one file object and walk through the disk in turns, buffer by buffer
        p = A * bs + i * align
        qs = [["s", 0, 2]]
        for k in range(2 * per + 2):
            if p >= r["size"]:
                break
            qs.append(["o" if k % 2 == 0 else "y", p, align])
            if k % 2 == 1 or rng.random() < 0.5:
                p += align
        return qs
    tail = rng.choice(["o", "o", "sr"])
    ln = rng.choice([1, align, align + 1, bs, rng.randrange(1, 2 * bs)])
    qs += [["o", pos, ln]] if tail == "o" else [["s", pos, 0], ["r", ln]]
    # and once more, after a plain request somewhere else (the next first touch of another unallocated block, if there is one)
    others = [u for u in sparse if how != "sparse" or u != U]
    if others:
        U2 = rng.choice(others)
        q = qs[-1]
        end = pos + ln
        if end % align == 0 and end // bs == A and end < r["size"]:
            qs += [["o", U2 * bs, 1], ["o", end, align]]
    return qs


def directed(seed, tier):
    """families that every run contains (fixed shapes; only details are drawn, from a stream of their own)"""
    rng = random.Random(f"C04/directed/{seed}/{tier}")
    cases = []
    nq = 8 if tier == "quick" else 16

    def add(fam, r, align, queries):
        r["family"] = fam
        cases.append({"id": f"d{len(cases)}-{fam}", "recipe": r, "align": align, "queries": queries})
    # ---- resized disks: original_size != current_size
    for rep in range(2 if tier == "quick" else 6):
        for grow in (True, False):
            for legacy in (False, True):
                size = rng.choice([4096, 100 * 512, 65536 + 512, 307200, 1 << 20])
                other = max(512, size + (1 if not grow else -1) * rng.choice([512, size // 2 // 512 * 512 or 512, size - 512 or 512]))
                if other == size:
                    other = size + 512
                r = {"kind": "fixed", "size": size, "osize": other, "legacy": legacy, "seed": rng.randrange(256), "content": {"kind": "plain"}}
                add("resized", r, rng.choice([8192, 512, 4096]), gen_queries(rng, r, nq))
            for bs in (4096, 65536, 1 << 19):
                nb = rng.choice([3, 5, 8])
                r = dyn_recipe(rng, bs, gen_states(rng, nb), style=rng.choice(["identity", "shuffled", "holes"]))
                if rng.random() < 0.5:
                    r["size"] -= rng.randrange(1, bs // 512) * 512
                size = r["size"]
                onb = rng.randrange(1, nb) if grow else nb + rng.choice([1, 2, 7])
                r["osize"] = onb * bs - rng.choice([0, 512])
                if not grow:
                    r["extra"] = rng.choice([0, onb - nb])           # a shrunk disk may keep its larger BAT
                r["stale_copy"] = rng.random() < 0.4
                add("resized", r, rng.choice([8192, 512, 65536]), gen_queries(rng, r, nq))
    # ---- sector bitmaps of allocated blocks hold anything
    for rep in range(2 if tier == "quick" else 6):
        for k, kind in enumerate(BITMAPS):
            for bs in ((4096, 65536), (8192, 1 << 19), (4096, 1 << 19))[(k + rep) % 3] + ((1 << 21,) if tier == "thorough" else ()):
                nb = rng.choice([2, 3, 5, 8])
                r = dyn_recipe(rng, bs, gen_states(rng, nb, need=("a",)), style=rng.choice(["identity", "reversed", "shuffled", "holes"]), bitmap=kind)
                if rng.random() < 0.4:
                    r["size"] -= rng.randrange(1, bs // 512) * 512
                add(f"bitmap-{kind}", r, rng.choice([8192, 512, 4096, 65536]), gen_queries(rng, r, nq))
    # ---- histories: the file object is moved between two physically consecutive reads of one block
    for rep in range(1 if tier == "quick" else 4):
        for bs, align in ((8192, 512), (8192, 4096), (65536, 512), (65536, 8192), (1 << 19, 8192), (1 << 19, 65536)):
            for how in ("sparse", "sparse", "xseek", "xread", "xend", "twin", "twin-alt"):
                nb = rng.choice([3, 4, 6, 9])
                r = dyn_recipe(rng, bs, gen_states(rng, nb), style=rng.choice(["identity", "reversed", "shuffled", "holes"]))
                qs = continuation_history(rng, r, align, how)
                add(f"hist-{how}", r, align, qs + gen_queries(rng, r, 3)[2:])
    return cases


def group_by_env(cases):
    by = {}
    for c in cases:
        by.setdefault(c.get("align", 8192), []).append(c)
    return [({"DISSECT_STREAM_BUFFER_SIZE": a}, cs) for a, cs in sorted(by.items())]


def build(case):
    t = Truth(case["recipe"])
    r = case["recipe"]
    truth = core.truth_ops(t.size, t.read, case["queries"])
    guest = (r.get("content") or {}).get("kind", "plain")
    if r["kind"] == "fixed":
        branches = ["fixed"] + (["legacy511"] if r["legacy"] else []) + ([f"guest:{guest}"] if guest != "plain" else [])
        crosses = any(q[2] > case["align"] for q in case["queries"] if q[0] in ("o", "y"))
    else:
        alloc = [p for p in r["blocks"] if p is not None]
        branches = ["dynamic"] + sorted({"a" if p is not None else "u" for p in r["blocks"]}) + \
                   (["permuted"] if alloc != list(range(len(alloc))) else []) + (["legacy511"] if r["legacy"] else []) + \
                   (["bat>4096"] if len(r["blocks"]) > 4096 else []) + ([f"guest:{guest}"] if guest != "plain" else [])
        bs = r["bs"]
        crosses = any(q[2] > 0 and q[1] < r["size"] and q[1] // bs != (min(q[1] + q[2], r["size"]) - 1) // bs for q in case["queries"] if q[0] in ("o", "y"))
    if r.get("family"):
        branches.append("directed:" + r["family"])
    if r.get("osize") not in (None, r["size"]):
        branches.append("grown" if r["osize"] < r["size"] else "shrunk")
    if any(q[0] == "x" for q in case["queries"]):
        branches.append("handle-moved")
    if core.has_twin(case["queries"]):
        branches.append("two-objects")
    return Built({"a": t.im}, truth, {"branches": branches, "crosses": crosses, "in_scope": True})


def impl_run(case, built):
    from dissect.hypervisor.disk.vhd import VHD
    v = VHD(built.files["a"].open())
    if v.align != case["align"]:
        raise RuntimeError(f"stream align {v.align} != case align {case['align']}")
    return core.impl_ops(v, case["queries"], raw=v.fh, twin=lambda: VHD(v.fh))


def model_lines(case, built):
    lines = core.file_lines(built.files) + ["vhd.open a", f"vhd.stream a {case['align']} " + " ".join(core.op_tokens(case["queries"]))]
    if core.has_twin(case["queries"]):      # the second VHD object on the same file: a model run of its own (the model has no shared handle state)
        lines.append(f"vhd.stream a {case['align']} " + " ".join(core.twin_tokens(case["queries"])))
    return lines


def model_parse(case, built, out):
    wf = ("wf=1" in out[0]) if out and out[0].startswith("ok") else None
    ans = core.parse_stream_answer(out[1]) if len(out) > 1 else None
    if core.has_twin(case["queries"]):
        ans = core.merge_twin(case["queries"], ans, core.parse_stream_answer(out[2]) if len(out) > 2 else None)
    return {"answers": ans, "wf": wf, "open": out[0] if out else None}


def nontrivial(case, built, model):
    return bool(model.get("wf")) and built.info["crosses"] and len(built.info["branches"]) >= 2


def search(seed, broken, budget):
    rng = random.Random(f"C04/search/{seed}")
    cases = []
    for i in range(min(budget, 1500)):
        r = gen_recipe(rng, "quick")
        cases.append({"id": f"s{i}", "recipe": r, "align": rng.choice([8192, 512, 65536]), "queries": gen_queries(rng, r, 12)})
    return cases


# ---- adapters used by C08 / C13
def open_impl(case, built):
    from dissect.hypervisor.disk.vhd import VHD
    return VHD(built.files["a"].open())


def stream_prefix(case, built):
    return f"vhd.stream a {case['align']}"


def open_line(case, built):
    return "vhd.open a"


def truth_reader(case):
    t = Truth(case["recipe"])
    return t.size, t.read, 512
