/-
  C20 — vmtar: every member extracts to the bytes stored at its recorded data offset; plain tar archives
  are listed and extracted exactly as by a standard tar reader.
-/
import HvProofs.Vmtar
import HvProofs.VmtarEnc
import HvProofs.Basic
namespace Hv.C20
open Hv Hv.Vmtar

/-! extracted source positions = vmtar header format -/
theorem visor_positions_spec :
    Extracted.vmtar.frombuf_ints = [257, 264, 496, 500, 504, 508, 508, 512] := by decide
theorem visor_magic_spec : Extracted.vmtar.frombuf_magic = [118, 105, 115, 111, 114, 32, 32] := by decide
theorem visor_formats_spec : Extracted.vmtar.frombuf_formats = ["<I", "<I", "<I"] := by decide

/-- **visor_member_extracts_stored_bytes**: for *every* file content and every member the visor-aware
    listing returns — any member count, order, size, placement of the data area, GNU long names in front —
    a regular member whose header is a visor header recording a non-zero data offset extracts to exactly the
    `size` bytes at that recorded offset: the header block sits at some position `p` inside the file, the
    recorded offset is the little-endian word at `p + 496`, and `extractfile(m).read()` is
    `file[offset, offset + size)` (clamped to the file, as a read is). -/
theorem visor_member_extracts_stored_bytes (f : File) (ms : List Member) (hl : list f true = .ok ms)
    (m : Member) (hm : m ∈ ms) (hv : m.hdr.isVisor = true) (ho : m.hdr.vOffset ≠ 0)
    (hr : isReg m.hdr.typ = true) :
    ∃ p, p + 512 ≤ f.size ∧ sub (f.read p 512) 257 264 = visorMagic ∧
      m.hdr.vOffset = storedOffset f p ∧ 0 ≤ m.hdr.size ∧
      extract f m = some (f.read (storedOffset f p) m.hdr.size.toNat) := by
  have hok := listFrom_members f _ _ _ _ ms (by intro m hm; cases hm) hl m hm
  obtain ⟨⟨p, hp, hfb⟩, hvis⟩ := hok
  have hb := frombuf_visor hfb
  have hmag : sub (f.read p 512) 257 264 = visorMagic := by
    have := hb.1; rw [hv] at this; exact of_decide_eq_true this.symm
  have hoff : m.hdr.vOffset = storedOffset f p := by
    rw [(hb.2.1 hv).1]
    show leNat (sub (f.read p 512) 496 500) = storedOffset f p
    rw [File.read_eq_slice f p 512 hp]
    simp only [storedOffset, sub]
    rw [slice_drop _ _ _ _ (by omega), slice_take _ _ _ _ (by omega)]
  have hs : 0 ≤ m.hdr.size := hb.2.2.1 rfl
  refine ⟨p, hp, hmag, hoff, hs, ?_⟩
  have hod := hvis hv ho
  simp only [extract, hr, true_or, if_true, hod]
  rw [if_neg (by omega)]
  simp only [Int.toNat_natCast, hoff]

/-- **visor_next_header_adjacent**: a visor member with a recorded data offset has no inline data — the
    next header is read from the block right after its own header, independent of the size field. -/
theorem visor_next_header_adjacent (f : File) (fuel tell : Nat) (h : Hdr)
    (hh : frombuf true (f.read tell 512) = .ok h) (hv : h.isVisor = true) (ho : h.vOffset ≠ 0) :
    ∃ m, fromTarfile f true (fuel + 1) tell = .ok (m, ((tell + 512 : Nat) : Int), tell + 512)
      ∧ m.offset = tell ∧ m.offsetData = (h.vOffset : Int) :=
  ⟨_, fromTarfile_visor f fuel tell h hh hv ho, rfl, rfl⟩

/-- **plain_tar_unchanged**: on an archive without visor headers that record a data offset (and without
    negative sizes) the visor-aware reader lists — and therefore extracts — exactly what the standard
    `tarfile` iteration does: directories, empty files, ordinary members. -/
theorem plain_tar_unchanged (f : File) (hp : PlainArchive f) : list f true = list f false :=
  listFrom_plain f hp _ _ _ _

/-- **vmtar_listing_terminates** (also a C11 obligation): for every byte string, listing the archive with
    the visor-aware reader returns or raises — the model never runs out of its fuel `size/512 + 2`. -/
theorem vmtar_listing_terminates (f : File) : list f true ≠ .nonTermination :=
  listFrom_terminates f _ _ _ _ (Nat.zero_le _) (by simp [listFuel, BLOCK])

/-- **vmtar_members_roundtrip** (the writer `Hv.VmtarEnc.encode`): for EVERY member list `ms` — visor members whose data
    lives in a data area (`visor = some off`, `off ≠ 0`), visor members without a data area (`some 0`) and ustar members
    (`none`) with their data inline, directories, empty files; names ≤ 100 bytes without NUL, sizes < 8^11, mode / uid /
    gid < 8^7, mtime < 8^11, NUL-terminated octal fields, computed checksums — and every layout `L` (file size, gap bytes)
    with the data areas anywhere behind the two end-of-archive blocks, in any order, with gaps, pairwise disjoint
    (`WF ms L`, decidable: `wfb`), the visor-aware reader lists exactly the members written — name (directories without
    their trailing slashes), type, size, mode, uid, gid, mtime, visor flag, recorded offset, `offset` = position of the
    header block, `offset_data` = the recorded offset, resp. header + 512 for inline members (`expected`, `expMember`) —
    and `extractfile(m).read()` returns the stored bytes of every file (`none` for directories). -/
theorem vmtar_members_roundtrip (ms : List MemberSpec) (L : Layout) (h : WF ms L) :
    list (encode ms L) true = .ok (expected 0 ms) ∧
    (expected 0 ms).map (extract (encode ms L)) = ms.map MemberSpec.stored := by
  have he := encode_encodes ms L h
  exact ⟨list_of_encodes _ ms ((wf_iff ms L).mp h).2.1 he, extract_enc _ ms 0 he.hdr he.data⟩

/-- the same for ANY file that stores the archive (`Encodes`: header section + end-of-archive blocks at 0, every data
    area's bytes at its recorded offset) — data areas may then also overlap or be shared between members. -/
theorem vmtar_members_roundtrip_file (f : File) (ms : List MemberSpec) (hok : ∀ m ∈ ms, memberOK m = true)
    (he : Encodes f ms) :
    list f true = .ok (expected 0 ms) ∧ (expected 0 ms).map (extract f) = ms.map MemberSpec.stored :=
  ⟨list_of_encodes f ms hok he, extract_enc f ms 0 he.hdr he.data⟩

/-- what `expected` says, member by member: the `i`-th listed member is the `i`-th written one, its header at the sum of
    the encoded lengths of its predecessors (512 each, plus the padded inline data) -/
theorem vmtar_expected_member (ms : List MemberSpec) (i : Nat) (hi : i < ms.length) :
    (expected 0 ms).length = ms.length ∧
    ∃ e, (expected 0 ms)[i]? = some e ∧ e.offset = (hdrSection (ms.take i)).length ∧
      e.name = ms[i].listedName ∧ e.hdr.typ = ms[i].typ ∧ e.hdr.size = (ms[i].data.length : Int) ∧
      e.hdr.isVisor = ms[i].visor.isSome ∧ e.hdr.vOffset = ms[i].visor.getD 0 ∧
      e.offsetData = (if ms[i].inline then (((hdrSection (ms.take i)).length + 512 : Nat) : Int)
                      else ((ms[i].visor.getD 0 : Nat) : Int)) := by
  refine ⟨expected_length ms 0, expMember (0 + (hdrSection (ms.take i)).length) ms[i], ?_, ?_⟩
  · rw [← expected_getElem ms 0 i hi]
    exact List.getElem?_eq_getElem _
  · simp [expMember, expHdr]

/-! non-vacuity of the round trip: five members — a visor file whose 3 data bytes sit at the unaligned offset 4200, a
    ustar directory `d/`, a ustar file with 2 inline bytes, a visor file whose data area (4100) lies BEFORE the first
    one's, an empty visor file without data area — in a 4300-byte file with garbage in the gaps. -/
def rtMembers : List MemberSpec :=
  [ { name := [97], isDir := false, visor := some 4200, data := [1, 2, 3] },
    { name := [100, 47], isDir := true, visor := none, data := [] },
    { name := [98], isDir := false, visor := none, data := [7, 8], mode := 0o755, uid := 1000, gid := 100, mtime := 1700000000 },
    { name := [99], isDir := false, visor := some 4100, data := [9] },
    { name := [101], isDir := false, visor := some 0, data := [] } ]
def rtLayout : Layout := ⟨4300, fun i => UInt8.ofNat (i + 1)⟩

example : WF rtMembers rtLayout := by decide +kernel

/-! non-vacuity: a concrete archive (visor member with its data in a trailing data area, a directory, an
    inline ustar member) on which the hypotheses of the theorems hold and the listing is what was written -/
def exCheck : Bool :=
  match list (exFile) true with
  | .ok [a, d, b] =>
    a.hdr.isVisor && a.hdr.vOffset == 2560 && isReg a.hdr.typ && a.name == [97] &&
    extract (exFile) a == some [1, 2, 3] &&
    d.hdr.typ == tDIR && d.name == [100] && extract (exFile) d == none &&
    !b.hdr.isVisor && b.offsetData == 1536 && extract (exFile) b == some [7, 8]
  | _ => false

example : exCheck = true := by decide +kernel

end Hv.C20
