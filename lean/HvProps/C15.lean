/-
  C15 — encrypted VMX: unlocking with the correct passphrase returns exactly the original configuration
  (every cipher / MAC / KDF of the tables, any rounds, salt, content length); any failure leaves the
  visible configuration untouched; a success implies the stored MAC equals the HMAC of the plaintext,
  which is a function of the IV and of every ciphertext byte.

  The primitives (PBKDF2, HMAC, AES-CBC, base64, int(), UTF-8, the .vmx dictionary syntax) are parameters
  (`Crypto`); what a theorem needs of them is a hypothesis, never an axiom.
-/
import HvProofs.Vmx
namespace Hv.C15
open Hv Hv.Vmx

/-! extracted tables and literals = the format -/
theorem cipher_key_sizes_spec :
    Extracted.vmx.CIPHER_KEY_SIZES = [(asc "AES-256", 32), (asc "AES-192", 24), (asc "AES-128", 16)] := by decide
theorem hmac_map_spec :
    Extracted.vmx.HMAC_MAP = [(asc "HMAC-SHA-1", asc "sha1", 20), (asc "HMAC-SHA-1-128", asc "sha1", 16),
      (asc "HMAC-SHA-256", asc "sha256", 32)] := by decide
theorem pass2key_map_spec :
    Extracted.vmx.PASS2KEY_MAP = [(asc "PBKDF2-HMAC-SHA-1", asc "sha1"), (asc "PBKDF2-HMAC-SHA-256", asc "sha256")] := by decide
theorem grammar_literals_spec :
    identKeySafe = asc "vmware:key" ∧ identList = asc "list" ∧ identPair = asc "pair" ∧ identPhrase = asc "phrase" ∧
    [kPass2key, kCipher, kRounds, kSalt, kKey] = [asc "pass2key", asc "cipher", asc "rounds", asc "salt", asc "key"] ∧
    kKeySafe = asc "encryption.keysafe" ∧ kData = asc "encryption.data" ∧ kEncrypted = asc "encryption.keysafe" ∧
    [sepSafe, sepLoc, sepPhrase, sepDict, sepKV, chOpen, chClose, chComma] = (asc "///:=(),") := by decide
theorem decrypt_hmac_probe_spec :
    Extracted.vmx.decrypt_hmac_probe = [16, 16, 1, 16] ∧ ivLen = 16 ∧ ctStart = 16 ∧ padMin = 1 ∧ padMax = 16 := by decide
theorem split_list_regex_spec : listRegex = asc "\\((.+)\\)" := by decide

/-- **tables_total**: every advertised cipher, MAC and key-derivation name is in its table with the
    advertised parameters (so all 3 × 3 × 2 combinations reach the primitives with the right arguments). -/
theorem tables_total :
    cipherKeySize (asc "AES-128") = some 16 ∧ cipherKeySize (asc "AES-192") = some 24 ∧ cipherKeySize (asc "AES-256") = some 32 ∧
    hmacInfo (asc "HMAC-SHA-1") = some (asc "sha1", 20) ∧ hmacInfo (asc "HMAC-SHA-1-128") = some (asc "sha1", 16) ∧
    hmacInfo (asc "HMAC-SHA-256") = some (asc "sha256", 32) ∧
    pass2keyHash (asc "PBKDF2-HMAC-SHA-1") = some (asc "sha1") ∧ pass2keyHash (asc "PBKDF2-HMAC-SHA-256") = some (asc "sha256") := by
  decide

/-- **pkcs7_strip_roundtrip**: for *every* plaintext (any length, any last byte — including a text that ends in
    bytes equal to its own pad length, e.g. 6 bytes ending in `\n`), validating and removing the padding of
    `p ‖ pad(p)` as `_decrypt_hmac` does (all pad bytes checked, exactly the last byte's count removed) gives back `p`. -/
theorem pkcs7_strip_roundtrip (p : Bytes) : strip (p ++ pad p) = .ok p := strip_pad p

/-- **decrypt_hmac_roundtrip**: for any primitives whose CBC decryption inverts `enc` on block-aligned input
    (hypothesis), any MAC name of the table, any key, IV, plaintext: `_decrypt_hmac` of
    `IV ‖ enc(p ‖ pad) ‖ HMAC(key, p)[:n]` is `p`. -/
theorem decrypt_hmac_roundtrip (c : Crypto) (enc : Bytes → Bytes → Bytes → Bytes)
    (hinv : ∀ k iv pt, pt.length % 16 = 0 → c.cbcDecrypt k iv (enc k iv pt) = .ok pt)
    (macName alg : Bytes) (n : Nat) (hm : hmacInfo macName = some (alg, n))
    (key iv p tag : Bytes) (hiv : iv.length = 16) (htag : c.hmac alg key p = .ok tag) (hn : n ≤ tag.length) :
    decryptHmac c key (sealBlob enc tag n key iv p) macName = .ok p :=
  decryptHmac_seal c enc hinv macName alg n hm key iv p tag hiv htag hn

/-- **keysafe_roundtrip**: `KeySafe.from_text` of a rendered key safe
    `vmware:key/list/(pair/(phrase/esc(id)/esc(dict),esc(mac),esc(b64 data)),…)` is the list of pairs it was
    rendered from — any number of pairs (≥ 1), any ids / salts / names (every non-alphanumeric byte
    percent-encoded), for any base64 and integer printers the primitives invert. -/
theorem keysafe_roundtrip (c : Crypto) (b64 : Bytes → Bytes) (dec : Int → Bytes)
    (hb : ∀ x, c.b64decode (b64 x) = .ok x) (hd : ∀ n, c.parseInt (dec n) = .ok n)
    (ks : List PairSpec) (hne : ks ≠ []) (hk : ∀ ps ∈ ks, ps.mac ≠ [] ∧ b64 ps.data ≠ []) :
    fromText c (renderKeySafe b64 dec ks) = .ok (ks.map PairSpec.toLoc) :=
  fromText_render c b64 dec hb hd ks hne hk

/-- **split_list_roundtrip**: `_split_list` of `(m1,m2,…)` returns the members, for any non-empty balanced
    members without a comma outside parentheses and without a newline (induction over the character loop). -/
theorem split_list_roundtrip (items : List Bytes) (hne : items ≠ []) (h : ∀ it ∈ items, Item it)
    (hnl : ∀ it ∈ items, avoids [10] it = true) :
    splitList (40 :: (joinComma items ++ [41])) = .ok items := by
  unfold splitList
  rw [listContents_render _ (joinComma_ne_nil _ hne (fun it hit => (h it hit).1))
    (avoids_mem (joinComma_noNL _ hnl) (by simp))]
  simp only
  rw [splitLoop_join _ h]

/-- **unquote_roundtrip**: percent-decoding inverts percent-encoding, whichever bytes are kept literal
    (never `%`) and whichever hex case is written. -/
theorem unquote_roundtrip (keep : UInt8 → Bool) (upper : Bool) (s : Bytes) : pctDecode (pctEncode keep upper s) = s :=
  pctDecode_pctEncode keep upper s

/-- **unlock_roundtrip**: a .vmx whose key safe starts with a pair sealed for the passphrase
    (`data = IV ‖ enc(kek, type=key:cipher=…:key=b64(dk)) ‖ MAC`, `kek` the unwrapped key) and whose
    `encryption.data` is the configuration sealed under `dk` with the same MAC unlocks to exactly the
    configuration's entries merged into the visible ones — for every MAC of the table (`hm`), every
    KDF/cipher the unwrap accepts (`hk`), any rounds, salt, IVs, content. -/
theorem unlock_roundtrip (c : Crypto) (enc : Bytes → Bytes → Bytes → Bytes) (b64 : Bytes → Bytes) (dec : Int → Bytes)
    (hinv : ∀ k iv pt, pt.length % 16 = 0 → c.cbcDecrypt k iv (enc k iv pt) = .ok pt)
    (hb : ∀ x, c.b64decode (b64 x) = .ok x) (hd : ∀ n, c.parseInt (dec n) = .ok n)
    (attr new : Attr) (ps : PairSpec) (rest : List PairSpec) (pw kek iv iv2 tag tag2 cn dk alg cfg ed : Bytes) (n : Nat)
    (hks : attrGet attr kKeySafe = some (renderKeySafe b64 dec (ps :: rest)))
    (hdata : attrGet attr kData = some ed) (hed : c.b64decode ed = .ok (sealBlob enc tag2 n dk iv2 cfg))
    (hps : ps.data = sealBlob enc tag n kek iv (renderKeyDict b64 cn dk))
    (hall : ∀ q ∈ ps :: rest, q.mac ≠ [] ∧ b64 q.data ≠ [])
    (hm : hmacInfo ps.mac = some (alg, n)) (hk : unwrap c ps.phrase pw = .ok kek)
    (hiv : iv.length = 16) (hiv2 : iv2.length = 16)
    (htag : c.hmac alg kek (renderKeyDict b64 cn dk) = .ok tag) (hn : n ≤ tag.length)
    (hu : c.utf8ok (renderKeyDict b64 cn dk) = .ok true)
    (htag2 : c.hmac alg dk cfg = .ok tag2) (hn2 : n ≤ tag2.length)
    (hu2 : c.utf8ok cfg = .ok true) (hpd : c.parseDict cfg = .ok new) :
    unlock c attr pw = (.ok (), attrUpdate attr new) :=
  unlock_sealed c enc b64 dec hinv hb hd attr new ps rest pw kek iv iv2 tag tag2 cn dk alg cfg ed n
    hks hdata hed hps hall hm hk hiv hiv2 htag hn hu htag2 hn2 hu2 hpd

/-- **fail_closed**: whatever the input and the primitives, an unlock that raises leaves `attr` as it was
    (the update happens in the success branch only) … -/
theorem fail_closed (c : Crypto) (attr : Attr) (pw : Bytes) (e : VErr) (h : (unlock c attr pw).1 = .error e) :
    (unlock c attr pw).2 = attr := by
  unfold unlock at h ⊢
  split
  · rename_i new hc; rw [hc] at h; cases h
  · rfl

/-- … and a success is exactly: both stages verified, and `attr` is the old one updated with the decrypted
    entries. -/
theorem unlock_ok_iff (c : Crypto) (attr : Attr) (pw : Bytes) :
    (unlock c attr pw).1 = .ok () ↔ ∃ new, unlockCore c attr pw = .ok new ∧ (unlock c attr pw).2 = attrUpdate attr new := by
  unfold unlock
  constructor
  · intro h
    split at h
    · rename_i new hc; exact ⟨new, hc, by simp⟩
    · cases h
  · rintro ⟨new, hc, _⟩; rw [hc]

/-- **wrong_mac_is_error**: if the (truncated) HMAC of the decrypted, unpadded text differs from the stored
    MAC, `_decrypt_hmac` raises (a ValueError) — for all inputs. -/
theorem wrong_mac_is_error (c : Crypto) (key data macName alg dec pt tag : Bytes) (n : Nat)
    (hm : hmacInfo macName = some (alg, n))
    (hd : c.cbcDecrypt key (data.take 16) ((negSplit data n).1.drop 16) = .ok dec) (hs : strip dec = .ok pt)
    (ht : c.hmac alg key pt = .ok tag) (hne : tag.take n ≠ (negSplit data n).2) :
    decryptHmac c key data macName = .error .value :=
  decryptHmac_bad_mac hm hd hs ht hne

/-- **mac_covers_plaintext**: a successful `_decrypt_hmac` means: the MAC name is in the table with stored
    size `n`; the plaintext is the unpadded CBC decryption of `data[16:-n]` under `data[:16]` — a function of
    the IV and of every ciphertext byte; and the first `n` bytes of `HMAC(key, plaintext)` equal the stored
    MAC `data[-n:]`.  (That an altered byte changes the HMAC is the primitive's property, trusted.) -/
theorem mac_covers_plaintext (c : Crypto) (key data macName pt : Bytes) (h : decryptHmac c key data macName = .ok pt) :
    ∃ alg n dec tag, hmacInfo macName = some (alg, n) ∧
      c.cbcDecrypt key (data.take 16) ((negSplit data n).1.drop 16) = .ok dec ∧ strip dec = .ok pt ∧
      c.hmac alg key pt = .ok tag ∧ tag.take n = (negSplit data n).2 :=
  decryptHmac_ok h

/-- **unseal_authenticated**: the key `unseal_with_phrase` returns was obtained from a phrase pair of the key
    safe whose wrapped data verified under the key derived from this passphrase. -/
theorem unseal_authenticated (c : Crypto) (pw : Bytes) (locs : List Loc) (k mac : Bytes)
    (h : unsealWithPhrase c pw locs = .ok (k, mac)) :
    ∃ p data, Loc.pair (.phrase p) mac data ∈ locs ∧ unlockPair c p mac data pw = .ok k :=
  unseal_ok h

/-- **unwrap_is_function_of_locator**: the derived key is PBKDF2 with the table's hash for the KDF name and
    the table's key size for the cipher name, over (passphrase, salt, rounds) — and nothing else: two
    locators that agree on these fields unwrap alike whatever their phrase id (no state, no memo). -/
theorem unwrap_is_function_of_locator (c : Crypto) (p q : Phrase) (pw : Bytes)
    (h1 : p.pass2key = q.pass2key) (h2 : p.cipher = q.cipher) (h3 : p.rounds = q.rounds) (h4 : p.salt = q.salt) :
    unwrap c p pw = unwrap c q pw ∧
    (∀ k, unwrap c p pw = .ok k → ∃ alg n, pass2keyHash p.pass2key = some alg ∧ cipherKeySize p.cipher = some n ∧
      c.pbkdf2 alg pw p.salt p.rounds n = .ok k) := by
  refine ⟨by simp only [unwrap, h1, h2, h3, h4], ?_⟩
  intro k hk
  unfold unwrap deriveKey at hk
  split at hk
  · cases hk
  · rename_i alg ha
    split at hk
    · cases hk
    · rename_i n hn
      exact ⟨alg, n, ha, hn, hk⟩

/-! non-vacuity: a toy instance of the primitives satisfies the laws the round-trip theorems assume, and on a
    concrete encrypted .vmx (HMAC-SHA-1-128, a 6-byte configuration ending in `\n` = its own pad length) the
    kernel evaluates: correct passphrase → the configuration; other passphrase / one altered ciphertext byte
    → error and `attr` unchanged. -/
example : (∀ k iv pt, pt.length % 16 = 0 → toy.cbcDecrypt k iv (toyEnc k iv pt) = .ok pt) ∧
    (∀ x, toy.b64decode (id x) = .ok x) ∧ (∀ n, toy.parseInt (toyDec n) = .ok n) := toy_laws

example : unlock toy exAttr exPw = (.ok (), exAttr ++ [(asc "ab", asc "cd\n")]) := by decide +kernel
example : unlock toy exAttr (asc "Secret") = (.error .value, exAttr) := by decide +kernel
example : unlock toy exTampered exPw = (.error .value, exTampered) := by decide +kernel
/-- **padding_authenticated**: the padding step succeeds only on `p ‖ n bytes of value n` with 1 ≤ n ≤ 16 — every
    padding byte is checked, so an altered padding byte (or an empty / unpadded text) is refused … -/
theorem padding_authenticated (d p : Bytes) (h : strip d = .ok p) :
    ∃ n, 1 ≤ n ∧ n ≤ 16 ∧ d = p ++ List.replicate n (UInt8.ofNat n) :=
  strip_ok h

/-- … with a ValueError (so `unseal_with_phrase` moves on to the next locator), for every text that is not of
    that shape — the empty text included. -/
theorem bad_padding_is_error (d : Bytes) (h : ∀ p n, 1 ≤ n → n ≤ 16 → d ≠ p ++ List.replicate n (UInt8.ofNat n)) :
    strip d = .error .value :=
  strip_bad_padding h

/-- **altered_byte_refused_or_mac_input_changes**: a successful `_decrypt_hmac` means the CBC decryption of
    `data[16:-n]` under `data[:16]` is *exactly* `plaintext ‖ k bytes of value k` (1 ≤ k ≤ 16) and the stored MAC
    `data[-n:]` is the truncated HMAC of that plaintext: every decrypted byte is either MAC input or a checked
    padding byte, so any alteration that survives changes the MAC input (refusing that is HMAC's property). -/
theorem altered_byte_refused_or_mac_input_changes (c : Crypto) (key data macName pt : Bytes)
    (h : decryptHmac c key data macName = .ok pt) :
    ∃ alg n k tag, hmacInfo macName = some (alg, n) ∧ 1 ≤ k ∧ k ≤ 16 ∧
      c.cbcDecrypt key (data.take 16) ((negSplit data n).1.drop 16) = .ok (pt ++ List.replicate k (UInt8.ofNat k)) ∧
      c.hmac alg key pt = .ok tag ∧ tag.take n = (negSplit data n).2 := by
  obtain ⟨alg, n, dec, tag, hm, hd, hs, ht, he⟩ := decryptHmac_ok h
  obtain ⟨k, h1, h2, hk⟩ := strip_ok hs
  exact ⟨alg, n, k, tag, hm, h1, h2, hk ▸ hd, ht, he⟩

/-- the alteration the unrepaired reader accepted (finding D26: a ciphertext byte that decrypts to padding) -/
example : exPadTampered ≠ exAttr ∧ unlock toy exPadTampered exPw = (.error .value, exPadTampered) := by decide +kernel

example : exCfg.getLast? = some 10 ∧ (pad exCfg).length = 10 ∧ strip (exCfg ++ pad exCfg) = .ok exCfg := by decide +kernel

end Hv.C15
