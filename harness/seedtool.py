#!/usr/bin/env python3
"""Seeded-change bookkeeping.
  seedtool.py import /tmp/mut/C05            copy _mut/k -> /verif/seeded/C05-k (renumbering after existing)
  seedtool.py confirm <id>...               scratch worktree: patch applies, suite passes, demo FAILS with / PASSES without
  seedtool.py run <id> [Cxx ...]            apply to /repo, run ./check for the property (or the given ones), undo; record result
"""
import json
import os
import shutil
import subprocess
import sys
import tempfile
from pathlib import Path

ROOT = Path(__file__).resolve().parent.parent
SEEDED = ROOT / "seeded"


def sh(cmd, cwd=None, env=None, timeout=1800):
    r = subprocess.run(cmd, shell=True, cwd=cwd, env=env, capture_output=True, text=True, timeout=timeout)
    return r.returncode, r.stdout + r.stderr


def do_import(src):
    src = Path(src)
    pid = src.name
    out = []
    for d in sorted((src / "_mut").iterdir()):
        if not (d / "patch.diff").exists():
            continue
        k = 1
        while (SEEDED / f"{pid}-{k}").exists():
            k += 1
        dst = SEEDED / f"{pid}-{k}"
        dst.mkdir(parents=True)
        for f in ("patch.diff", "demo.py", "meta.json"):
            if (d / f).exists():
                shutil.copy(d / f, dst / f)
        out.append(dst.name)
    print("imported", out)


def confirm(sid):
    d = SEEDED / sid
    wt = tempfile.mkdtemp(prefix="hvseed.", dir="/tmp")
    os.rmdir(wt)
    res = {"id": sid}
    try:
        rc, o = sh(f"git -C /repo worktree add --detach {wt} HEAD -q")
        assert rc == 0, o
        env = dict(os.environ, PYTHONPATH=wt)
        os.makedirs(f"{wt}/_mut/x")
        shutil.copy(d / "demo.py", f"{wt}/_mut/x/demo.py")
        rc0, o0 = sh("/venv/bin/python _mut/x/demo.py", cwd=wt, env=env)
        res["demo_clean"] = rc0
        rc, o = sh(f"git apply {d/'patch.diff'}", cwd=wt)
        res["applies"] = rc == 0
        if rc != 0:
            res["apply_err"] = o[-300:]
        rc, o = sh("/venv/bin/python -m pytest -q -p no:cacheprovider tests", cwd=wt, env=env)
        res["suite"] = o.strip().splitlines()[-1] if o.strip() else ""
        rc1, o1 = sh("/venv/bin/python _mut/x/demo.py", cwd=wt, env=env)
        res["demo_mutated"] = rc1
        res["demo_out"] = o1[-300:]
        res["confirmed"] = bool(res["applies"] and "47 passed" in res["suite"] and rc0 == 0 and rc1 != 0)
    finally:
        sh(f"git -C /repo worktree remove --force {wt}")
        shutil.rmtree(wt, ignore_errors=True)
    meta = json.loads((d / "meta.json").read_text()) if (d / "meta.json").exists() else {}
    meta["confirmation"] = {k: res[k] for k in res if k not in ("id",)}
    (d / "meta.json").write_text(json.dumps(meta, indent=1))
    print(json.dumps(res))
    return res


def run(sid, props):
    d = SEEDED / sid
    meta = json.loads((d / "meta.json").read_text())
    if not props:
        props = [meta.get("property", sid.split("-")[0])]
    scratch = os.environ.get("VERIF_SCRATCH")      # run against a scratch worktree instead of /repo itself
    env = None
    if scratch:
        wt = tempfile.mkdtemp(prefix="hvrun.", dir="/tmp")
        os.rmdir(wt)
        rc, o = sh(f"git -C /repo worktree add --detach {wt} HEAD -q")
        assert rc == 0, o
        rc, o = sh(f"git -C {wt} apply {d/'patch.diff'}")
        assert rc == 0, o
        env = dict(os.environ, VERIF_REPO=wt)
    else:
        rc, o = sh("git -C /repo status --porcelain")
        assert o.strip() == "", "/repo not clean: " + o
        rc, o = sh(f"git -C /repo apply {d/'patch.diff'}")
        assert rc == 0, o
    results = meta.setdefault("checks", {})
    try:
        for p in props:
            rc, o = sh(f"./check {p} --tier quick", cwd=ROOT, timeout=3000, env=env)
            viol = [l for l in o.splitlines() if l.startswith("VIOLATION")]
            results[p] = {"exit": rc, "violation_lines": viol[:3], "detected": rc == 1 and bool(viol)}
            print(sid, p, "exit", rc, viol[:1])
    finally:
        if scratch:
            sh(f"git -C /repo worktree remove --force {wt}")
            shutil.rmtree(wt, ignore_errors=True)
        else:
            sh("git -C /repo checkout -- .")
        # restore evidence / extraction for the clean tree
        sh("/venv/bin/python harness/extract.py", cwd=ROOT)
    (d / "meta.json").write_text(json.dumps(meta, indent=1))


if __name__ == "__main__":
    cmd = sys.argv[1]
    if cmd == "import":
        for s in sys.argv[2:]:
            do_import(s)
    elif cmd == "confirm":
        for s in sys.argv[2:]:
            confirm(s)
    elif cmd == "run":
        run(sys.argv[2], sys.argv[3:])
